(* Glue for generated case files: numerals and byte strings as extracted Coq datatypes,
   and the report printer.  Numbers arrive as hexadecimal text and are converted bit by
   bit; nothing here depends on OCaml's int width. *)
module M = MODEL_MODULE

let hexdigit c =
  match c with
  | '0' .. '9' -> Char.code c - 48
  | 'a' .. 'f' -> Char.code c - 87
  | 'A' .. 'F' -> Char.code c - 55
  | _ -> failwith "hexdigit"

(* bits, most significant first *)
let bits_of_hex s : bool list =
  let l = ref [] in
  String.iter (fun c ->
    let d = hexdigit c in
    l := ((d land 1) <> 0) :: ((d land 2) <> 0) :: ((d land 4) <> 0) :: ((d land 8) <> 0) :: !l) s;
  let rec strip = function false :: r -> strip r | l -> l in
  strip (List.rev !l)

let pos_of_bits (bs : bool list) : M.positive option =
  match bs with
  | [] -> None
  | _ :: rest -> Some (List.fold_left (fun p b -> if b then M.XI p else M.XO p) M.XH rest)

let nn s : M.n = match pos_of_bits (bits_of_hex s) with None -> M.N0 | Some p -> M.Npos p
let zp s : M.z = match pos_of_bits (bits_of_hex s) with None -> M.Z0 | Some p -> M.Zpos p
let zn s : M.z = match pos_of_bits (bits_of_hex s) with None -> M.Z0 | Some p -> M.Zneg p
let rec nat (i : int) : M.nat = if i <= 0 then M.O else M.S (nat (i - 1))

let n_of_int (i : int) : M.n = nn (Printf.sprintf "%x" i)

let hx s : M.n list =
  let len = String.length s / 2 in
  List.init len (fun i -> n_of_int (16 * hexdigit s.[2 * i] + hexdigit s.[2 * i + 1]))

let rec int_of_pos (p : M.positive) : int =
  match p with M.XH -> 1 | M.XO q -> 2 * int_of_pos q | M.XI q -> 2 * int_of_pos q + 1
let int_of_n (x : M.n) : int = match x with M.N0 -> 0 | M.Npos p -> int_of_pos p

let total_bad = ref 0
let total_skipped = ref 0

(* every checker returns (list (index * anything), skipped) *)
let report (r : (M.n * Obj.t) list * M.n) : unit =
  let (bad, skipped) = r in
  List.iter (fun (i, _) -> incr total_bad; Printf.printf "BAD %d\n" (int_of_n i)) bad;
  total_skipped := !total_skipped + int_of_n skipped

let finish () : unit =
  Printf.printf "DONE bad=%d skipped=%d\n" !total_bad !total_skipped

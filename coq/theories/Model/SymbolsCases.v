(* Executable glue for the C12 correspondence: a case is a history with, at every step, what
   the implementation showed in memory and after a round trip through bytes, on both API
   types.  The model replays the history and must predict every observation.  No proofs. *)
From Biscuit Require Export Model.Symbols.

(* what a Biscuit shows: per block (print_block_source, block_symbols, block_public_keys),
   and the outcome of every probe authorizer *)
Definition blockobs := (tres bytes * list bytes * list key)%type.
Definition tokobs := (list blockobs * list aoutcome)%type.
(* what an UnverifiedBiscuit shows: print_block_source per block *)
Definition uobs := list (tres bytes).

Inductive step_obs :=
| SErr (e : terr)                       (* the operation failed; the caller keeps its token *)
| SOk (memV : tokobs)                   (* in memory, as a Biscuit (the token, or token.verify()) *)
      (memU : option uobs)              (* in memory, as an UnverifiedBiscuit (when it is one) *)
      (relV : tres tokobs)              (* Biscuit::from(to_vec()) *)
      (relU : tres uobs).               (* UnverifiedBiscuit::from(to_vec()) *)

(* recorded form: what equals the in-memory Biscuit view is written [Same] (lossless: it is
   expanded against the *recorded* in-memory view before the comparison) *)
Inductive cmp (A : Type) := Same | Diff (a : A).
Arguments Same {A}.
Arguments Diff {A} a.
Inductive rstep :=
| RErr (e : terr)
| ROk (memV : tokobs) (memU : option (cmp uobs)) (relV : cmp (tres tokobs)) (relU : cmp (tres uobs)).

Definition prints_of (t : tokobs) : uobs := map (fun b => fst (fst b)) (fst t).
Definition expand (r : rstep) : step_obs :=
  match r with
  | RErr e => SErr e
  | ROk mv mu rv ru =>
      SOk mv
          (match mu with
           | None => None
           | Some Same => Some (prints_of mv)
           | Some (Diff u) => Some u
           end)
          (match rv with Same => TOk mv | Diff x => x end)
          (match ru with Same => TOk (prints_of mv) | Diff x => x end)
  end.

Definition scase : Type := (acontent * list probe * rstep * list (op * rstep)).

(* ---- model observations ---- *)
Definition tok_obs (vr : variant) (t : token) (ps : list probe) : tokobs :=
  (map (fun i => (print_block_source vr V t i,
                  match block_symbols t i with Some l => l | None => [] end,
                  match block_public_keys t i with Some l => l | None => [] end))
       (seq 0 (length (t_blocks t))),
   map (authorize vr t) ps).

Definition tok_uobs (vr : variant) (t : token) : uobs :=
  map (print_block_source vr U t) (seq 0 (length (t_blocks t))).

Definition observe (vr : variant) (s : state) (ps : list probe) : step_obs :=
  let t := snd s in
  SOk (tok_obs vr t ps)
      (match fst s with U => Some (tok_uobs vr t) | V => None end)
      (match tok_reload t with TOk t' => TOk (tok_obs vr t' ps) | TErr e => TErr e end)
      (match tok_reload t with TOk t' => TOk (tok_uobs vr t') | TErr e => TErr e end).

(* ---- equality of observations ---- *)
Definition terr_eqb (a b : terr) : bool :=
  match a, b with
  | ESymbolOverlap, ESymbolOverlap | EKeyOverlap, EKeyOverlap | ESealed, ESealed | EOther, EOther => true
  | _, _ => false
  end.

Fixpoint list_eqb {A} (eqb : A -> A -> bool) (a b : list A) : bool :=
  match a, b with
  | [], [] => true
  | x :: a', y :: b' => eqb x y && list_eqb eqb a' b'
  | _, _ => false
  end.

Definition tres_eqb {A} (eqb : A -> A -> bool) (a b : tres A) : bool :=
  match a, b with
  | TOk x, TOk y => eqb x y
  | TErr e, TErr f => terr_eqb e f
  | _, _ => false
  end.

Definition option_eqb {A} (eqb : A -> A -> bool) (a b : option A) : bool :=
  match a, b with
  | Some x, Some y => eqb x y
  | None, None => true
  | _, _ => false
  end.

Definition aoutcome_eqb (a b : aoutcome) : bool :=
  match a, b with
  | ABuildErr, ABuildErr => true
  | ADone m f, ADone m' f' =>
      Bool.eqb m m' && list_eqb (fun x y => N.eqb (fst x) (fst y) && N.eqb (snd x) (snd y)) f f'
  | _, _ => false
  end.

Definition blockobs_eqb (a b : blockobs) : bool :=
  let '(p, s, k) := a in let '(p', s', k') := b in
  tres_eqb bytes_eqb p p' && list_eqb bytes_eqb s s' && list_eqb bytes_eqb k k'.

Definition tokobs_eqb (a b : tokobs) : bool :=
  list_eqb blockobs_eqb (fst a) (fst b) && list_eqb aoutcome_eqb (snd a) (snd b).

Definition uobs_eqb (a b : uobs) : bool := list_eqb (tres_eqb bytes_eqb) a b.

Definition step_obs_eqb (a b : step_obs) : bool :=
  match a, b with
  | SErr e, SErr f => terr_eqb e f
  | SOk mv mu rv ru, SOk mv' mu' rv' ru' =>
      tokobs_eqb mv mv' && option_eqb uobs_eqb mu mu' && tres_eqb tokobs_eqb rv rv' && tres_eqb uobs_eqb ru ru'
  | _, _ => false
  end.

(* ---- replaying a history ---- *)
(* number of the first step (0 = the build) whose observation differs; None when all agree *)
Fixpoint replay (vr : variant) (ps : list probe) (s : state) (n : N) (steps : list (op * rstep)) : option N :=
  match steps with
  | [] => None
  | (o, recorded) :: rest =>
      match exec_op vr s o with
      | TErr e => if step_obs_eqb (SErr e) (expand recorded) then replay vr ps s (N.succ n) rest else Some n
      | TOk s' => if step_obs_eqb (observe vr s' ps) (expand recorded) then replay vr ps s' (N.succ n) rest else Some n
      end
  end.

Definition scase_check (vr : variant) (c : scase) : option N :=
  let '(c0, ps, o0, steps) := c in
  let s0 := (V, tok_build c0) in
  if step_obs_eqb (observe vr s0 ps) (expand o0) then replay vr ps s0 1%N steps else Some 0%N.

(* the model's own account of a case (for replay files and diagnostics) *)
Fixpoint trace (vr : variant) (ps : list probe) (s : state) (ops : list op) : list step_obs :=
  match ops with
  | [] => []
  | o :: rest =>
      match exec_op vr s o with
      | TErr e => SErr e :: trace vr ps s rest
      | TOk s' => observe vr s' ps :: trace vr ps s' rest
      end
  end.
Definition scase_model (c : scase) : list step_obs :=
  let '(c0, ps, _, steps) := c in
  observe Repaired (V, tok_build c0) ps :: trace Repaired ps (V, tok_build c0) (map fst steps).
Definition scase_model_faithful (c : scase) : list step_obs :=
  let '(c0, ps, _, steps) := c in
  observe Faithful (V, tok_build c0) ps :: trace Faithful ps (V, tok_build c0) (map fst steps).

(* ---- the class of the known finding: a third-party block that declares a public key ---- *)
Definition scope_has_key {K} (s : scope_ K) : bool := match s with YKey _ => true | _ => false end.
Definition content_has_key (c : acontent) : bool :=
  match c with
  | YContent _ rs cs ss =>
      existsb (fun r => match r with YRule _ _ _ sc => existsb scope_has_key sc end) rs
      || existsb (fun r => match r with YCheck _ _ sc => existsb scope_has_key sc end) cs
      || existsb scope_has_key ss
  end.
Definition in_known_class (c : scase) : bool :=
  let '(_, _, _, steps) := c in
  existsb (fun so => match fst so with OAppendTP _ _ c => content_has_key c | _ => false end) steps.

(* verdict per case:
     0 = agrees with the repaired model (what the property demands);
     1 = agrees only with the faithful model, inside the known class (known finding seen);
     2 = disagreement (neither model, or the faulty behaviour outside the known class) *)
Definition scase_verdict (c : scase) : N * option N :=
  match scase_check Repaired c with
  | None => (0%N, None)
  | Some n =>
      match scase_check Faithful c with
      | None => if in_known_class c then (1%N, Some n) else (2%N, Some n)
      | Some m => (2%N, Some n)
      end
  end.

(* index offset marking a case that shows the known faulty behaviour *)
Definition known_offset : N := 1073741824%N.

Fixpoint scase_scan (idx : N) (cs : list scase) (bad : list (N * option N))
  : list (N * option N) * N :=
  match cs with
  | [] => (rev bad, 0%N)
  | c :: cs' =>
      let '(v, n) := scase_verdict c in
      if N.eqb v 0 then scase_scan (N.succ idx) cs' bad
      else if N.eqb v 1 then scase_scan (N.succ idx) cs' ((idx + known_offset, n)%N :: bad)
      else scase_scan (N.succ idx) cs' ((idx, n) :: bad)
  end.

(* (index, first differing step) of every disagreeing case; a case that agrees only with the
   faithful model inside the known class is listed with index + known_offset *)
Definition scase_failures (start : N) (cs : list scase) := scase_scan start cs [].

(* the shared OCaml prelude (driver/prelude.ml) names the extracted types nat, positive, N
   and Z; this keeps Z in the extraction unit although the model does not use it *)
Definition prelude_anchor : Z * nat := (0%Z, 0%nat).

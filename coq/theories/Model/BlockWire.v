(* Protobuf wire format of the *contents* of a block: the Block message of
   biscuit-auth/src/format/schema.proto and everything it is made of

     Block { repeated string symbols = 1; optional string context = 2; optional uint32 version = 3;
             repeated FactV2 facts_v2 = 4; repeated RuleV2 rules_v2 = 5; repeated CheckV2 checks_v2 = 6;
             repeated Scope scope = 7; repeated PublicKey publicKeys = 8 }
     Scope { oneof Content { ScopeType scopeType = 1 (enum, int32); int64 publicKey = 2 } }
     FactV2 { required PredicateV2 predicate = 1 }
     RuleV2 { required PredicateV2 head = 1; repeated PredicateV2 body = 2;
              repeated ExpressionV2 expressions = 3; repeated Scope scope = 4 }
     CheckV2 { repeated RuleV2 queries = 1; optional Kind kind = 2 (enum, int32) }
     PredicateV2 { required uint64 name = 1; repeated TermV2 terms = 2 }
     TermV2 { oneof Content { uint32 variable = 1; int64 integer = 2; uint64 string = 3; uint64 date = 4;
              bytes bytes = 5; bool bool = 6; TermSet set = 7; Empty null = 8; Array array = 9; Map map = 10 } }
     TermSet { repeated TermV2 set = 1 }   Array { repeated TermV2 array = 1 }
     Map { repeated MapEntry entries = 1 } MapEntry { required MapKey key = 1; required TermV2 value = 2 }
     MapKey { oneof Content { int64 integer = 1; uint64 string = 2 } }
     ExpressionV2 { repeated Op ops = 1 }
     Op { oneof Content { TermV2 value = 1; OpUnary unary = 2; OpBinary Binary = 3; OpClosure closure = 4 } }
     OpUnary { required Kind kind = 1 (enum, int32); optional uint64 ffiName = 2 }
     OpBinary { required Kind kind = 1 (enum, int32); optional uint64 ffiName = 2 }
     OpClosure { repeated uint32 params = 1 (not packed); repeated Op ops = 2 }

   (field numbers and types written from the Biscuit specification's schema, independently of
   schema.rs).  The decoded form is the shape of prost's generated structures: `required`
   fields are plain values (a missing one decodes to the default), optional scalars are
   options, a oneof is an option of a variant ([PTNone], [PONone], [PSNone], [PKNone] = absent).

   Decoding is prost's [merge], as in Model/Wire.v (same tokeniser, same per-message folds), with
   the three behaviours that only matter here:
   - a oneof field whose variant is a *message* (TermSet, Empty, Array, Map, TermV2, OpUnary,
     OpBinary, OpClosure) is merged into the current value when the current value is the same
     variant, and into a fresh default otherwise; scalar variants replace the value;
   - every nested message costs one unit of the recursion budget (100 at the top): a message
     whose budget is 0 cannot hold a nested message *nor an unknown field* (skip_field checks the
     budget first), only known scalars;
   - `string` fields must be valid UTF-8; a repeated scalar accepts the packed form
     (length-delimited run of varints) as well as one varint per field.
   The recursion budget is the structural argument of the two recursive decoders
   ([step_term], [step_op]): no other fuel is needed.
   No proofs here. *)
From Biscuit Require Export Model.Wire.
Local Open Scope N_scope.

(* ------------------------------------------------------------------ scalars *)
Definition two63 : N := 9223372036854775808.

(* u64 -> i64 cast and back (int64 fields) *)
Definition to_i64 (n : N) : Z :=
  let m := n mod two64 in
  if m <? two63 then Z.of_N m else (Z.of_N m - 18446744073709551616)%Z.
Definition of_i64 (z : Z) : N :=
  if (z <? 0)%Z then Z.to_N (z + 18446744073709551616)%Z else Z.to_N z.

Definition to_bool (n : N) : bool := negb (n =? 0).
Definition of_bool (b : bool) : N := if b then 1 else 0.

(* core::str::from_utf8: shortest form only, no surrogates, at most U+10FFFF *)
Definition cont (x : N) : bool := (128 <=? x) && (x <=? 191).
Fixpoint utf8_valid_fuel (fuel : nat) (b : bytes) : bool :=
  match fuel with
  | O => match b with [] => true | _ => false end
  | S f =>
      match b with
      | [] => true
      | x :: r =>
          if x <? 128 then utf8_valid_fuel f r
          else if (194 <=? x) && (x <=? 223) then
            match r with y :: r' => cont y && utf8_valid_fuel f r' | _ => false end
          else if x =? 224 then
            match r with y :: z :: r' => (160 <=? y) && (y <=? 191) && cont z && utf8_valid_fuel f r' | _ => false end
          else if ((225 <=? x) && (x <=? 236)) || (x =? 238) || (x =? 239) then
            match r with y :: z :: r' => cont y && cont z && utf8_valid_fuel f r' | _ => false end
          else if x =? 237 then
            match r with y :: z :: r' => (128 <=? y) && (y <=? 159) && cont z && utf8_valid_fuel f r' | _ => false end
          else if x =? 240 then
            match r with y :: z :: w :: r' => (144 <=? y) && (y <=? 191) && cont z && cont w && utf8_valid_fuel f r' | _ => false end
          else if (241 <=? x) && (x <=? 243) then
            match r with y :: z :: w :: r' => cont y && cont z && cont w && utf8_valid_fuel f r' | _ => false end
          else if x =? 244 then
            match r with y :: z :: w :: r' => (128 <=? y) && (y <=? 143) && cont z && cont w && utf8_valid_fuel f r' | _ => false end
          else false
      end
  end.
Definition utf8_valid (b : bytes) : bool := utf8_valid_fuel (length b) b.

(* a packed run of varints *)
Fixpoint dec_packed (fuel : nat) (b : bytes) : option (list N) :=
  match b with
  | [] => Some []
  | _ :: _ =>
      match fuel with
      | O => None
      | S f => match dec_varint b with
               | Some (n, r) => match dec_packed f r with Some l => Some (n :: l) | None => None end
               | None => None
               end
      end
  end.

(* an unknown field is skipped by skip_field, which refuses when the budget is 0 *)
Definition skip_ok (ctx : nat) : bool := match ctx with O => false | S _ => true end.
Definition skipped {A} (ctx : nat) (a : A) : option A := if skip_ok ctx then Some a else None.

(* the body of a nested message: the budget must not be 0; its fields get one unit less *)
Definition sub_fields (ctx : nat) (b : bytes) : option (nat * list field) :=
  match ctx with
  | O => None
  | S c => match fields_of_body c b with Some fs => Some (c, fs) | None => None end
  end.

(* ------------------------------------------------------------------ structures *)
Inductive pmapkey := PKNone | PKInt (z : Z) | PKStr (n : N).

Inductive pterm :=
| PTNone
| PTVariable (n : N) | PTInteger (z : Z) | PTString (n : N) | PTDate (n : N)
| PTBytes (b : bytes) | PTBool (b : bool)
| PTSet (l : list pterm) | PTNull | PTArray (l : list pterm)
| PTMap (l : list (pmapkey * pterm)).

Inductive pop :=
| PONone
| POValue (t : pterm)
| POUnary (kind : Z) (ffi : option N)
| POBinary (kind : Z) (ffi : option N)
| POClosure (params : list N) (ops : list pop).

Inductive pscope := PSNone | PSType (z : Z) | PSKey (z : Z).

Record ppred := mkppred { pp_name : N; pp_terms : list pterm }.
Record prule := mkprule { pr_head : ppred; pr_body : list ppred;
                          pr_exprs : list (list pop); pr_scopes : list pscope }.
Record pcheck := mkpcheck { pc_queries : list prule; pc_kind : option Z }.
Record pblock := mkpblock {
  pb_symbols : list bytes; pb_context : option bytes; pb_version : option N;
  pb_facts : list ppred; pb_rules : list prule; pb_checks : list pcheck;
  pb_scopes : list pscope; pb_keys : list wkey }.

Definition ppred0 : ppred := mkppred 0 [].
Definition prule0 : prule := mkprule ppred0 [] [] [].
Definition pcheck0 : pcheck := mkpcheck [] None.
Definition pblock0 : pblock := mkpblock [] None None [] [] [] [] [].

(* ------------------------------------------------------------------ decoding *)
Definition step_mapkey (ctx : nat) (k : pmapkey) (f : field) : option pmapkey :=
  match f with
  | (1, FVar n) => Some (PKInt (to_i64 n))
  | (1, _) => None
  | (2, FVar n) => Some (PKStr n)
  | (2, _) => None
  | (_, _) => skipped ctx k
  end.

(* pieces of TermV2::merge_field, over the decoder [st] of the nested TermV2 values *)
Section TermSteps.
  Variable st : nat -> pterm -> field -> option pterm.

  (* repeated TermV2 = 1 inside a TermSet / Array whose fields have budget [c] *)
  Definition step_elems (c : nat) (l : list pterm) (f : field) : option (list pterm) :=
      match f with
      | (1, FLen b) =>
          match c with
          | O => None
          | S c' =>
              match fields_of_body c' b with
              | Some fs => match fold_opt (st c') fs PTNone with
                           | Some x => Some (l ++ [x])
                           | None => None
                           end
              | None => None
              end
          end
      | (1, _) => None
      | (_, _) => skipped c l
      end.

  (* MapEntry fields, budget [c] *)
  Definition step_entry (c : nat) (e : pmapkey * pterm) (f : field) : option (pmapkey * pterm) :=
      match f with
      | (1, FLen b) =>
          match c with
          | O => None
          | S c' =>
              match fields_of_body c' b with
              | Some fs => match fold_opt (step_mapkey c') fs (fst e) with
                           | Some k => Some (k, snd e)
                           | None => None
                           end
              | None => None
              end
          end
      | (1, _) => None
      | (2, FLen b) =>
          match c with
          | O => None
          | S c' =>
              match fields_of_body c' b with
              | Some fs => match fold_opt (st c') fs (snd e) with
                           | Some v => Some (fst e, v)
                           | None => None
                           end
              | None => None
              end
          end
      | (2, _) => None
      | (_, _) => skipped c e
      end.

  (* repeated MapEntry = 1 inside a Map whose fields have budget [c] *)
  Definition step_entries (c : nat) (l : list (pmapkey * pterm)) (f : field) : option (list (pmapkey * pterm)) :=
      match f with
      | (1, FLen b) =>
          match c with
          | O => None
          | S c' =>
              match fields_of_body c' b with
              | Some fs => match fold_opt (step_entry c') fs (PKNone, PTNone) with
                           | Some e => Some (l ++ [e])
                           | None => None
                           end
              | None => None
              end
          end
      | (1, _) => None
      | (_, _) => skipped c l
      end.
End TermSteps.

(* TermV2::merge_field.  [ctx] is the budget the fields of this TermV2 are merged with. *)
Fixpoint step_term (ctx : nat) (t : pterm) (f : field) {struct ctx} : option pterm :=
  match f with
  | (1, FVar n) => Some (PTVariable (to_u32 n))
  | (1, _) => None
  | (2, FVar n) => Some (PTInteger (to_i64 n))
  | (2, _) => None
  | (3, FVar n) => Some (PTString n)
  | (3, _) => None
  | (4, FVar n) => Some (PTDate n)
  | (4, _) => None
  | (5, FLen b) => Some (PTBytes b)
  | (5, _) => None
  | (6, FVar n) => Some (PTBool (to_bool n))
  | (6, _) => None
  | (7, FLen b) =>
      match ctx with
      | O => None
      | S c =>
          match fields_of_body c b with
          | Some fs => match fold_opt (step_elems step_term c) fs (match t with PTSet l => l | _ => [] end) with
                       | Some l => Some (PTSet l)
                       | None => None
                       end
          | None => None
          end
      end
  | (7, _) => None
  | (8, FLen b) =>
      match ctx with
      | O => None
      | S c =>
          match fields_of_body c b with
          | Some fs => match fold_opt (fun (u : unit) (_ : field) => skipped c u) fs tt with
                       | Some _ => Some PTNull
                       | None => None
                       end
          | None => None
          end
      end
  | (8, _) => None
  | (9, FLen b) =>
      match ctx with
      | O => None
      | S c =>
          match fields_of_body c b with
          | Some fs => match fold_opt (step_elems step_term c) fs (match t with PTArray l => l | _ => [] end) with
                       | Some l => Some (PTArray l)
                       | None => None
                       end
          | None => None
          end
      end
  | (9, _) => None
  | (10, FLen b) =>
      match ctx with
      | O => None
      | S c =>
          match fields_of_body c b with
          | Some fs => match fold_opt (step_entries step_term c) fs (match t with PTMap l => l | _ => [] end) with
                       | Some l => Some (PTMap l)
                       | None => None
                       end
          | None => None
          end
      end
  | (10, _) => None
  | (_, _) => skipped ctx t
  end.

(* a nested TermV2 message merged into [t0]: the enclosing fields have budget [ctx] *)
Definition merge_term (ctx : nat) (t0 : pterm) (b : bytes) : option pterm :=
  match sub_fields ctx b with
  | Some (c, fs) => fold_opt (step_term c) fs t0
  | None => None
  end.

(* OpUnary / OpBinary: (kind, ffiName) *)
Definition step_opkind (ctx : nat) (k : Z * option N) (f : field) : option (Z * option N) :=
  match f with
  | (1, FVar n) => Some (to_i32 n, snd k)
  | (1, _) => None
  | (2, FVar n) => Some (fst k, Some n)
  | (2, _) => None
  | (_, _) => skipped ctx k
  end.

Definition merge_opkind (ctx : nat) (k0 : Z * option N) (b : bytes) : option (Z * option N) :=
  match sub_fields ctx b with
  | Some (c, fs) => fold_opt (step_opkind c) fs k0
  | None => None
  end.

Section OpSteps.
  Variable so : nat -> pop -> field -> option pop.
  (* OpClosure fields, budget [c] *)
  Definition step_closure (c : nat) (cl : list N * list pop) (f : field) : option (list N * list pop) :=
      match f with
      | (1, FVar n) => Some (fst cl ++ [to_u32 n], snd cl)
      | (1, FLen b) => match dec_packed (length b) b with
                       | Some l => Some (fst cl ++ map to_u32 l, snd cl)
                       | None => None
                       end
      | (1, _) => None
      | (2, FLen b) =>
          match c with
          | O => None
          | S c' =>
              match fields_of_body c' b with
              | Some fs => match fold_opt (so c') fs PONone with
                           | Some x => Some (fst cl, snd cl ++ [x])
                           | None => None
                           end
              | None => None
              end
          end
      | (2, _) => None
      | (_, _) => skipped c cl
      end.
End OpSteps.

(* Op::merge_field *)
Fixpoint step_op (ctx : nat) (o : pop) (f : field) {struct ctx} : option pop :=
  match f with
  | (1, FLen b) =>
      match merge_term ctx (match o with POValue t => t | _ => PTNone end) b with
      | Some t => Some (POValue t)
      | None => None
      end
  | (1, _) => None
  | (2, FLen b) =>
      match merge_opkind ctx (match o with POUnary k n => (k, n) | _ => (0%Z, None) end) b with
      | Some (k, n) => Some (POUnary k n)
      | None => None
      end
  | (2, _) => None
  | (3, FLen b) =>
      match merge_opkind ctx (match o with POBinary k n => (k, n) | _ => (0%Z, None) end) b with
      | Some (k, n) => Some (POBinary k n)
      | None => None
      end
  | (3, _) => None
  | (4, FLen b) =>
      match ctx with
      | O => None
      | S c =>
          match fields_of_body c b with
          | Some fs =>
              match fold_opt (step_closure step_op c) fs (match o with POClosure p l => (p, l) | _ => ([], []) end) with
              | Some (p, l) => Some (POClosure p l)
              | None => None
              end
          | None => None
          end
      end
  | (4, _) => None
  | (_, _) => skipped ctx o
  end.

Definition merge_op (ctx : nat) (o0 : pop) (b : bytes) : option pop :=
  match sub_fields ctx b with
  | Some (c, fs) => fold_opt (step_op c) fs o0
  | None => None
  end.

(* ExpressionV2 *)
Definition step_expr (ctx : nat) (e : list pop) (f : field) : option (list pop) :=
  match f with
  | (1, FLen b) => match merge_op ctx PONone b with Some o => Some (e ++ [o]) | None => None end
  | (1, _) => None
  | (_, _) => skipped ctx e
  end.

Definition step_scope (ctx : nat) (s : pscope) (f : field) : option pscope :=
  match f with
  | (1, FVar n) => Some (PSType (to_i32 n))
  | (1, _) => None
  | (2, FVar n) => Some (PSKey (to_i64 n))
  | (2, _) => None
  | (_, _) => skipped ctx s
  end.

Definition step_pred (ctx : nat) (p : ppred) (f : field) : option ppred :=
  match f with
  | (1, FVar n) => Some (mkppred n (pp_terms p))
  | (1, _) => None
  | (2, FLen b) => match merge_term ctx PTNone b with
                   | Some t => Some (mkppred (pp_name p) (pp_terms p ++ [t]))
                   | None => None
                   end
  | (2, _) => None
  | (_, _) => skipped ctx p
  end.

(* a nested message decoded by a non-recursive step function *)
Definition merge_with {A} (step : nat -> A -> field -> option A) (ctx : nat) (a0 : A) (b : bytes) : option A :=
  match sub_fields ctx b with
  | Some (c, fs) => fold_opt (step c) fs a0
  | None => None
  end.

Definition step_rule (ctx : nat) (r : prule) (f : field) : option prule :=
  match f with
  | (1, FLen b) => match merge_with step_pred ctx (pr_head r) b with
                   | Some h => Some (mkprule h (pr_body r) (pr_exprs r) (pr_scopes r))
                   | None => None
                   end
  | (1, _) => None
  | (2, FLen b) => match merge_with step_pred ctx ppred0 b with
                   | Some p => Some (mkprule (pr_head r) (pr_body r ++ [p]) (pr_exprs r) (pr_scopes r))
                   | None => None
                   end
  | (2, _) => None
  | (3, FLen b) => match merge_with step_expr ctx [] b with
                   | Some e => Some (mkprule (pr_head r) (pr_body r) (pr_exprs r ++ [e]) (pr_scopes r))
                   | None => None
                   end
  | (3, _) => None
  | (4, FLen b) => match merge_with step_scope ctx PSNone b with
                   | Some s => Some (mkprule (pr_head r) (pr_body r) (pr_exprs r) (pr_scopes r ++ [s]))
                   | None => None
                   end
  | (4, _) => None
  | (_, _) => skipped ctx r
  end.

Definition step_check (ctx : nat) (c : pcheck) (f : field) : option pcheck :=
  match f with
  | (1, FLen b) => match merge_with step_rule ctx prule0 b with
                   | Some q => Some (mkpcheck (pc_queries c ++ [q]) (pc_kind c))
                   | None => None
                   end
  | (1, _) => None
  | (2, FVar n) => Some (mkpcheck (pc_queries c) (Some (to_i32 n)))
  | (2, _) => None
  | (_, _) => skipped ctx c
  end.

(* FactV2 { required PredicateV2 predicate = 1 } *)
Definition step_fact (ctx : nat) (p : ppred) (f : field) : option ppred :=
  match f with
  | (1, FLen b) => merge_with step_pred ctx p b
  | (1, _) => None
  | (_, _) => skipped ctx p
  end.

Definition step_pblock (ctx : nat) (k : pblock) (f : field) : option pblock :=
  match f with
  | (1, FLen b) =>
      if utf8_valid b
      then Some (mkpblock (pb_symbols k ++ [b]) (pb_context k) (pb_version k) (pb_facts k) (pb_rules k)
                          (pb_checks k) (pb_scopes k) (pb_keys k))
      else None
  | (1, _) => None
  | (2, FLen b) =>
      if utf8_valid b
      then Some (mkpblock (pb_symbols k) (Some b) (pb_version k) (pb_facts k) (pb_rules k)
                          (pb_checks k) (pb_scopes k) (pb_keys k))
      else None
  | (2, _) => None
  | (3, FVar n) => Some (mkpblock (pb_symbols k) (pb_context k) (Some (to_u32 n)) (pb_facts k) (pb_rules k)
                                  (pb_checks k) (pb_scopes k) (pb_keys k))
  | (3, _) => None
  | (4, FLen b) => match merge_with step_fact ctx ppred0 b with
                   | Some x => Some (mkpblock (pb_symbols k) (pb_context k) (pb_version k) (pb_facts k ++ [x])
                                              (pb_rules k) (pb_checks k) (pb_scopes k) (pb_keys k))
                   | None => None
                   end
  | (4, _) => None
  | (5, FLen b) => match merge_with step_rule ctx prule0 b with
                   | Some x => Some (mkpblock (pb_symbols k) (pb_context k) (pb_version k) (pb_facts k)
                                              (pb_rules k ++ [x]) (pb_checks k) (pb_scopes k) (pb_keys k))
                   | None => None
                   end
  | (5, _) => None
  | (6, FLen b) => match merge_with step_check ctx pcheck0 b with
                   | Some x => Some (mkpblock (pb_symbols k) (pb_context k) (pb_version k) (pb_facts k)
                                              (pb_rules k) (pb_checks k ++ [x]) (pb_scopes k) (pb_keys k))
                   | None => None
                   end
  | (6, _) => None
  | (7, FLen b) => match merge_with step_scope ctx PSNone b with
                   | Some x => Some (mkpblock (pb_symbols k) (pb_context k) (pb_version k) (pb_facts k)
                                              (pb_rules k) (pb_checks k) (pb_scopes k ++ [x]) (pb_keys k))
                   | None => None
                   end
  | (7, _) => None
  | (8, FLen b) => match merge_body step_key ctx wkey0 b with
                   | Some x => Some (mkpblock (pb_symbols k) (pb_context k) (pb_version k) (pb_facts k)
                                              (pb_rules k) (pb_checks k) (pb_scopes k) (pb_keys k ++ [x]))
                   | None => None
                   end
  | (8, _) => None
  | (_, _) => skipped ctx k
  end.

(* schema::Block::decode *)
Definition decode_block (b : bytes) : option pblock :=
  match fields_of_body recursion_limit b with
  | Some fs => fold_opt (step_pblock recursion_limit) fs pblock0
  | None => None
  end.

(* ------------------------------------------------------------------ encoding *)
Definition msg (tag : N) (fs : list field) : field := (tag, FLen (enc_fields fs)).

Definition mapkey_fields (k : pmapkey) : list field :=
  match k with
  | PKNone => []
  | PKInt z => [(1, FVar (of_i64 z))]
  | PKStr n => [(2, FVar n)]
  end.

Fixpoint term_fields (t : pterm) : list field :=
  match t with
  | PTNone => []
  | PTVariable n => [(1, FVar n)]
  | PTInteger z => [(2, FVar (of_i64 z))]
  | PTString n => [(3, FVar n)]
  | PTDate n => [(4, FVar n)]
  | PTBytes b => [(5, FLen b)]
  | PTBool b => [(6, FVar (of_bool b))]
  | PTSet l => [msg 7 (map (fun x => msg 1 (term_fields x)) l)]
  | PTNull => [msg 8 []]
  | PTArray l => [msg 9 (map (fun x => msg 1 (term_fields x)) l)]
  | PTMap l => [msg 10 (map (fun kv : pmapkey * pterm => let (k, v) := kv in
                                       msg 1 [msg 1 (mapkey_fields k); msg 2 (term_fields v)]) l)]
  end.

Definition opkind_fields (k : Z) (n : option N) : list field :=
  (1, FVar (of_i32 k)) :: match n with Some x => [(2, FVar x)] | None => [] end.

Fixpoint op_fields (o : pop) : list field :=
  match o with
  | PONone => []
  | POValue t => [msg 1 (term_fields t)]
  | POUnary k n => [msg 2 (opkind_fields k n)]
  | POBinary k n => [msg 3 (opkind_fields k n)]
  | POClosure p l => [msg 4 (map (fun x => (1, FVar x)) p ++ map (fun x => msg 2 (op_fields x)) l)]
  end.

Definition expr_fields (e : list pop) : list field := map (fun o => msg 1 (op_fields o)) e.

Definition scope_fields (s : pscope) : list field :=
  match s with
  | PSNone => []
  | PSType z => [(1, FVar (of_i32 z))]
  | PSKey z => [(2, FVar (of_i64 z))]
  end.

Definition pred_fields (p : ppred) : list field :=
  (1, FVar (pp_name p)) :: map (fun t => msg 2 (term_fields t)) (pp_terms p).

Definition rule_fields (r : prule) : list field :=
  msg 1 (pred_fields (pr_head r)) ::
  map (fun p => msg 2 (pred_fields p)) (pr_body r) ++
  map (fun e => msg 3 (expr_fields e)) (pr_exprs r) ++
  map (fun s => msg 4 (scope_fields s)) (pr_scopes r).

Definition check_fields (c : pcheck) : list field :=
  map (fun q => msg 1 (rule_fields q)) (pc_queries c) ++
  match pc_kind c with Some k => [(2, FVar (of_i32 k))] | None => [] end.

Definition pblock_fields (k : pblock) : list field :=
  map (fun s => (1, FLen s)) (pb_symbols k) ++
  match pb_context k with Some c => [(2, FLen c)] | None => [] end ++
  match pb_version k with Some v => [(3, FVar v)] | None => [] end ++
  map (fun p => msg 4 [msg 1 (pred_fields p)]) (pb_facts k) ++
  map (fun r => msg 5 (rule_fields r)) (pb_rules k) ++
  map (fun c => msg 6 (check_fields c)) (pb_checks k) ++
  map (fun s => msg 7 (scope_fields s)) (pb_scopes k) ++
  map (fun x => (8, FLen (body_key x))) (pb_keys k).

(* schema::Block::encode_to_vec *)
Definition encode_block (k : pblock) : bytes := enc_fields (pblock_fields k).

(* ------------------------------------------------------------------ what a value must satisfy
   to be a value of the Rust types, and to fit prost's recursion budget when read back *)
Definition list_maxn (l : list nat) : nat := fold_right Nat.max 0%nat l.

(* budget the fields of a TermV2 need *)
Fixpoint term_depth (t : pterm) : nat :=
  match t with
  | PTSet l | PTArray l => S (S (list_maxn (map term_depth l)))
  | PTNull => 1%nat
  | PTMap l => S (S (S (list_maxn (map (fun kv : pmapkey * pterm => let (_, v) := kv in term_depth v) l))))
  | _ => 0%nat
  end.

(* budget the fields of an Op need *)
Fixpoint op_depth (o : pop) : nat :=
  match o with
  | PONone => 0%nat
  | POValue t => S (term_depth t)
  | POUnary _ _ | POBinary _ _ => 1%nat
  | POClosure _ l => S (S (list_maxn (map op_depth l)))
  end.

Definition in_i32 (z : Z) : bool := ((-2147483648 <=? z) && (z <? 2147483648))%Z.
Definition in_i64z (z : Z) : bool := ((-9223372036854775808 <=? z) && (z <? 9223372036854775808))%Z.

Definition mapkey_ok (k : pmapkey) : bool :=
  match k with PKNone => true | PKInt z => in_i64z z | PKStr n => n <? two64 end.

Fixpoint term_ok (t : pterm) : bool :=
  match t with
  | PTNone | PTNull | PTBool _ => true
  | PTVariable n => n <? two32
  | PTInteger z => in_i64z z
  | PTString n | PTDate n => n <? two64
  | PTBytes b => nlen b <? two64
  | PTSet l | PTArray l => forallb term_ok l
  | PTMap l => forallb (fun kv : pmapkey * pterm => let (k, v) := kv in mapkey_ok k && term_ok v) l
  end.

Definition ffi_ok (n : option N) : bool := match n with Some x => x <? two64 | None => true end.

Fixpoint op_ok (o : pop) : bool :=
  match o with
  | PONone => true
  | POValue t => term_ok t
  | POUnary k n | POBinary k n => in_i32 k && ffi_ok n
  | POClosure p l => forallb (fun x => x <? two32) p && forallb op_ok l
  end.

Definition scope_ok (s : pscope) : bool :=
  match s with PSNone => true | PSType z => in_i32 z | PSKey z => in_i64z z end.

Definition pred_ok (p : ppred) : bool :=
  (pp_name p <? two64) && forallb (fun t => term_ok t && Nat.leb (term_depth t) 90) (pp_terms p).

Definition expr_ok (e : list pop) : bool := forallb (fun o => op_ok o && Nat.leb (op_depth o) 90) e.

Definition rule_ok (r : prule) : bool :=
  pred_ok (pr_head r) && forallb pred_ok (pr_body r) && forallb expr_ok (pr_exprs r)
  && forallb scope_ok (pr_scopes r).

Definition check_ok (c : pcheck) : bool :=
  forallb rule_ok (pc_queries c) && match pc_kind c with Some k => in_i32 k | None => true end.

Definition pblock_ok (k : pblock) : bool :=
  forallb utf8_valid (pb_symbols k)
  && match pb_context k with Some c => utf8_valid c | None => true end
  && match pb_version k with Some v => v <? two32 | None => true end
  && forallb pred_ok (pb_facts k) && forallb rule_ok (pb_rules k) && forallb check_ok (pb_checks k)
  && forallb scope_ok (pb_scopes k) && forallb wkey_ok (pb_keys k).

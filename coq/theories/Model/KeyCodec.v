(* C17 -- executable model of the *logic* of key handling:
     biscuit-auth/src/crypto/{mod.rs,ed25519.rs,p256.rs}  (from_bytes / from_bytes_hex /
       from_str / Display / print / to_prefixed_string / from_proto / to_proto / KeyPair::from_bytes,
       verify_signature's length dispatch),
     biscuit-parser/src/parser.rs  (public_key, parse_hex),
     biscuit-auth/src/token/builder/algorithm.rs (Algorithm conversions),
     the `hex` crate 0.4 (encode / decode).
   Strings are byte lists (UTF-8 bytes of the Rust &str).  Curve arithmetic, DER and PEM are
   NOT modelled: point validity, scalar validity, public-key derivation and signature
   verification enter through the record [oracles].  No proofs here. *)
From Biscuit Require Export Base.Bytes.
Local Open Scope N_scope.

(* ------------------------------------------------------------------ hex (crate hex 0.4.3) *)

(* HEX_CHARS_LOWER = "0123456789abcdef" *)
Definition hex_digit (n : N) : N := if n <? 10 then 48 + n else 87 + n.

Fixpoint hex_encode (b : bytes) : bytes :=
  match b with
  | [] => []
  | x :: r => hex_digit (x / 16) :: hex_digit (x mod 16) :: hex_encode r
  end.

(* fn val: 'A'..='F' | 'a'..='f' | '0'..='9' *)
Definition hex_val (c : N) : option N :=
  if (65 <=? c) && (c <=? 70) then Some (c - 55)
  else if (97 <=? c) && (c <=? 102) then Some (c - 87)
  else if (48 <=? c) && (c <=? 57) then Some (c - 48)
  else None.

Definition is_hex_char (c : N) : bool :=
  match hex_val c with Some _ => true | None => false end.

Inductive hexerr := HexOdd | HexChar (c idx : N).
Inductive hres := HOk (b : bytes) | HErr (e : hexerr).

(* pairs in order; the first offending character (by index) is reported *)
Fixpoint hex_decode_from (idx : N) (s : bytes) : hres :=
  match s with
  | [] => HOk []
  | [_] => HErr HexOdd
  | a :: b :: r =>
      match hex_val a with
      | None => HErr (HexChar a idx)
      | Some x =>
          match hex_val b with
          | None => HErr (HexChar b (idx + 1))
          | Some y =>
              match hex_decode_from (idx + 2) r with
              | HOk l => HOk (16 * x + y :: l)
              | HErr e => HErr e
              end
          end
      end
  end.

(* `if hex.len() % 2 != 0 { return Err(OddLength) }` comes first *)
Definition hex_decode (s : bytes) : hres :=
  if Nat.odd (length s) then HErr HexOdd else hex_decode_from 0 s.

(* ------------------------------------------------------------------ algorithms *)

Inductive alg := Ed25519 | Secp256r1.

Definition alg_eqb (a b : alg) : bool :=
  match a, b with Ed25519, Ed25519 | Secp256r1, Secp256r1 => true | _, _ => false end.

(* schema.proto: enum Algorithm { Ed25519 = 0; SECP256R1 = 1; } *)
Definition alg_num (a : alg) : Z := match a with Ed25519 => 0%Z | Secp256r1 => 1%Z end.

Definition alg_of_num (n : Z) : option alg :=
  if (n =? 0)%Z then Some Ed25519 else if (n =? 1)%Z then Some Secp256r1 else None.

(* "ed25519" / "secp256r1", written as bytes independently of the code *)
Definition alg_name (a : alg) : bytes :=
  match a with
  | Ed25519 => [101; 100; 50; 53; 53; 49; 57]
  | Secp256r1 => [115; 101; 99; 112; 50; 53; 54; 114; 49]
  end.

Definition alg_of_name (s : bytes) : option alg :=
  if bytes_eqb s (alg_name Ed25519) then Some Ed25519
  else if bytes_eqb s (alg_name Secp256r1) then Some Secp256r1
  else None.

Definition slash : N := 47.

(* ------------------------------------------------------------------ library oracles *)

Record oracles := mk_oracles {
  (* curve-point decoding: [Some c] = the bytes are a valid point encoding whose canonical
     serialisation (`to_bytes`) is [c]; [None] = refused by the curve library.
     ed25519: VerifyingKey::from_bytes on 32 bytes; secp256r1: VerifyingKey::from_sec1_bytes *)
  point_decode : alg -> bytes -> option bytes;
  (* secp256r1 secret scalar validity (SigningKey::from_bytes: non-zero, below the order) *)
  scalar_ok : bytes -> bool;
  (* public key (canonical bytes) of a private key *)
  derive_pub : alg -> bytes -> bytes;
  (* secp256r1: the signature bytes parse as an ASN.1 DER ECDSA signature *)
  der_sig_ok : bytes -> bool;
  (* the signature primitive: key bytes, message, signature bytes *)
  sig_valid : alg -> bytes -> bytes -> bytes -> bool
}.

(* ------------------------------------------------------------------ keys and errors *)

(* a key is identified by its algorithm and its canonical serialisation (`to_bytes`) *)
Inductive pubkey := Pub (a : alg) (b : bytes).
Inductive privkey := Priv (a : alg) (b : bytes).

(* error::Format constructors that the key paths produce *)
Inductive kerr :=
| KInvalidKeySize (n : N)
| KInvalidKey
| KDeserialization
| KSigDeserialization         (* BlockSignatureDeserializationError *)
| KInvalidSignature.          (* Signature(InvalidSignature) *)

Inductive kres (A : Type) := KOk (a : A) | KErr (e : kerr).
Arguments KOk {A} a.
Arguments KErr {A} e.

Definition len_is (b : bytes) (n : nat) : bool := Nat.eqb (length b) n.

(* sec1 0.7 EncodedPoint::from_bytes: tag 2/3 (compressed) and 5 (compact) carry 32 bytes,
   tag 4 (uncompressed) 64; tag 0 (identity, 1 byte) parses but is never a public key *)
Definition sec1_shape_ok (b : bytes) : bool :=
  match b with
  | [] => false
  | t :: r =>
      (((t =? 2) || (t =? 3) || (t =? 5)) && len_is r 32) || ((t =? 4) && len_is r 64)
  end.

(* PublicKey::from_bytes(bytes, algorithm) *)
Definition pub_from_bytes (O : oracles) (a : alg) (b : bytes) : kres pubkey :=
  match a with
  | Ed25519 =>
      if len_is b 32 then
        match point_decode O Ed25519 b with
        | Some _ => KOk (Pub Ed25519 b)       (* dalek keeps the compressed bytes it was given *)
        | None => KErr KInvalidKey
        end
      else KErr (KInvalidKeySize (N.of_nat (length b)))
  | Secp256r1 =>
      if sec1_shape_ok b then
        match point_decode O Secp256r1 b with
        | Some c => KOk (Pub Secp256r1 c)     (* to_bytes: SEC1 compressed *)
        | None => KErr KInvalidKey
        end
      else KErr KInvalidKey
  end.

(* PublicKey::from_bytes_hex *)
Definition pub_from_hex (O : oracles) (a : alg) (s : bytes) : kres pubkey :=
  match hex_decode s with
  | HErr _ => KErr KInvalidKey
  | HOk b => pub_from_bytes O a b
  end.

Definition pub_to_bytes (k : pubkey) : bytes := match k with Pub _ b => b end.
Definition pub_alg (k : pubkey) : alg := match k with Pub a _ => a end.
Definition pub_to_hex (k : pubkey) : bytes := hex_encode (pub_to_bytes k).

(* Display / print(): "<algorithm>/<lower-case hex>" *)
Definition print_prefixed (k : pubkey) : bytes :=
  alg_name (pub_alg k) ++ slash :: hex_encode (pub_to_bytes k).

(* ------------------------------------------------------------------ the nom parser *)

Fixpoint strip_prefix (p s : bytes) : option bytes :=
  match p, s with
  | [], _ => Some s
  | x :: p', y :: s' => if x =? y then strip_prefix p' s' else None
  | _ :: _, [] => None
  end.

(* take_while(is hex): longest prefix of hex characters, and the rest *)
Fixpoint span_hex (s : bytes) : bytes * bytes :=
  match s with
  | [] => ([], [])
  | c :: r => if is_hex_char c then let (h, t) := span_hex r in (c :: h, t) else ([], s)
  end.

(* preceded(tag("<alg>/"), map_res(take_while1(hex), hex::decode)) *)
Definition parse_key_with (a : alg) (s : bytes) : option (alg * bytes * bytes) :=
  match strip_prefix (alg_name a ++ [slash]) s with
  | None => None
  | Some r =>
      let (h, rest) := span_hex r in
      match h with
      | [] => None
      | _ => match hex_decode h with HOk k => Some (a, k, rest) | HErr _ => None end
      end
  end.

(* biscuit_parser::parser::public_key = alt((ed25519 branch, secp256r1 branch)):
   algorithm, key bytes, unparsed remainder *)
Definition parse_public_key (s : bytes) : option (alg * bytes * bytes) :=
  match parse_key_with Ed25519 s with
  | Some r => Some r
  | None => parse_key_with Secp256r1 s
  end.

Definition is_nil (b : bytes) : bool := match b with [] => true | _ => false end.

(* impl FromStr for PublicKey.  [strict = false] is the unchanged code (the remainder
   returned by the parser is dropped); [strict = true] refuses an unparsed remainder. *)
Definition pub_from_str_gen (strict : bool) (O : oracles) (s : bytes) : kres pubkey :=
  match parse_public_key s with
  | None => KErr KInvalidKey
  | Some (a, k, rest) =>
      if strict && negb (is_nil rest) then KErr KInvalidKey else pub_from_bytes O a k
  end.

Definition pub_from_str_impl := pub_from_str_gen false.   (* faithful to the unchanged tree *)
Definition parse_prefixed := pub_from_str_gen true.       (* what C17 demands *)

(* ------------------------------------------------------------------ protobuf PublicKey *)

Definition pub_to_proto (k : pubkey) : Z * bytes := (alg_num (pub_alg k), pub_to_bytes k).

Definition pub_from_proto (O : oracles) (n : Z) (key : bytes) : kres pubkey :=
  match alg_of_num n with
  | Some a => pub_from_bytes O a key
  | None => KErr KDeserialization
  end.

(* wire bytes of `PublicKey { required Algorithm algorithm = 1; required bytes key = 2; }` *)
Fixpoint varint (fuel : nat) (n : N) : bytes :=
  match fuel with
  | O => [n mod 128]
  | S f => if n <? 128 then [n] else (n mod 128 + 128) :: varint f (n / 128)
  end.

Definition proto_wire (p : Z * bytes) : bytes :=
  let (n, key) := p in
  8 :: varint 9 (Z.to_N n) ++ 18 :: varint 9 (N.of_nat (length key)) ++ key.

(* ------------------------------------------------------------------ private keys *)

(* PrivateKey::from_bytes(bytes, algorithm) *)
Definition priv_from_bytes (O : oracles) (a : alg) (b : bytes) : kres privkey :=
  if len_is b 32 then
    match a with
    | Ed25519 => KOk (Priv Ed25519 b)
    | Secp256r1 => if scalar_ok O b then KOk (Priv Secp256r1 b) else KErr KInvalidKey
    end
  else KErr (KInvalidKeySize (N.of_nat (length b))).

Definition priv_from_hex (O : oracles) (a : alg) (s : bytes) : kres privkey :=
  match hex_decode s with
  | HErr _ => KErr KInvalidKey
  | HOk b => priv_from_bytes O a b
  end.

(* str::split_once('/') *)
Fixpoint split_once (c : N) (s : bytes) : option (bytes * bytes) :=
  match s with
  | [] => None
  | x :: r =>
      if x =? c then Some ([], r)
      else match split_once c r with Some (p, q) => Some (x :: p, q) | None => None end
  end.

(* impl FromStr for PrivateKey *)
Definition priv_from_str (O : oracles) (s : bytes) : kres privkey :=
  match split_once slash s with
  | None => KErr KInvalidKey                       (* "Missing key algorithm" *)
  | Some (p, r) =>
      match alg_of_name p with
      | None => KErr KInvalidKey                   (* "Unsupported key algorithm" *)
      | Some a => priv_from_hex O a r
      end
  end.

Definition priv_to_bytes (k : privkey) : bytes := match k with Priv _ b => b end.
Definition priv_alg (k : privkey) : alg := match k with Priv a _ => a end.

(* to_prefixed_string *)
Definition priv_print (k : privkey) : bytes :=
  alg_name (priv_alg k) ++ slash :: hex_encode (priv_to_bytes k).

Definition priv_public (O : oracles) (k : privkey) : pubkey :=
  Pub (priv_alg k) (derive_pub O (priv_alg k) (priv_to_bytes k)).

(* KeyPair::from_bytes(bytes, schema algorithm) -> (private, public) *)
Definition keypair_from_bytes (O : oracles) (a : alg) (b : bytes) : kres (privkey * pubkey) :=
  match priv_from_bytes O a b with
  | KOk k => KOk (k, priv_public O k)
  | KErr e => KErr e
  end.

(* ------------------------------------------------------------------ signatures *)

(* PublicKey::verify_signature: the shape of the signature bytes is checked per algorithm
   before the primitive runs (ed25519: exactly 64 bytes; secp256r1: ASN.1 DER) *)
Definition verify_signature (O : oracles) (k : pubkey) (msg sig : bytes) : kres unit :=
  match k with
  | Pub Ed25519 kb =>
      if len_is sig 64 then
        if sig_valid O Ed25519 kb msg sig then KOk tt else KErr KInvalidSignature
      else KErr KSigDeserialization
  | Pub Secp256r1 kb =>
      if der_sig_ok O sig then
        if sig_valid O Secp256r1 kb msg sig then KOk tt else KErr KInvalidSignature
      else KErr KSigDeserialization
  end.

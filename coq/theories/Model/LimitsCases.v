(* Glue for the C10 correspondence: a history of run / authorize / query calls on one
   authorizer under given limits and a scripted clock; observed after every call: result
   class, iterations(), fact_count(), execution_time(). *)
From Biscuit Require Export Model.Limits Model.AuthorizerCases.

Inductive lobserved := LObs (l : list lobs) | LOther.

Definition lcase : Type :=
  (token * authorizer * limits * (N * N) * list lop * bool * list (bytes * bytes * bool) * lobserved).

Definition lcase_model_with (legacy : bool) (c : lcase) : list lobs :=
  let '(t, a, l, (start, stp), ops, oc, rx, _) := c in
  history (case_oracles rx) legacy oc l t a ops (mkclock start stp).

Definition lcase_model (c : lcase) : list lobs := lcase_model_with false c.
Definition lcase_model_legacy (c : lcase) : list lobs := lcase_model_with true c.

Definition lerr_eqb (a b : lerr) : bool :=
  match a, b with
  | LLimit e, LLimit e' => run_error_eqb e e'
  | LExec, LExec | LPanic, LPanic => true
  | _, _ => false
  end.

Definition lres_eqb (a b : lobs_res) : bool :=
  match a, b with
  | BRunOk, BRunOk | BQueryOk, BQueryOk => true
  | BAuth o, BAuth o' => outcome_eqb o o'
  | BErr e, BErr e' => lerr_eqb e e'
  | _, _ => false
  end.

Definition optN_eqb (a b : option N) : bool :=
  match a, b with Some x, Some y => N.eqb x y | None, None => true | _, _ => false end.

Definition lobs_eqb (a b : lobs) : bool :=
  let '(r, it, fc, ex) := a in
  let '(r', it', fc', ex') := b in
  match r, r' with
  | BErr LPanic, BErr LPanic => true      (* nothing can be read from the object after a panic *)
  | _, _ => lres_eqb r r' && N.eqb it it' && N.eqb fc fc' && optN_eqb ex ex'
  end.

Fixpoint lobs_list_eqb (a b : list lobs) : bool :=
  match a, b with
  | [], [] => true
  | x :: a', y :: b' => lobs_eqb x y && lobs_list_eqb a' b'
  | _, _ => false
  end.

Definition lagrees (m : list lobs) (i : lobserved) : bool :=
  match i with LObs l => lobs_list_eqb m l | LOther => false end.

Fixpoint lcase_scan (legacy : bool) (idx : N) (cs : list lcase) (bad : list (N * list lobs)) (skipped : N)
  : list (N * list lobs) * N :=
  match cs with
  | [] => (rev bad, skipped)
  | c :: cs' =>
      let m := lcase_model_with legacy c in
      if lagrees m (snd c)
      then lcase_scan legacy (N.succ idx) cs' bad skipped
      else lcase_scan legacy (N.succ idx) cs' ((idx, m) :: bad) skipped
  end.

Definition lcase_failures (start : N) (cs : list lcase) := lcase_scan false start cs [] 0%N.
(* the same against biscuit-rust before the budget fixes: used to validate the faithful model *)
Definition lcase_failures_legacy (start : N) (cs : list lcase) := lcase_scan true start cs [] 0%N.

(* Executable glue for the C06 correspondence: the oracles the harness supplies, the
   recorded implementation result, and the comparison.  No proofs. *)
From Biscuit Require Export Model.Expr.

Inductive iresult := IOk (v : value) | IErr (e : err) | IPanic.

Definition ecase : Type := (env * list op * list (bytes * bytes * bool) * iresult).

Fixpoint regex_lookup (t : list (bytes * bytes * bool)) (s p : bytes) : res bool :=
  match t with
  | [] => Err EOracleMiss
  | (s', p', b) :: t' => if bytes_eqb s s' && bytes_eqb p p' then Ok b else regex_lookup t' s p
  end.

(* first string id without a table entry, in the order builder::Term::from_datalog visits *)
Fixpoint first_unk (v : value) : option N :=
  let fix in_list (l : list value) : option N :=
    match l with
    | [] => None
    | x :: l' => match first_unk x with Some i => Some i | None => in_list l' end
    end in
  let fix in_map (l : list (mapkey * value)) : option N :=
    match l with
    | [] => None
    | (k, x) :: l' =>
        match k with
        | KUnk i => Some i
        | _ => match first_unk x with Some i => Some i | None => in_map l' end
        end
    end in
  match v with
  | VUnk i => Some i
  | VSet l | VArray l => in_list l
  | VMap m => in_map m
  | _ => None
  end.

(* mirrors harness/src/expr.rs extern_funcs(): "first", "boom", "pair" *)
Definition harness_extern (name : bytes) (l : value) (r : option value) : res value :=
  let known := bytes_eqb name (str "first") || bytes_eqb name (str "boom") || bytes_eqb name (str "pair") in
  if negb known then Err EUndefinedExtern else
  match first_unk l with
  | Some i => Err (EUnknownSym i)
  | None =>
    match match r with Some rv => first_unk rv | None => None end with
    | Some i => Err (EUnknownSym i)
    | None =>
        if bytes_eqb name (str "first") then Ok l
        else if bytes_eqb name (str "boom") then Err EExternError
        else Ok (VArray [l; match r with Some rv => rv | None => VNull end])
    end
  end.

Definition case_oracles (t : list (bytes * bytes * bool)) : oracles :=
  {| regex_match := regex_lookup t; extern_call := harness_extern |}.

Definition err_eqb (a b : err) : bool :=
  match a, b with
  | EInvalidType, EInvalidType | EOverflow, EOverflow | EDivZero, EDivZero
  | EInvalidStack, EInvalidStack | EShadowed, EShadowed
  | EUndefinedExtern, EUndefinedExtern | EExternError, EExternError
  | EOutOfFuel, EOutOfFuel | EOracleMiss, EOracleMiss => true
  | EUnknownVar x, EUnknownVar y => N.eqb x y
  | EUnknownSym x, EUnknownSym y => N.eqb x y
  | _, _ => false
  end.

Definition agrees (m : res value) (i : iresult) : bool :=
  match m, i with
  | Ok v, IOk w => value_eqb v w
  | Err e, IErr e' => err_eqb e e'
  | _, _ => false
  end.

Definition ecase_model (c : ecase) : res value :=
  let '(e, ops, rx, _) := c in evaluate (case_oracles rx) e ops.

(* (index, model result) of every disagreeing case; oracle misses are counted apart *)
Fixpoint ecase_scan (idx : N) (cs : list ecase) (bad : list (N * res value)) (skipped : N)
  : list (N * res value) * N :=
  match cs with
  | [] => (rev bad, skipped)
  | c :: cs' =>
      let m := ecase_model c in
      match m with
      | Err EOracleMiss => ecase_scan (N.succ idx) cs' bad (N.succ skipped)
      | _ => if agrees m (snd c)
             then ecase_scan (N.succ idx) cs' bad skipped
             else ecase_scan (N.succ idx) cs' ((idx, m) :: bad) skipped
      end
  end.

Definition ecase_failures (start : N) (cs : list ecase) := ecase_scan start cs [] 0%N.

(* Builder parameters ({name} placeholders): mirrors
     biscuit-auth/src/token/builder/{term,predicate,fact,rule,check,policy,expression,scope}.rs
     biscuit-parser/src/builder.rs (the parser crate's own parameter collection)
     biscuit-auth/src/token/builder/{block,authorizer}.rs (code_with_params binding loop)
     biscuit-quote/src/lib.rs (the macros' binding strategy)
   at the level of observable behaviour.  No proofs here.

   Reading guide.
   * Spec side: [subst]/[subst_*] (fully recursive substitution), [shape]/[*_shape].
   * Exec side: everything that takes a [cfg].  [faithful] is the code as it is at the
     pinned commit; [repaired] is what property C20 demands.  The three switches are the
     three places where the unchanged code is not recursive / not checked:
       rec_collect : biscuit-auth's Op::collect_parameters looks into collection values
                     (the parser crate's always does)
       rec_subst   : Rule::apply_parameters and Op::apply_parameters substitute inside
                     collection terms (Fact::apply_parameters always does)
       key_check   : validation refuses a map-key parameter bound to a value that is
                     neither an integer nor a string (the code keeps the parameter and
                     conversion panics)
   * Sets and maps are lists.  Rust rebuilds a BTreeSet/BTreeMap after substitution
     (equal elements collapse, a later equal key overwrites); the model does this once,
     bottom-up, in [canon], between substitution and conversion.  The order chosen by
     [pterm_cmp] is the model's own: results are compared after [canon] on both sides.
   * Conversion to the Datalog form keeps the same syntax tree type; "no Parameter leaf
     is left" is the theorem, [None] is the panic ("Remaining parameter"). *)
From Biscuit Require Export Model.Expr.

Definition name := bytes.

(* ------------------------------------------------------------------ terms *)
Inductive lit :=
| LInt (i : Z) | LStr (s : bytes) | LDate (d : Z) | LBytes (b : bytes) | LBool (b : bool) | LNull.

Inductive ckind := CSet | CArray.

Inductive pkey := PKInt (i : Z) | PKStr (s : bytes) | PKParam (n : name).

Inductive pterm :=
| PVar (n : name)
| PLit (l : lit)
| PParam (n : name)
| PColl (k : ckind) (l : list pterm)
| PMap (l : list (pkey * pterm)).

Inductive pop :=
| POVal (t : pterm)
| POUn (u : unary)
| POBin (b : binary)
| POClo (ps : list name) (body : list pop).

Inductive pscope := SAuthority | SPrevious | SKey (k : bytes) | SParam (n : name).

Definition ppred : Type := name * list pterm.

(* a rule without its parameter maps: head, body, expressions (op lists), scopes *)
Definition rskel : Type := ppred * list ppred * list (list pop) * list pscope.

Inductive chkind := KOne | KAll | KReject.
Inductive polkind := KAllow | KDeny.

Inductive iskel :=
| IFact (p : ppred)
| IRule (r : rskel)
| ICheck (k : chkind) (qs : list rskel)
| IPolicy (k : polkind) (qs : list rskel).

(* ------------------------------------------------------------------ comparison *)
Definition lit_rank (l : lit) : N :=
  match l with LInt _ => 0 | LStr _ => 1 | LDate _ => 2 | LBytes _ => 3 | LBool _ => 4 | LNull => 5 end%N.

Definition lit_cmp (a b : lit) : comparison :=
  match a, b with
  | LInt i, LInt j => Z.compare i j
  | LStr s, LStr t => bytes_cmp s t
  | LDate i, LDate j => Z.compare i j
  | LBytes s, LBytes t => bytes_cmp s t
  | LBool x, LBool y => bool_cmp x y
  | LNull, LNull => Eq
  | _, _ => N.compare (lit_rank a) (lit_rank b)
  end.

Definition pkey_cmp (a b : pkey) : comparison :=
  match a, b with
  | PKInt i, PKInt j => Z.compare i j
  | PKInt _, _ => Lt
  | _, PKInt _ => Gt
  | PKStr s, PKStr t => bytes_cmp s t
  | PKStr _, PKParam _ => Lt
  | PKParam _, PKStr _ => Gt
  | PKParam s, PKParam t => bytes_cmp s t
  end.

Definition ckind_cmp (a b : ckind) : comparison :=
  match a, b with CSet, CSet | CArray, CArray => Eq | CSet, CArray => Lt | CArray, CSet => Gt end.

Definition prank (t : pterm) : N :=
  match t with PVar _ => 0 | PLit _ => 1 | PParam _ => 2 | PColl _ _ => 3 | PMap _ => 4 end%N.

Fixpoint pterm_cmp (a b : pterm) {struct a} : comparison :=
  let fix list_cmp (l m : list pterm) {struct l} : comparison :=
    match l, m with
    | [], [] => Eq
    | [], _ => Lt
    | _, [] => Gt
    | x :: l', y :: m' => match pterm_cmp x y with Eq => list_cmp l' m' | c => c end
    end in
  let fix map_cmp (l m : list (pkey * pterm)) {struct l} : comparison :=
    match l, m with
    | [], [] => Eq
    | [], _ => Lt
    | _, [] => Gt
    | (k, x) :: l', (k', y) :: m' =>
        match pkey_cmp k k' with
        | Eq => match pterm_cmp x y with Eq => map_cmp l' m' | c => c end
        | c => c
        end
    end in
  match a, b with
  | PVar s, PVar t => bytes_cmp s t
  | PLit x, PLit y => lit_cmp x y
  | PParam s, PParam t => bytes_cmp s t
  | PColl k l, PColl k' m => match ckind_cmp k k' with Eq => list_cmp l m | c => c end
  | PMap l, PMap m => map_cmp l m
  | _, _ => N.compare (prank a) (prank b)
  end.

Definition is_eq (c : comparison) : bool := match c with Eq => true | _ => false end.
Definition pterm_eqb (a b : pterm) : bool := is_eq (pterm_cmp a b).
Definition pkey_eqb (a b : pkey) : bool := is_eq (pkey_cmp a b).

(* ------------------------------------------------------------------ canonical sets/maps *)
(* BTreeSet::insert: an equal element is kept as it is *)
Fixpoint tinsert (x : pterm) (l : list pterm) : list pterm :=
  match l with
  | [] => [x]
  | y :: l' => match pterm_cmp x y with
               | Lt => x :: l
               | Eq => l
               | Gt => y :: tinsert x l'
               end
  end.

(* BTreeMap::insert: an equal key gets the new value *)
Fixpoint kinsert (kv : pkey * pterm) (l : list (pkey * pterm)) : list (pkey * pterm) :=
  match l with
  | [] => [kv]
  | (k', v') :: l' => match pkey_cmp (fst kv) k' with
                      | Lt => kv :: l
                      | Eq => (k', snd kv) :: l'
                      | Gt => (k', v') :: kinsert kv l'
                      end
  end.

Definition set_of (l : list pterm) : list pterm := fold_left (fun acc x => tinsert x acc) l [].
Definition map_of (l : list (pkey * pterm)) : list (pkey * pterm) :=
  fold_left (fun acc kv => kinsert kv acc) l [].

Fixpoint canon (t : pterm) : pterm :=
  match t with
  | PColl CSet l => PColl CSet (set_of (map canon l))
  | PColl CArray l => PColl CArray (map canon l)
  | PMap l => PMap (map_of (map (fun kv => (fst kv, canon (snd kv))) l))
  | _ => t
  end.

(* ------------------------------------------------------------------ generic traversal *)
Fixpoint op_map (f : pterm -> pterm) (o : pop) : pop :=
  match o with
  | POVal t => POVal (f t)
  | POClo ps body => POClo ps (map (op_map f) body)
  | _ => o
  end.

Definition pred_map (f : pterm -> pterm) (p : ppred) : ppred := (fst p, map f (snd p)).

Definition rskel_map (f : pterm -> pterm) (g : pscope -> pscope) (r : rskel) : rskel :=
  let '(h, b, e, s) := r in
  (pred_map f h, map (pred_map f) b, map (map (op_map f)) e, map g s).

Definition iskel_map (f : pterm -> pterm) (g : pscope -> pscope) (i : iskel) : iskel :=
  match i with
  | IFact p => IFact (pred_map f p)
  | IRule r => IRule (rskel_map f g r)
  | ICheck k qs => ICheck k (map (rskel_map f g) qs)
  | IPolicy k qs => IPolicy k (map (rskel_map f g) qs)
  end.

(* ------------------------------------------------------------------ Spec: substitution *)
Definition tenv := name -> option pterm.     (* term parameters *)
Definition senv := name -> option bytes.     (* scope parameters: public keys *)

Definition key_of_term (t : pterm) : option pkey :=
  match t with
  | PLit (LInt i) => Some (PKInt i)
  | PLit (LStr s) => Some (PKStr s)
  | _ => None
  end.

(* a key position can only hold an integer or a string: other values leave the
   placeholder (validation must then refuse the item) *)
Definition subst_key (s : tenv) (k : pkey) : pkey :=
  match k with
  | PKParam n => match s n with
                 | Some v => match key_of_term v with Some k' => k' | None => k end
                 | None => k
                 end
  | _ => k
  end.

Fixpoint subst (s : tenv) (t : pterm) : pterm :=
  match t with
  | PParam n => match s n with Some v => v | None => t end
  | PColl k l => PColl k (map (subst s) l)
  | PMap l => PMap (map (fun kv => (subst_key s (fst kv), subst s (snd kv))) l)
  | _ => t
  end.

Definition subst_scope (k : senv) (sc : pscope) : pscope :=
  match sc with
  | SParam n => match k n with Some key => SKey key | None => sc end
  | _ => sc
  end.

Definition subst_item (s : tenv) (k : senv) (i : iskel) : iskel :=
  iskel_map (subst s) (subst_scope k) i.

(* ------------------------------------------------------------------ Spec: shape *)
(* The structure of an item with the leaves erased: predicate names and arities, the
   operator tree (op lists with their operators and closure parameters), collection
   kinds and sizes, key kinds, scope kinds.  A parameter leaf stays visible as a hole
   carrying its name, so that "up to parameter leaves becoming value leaves" is the
   grafting of the value's shape into the hole. *)
Inductive kshape := KSInt | KSStr | KSHole (n : name).

Inductive tshape :=
| TSLeaf                                   (* variable or literal: content erased *)
| TSHole (n : name)
| TSColl (k : ckind) (l : list tshape)
| TSMap (l : list (kshape * tshape)).

Definition key_shape (k : pkey) : kshape :=
  match k with PKInt _ => KSInt | PKStr _ => KSStr | PKParam n => KSHole n end.

Fixpoint shape (t : pterm) : tshape :=
  match t with
  | PVar _ | PLit _ => TSLeaf
  | PParam n => TSHole n
  | PColl k l => TSColl k (map shape l)
  | PMap l => TSMap (map (fun kv => (key_shape (fst kv), shape (snd kv))) l)
  end.

Definition graft_key (s : tenv) (k : kshape) : kshape :=
  match k with
  | KSHole n => match s n with
                | Some v => match key_of_term v with Some k' => key_shape k' | None => k end
                | None => k
                end
  | _ => k
  end.

Fixpoint graft (s : tenv) (t : tshape) : tshape :=
  match t with
  | TSHole n => match s n with Some v => shape v | None => t end
  | TSColl k l => TSColl k (map (graft s) l)
  | TSMap l => TSMap (map (fun kv => (graft_key s (fst kv), graft s (snd kv))) l)
  | TSLeaf => TSLeaf
  end.

Inductive opshape :=
| OSVal (t : tshape) | OSUn (u : unary) | OSBin (b : binary) | OSClo (ps : list name) (body : list opshape).

Fixpoint op_shape (o : pop) : opshape :=
  match o with
  | POVal t => OSVal (shape t)
  | POUn u => OSUn u
  | POBin b => OSBin b
  | POClo ps body => OSClo ps (map op_shape body)
  end.

Fixpoint op_graft (s : tenv) (o : opshape) : opshape :=
  match o with
  | OSVal t => OSVal (graft s t)
  | OSClo ps body => OSClo ps (map (op_graft s) body)
  | _ => o
  end.

Inductive scshape := SSAuthority | SSPrevious | SSKey | SSHole (n : name).

Definition scope_shape (s : pscope) : scshape :=
  match s with SAuthority => SSAuthority | SPrevious => SSPrevious | SKey _ => SSKey | SParam n => SSHole n end.

Definition scope_graft (k : senv) (s : scshape) : scshape :=
  match s with SSHole n => match k n with Some _ => SSKey | None => s end | _ => s end.

Definition pshape : Type := name * list tshape.
Definition rshape : Type := pshape * list pshape * list (list opshape) * list scshape.

Inductive ishape :=
| ISFact (p : pshape)
| ISRule (r : rshape)
| ISCheck (k : chkind) (qs : list rshape)
| ISPolicy (k : polkind) (qs : list rshape).

Definition pred_shape (p : ppred) : pshape := (fst p, map shape (snd p)).
Definition pred_graft (s : tenv) (p : pshape) : pshape := (fst p, map (graft s) (snd p)).

Definition rskel_shape (r : rskel) : rshape :=
  let '(h, b, e, s) := r in
  (pred_shape h, map pred_shape b, map (map op_shape) e, map scope_shape s).

Definition rshape_graft (s : tenv) (k : senv) (r : rshape) : rshape :=
  let '(h, b, e, sc) := r in
  (pred_graft s h, map (pred_graft s) b, map (map (op_graft s)) e, map (scope_graft k) sc).

Definition item_shape (i : iskel) : ishape :=
  match i with
  | IFact p => ISFact (pred_shape p)
  | IRule r => ISRule (rskel_shape r)
  | ICheck k qs => ISCheck k (map rskel_shape qs)
  | IPolicy k qs => ISPolicy k (map rskel_shape qs)
  end.

Definition ishape_graft (s : tenv) (k : senv) (i : ishape) : ishape :=
  match i with
  | ISFact p => ISFact (pred_graft s p)
  | ISRule r => ISRule (rshape_graft s k r)
  | ISCheck c qs => ISCheck c (map (rshape_graft s k) qs)
  | ISPolicy c qs => ISPolicy c (map (rshape_graft s k) qs)
  end.

(* a value whose shape is a single leaf: integer, string, date, bytes, bool, null (and
   variables) -- "whatever bytes the value contains" *)
Definition is_scalar (t : pterm) : bool :=
  match t with PVar _ | PLit _ => true | _ => false end.

(* ------------------------------------------------------------------ parameter occurrences *)
Definition key_params (k : pkey) : list name := match k with PKParam n => [n] | _ => [] end.

(* Term::extract_parameters (same code in both crates): fully recursive, map keys included *)
Fixpoint term_params (t : pterm) : list name :=
  match t with
  | PParam n => [n]
  | PColl _ l => flat_map term_params l
  | PMap l => flat_map (fun kv => key_params (fst kv) ++ term_params (snd kv)) l
  | _ => []
  end.

(* parameters in map-key positions *)
Fixpoint term_key_params (t : pterm) : list name :=
  match t with
  | PColl _ l => flat_map term_key_params l
  | PMap l => flat_map (fun kv => key_params (fst kv) ++ term_key_params (snd kv)) l
  | _ => []
  end.

(* Op::collect_parameters.  recv = true: parser crate (Op::Value(term) => term.extract_parameters);
   recv = false: biscuit-auth (only Op::Value(Term::Parameter(name))).  Closures are
   entered by both. *)
Fixpoint op_params (recv : bool) (o : pop) : list name :=
  match o with
  | POVal t => if recv then term_params t else match t with PParam n => [n] | _ => [] end
  | POClo _ body => flat_map (op_params recv) body
  | _ => []
  end.

Fixpoint op_key_params (o : pop) : list name :=
  match o with
  | POVal t => term_key_params t
  | POClo _ body => flat_map op_key_params body
  | _ => []
  end.

Definition pred_params (p : ppred) : list name := flat_map term_params (snd p).
Definition pred_key_params (p : ppred) : list name := flat_map term_key_params (snd p).

Definition rskel_term_params (recv : bool) (r : rskel) : list name :=
  let '(h, b, e, _) := r in
  pred_params h ++ flat_map pred_params b ++ flat_map (flat_map (op_params recv)) e.

Definition rskel_key_params (r : rskel) : list name :=
  let '(h, b, e, _) := r in
  pred_key_params h ++ flat_map pred_key_params b ++ flat_map (flat_map op_key_params) e.

Definition scope_params (l : list pscope) : list name :=
  flat_map (fun s => match s with SParam n => [n] | _ => [] end) l.

Definition rskel_scope_params (r : rskel) : list name := let '(_, _, _, s) := r in scope_params s.

(* does a Parameter leaf (term, key or scope) remain? *)
Definition term_closed (t : pterm) : bool := match term_params t with [] => true | _ => false end.
Definition rskel_closed (r : rskel) : bool :=
  match rskel_term_params true r ++ rskel_scope_params r with [] => true | _ => false end.
Definition iskel_closed (i : iskel) : bool :=
  match i with
  | IFact p => match pred_params p with [] => true | _ => false end
  | IRule r => rskel_closed r
  | ICheck _ qs | IPolicy _ qs => forallb rskel_closed qs
  end.

(* ------------------------------------------------------------------ parameter maps *)
(* HashMap<String, Option<T>> as an association list with distinct keys (order of first
   insertion; the order is never observable) *)
Definition amap (A : Type) := list (name * option A).
Definition pmap := amap pterm.
Definition smap := amap bytes.

Fixpoint alookup {A} (n : name) (m : amap A) : option (option A) :=
  match m with
  | [] => None
  | (k, v) :: m' => if bytes_eqb n k then Some v else alookup n m'
  end.

Definition amem {A} (n : name) (m : amap A) : bool :=
  match alookup n m with Some _ => true | None => false end.

(* parameters.insert(name, None) *)
Fixpoint adeclare {A} (n : name) (m : amap A) : amap A :=
  match m with
  | [] => [(n, None)]
  | (k, v) :: m' => if bytes_eqb n k then (k, None) :: m' else (k, v) :: adeclare n m'
  end.

Definition amap_of {A} (ns : list name) : amap A := fold_left (fun m n => adeclare n m) ns [].

(* *v = Some(term) on an existing entry *)
Fixpoint aupdate {A} (n : name) (v : A) (m : amap A) : amap A :=
  match m with
  | [] => []
  | (k, x) :: m' => if bytes_eqb n k then (k, Some v) :: m' else (k, x) :: aupdate n v m'
  end.

Definition abound {A} (n : name) (m : amap A) : option A :=
  match alookup n m with Some (Some v) => Some v | _ => None end.

Definition aunbound {A} (m : amap A) : list name :=
  flat_map (fun kv => match snd kv with None => [fst kv] | Some _ => [] end) m.

Definition tenv_of (m : option pmap) : tenv := fun n => match m with Some l => abound n l | None => None end.
Definition senv_of (m : option smap) : senv := fun n => match m with Some l => abound n l | None => None end.

(* ------------------------------------------------------------------ items with their maps *)
Inductive pfact := Fact (p : ppred) (m : option pmap).
Inductive prule := Rule (r : rskel) (m : option pmap) (sm : option smap).

Inductive istate :=
| StFact (f : pfact)
| StRule (r : prule)
| StCheck (k : chkind) (qs : list prule)
| StPolicy (k : polkind) (qs : list prule).

Definition rule_skel (r : prule) : rskel := let 'Rule s _ _ := r in s.
Definition rule_pmap (r : prule) : option pmap := let 'Rule _ m _ := r in m.
Definition rule_smap (r : prule) : option smap := let 'Rule _ _ sm := r in sm.

Definition state_skel (s : istate) : iskel :=
  match s with
  | StFact (Fact p _) => IFact p
  | StRule r => IRule (rule_skel r)
  | StCheck k qs => ICheck k (map rule_skel qs)
  | StPolicy k qs => IPolicy k (map rule_skel qs)
  end.

(* ------------------------------------------------------------------ the three switches *)
Inductive cfg := Cfg (rec_collect rec_subst key_check : bool).
Definition rec_collect (c : cfg) := let 'Cfg a _ _ := c in a.
Definition rec_subst (c : cfg) := let 'Cfg _ b _ := c in b.
Definition key_check (c : cfg) := let 'Cfg _ _ k := c in k.

Definition faithful : cfg := Cfg false false false.
Definition repaired : cfg := Cfg true true true.

(* ------------------------------------------------------------------ construction *)
(* MNew    : biscuit-auth's Fact::new / Rule::new (builder API, and what the macros expand to)
   MParsed : the parser crate's Fact::new / Rule::new followed by From<parser item>
             (Fact::try_from(&str), code_with_params, ...)
   MNone   : parameters: None (convert_from; the fields are public) *)
Inductive cmode := MNew | MParsed | MNone.

Definition fact_new (mode : cmode) (p : ppred) : pfact :=
  match mode with
  | MNone => Fact p None
  | _ => Fact p (Some (amap_of (pred_params p)))
  end.

Definition collect_recv (c : cfg) (mode : cmode) : bool :=
  match mode with MParsed => true | _ => rec_collect c end.

Definition rule_new (c : cfg) (mode : cmode) (r : rskel) : prule :=
  match mode with
  | MNone => Rule r None None
  | _ => Rule r (Some (amap_of (rskel_term_params (collect_recv c mode) r)))
                (Some (amap_of (rskel_scope_params r)))
  end.

Definition construct (c : cfg) (mode : cmode) (i : iskel) : istate :=
  match i with
  | IFact p => StFact (fact_new mode p)
  | IRule r => StRule (rule_new c mode r)
  | ICheck k qs => StCheck k (map (rule_new c mode) qs)
  | IPolicy k qs => StPolicy k (map (rule_new c mode) qs)
  end.

(* ------------------------------------------------------------------ set / set_lenient / set_scope *)
Inductive perr := EUnused (n : name) | EMissing (ns : list name).

(* Fact::set, Rule::set, Rule::set_scope (strict = true) and the _lenient forms *)
Definition amap_set {A} (strict : bool) (n : name) (v : A) (m : option (amap A))
  : option (amap A) * option perr :=
  match m with
  | None => (None, Some (EUnused n))
  | Some l =>
      if amem n l then (Some (aupdate n v l), None)
      else (Some l, if strict then Some (EUnused n) else None)
  end.

Definition fact_set (strict : bool) (n : name) (v : pterm) (f : pfact) : pfact * option perr :=
  let 'Fact p m := f in
  let (m', e) := amap_set strict n v m in (Fact p m', e).

Definition rule_set (strict : bool) (n : name) (v : pterm) (r : prule) : prule * option perr :=
  let 'Rule s m sm := r in
  let (m', e) := amap_set strict n v m in (Rule s m' sm, e).

Definition rule_set_scope (strict : bool) (n : name) (k : bytes) (r : prule) : prule * option perr :=
  let 'Rule s m sm := r in
  let (sm', e) := amap_set strict n k sm in (Rule s m sm', e).

(* Check::set / Policy::set / set_scope: every query is tried; Ok iff one accepted *)
Definition queries_set_strict (f : prule -> prule * option perr) (n : name) (qs : list prule)
  : list prule * option perr :=
  let rs := map f qs in
  (map fst rs,
   if existsb (fun r => match snd r with None => true | Some _ => false end) rs
   then None else Some (EUnused n)).

(* Check::set_lenient / set_scope_lenient: `?` stops at the first error, earlier queries
   stay modified *)
Fixpoint queries_set_lenient (f : prule -> prule * option perr) (qs : list prule)
  : list prule * option perr :=
  match qs with
  | [] => ([], None)
  | q :: qs' =>
      match f q with
      | (q', None) => let (r, e) := queries_set_lenient f qs' in (q' :: r, e)
      | (q', Some e) => (q' :: qs', Some e)
      end
  end.

Definition queries_set (strict : bool) (f : bool -> prule -> prule * option perr) (n : name)
  (qs : list prule) : list prule * option perr :=
  if strict then queries_set_strict (f true) n qs else queries_set_lenient (f false) qs.

Definition state_set (strict : bool) (n : name) (v : pterm) (s : istate) : istate * option perr :=
  match s with
  | StFact f => let (f', e) := fact_set strict n v f in (StFact f', e)
  | StRule r => let (r', e) := rule_set strict n v r in (StRule r', e)
  | StCheck k qs =>
      let (qs', e) := queries_set strict (fun st => rule_set st n v) n qs in (StCheck k qs', e)
  | StPolicy k qs =>
      let (qs', e) := queries_set strict (fun st => rule_set st n v) n qs in (StPolicy k qs', e)
  end.

(* facts have no scope parameters: Fact has no set_scope; the macro form ignores a key *)
Definition state_set_scope (strict : bool) (n : name) (k : bytes) (s : istate)
  : istate * option perr :=
  match s with
  | StFact f => (StFact f, None)
  | StRule r => let (r', e) := rule_set_scope strict n k r in (StRule r', e)
  | StCheck c qs =>
      let (qs', e) := queries_set strict (fun st => rule_set_scope st n k) n qs in (StCheck c qs', e)
  | StPolicy c qs =>
      let (qs', e) := queries_set strict (fun st => rule_set_scope st n k) n qs in (StPolicy c qs', e)
  end.

(* ------------------------------------------------------------------ validation *)
(* map-key parameters whose bound value cannot be a key *)
Definition bad_keys (m : pmap) (keys : list name) : list name :=
  filter (fun n => match abound n m with
                   | Some v => match key_of_term v with Some _ => false | None => true end
                   | None => false
                   end) keys.

Definition missing_err (l : list name) : option perr :=
  match l with [] => None | _ => Some (EMissing l) end.

(* Fact::validate *)
Definition fact_validate (c : cfg) (f : pfact) : option perr :=
  let 'Fact p m := f in
  match m with
  | None => None
  | Some l => missing_err (aunbound l ++ if key_check c then bad_keys l (pred_key_params p) else [])
  end.

(* Rule::validate_parameters *)
Definition rule_validate (c : cfg) (r : prule) : option perr :=
  let 'Rule s m sm := r in
  missing_err
    (match m with
     | None => []
     | Some l => aunbound l ++ if key_check c then bad_keys l (rskel_key_params s) else []
     end
     ++ match sm with None => [] | Some l => aunbound l end).

(* Check/Policy::validate_parameters: the first failing query decides *)
Fixpoint queries_validate (c : cfg) (qs : list prule) : option perr :=
  match qs with
  | [] => None
  | q :: qs' => match rule_validate c q with Some e => Some e | None => queries_validate c qs' end
  end.

Definition state_validate (c : cfg) (s : istate) : option perr :=
  match s with
  | StFact f => fact_validate c f
  | StRule r => rule_validate c r
  | StCheck _ qs | StPolicy _ qs => queries_validate c qs
  end.

(* ------------------------------------------------------------------ apply_parameters *)
(* Term::apply_parameters (pure part; the BTree rebuilds are in [canon]) *)
Definition term_apply (m : pmap) (t : pterm) : pterm := subst (fun n => abound n m) t.

(* what Rule::apply_parameters does to a head/body term *)
Definition top_apply (m : pmap) (t : pterm) : pterm :=
  match t with
  | PParam n => match abound n m with Some v => v | None => t end
  | _ => t
  end.

Definition rule_term_apply (c : cfg) (m : pmap) : pterm -> pterm :=
  if rec_subst c then term_apply m else top_apply m.

Definition fact_apply (f : pfact) : ppred :=
  let 'Fact p m := f in
  match m with
  | None => p
  | Some l => pred_map (term_apply l) p
  end.

Definition rule_apply (c : cfg) (r : prule) : rskel :=
  let 'Rule s m sm := r in
  rskel_map (match m with Some l => rule_term_apply c l | None => fun t => t end)
            (match sm with Some l => subst_scope (fun n => abound n l) | None => fun x => x end)
            s.

(* ------------------------------------------------------------------ conversion *)
(* Convert::convert: apply_parameters on a clone, then the Datalog form; a remaining
   Parameter (term, map key, scope) panics: None *)
Definition convert_fact (f : pfact) : option ppred :=
  let p := pred_map canon (fact_apply f) in
  match pred_params p with [] => Some p | _ => None end.

Definition convert_rule (c : cfg) (r : prule) : option rskel :=
  let s := rskel_map canon (fun x => x) (rule_apply c r) in
  if rskel_closed s then Some s else None.

Fixpoint convert_queries (c : cfg) (qs : list prule) : option (list rskel) :=
  match qs with
  | [] => Some []
  | q :: qs' =>
      match convert_rule c q with
      | None => None
      | Some s => match convert_queries c qs' with None => None | Some l => Some (s :: l) end
      end
  end.

Definition state_convert (c : cfg) (s : istate) : option iskel :=
  match s with
  | StFact f => match convert_fact f with Some p => Some (IFact p) | None => None end
  | StRule r => match convert_rule c r with Some s => Some (IRule s) | None => None end
  | StCheck k qs => match convert_queries c qs with Some l => Some (ICheck k l) | None => None end
  | StPolicy k qs => match convert_queries c qs with Some l => Some (IPolicy k l) | None => None end
  end.

(* ------------------------------------------------------------------ API calls on an item *)
Inductive anyparam := APTerm (t : pterm) | APKey (k : bytes).

Inductive cmd :=
| CmdSet (n : name) (v : pterm)
| CmdSetLenient (n : name) (v : pterm)
| CmdSetScope (n : name) (k : bytes)
| CmdSetScopeLenient (n : name) (k : bytes)
| CmdMacro (n : name) (v : anyparam)      (* set_macro_param *)
| CmdIgn (n : name) (v : pterm)           (* code_with_params: set, "unused" swallowed *)
| CmdIgnScope (n : name) (k : bytes).     (* code_with_params: set_scope, "unused" swallowed *)

Definition swallow (r : istate * option perr) : istate * option perr :=
  match r with
  | (s, Some (EUnused _)) => (s, None)
  | _ => r
  end.

Definition run_cmd (s : istate) (c : cmd) : istate * option perr :=
  match c with
  | CmdSet n v => state_set true n v s
  | CmdSetLenient n v => state_set false n v s
  | CmdSetScope n k => state_set_scope true n k s
  | CmdSetScopeLenient n k => state_set_scope false n k s
  | CmdMacro n (APTerm v) => state_set false n v s
  | CmdMacro n (APKey k) => state_set_scope false n k s
  | CmdIgn n v => swallow (state_set true n v s)
  | CmdIgnScope n k => swallow (state_set_scope true n k s)
  end.

Fixpoint run_cmds (s : istate) (cs : list cmd) : istate * list (option perr) :=
  match cs with
  | [] => (s, [])
  | c :: cs' =>
      let (s', e) := run_cmd s c in
      let (s'', es) := run_cmds s' cs' in
      (s'', e :: es)
  end.

(* ------------------------------------------------------------------ the two binding strategies (C18) *)
(* names the parser crate attributes to an item (Item::fact / rule_params in biscuit-quote) *)
Definition rskel_names (r : rskel) : list name := rskel_term_params true r ++ rskel_scope_params r.
Definition item_names (i : iskel) : list name :=
  match i with
  | IFact p => pred_params p
  | IRule r => rskel_names r
  | ICheck _ qs | IPolicy _ qs => flat_map rskel_names qs
  end.

Definition nmem (n : name) (l : list name) : bool := existsb (bytes_eqb n) l.

(* macro expansion: the item is rebuilt with biscuit-auth's constructors, then
   set_macro_param is emitted for the supplied parameters the item names *)
Definition macro_bind (c : cfg) (i : iskel) (bs : list (name * anyparam)) : istate * list (option perr) :=
  run_cmds (construct c MNew i)
           (map (fun b => CmdMacro (fst b) (snd b)) (filter (fun b => nmem (fst b) (item_names i)) bs)).

(* code_with_params: parsed item, loop over every supplied parameter *)
Definition runtime_bind (c : cfg) (i : iskel) (bs : list (name * anyparam)) : istate * list (option perr) :=
  run_cmds (construct c MParsed i)
           (map (fun b => match snd b with
                          | APTerm v => CmdIgn (fst b) v
                          | APKey k => CmdIgnScope (fst b) k
                          end) bs).

(* Authorizer: loading a token's blocks into a world, the decision procedure and queries.
   Mirrors token/builder/authorizer.rs (build_inner, load_and_translate_block) and
   token/authorizer.rs (authorize_inner, query_inner, query_all_inner).  Written from
   DESIGN.md Appendix D.2 / D.3. *)
From Biscuit Require Export Model.Datalog.

Inductive check_kind := CkOne | CkAll | CkReject.
Record check := mkcheck { ckind : check_kind; cqueries : list rule }.
Inductive policy_kind := PAllow | PDeny.
Record policy := mkpolicy { pkind : policy_kind; pqueries : list rule }.

(* a block as loaded: contents plus the index of its external key (third-party blocks) *)
Record block := mkblock {
  bfacts : list fact;
  brules : list rule;
  bchecks : list check;
  bscopes : list scope;
  bext : option N
}.

Record authorizer := mkauth {
  afacts : list fact;
  arules : list rule;
  achecks : list check;
  apolicies : list policy;
  ascopes : list scope
}.

Definition token := list block.      (* authority block first *)

(* external key index -> blocks carrying an external signature by that key (never block 0) *)
Fixpoint keymap_add (k b : N) (m : keymap) : keymap :=
  match m with
  | [] => [(k, [b])]
  | (k', bs) :: m' => if N.eqb k k' then (k', bs ++ [b]) :: m' else (k', bs) :: keymap_add k b m'
  end.

Fixpoint build_keymap (i : N) (bs : list block) (m : keymap) : keymap :=
  match bs with
  | [] => m
  | b :: bs' =>
      build_keymap (N.succ i) bs'
        (match bext b with
         | Some k => if N.eqb i 0 then m else keymap_add k i m
         | None => m
         end)
  end.

Definition token_keymap (t : token) : keymap := build_keymap 0 t [].

Definition block_trust (km : keymap) (i : N) (b : block) : origin :=
  from_scopes (bscopes b) default_trust i km.

Definition auth_trust (km : keymap) (a : authorizer) : origin :=
  from_scopes (ascopes a) default_trust auth_id km.

(* facts and rules a block contributes to the world *)
Definition block_facts (i : N) (b : block) : list ofact := map (fun f => ([i], f)) (bfacts b).
Definition block_rules (km : keymap) (i : N) (b : block) : list rule_entry :=
  map (fun r => mkentry (from_scopes (rscopes r) (block_trust km i b) i km) i r) (brules b).

Fixpoint load_blocks (km : keymap) (i : N) (bs : list block) : list ofact * list rule_entry :=
  match bs with
  | [] => ([], [])
  | b :: bs' =>
      let '(fs, rs) := load_blocks km (N.succ i) bs' in
      (block_facts i b ++ fs, block_rules km i b ++ rs)
  end.

Definition load (t : token) (a : authorizer) : world :=
  let km := token_keymap t in
  let '(fs, rs) := load_blocks km 0 t in
  mkworld
    (merge [] (fs ++ map (fun f => ([auth_id], f)) (afacts a)))
    (rs ++ map (fun r => mkentry (from_scopes (rscopes r) (auth_trust km a) auth_id km) auth_id r)
               (arules a)).

(* ---- checks ---- *)
Inductive failed := FAuth (i : N) | FBlock (b i : N).

Inductive outcome :=
| OAllow (i : N)                                  (* Ok(i): allow policy i matched, no failed check *)
| ONoPolicy (fails : list failed)                 (* NoMatchingPolicy *)
| ORefused (allowed : bool) (i : N) (fails : list failed)   (* Unauthorized{Allow(i)|Deny(i)} *)
| OExec (e : err)                                 (* Execution(e) *)
| OLimit (e : run_error).                         (* RunLimit *)

Section Decide.
Variable orc : oracles.
(* [reject_all]: true = `reject if` passes only when NONE of its alternatives matches (the
   property); false = the first alternative without a match makes it pass (biscuit-rust
   before the fix, kept to replay the finding). *)
Variable reject_all : bool.

Definition query_holds (k : check_kind) (facts : list ofact) (tr : origin) (q : rule) : res bool :=
  match k with
  | CkOne => find_match orc facts tr q
  | CkAll => check_match_all orc facts tr q
  | CkReject => match find_match orc facts tr q with Ok b => Ok (negb b) | Err e => Err e end
  end.

(* alternatives are tried in order; the first one that holds decides *)
Fixpoint any_query (k : check_kind) (facts : list ofact) (default : origin) (cur : N) (km : keymap)
         (qs : list rule) : res bool :=
  match qs with
  | [] => Ok false
  | q :: qs' =>
      match query_holds k facts (from_scopes (rscopes q) default cur km) q with
      | Err e => Err e
      | Ok true => Ok true
      | Ok false => any_query k facts default cur km qs'
      end
  end.

(* every alternative must hold (used for reject-if under [reject_all]) *)
Fixpoint all_queries (k : check_kind) (facts : list ofact) (default : origin) (cur : N) (km : keymap)
         (qs : list rule) : res bool :=
  match qs with
  | [] => Ok true
  | q :: qs' =>
      match query_holds k facts (from_scopes (rscopes q) default cur km) q with
      | Err e => Err e
      | Ok false => Ok false
      | Ok true => all_queries k facts default cur km qs'
      end
  end.

Definition check_passes (facts : list ofact) (default : origin) (cur : N) (km : keymap) (c : check)
  : res bool :=
  match ckind c with
  | CkReject => if reject_all
                then match cqueries c with
                     | [] => Ok false        (* no alternative at all never succeeds *)
                     | _ => all_queries CkReject facts default cur km (cqueries c)
                     end
                else any_query CkReject facts default cur km (cqueries c)
  | k => any_query k facts default cur km (cqueries c)
  end.

(* failed checks of one block, in order; an execution error aborts *)
Fixpoint run_checks (facts : list ofact) (default : origin) (cur : N) (km : keymap)
         (mk : N -> failed) (j : N) (cs : list check) : res (list failed) :=
  match cs with
  | [] => Ok []
  | c :: cs' =>
      match check_passes facts default cur km c with
      | Err e => Err e
      | Ok ok =>
          match run_checks facts default cur km mk (N.succ j) cs' with
          | Err e => Err e
          | Ok l => Ok (if ok then l else mk j :: l)
          end
      end
  end.

(* first policy with a matching alternative *)
Fixpoint run_policies (facts : list ofact) (default : origin) (km : keymap) (i : N) (ps : list policy)
  : res (option (policy_kind * N)) :=
  match ps with
  | [] => Ok None
  | p :: ps' =>
      match any_query CkOne facts default auth_id km (pqueries p) with
      | Err e => Err e
      | Ok true => Ok (Some (pkind p, i))
      | Ok false => run_policies facts default km (N.succ i) ps'
      end
  end.

Fixpoint run_block_checks (facts : list ofact) (km : keymap) (i : N) (bs : list block)
  : res (list failed) :=
  match bs with
  | [] => Ok []
  | b :: bs' =>
      match run_checks facts (block_trust km i b) i km (FBlock i) 0 (bchecks b) with
      | Err e => Err e
      | Ok l => match run_block_checks facts km (N.succ i) bs' with
                | Err e => Err e
                | Ok l' => Ok (l ++ l')
                end
      end
  end.

(* authorize_inner on a saturated world: authorizer checks, authority checks, policies,
   then the checks of blocks 1..n *)
Definition decide (facts : list ofact) (t : token) (a : authorizer) : outcome :=
  let km := token_keymap t in
  let atr := auth_trust km a in
  match run_checks facts atr auth_id km FAuth 0 (achecks a) with
  | Err e => OExec e
  | Ok f1 =>
    match run_block_checks facts km 0 (firstn 1 t) with
    | Err e => OExec e
    | Ok f2 =>
      match run_policies facts atr km 0 (apolicies a) with
      | Err e => OExec e
      | Ok pol =>
        match run_block_checks facts km 1 (skipn 1 t) with
        | Err e => OExec e
        | Ok f3 =>
            let fails := f1 ++ f2 ++ f3 in
            match pol, fails with
            | Some (PAllow, i), [] => OAllow i
            | None, _ => ONoPolicy fails
            | Some (PAllow, i), _ => ORefused true i fails
            | Some (PDeny, i), _ => ORefused false i fails
            end
        end
      end
    end
  end.

(* limits: (max_facts, max_iterations); fuel for the loop is max_iterations when small enough *)
Definition authorize_world (fuel : nat) (max_facts max_iter : N) (t : token) (a : authorizer)
  : outcome * list ofact :=
  let W := load t a in
  match run_loop orc fuel max_iter max_facts 0 (w_rules W) (w_facts W) with
  | (RErr (RunExpr e), _) => (OExec e, w_facts W)
  | (RErr e, _) => (OLimit e, w_facts W)
  | (ROk (fs, _), _) => (decide fs t a, fs)
  end.

(* queries: Authorizer::query (authority + authorizer unless scoped) and query_all *)
Definition query_trust (km : keymap) (q : rule) : origin :=
  from_scopes (rscopes q) default_trust auth_id km.

Definition query_all_trust (km : keymap) (nblocks : nat) (q : rule) : origin :=
  match rscopes q with
  | [] => from_scopes [ScPrevious] default_trust (N.of_nat nblocks) km
  | _ => from_scopes (rscopes q) default_trust auth_id km
  end.

Definition dedup_facts (l : list ofact) : list fact :=
  fold_left (fun acc of => if existsb (fact_eqb (snd of)) acc then acc else acc ++ [snd of]) l [].

(* Authorizer::query returns one answer per distinct (origin, fact) pair of the result (the same
   fact derived under two origin sets is listed twice); query_all keeps distinct facts *)
Definition query (facts : list ofact) (t : token) (q : rule) : res (list fact) :=
  match query_rule orc facts (query_trust (token_keymap t) q) auth_id q with
  | Ok l => Ok (map snd l)
  | Err e => Err e
  end.

Definition query_all (facts : list ofact) (t : token) (q : rule) : res (list fact) :=
  match query_rule orc facts (query_all_trust (token_keymap t) (length t) q) 0 q with
  | Ok l => Ok (dedup_facts l)
  | Err e => Err e
  end.

End Decide.

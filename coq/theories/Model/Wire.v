(* Protobuf wire format of the container messages of a token:

     Biscuit { optional uint32 rootKeyId = 1; required SignedBlock authority = 2;
               repeated SignedBlock blocks = 3; required Proof proof = 4 }
     SignedBlock { required bytes block = 1; required PublicKey nextKey = 2;
                   required bytes signature = 3; optional ExternalSignature externalSignature = 4;
                   optional uint32 version = 5 }
     ExternalSignature { required bytes signature = 1; required PublicKey publicKey = 2 }
     PublicKey { required Algorithm algorithm = 1 (enum, int32 on the wire); required bytes key = 2 }
     Proof { oneof Content { bytes nextSecret = 1; bytes finalSignature = 2 } }

   (biscuit-auth/src/format/schema.proto; the field numbers and types are written here from
   the Biscuit specification's schema, independently of schema.rs.)  The decoded form is the
   [wtoken] of Model/Token.v: prost's generated structures keep `required` fields as plain
   values (a missing required field decodes to its default: prost does not enforce presence),
   optional scalars / messages as options, the oneof as an option.

   Encoding is prost's [encode_raw]: fields in tag order, optional fields only when present,
   required fields always.  Decoding is prost's [merge]: the buffer is a sequence of
   (key, value) pairs; a key is a varint  tag * 8 + wire type  (at most 2^32 - 1, wire type
   0..5, tag >= 1); unknown tags are skipped according to their wire type (groups recursively,
   with prost's recursion budget of 100); a known tag with another wire type is an error;
   a scalar / bytes field seen again replaces the earlier value; a nested message seen again
   is merged field by field into the earlier one; a repeated field appends; a length-delimited
   value must lie inside its enclosing message; varints are at most 10 bytes, the tenth at
   most 1; uint32 / int32 keep the low 32 bits of the varint.
   The decoder is split in two: a tokeniser ([parse_fields], the only fuelled function) that
   cuts a buffer into fields exactly as prost's [skip_field] would, and per-message folds.
   No proofs here. *)
From Biscuit Require Export Model.Token.
Local Open Scope N_scope.

(* ------------------------------------------------------------------ varints *)

(* LEB128, at most 10 bytes (a u64) *)
Fixpoint enc_varint_fuel (fuel : nat) (n : N) : bytes :=
  match fuel with
  | O => []
  | S f => if n <? 128 then [n] else (128 + n mod 128) :: enc_varint_fuel f (n / 128)
  end.
Definition enc_varint (n : N) : bytes := enc_varint_fuel 10 n.

(* [left] = bytes that may still be read (10 at the start); the tenth byte must be 0 or 1 *)
Fixpoint dec_varint_fuel (left : nat) (shift acc : N) (b : bytes) : option (N * bytes) :=
  match left, b with
  | O, _ => None
  | _, [] => None
  | S l, x :: r =>
      if x <? 128
      then (if Nat.eqb l 0 && (2 <=? x) then None else Some (acc + x * 2 ^ shift, r))
      else dec_varint_fuel l (shift + 7) (acc + (x - 128) * 2 ^ shift) r
  end.
Definition dec_varint (b : bytes) : option (N * bytes) := dec_varint_fuel 10 0 0 b.

(* prost::encoding::encoded_len_varint *)
Definition varint_len (n : N) : N :=
  if n <? 128 then 1 else if n <? 16384 then 2 else if n <? 2097152 then 3
  else if n <? 268435456 then 4 else if n <? 34359738368 then 5
  else if n <? 4398046511104 then 6 else if n <? 562949953421312 then 7
  else if n <? 72057594037927936 then 8 else if n <? 9223372036854775808 then 9 else 10.

Definition two32 : N := 4294967296.
Definition two64 : N := 18446744073709551616.

(* u64 -> u32 and u64 -> i32 casts; i32 -> u64 sign extension (int32 / enum fields) *)
Definition to_u32 (n : N) : N := n mod two32.
Definition to_i32 (n : N) : Z :=
  let m := n mod two32 in
  if m <? 2147483648 then Z.of_N m else (Z.of_N m - 4294967296)%Z.
Definition of_i32 (z : Z) : N :=
  if (z <? 0)%Z then Z.to_N (z + 18446744073709551616)%Z else Z.to_N z.

(* ------------------------------------------------------------------ fields *)

Inductive fval :=
| FVar (n : N)        (* wire type 0 *)
| FLen (b : bytes)    (* wire type 2 *)
| FSkip (wt : N).     (* wire types 1, 3, 5: only ever skipped by these messages *)

Definition field : Type := N * fval.

Definition enc_key (tag wt : N) : bytes := enc_varint (tag * 8 + wt).

Definition nlen (b : bytes) : N := N.of_nat (length b).

Definition enc_field (f : field) : bytes :=
  match f with
  | (t, FVar n) => enc_key t 0 ++ enc_varint n
  | (t, FLen b) => enc_key t 2 ++ enc_varint (nlen b) ++ b
  | (_, FSkip _) => []
  end.

Definition enc_fields (fs : list field) : bytes := flat_map enc_field fs.

(* prost::encoding::decode_key *)
Definition dec_key (b : bytes) : option (N * N * bytes) :=
  match dec_varint b with
  | None => None
  | Some (k, r) =>
      if two32 <=? k then None
      else if 5 <? k mod 8 then None
      else if k / 8 =? 0 then None
      else Some (k / 8, k mod 8, r)
  end.

(* drop exactly n bytes *)
Definition drop (n : N) (b : bytes) : option bytes :=
  if n <=? nlen b then Some (skipn (N.to_nat n) b) else None.

(* prost::encoding::skip_field.  [ctx] is the recursion budget of the DecodeContext:
   the call fails when it is 0, fields inside a group are skipped with [ctx - 1]. *)
Fixpoint skip_value (fuel ctx : nat) (wt tag : N) (b : bytes) {struct fuel} : option bytes :=
  match fuel with
  | O => None
  | S fuel' =>
      match ctx with
      | O => None
      | S ctx' =>
          match wt with
          | 0 => match dec_varint b with Some (_, r) => Some r | None => None end
          | 1 => drop 8 b
          | 2 => match dec_varint b with Some (n, r) => drop n r | None => None end
          | 3 => skip_group fuel' ctx' tag b
          | 5 => drop 4 b
          | _ => None
          end
      end
  end
with skip_group (fuel ctx : nat) (tag : N) (b : bytes) {struct fuel} : option bytes :=
  match fuel with
  | O => None
  | S fuel' =>
      match dec_key b with
      | None => None
      | Some (t, w, r) =>
          if w =? 4 then (if t =? tag then Some r else None)
          else match skip_value fuel' ctx w t r with
               | Some r' => skip_group fuel' ctx tag r'
               | None => None
               end
      end
  end.

(* every key consumes at least one byte *)
Definition fuel_for (b : bytes) : nat := S (2 * length b).

(* the fields of a message body, in order *)
Fixpoint parse_fields (fuel ctx : nat) (b : bytes) {struct fuel} : option (list field) :=
  match b with
  | [] => Some []
  | _ :: _ =>
      match fuel with
      | O => None
      | S fuel' =>
          match dec_key b with
          | None => None
          | Some (t, w, r) =>
              match w with
              | 0 =>
                  match dec_varint r with
                  | Some (n, r') =>
                      match parse_fields fuel' ctx r' with
                      | Some fs => Some ((t, FVar n) :: fs)
                      | None => None
                      end
                  | None => None
                  end
              | 2 =>
                  match dec_varint r with
                  | Some (n, r') =>
                      if n <=? nlen r' then
                        match parse_fields fuel' ctx (skipn (N.to_nat n) r') with
                        | Some fs => Some ((t, FLen (firstn (N.to_nat n) r')) :: fs)
                        | None => None
                        end
                      else None
                  | None => None
                  end
              | _ =>
                  match skip_value (fuel_for r) ctx w t r with
                  | Some r' =>
                      match parse_fields fuel' ctx r' with
                      | Some fs => Some ((t, FSkip w) :: fs)
                      | None => None
                      end
                  | None => None
                  end
              end
          end
      end
  end.

Definition fields_of_body (ctx : nat) (b : bytes) : option (list field) :=
  parse_fields (S (length b)) ctx b.

(* fold with failure *)
Fixpoint fold_opt {A B} (f : A -> B -> option A) (l : list B) (a : A) : option A :=
  match l with
  | [] => Some a
  | x :: l' => match f a x with Some a' => fold_opt f l' a' | None => None end
  end.

(* a nested message: prost::encoding::message::merge checks the budget, then merges the
   fields of the delimited body with [ctx - 1] *)
Definition merge_body {A} (step : nat -> A -> field -> option A) (ctx : nat) (a : A) (b : bytes)
  : option A :=
  match ctx with
  | O => None
  | S ctx' =>
      match fields_of_body ctx' b with
      | Some fs => fold_opt (step ctx') fs a
      | None => None
      end
  end.

(* ------------------------------------------------------------------ defaults *)
Definition wkey0 : wkey := mkwkey 0%Z [].
Definition wblock0 : wblock := mkwblock [] wkey0 [] None None.
Definition wtoken0 : wtoken := mkwtoken None wblock0 [] WNone.

(* ------------------------------------------------------------------ PublicKey *)
Definition step_key (_ : nat) (k : wkey) (f : field) : option wkey :=
  match f with
  | (1, FVar n) => Some (mkwkey (to_i32 n) (wk_bytes k))
  | (1, _) => None
  | (2, FLen b) => Some (mkwkey (wk_alg k) b)
  | (2, _) => None
  | (_, _) => Some k
  end.

Definition body_key (k : wkey) : bytes :=
  enc_fields [(1, FVar (of_i32 (wk_alg k))); (2, FLen (wk_bytes k))].

(* ------------------------------------------------------------------ ExternalSignature *)
Definition step_ext (ctx : nat) (e : bytes * wkey) (f : field) : option (bytes * wkey) :=
  match f with
  | (1, FLen b) => Some (b, snd e)
  | (1, _) => None
  | (2, FLen b) => match merge_body step_key ctx (snd e) b with
                   | Some k => Some (fst e, k)
                   | None => None
                   end
  | (2, _) => None
  | (_, _) => Some e
  end.

Definition body_ext (e : bytes * wkey) : bytes :=
  enc_fields [(1, FLen (fst e)); (2, FLen (body_key (snd e)))].

(* ------------------------------------------------------------------ SignedBlock *)
Definition step_block (ctx : nat) (w : wblock) (f : field) : option wblock :=
  match f with
  | (1, FLen b) => Some (mkwblock b (w_next w) (w_sig w) (w_ext w) (w_version w))
  | (1, _) => None
  | (2, FLen b) => match merge_body step_key ctx (w_next w) b with
                   | Some k => Some (mkwblock (w_data w) k (w_sig w) (w_ext w) (w_version w))
                   | None => None
                   end
  | (2, _) => None
  | (3, FLen b) => Some (mkwblock (w_data w) (w_next w) b (w_ext w) (w_version w))
  | (3, _) => None
  | (4, FLen b) =>
      match merge_body step_ext ctx (match w_ext w with Some e => e | None => ([], wkey0) end) b with
      | Some e => Some (mkwblock (w_data w) (w_next w) (w_sig w) (Some e) (w_version w))
      | None => None
      end
  | (4, _) => None
  | (5, FVar n) => Some (mkwblock (w_data w) (w_next w) (w_sig w) (w_ext w) (Some (to_u32 n)))
  | (5, _) => None
  | (_, _) => Some w
  end.

Definition body_block (w : wblock) : bytes :=
  enc_fields ([(1, FLen (w_data w)); (2, FLen (body_key (w_next w))); (3, FLen (w_sig w))] ++
              match w_ext w with Some e => [(4, FLen (body_ext e))] | None => [] end ++
              match w_version w with Some v => [(5, FVar v)] | None => [] end).

(* ------------------------------------------------------------------ Proof *)
Definition step_proof (_ : nat) (p : wproof) (f : field) : option wproof :=
  match f with
  | (1, FLen b) => Some (WSecret b)
  | (1, _) => None
  | (2, FLen b) => Some (WSeal b)
  | (2, _) => None
  | (_, _) => Some p
  end.

Definition body_proof (p : wproof) : bytes :=
  enc_fields match p with
             | WNone => []
             | WSecret s => [(1, FLen s)]
             | WSeal s => [(2, FLen s)]
             end.

(* ------------------------------------------------------------------ Biscuit *)
Definition step_token (ctx : nat) (t : wtoken) (f : field) : option wtoken :=
  match f with
  | (1, FVar n) => Some (mkwtoken (Some (to_u32 n)) (w_authority t) (w_blocks t) (w_proof t))
  | (1, _) => None
  | (2, FLen b) => match merge_body step_block ctx (w_authority t) b with
                   | Some a => Some (mkwtoken (w_root_key_id t) a (w_blocks t) (w_proof t))
                   | None => None
                   end
  | (2, _) => None
  | (3, FLen b) => match merge_body step_block ctx wblock0 b with
                   | Some x => Some (mkwtoken (w_root_key_id t) (w_authority t) (w_blocks t ++ [x]) (w_proof t))
                   | None => None
                   end
  | (3, _) => None
  | (4, FLen b) => match merge_body step_proof ctx (w_proof t) b with
                   | Some p => Some (mkwtoken (w_root_key_id t) (w_authority t) (w_blocks t) p)
                   | None => None
                   end
  | (4, _) => None
  | (_, _) => Some t
  end.

Definition token_fields (t : wtoken) : list field :=
  match w_root_key_id t with Some v => [(1, FVar v)] | None => [] end ++
  [(2, FLen (body_block (w_authority t)))] ++
  map (fun b => (3, FLen (body_block b))) (w_blocks t) ++
  [(4, FLen (body_proof (w_proof t)))].

(* schema::Biscuit::encode *)
Definition encode (t : wtoken) : bytes := enc_fields (token_fields t).

(* prost's RECURSION_LIMIT *)
Definition recursion_limit : nat := 100.

(* schema::Biscuit::decode: Message::merge on the default value; the top-level fields are
   merged with the full budget *)
Definition decode (b : bytes) : option wtoken :=
  match fields_of_body recursion_limit b with
  | Some fs => fold_opt (step_token recursion_limit) fs wtoken0
  | None => None
  end.

(* ------------------------------------------------------------------ encoded_len *)
(* computed from the structure, as prost's generated encoded_len does, without building bytes *)
Definition len_bytes_field (b : bytes) : N := 1 + varint_len (nlen b) + nlen b.
Definition len_msg_field (n : N) : N := 1 + varint_len n + n.

Definition len_key (k : wkey) : N := 1 + varint_len (of_i32 (wk_alg k)) + len_bytes_field (wk_bytes k).
Definition len_ext (e : bytes * wkey) : N := len_bytes_field (fst e) + len_msg_field (len_key (snd e)).
Definition len_block (w : wblock) : N :=
  len_bytes_field (w_data w) + len_msg_field (len_key (w_next w)) + len_bytes_field (w_sig w) +
  match w_ext w with Some e => len_msg_field (len_ext e) | None => 0 end +
  match w_version w with Some v => 1 + varint_len v | None => 0 end.
Definition len_proof (p : wproof) : N :=
  match p with WNone => 0 | WSecret s | WSeal s => len_bytes_field s end.

Fixpoint sum_N (l : list N) : N := match l with [] => 0 | x :: l' => x + sum_N l' end.

Definition encoded_len (t : wtoken) : N :=
  match w_root_key_id t with Some v => 1 + varint_len v | None => 0 end +
  len_msg_field (len_block (w_authority t)) +
  sum_N (map (fun b => len_msg_field (len_block b)) (w_blocks t)) +
  len_msg_field (len_proof (w_proof t)).

(* ------------------------------------------------------------------ well-formed values *)
(* what the Rust types guarantee of a schema::Biscuit value: u32 / i32 scalars, and a total
   size that fits the u64 length prefixes *)
Definition wkey_ok (k : wkey) : bool := ((-2147483648 <=? wk_alg k) && (wk_alg k <? 2147483648))%Z.
Definition wblock_ok (w : wblock) : bool :=
  wkey_ok (w_next w) &&
  match w_ext w with Some e => wkey_ok (snd e) | None => true end &&
  match w_version w with Some v => v <? two32 | None => true end.
Definition wtoken_ok (t : wtoken) : bool :=
  match w_root_key_id t with Some v => v <? two32 | None => true end &&
  forallb wblock_ok (w_authority t :: w_blocks t) &&
  (encoded_len t <? two64).

(* ------------------------------------------------------------------ tokens *)
(* SerializedBiscuit::to_vec and SerializedBiscuit::from_slice *)
Definition token_bytes (t : token) : bytes := encode (to_wire t).

Definition token_from_bytes (verify_sig : pubkey -> bytes -> bytes -> bool)
                            (key_canon : alg -> bytes -> option bytes)
                            (pub : alg -> bytes -> option pubkey)
                            (root : pubkey) (b : bytes) : option token :=
  match decode b with
  | Some w => from_wire verify_sig key_canon pub root w
  | None => None
  end.

(* UnverifiedBiscuit::from, container part *)
Definition token_from_bytes_unverified (key_canon : alg -> bytes -> option bytes)
                                       (pub : alg -> bytes -> option pubkey)
                                       (b : bytes) : option token :=
  match decode b with
  | Some w => deserialize key_canon pub w
  | None => None
  end.

(* the optional `context` string of a serialized Block message (field 2, length-delimited;
   last occurrence wins); None when the bytes are not a sequence of fields.  Only the
   container of the Block message is read: the other fields are skipped by wire type. *)
Definition block_context (data : bytes) : option (option bytes) :=
  match fields_of_body recursion_limit data with
  | Some fs =>
      fold_opt (fun (c : option bytes) (f : field) =>
                  match f with
                  | (2, FLen b) => Some (Some b)
                  | (2, _) => None
                  | _ => Some c
                  end) fs None
  | None => None
  end.

Definition contexts (t : token) : list (option (option bytes)) :=
  map (fun b => block_context (b_data b)) (all_blocks t).

(* C09 -- the validation gates in front of indexing and unwrapping, as total functions.

   Mirrors, at the level of observable behaviour:
   * Biscuit::block / UnverifiedBiscuit::block (token/mod.rs:543-572, unverified.rs:266-295)
     behind print_block_source, block_version; and the `.get(index - 1)` accessors
     block_symbols, block_public_keys, block_external_key (token/mod.rs:489-536);
   * SymbolTable::get_symbol / print_symbol_default (datalog/symbol.rs:143-165);
   * Expression::print, Unary::print, Binary::print (datalog/expression.rs:128-138,527-562,
     654-692), SymbolTable::print_term / print_expression (symbol.rs:183-268) and the
     builder `Expression` Display (token/builder/expression.rs:86-93), which is what
     Authorizer::dump_code / to_string, BlockBuilder / Rule / Check / Policy Display print.

   Each gate comes in two variants: [faithful] is what the unchanged code does (a third
   outcome, a crash, is possible), [repaired] is what the property demands.  No proofs here. *)
From Coq Require Import DecimalString.
From Biscuit Require Export Model.Expr.

Inductive variant := Faithful | Repaired.

(* ------------------------------------------------------------------ block index gate *)

Inductive ierr :=
| EInvalidIndex      (* Format::BlockDeserializationError("invalid block index") / InvalidBlockId *)
| ERefused.          (* the block loader (format/convert.rs) refuses the block's contents *)

Inductive access (A : Type) := AOk (a : A) | AErr (e : ierr) | ACrash.
Arguments AOk {A} a.
Arguments AErr {A} e.
Arguments ACrash {A}.

(* What the gate reads of a token: for each block, the loader's verdict on its contents
   ([Some b]: proto_block_to_token_block returns the block, [None]: it returns an error).
   The authority block always exists. *)
Definition tok (B : Type) : Type := (option B * list (option B))%type.

Definition block_count {B} (t : tok B) : N := 1 + N.of_nat (length (snd t)).

Definition load {B} (b : option B) : access B :=
  match b with Some x => AOk x | None => AErr ERefused end.

(* list lookup by an N index, walking the list (never converts a data-sized N to nat) *)
Fixpoint nthN {A} (l : list A) (i : N) : option A :=
  match l with
  | [] => None
  | x :: l' => if (i =? 0)%N then Some x else nthN l' (i - 1)%N
  end.

(* Biscuit::block: `if index > self.blocks.len() + 1 { Err } ... self.blocks[index - 1]` --
   index = blocks.len() + 1 = block_count passes the test and indexes out of bounds *)
Definition block_at_faithful {B} (t : tok B) (i : N) : access B :=
  if (i =? 0)%N then load (fst t)
  else if (N.of_nat (length (snd t)) + 1 <? i)%N then AErr EInvalidIndex
  else match nthN (snd t) (i - 1)%N with
       | Some b => load b
       | None => ACrash
       end.

(* the repaired test: `index > self.blocks.len()` *)
Definition block_at_repaired {B} (t : tok B) (i : N) : access B :=
  if (i =? 0)%N then load (fst t)
  else if (N.of_nat (length (snd t)) <? i)%N then AErr EInvalidIndex
  else match nthN (snd t) (i - 1)%N with
       | Some b => load b
       | None => AErr EInvalidIndex
       end.

Definition block_at {B} (vr : variant) : tok B -> N -> access B :=
  match vr with Faithful => block_at_faithful | Repaired => block_at_repaired end.

(* block_symbols / block_public_keys / block_external_key: `self.blocks.get(index - 1)` *)
Definition raw_at {B} (t : tok B) (i : N) : access (option B) :=
  if (i =? 0)%N then AOk (fst t)
  else match nthN (snd t) (i - 1)%N with
       | Some b => AOk b
       | None => AErr EInvalidIndex
       end.

(* ------------------------------------------------------------------ symbol gate *)

Definition default_symbols : list bytes :=
  map str ["read"; "write"; "resource"; "operation"; "right"; "time"; "role"; "owner";
           "tenant"; "namespace"; "user"; "team"; "service"; "admin"; "email"; "group";
           "member"; "ip_address"; "client"; "client_ip"; "domain"; "path"; "version";
           "cluster"; "node"; "hostname"; "nonce"; "query"]%string.

Definition OFFSET : N := 1024.

(* SymbolTable::get_symbol: ids below the offset address the default table, the others
   the block's table; both lookups are `.get()`, never an index *)
Definition get_symbol (tab : list bytes) (i : N) : option bytes :=
  if (OFFSET <=? i)%N then nthN tab (i - OFFSET)%N else nthN default_symbols i.

Definition dec_N (n : N) : bytes := str (NilZero.string_of_uint (N.to_uint n)).
Definition dec_Z (z : Z) : bytes :=
  if z <? 0 then str "-" ++ dec_N (Z.to_N (- z)) else dec_N (Z.to_N z).

(* print_symbol_default *)
Definition symbol_text (tab : list bytes) (i : N) : bytes :=
  match get_symbol tab i with
  | Some s => s
  | None => str "<" ++ dec_N i ++ str "?>"
  end.

(* ------------------------------------------------------------------ printers *)

Definition hexdigit (n : N) : N := if (n <? 10)%N then (48 + n)%N else (87 + n)%N.
Fixpoint hex_of (b : bytes) : bytes :=
  match b with
  | [] => []
  | x :: r => hexdigit (x / 16)%N :: hexdigit (x mod 16)%N :: hex_of r
  end.

Fixpoint join (sep : bytes) (l : list bytes) : bytes :=
  match l with
  | [] => []
  | [x] => x
  | x :: r => x ++ sep ++ join sep r
  end.

Definition quoted (s : bytes) : bytes := str """" ++ s ++ str """".

Definition key_text (tab : list bytes) (k : mapkey) : bytes :=
  match k with
  | KInt i => dec_Z i
  | KStr s => quoted s
  | KUnk id => quoted (str "<" ++ dec_N id ++ str "?>")
  end.

(* SymbolTable::print_term.  Dates are printed through the `time` crate (RFC 3339): that
   printer belongs to C14's model; here a date is a placeholder and the correspondence
   skips cases that contain one. *)
Fixpoint term_text (tab : list bytes) (v : value) {struct v} : bytes :=
  let fix texts (l : list value) : list bytes :=
    match l with [] => [] | x :: r => term_text tab x :: texts r end in
  let fix entries (l : list (mapkey * value)) : list bytes :=
    match l with
    | [] => []
    | (k, x) :: r => (key_text tab k ++ str ": " ++ term_text tab x) :: entries r
    end in
  match v with
  | VInt i => dec_Z i
  | VStr s => quoted s
  | VUnk id => quoted (str "<" ++ dec_N id ++ str "?>")
  | VDate _ => str "<date>"
  | VBytes b => str "hex:" ++ hex_of b
  | VBool true => str "true"
  | VBool false => str "false"
  | VSet [] => str "{,}"
  | VSet l => str "{" ++ join (str ", ") (texts l) ++ str "}"
  | VNull => str "null"
  | VArray l => str "[" ++ join (str ", ") (texts l) ++ str "]"
  | VMap l => str "{" ++ join (str ", ") (entries l) ++ str "}"
  end.

Definition var_text (tab : list bytes) (x : N) : bytes := str "$" ++ symbol_text tab x.

Definition unary_text (tab : list bytes) (u : unary) (v : bytes) : bytes :=
  match u with
  | UNegate => str "!" ++ v
  | UParens => str "(" ++ v ++ str ")"
  | ULength => v ++ str ".length()"
  | UTypeOf => v ++ str ".type()"
  | UFfi name => v ++ str ".extern::" ++ name ++ str "()"
  | UFfiUnk id => v ++ str ".extern::<" ++ dec_N id ++ str "?>()"
  end.

Definition infix (l : bytes) (o : string) (r : bytes) : bytes := l ++ str " " ++ str o ++ str " " ++ r.
Definition method (l : bytes) (m : string) (r : bytes) : bytes := l ++ str "." ++ str m ++ str "(" ++ r ++ str ")".

Definition binary_text (tab : list bytes) (b : binary) (l r : bytes) : bytes :=
  match b with
  | BLessThan => infix l "<" r
  | BGreaterThan => infix l ">" r
  | BLessOrEqual => infix l "<=" r
  | BGreaterOrEqual => infix l ">=" r
  | BEqual => infix l "===" r
  | BHeterogeneousEqual => infix l "==" r
  | BNotEqual => infix l "!==" r
  | BHeterogeneousNotEqual => infix l "!=" r
  | BContains => method l "contains" r
  | BPrefix => method l "starts_with" r
  | BSuffix => method l "ends_with" r
  | BRegex => method l "matches" r
  | BAdd => infix l "+" r
  | BSub => infix l "-" r
  | BMul => infix l "*" r
  | BDiv => infix l "/" r
  | BAnd => infix l "&&!" r
  | BOr => infix l "||!" r
  | BIntersection => method l "intersection" r
  | BUnion => method l "union" r
  | BBitwiseAnd => infix l "&" r
  | BBitwiseOr => infix l "|" r
  | BBitwiseXor => infix l "^" r
  | BLazyAnd => infix l "&&" r
  | BLazyOr => infix l "||" r
  | BAll => method l "all" r
  | BAny => method l "any" r
  | BGet => method l "get" r
  | BFfi name => l ++ str ".extern::" ++ name ++ str "(" ++ r ++ str ")"
  | BFfiUnk id => l ++ str ".extern::<" ++ dec_N id ++ str "?>(" ++ r ++ str ")"
  end.

Definition closure_text (tab : list bytes) (ps : list N) (body : bytes) : bytes :=
  match ps with
  | [] => body
  | _ => join (str ", ") (map (var_text tab) ps) ++ str " -> " ++ body
  end.

(* Expression::print: a stack of texts; a value or a closure pushes, a unary rewrites
   the top, a binary pops two and pushes one (popping both before it looks at them), a
   closure body is printed on its own and must itself leave exactly one text. *)
Fixpoint print_step (tab : list bytes) (o : op) (st : list bytes) {struct o} : option (list bytes) :=
  match o with
  | OVal v => Some (term_text tab v :: st)
  | OVar x => Some (var_text tab x :: st)
  | OUn u => match st with
             | s :: st' => Some (unary_text tab u s :: st')
             | [] => None
             end
  | OBin b => match st with
              | r :: l :: st' => Some (binary_text tab b l r :: st')
              | _ => None
              end
  | OClo ps body =>
      match (fix run (l : list op) (acc : list bytes) : option (list bytes) :=
               match l with
               | [] => Some acc
               | x :: r => match print_step tab x acc with Some a => run r a | None => None end
               end) body [] with
      | Some [b] => Some (closure_text tab ps b :: st)
      | _ => None
      end
  end.

Fixpoint print_run (tab : list bytes) (l : list op) (acc : list bytes) : option (list bytes) :=
  match l with
  | [] => Some acc
  | x :: r => match print_step tab x acc with Some a => print_run tab r a | None => None end
  end.

Definition print_expr (tab : list bytes) (ops : list op) : option bytes :=
  match print_run tab ops [] with
  | Some [s] => Some s
  | _ => None
  end.

(* The same discipline on stack depths only: what decides printable / not printable. *)
Fixpoint depth_step (o : op) (d : nat) {struct o} : option nat :=
  match o with
  | OVal _ | OVar _ => Some (S d)
  | OUn _ => match d with S _ => Some d | O => None end
  | OBin _ => match d with S (S d') => Some (S d') | _ => None end
  | OClo _ body =>
      match (fix run (l : list op) (acc : nat) : option nat :=
               match l with
               | [] => Some acc
               | x :: r => match depth_step x acc with Some a => run r a | None => None end
               end) body O with
      | Some (S O) => Some (S d)
      | _ => None
      end
  end.

Fixpoint depth_run (l : list op) (acc : nat) : option nat :=
  match l with
  | [] => Some acc
  | x :: r => match depth_step x acc with Some a => depth_run r a | None => None end
  end.

(* the op sequence respects the printers' stack discipline *)
Definition printable (ops : list op) : bool :=
  match depth_run ops O with Some (S O) => true | _ => false end.

(* What a caller of a Display / dump sees. *)
Inductive dres := DText (t : bytes) | DInvalid | DCrash.

(* SymbolTable::print_expression: falls back to an `<invalid expression ...>` text *)
Definition fallback_print (tab : list bytes) (ops : list op) : dres :=
  match print_expr tab ops with Some t => DText t | None => DInvalid end.

(* builder::Expression's Display: `expr.print(&syms).unwrap()` in the unchanged code; the
   repaired one prints the same fallback text as SymbolTable::print_expression *)
Definition display (vr : variant) (tab : list bytes) (ops : list op) : dres :=
  match vr with
  | Faithful => match print_expr tab ops with Some t => DText t | None => DCrash end
  | Repaired => fallback_print tab ops
  end.

(* Authorizer::dump_code and the Display of rules, checks, policies, block builders print
   every expression they hold: one unprintable expression is enough *)
Definition dump_crashes (vr : variant) (tab : list bytes) (exprs : list (list op)) : bool :=
  existsb (fun ops => match display vr tab ops with DCrash => true | _ => false end) exprs.

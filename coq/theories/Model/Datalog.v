(* Datalog syntax and engine: mirrors biscuit-auth/src/datalog/mod.rs (Rule::apply, CombineIt,
   find_match, check_match_all, World::run_with_limits, query_rule) and origin.rs at the level
   of observable behaviour.  Facts and rules are lists where the implementation has hash
   maps; the list order stands for the iteration order. *)
From Biscuit Require Export Model.Expr.

(* names of predicates: a string, or an id without table entry *)
Inductive sym := Sym (s : bytes) | SymUnk (id : N).

Definition sym_eqb (a b : sym) : bool :=
  match a, b with
  | Sym s, Sym t => bytes_eqb s t
  | SymUnk i, SymUnk j => N.eqb i j
  | _, _ => false
  end.

Inductive term := TVar (x : N) | TVal (v : value).

Record fact := mkfact { fname : sym; fargs : list value }.
Record pred := mkpred { pname : sym; pargs : list term }.

(* block ids; the authorizer's own id is usize::MAX *)
Definition auth_id : N := 18446744073709551615%N.
Definition origin := list N.          (* sorted, duplicate-free *)

Fixpoint oinsert (x : N) (o : origin) : origin :=
  match o with
  | [] => [x]
  | y :: o' => match N.compare x y with
               | Lt => x :: o
               | Eq => o
               | Gt => y :: oinsert x o'
               end
  end.
Definition ounion (a b : origin) : origin := fold_left (fun acc x => oinsert x acc) b a.
Definition omem (x : N) (o : origin) : bool := existsb (N.eqb x) o.
Definition osubset (a b : origin) : bool := forallb (fun x => omem x b) a.
Definition origin_eqb (a b : origin) : bool := osubset a b && osubset b a.

Inductive scope := ScAuthority | ScPrevious | ScKey (k : N).   (* k: index of an external key *)

Record rule := mkrule {
  rhead : pred;
  rbody : list pred;
  rexprs : list (list op);
  rscopes : list scope
}.

Definition fact_eqb (a b : fact) : bool :=
  sym_eqb (fname a) (fname b) && vlist_eqb (fargs a) (fargs b).

Definition ofact := (origin * fact)%type.
Definition ofact_eqb (a b : ofact) : bool :=
  origin_eqb (fst a) (fst b) && fact_eqb (snd a) (snd b).

(* a rule as stored in the world: the origins it trusts, the block that owns it *)
Record rule_entry := mkentry { re_trusted : origin; re_owner : N; re_rule : rule }.

Record world := mkworld { w_facts : list ofact; w_rules : list rule_entry }.

(* ---- matching a body predicate against a fact under a partial assignment ---- *)
Fixpoint match_terms (ts : list term) (vs : list value) (s : env) : option env :=
  match ts, vs with
  | [], [] => Some s
  | TVar x :: ts', v :: vs' =>
      match lookup x s with
      | Some w => if value_eqb w v then match_terms ts' vs' s else None
      | None => match_terms ts' vs' ((x, v) :: s)
      end
  | TVal c :: ts', v :: vs' => if value_eqb c v then match_terms ts' vs' s else None
  | _, _ => None
  end.

Definition match_pred (p : pred) (f : fact) (s : env) : option env :=
  if sym_eqb (pname p) (fname f) then match_terms (pargs p) (fargs f) s else None.

(* all ways to match the body, with the union of the matched facts' origins (CombineIt) *)
Fixpoint join (facts : list ofact) (body : list pred) (s : env) (o : origin) : list (origin * env) :=
  match body with
  | [] => [(o, s)]
  | p :: rest =>
      flat_map (fun of => match match_pred p (snd of) s with
                          | Some s' => join facts rest s' (ounion o (fst of))
                          | None => []
                          end) facts
  end.

Definition visible (trusted : origin) (facts : list ofact) : list ofact :=
  filter (fun of => osubset (fst of) trusted) facts.

Inductive run_error := RunExpr (e : err) | TooManyIterations | TooManyFacts | Timeout.
Inductive run_res (A : Type) := ROk (a : A) | RErr (e : run_error).
Arguments ROk {A} a.
Arguments RErr {A} e.

Section Engine.
Variable orc : oracles.

(* all expressions true: Ok true; one false: Ok false; anything else: error *)
Fixpoint eval_exprs (s : env) (es : list (list op)) : res bool :=
  match es with
  | [] => Ok true
  | e :: es' =>
      match evaluate orc s e with
      | Ok (VBool true) => eval_exprs s es'
      | Ok (VBool false) => Ok false
      | Ok _ => Err EInvalidType
      | Err er => Err er
      end
  end.

Fixpoint inst_terms (s : env) (ts : list term) : option (list value) :=
  match ts with
  | [] => Some []
  | TVal v :: ts' => match inst_terms s ts' with Some l => Some (v :: l) | None => None end
  | TVar x :: ts' => match lookup x s, inst_terms s ts' with
                     | Some v, Some l => Some (v :: l)
                     | _, _ => None
                     end
  end.

(* the facts a rule produces from the visible facts (Rule::apply); the first erroring
   binding in list order aborts *)
Fixpoint produce (r : rule) (owner : N) (ms : list (origin * env)) : res (list ofact) :=
  match ms with
  | [] => Ok []
  | (o, s) :: ms' =>
      match eval_exprs s (rexprs r) with
      | Err e => Err e
      | Ok false => produce r owner ms'
      | Ok true =>
          match inst_terms s (pargs (rhead r)) with
          | None => produce r owner ms'        (* head variable unbound by the body *)
          | Some vs =>
              match produce r owner ms' with
              | Ok l => Ok ((oinsert owner o, mkfact (pname (rhead r)) vs) :: l)
              | Err e => Err e
              end
          end
      end
  end.

Definition apply_rule (facts : list ofact) (re : rule_entry) : res (list ofact) :=
  produce (re_rule re) (re_owner re)
          (join (visible (re_trusted re) facts) (rbody (re_rule re)) [] []).

Fixpoint apply_rules (facts : list ofact) (rs : list rule_entry) : res (list ofact) :=
  match rs with
  | [] => Ok []
  | r :: rs' => match apply_rule facts r with
                | Err e => Err e
                | Ok l => match apply_rules facts rs' with
                          | Ok l' => Ok (l ++ l')
                          | Err e => Err e
                          end
                end
  end.

Definition add_fact (facts : list ofact) (f : ofact) : list ofact :=
  if existsb (ofact_eqb f) facts then facts else facts ++ [f].
Definition merge (facts new : list ofact) : list ofact := fold_left add_fact new facts.

(* World::run_with_limits without the clock (the clock is modelled in Limits.v):
   returns the final facts and the number of productive iterations *)
Fixpoint run_loop (fuel : nat) (max_iter max_facts index : N) (rules : list rule_entry)
         (facts : list ofact) : run_res (list ofact * N) * N :=
  match fuel with
  | 0%nat => (RErr TooManyIterations, index)
  | S f =>
      match apply_rules facts rules with
      | Err e => (RErr (RunExpr e), index)      (* early return: iterations not accounted *)
      | Ok new =>
          let facts' := merge facts new in
          if (length facts' =? length facts)%nat then (ROk (facts', index), index)
          else
            let index' := N.succ index in
            if N.eqb index' max_iter then (RErr TooManyIterations, index')
            else if (max_facts <=? N.of_nat (length facts'))%N then (RErr TooManyFacts, index')
            else run_loop f max_iter max_facts index' rules facts'
      end
  end.

(* fixpoint with non-binding limits: iterate until nothing new, [fuel] passes at most *)
Fixpoint saturate (fuel : nat) (rules : list rule_entry) (facts : list ofact) : res (option (list ofact)) :=
  match fuel with
  | 0%nat => Ok None
  | S f =>
      match apply_rules facts rules with
      | Err e => Err e
      | Ok new =>
          let facts' := merge facts new in
          if (length facts' =? length facts)%nat then Ok (Some facts')
          else saturate f rules facts'
      end
  end.

(* ---- queries on a world ---- *)
(* Rule::find_match: the first binding decides *)
Fixpoint first_match (es : list (list op)) (ms : list (origin * env)) : res bool :=
  match ms with
  | [] => Ok false
  | (_, s) :: ms' =>
      match eval_exprs s es with
      | Err e => Err e
      | Ok true => Ok true
      | Ok false => first_match es ms'
      end
  end.

(* find_match goes through Rule::apply, so a binding that leaves a head variable unbound is
   skipped; query rules of checks have an empty head, so this never happens for checks *)
Fixpoint first_produced (r : rule) (ms : list (origin * env)) : res bool :=
  match ms with
  | [] => Ok false
  | (_, s) :: ms' =>
      match eval_exprs s (rexprs r) with
      | Err e => Err e
      | Ok false => first_produced r ms'
      | Ok true => match inst_terms s (pargs (rhead r)) with
                   | Some _ => Ok true
                   | None => first_produced r ms'
                   end
      end
  end.

Definition find_match (facts : list ofact) (trusted : origin) (r : rule) : res bool :=
  first_produced r (join (visible trusted facts) (rbody r) [] []).

(* Rule::check_match_all: there is a match and every match satisfies the expressions *)
Fixpoint all_match (es : list (list op)) (ms : list (origin * env)) (found : bool) : res bool :=
  match ms with
  | [] => Ok found
  | (_, s) :: ms' =>
      match eval_exprs s es with
      | Err e => Err e
      | Ok false => Ok false
      | Ok true => all_match es ms' true
      end
  end.

Definition check_match_all (facts : list ofact) (trusted : origin) (r : rule) : res bool :=
  all_match (rexprs r) (join (visible trusted facts) (rbody r) [] []) false.

Definition query_rule (facts : list ofact) (trusted : origin) (owner : N) (r : rule) : res (list ofact) :=
  match apply_rule facts (mkentry trusted owner r) with
  | Ok l => Ok (merge [] l)
  | Err e => Err e
  end.

End Engine.

(* ---- trusted origins (origin.rs TrustedOrigins::from_scopes) ---- *)
Definition keymap := list (N * list N).     (* external key index -> blocks signed by it *)

Fixpoint keymap_get (k : N) (m : keymap) : list N :=
  match m with
  | [] => []
  | (k', bs) :: m' => if N.eqb k k' then bs else keymap_get k m'
  end.

Fixpoint range_upto (n : nat) : list N :=    (* 0 .. n-1 *)
  match n with 0%nat => [] | S m => range_upto m ++ [N.of_nat m] end.

Definition default_trust : origin := oinsert auth_id (oinsert 0%N []).

Definition from_scopes (scopes : list scope) (default : origin) (current : N) (km : keymap) : origin :=
  match scopes with
  | [] => oinsert auth_id (oinsert current default)
  | _ =>
      fold_left (fun acc sc =>
                   match sc with
                   | ScAuthority => oinsert 0%N acc
                   | ScPrevious =>
                       if N.eqb current auth_id then acc
                       else ounion acc (range_upto (S (N.to_nat current)))
                   | ScKey k => ounion acc (keymap_get k km)
                   end) scopes (oinsert current (oinsert auth_id []))
  end.

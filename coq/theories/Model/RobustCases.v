(* Glue for the C09 correspondence: the case type (ending with what the implementation
   did), the model's verdict, and the checkers.  No proofs. *)
From Biscuit Require Export Model.Robust.

(* what one call did: returned a value, returned an error, panicked *)
Inductive outcome := XVal | XErr | XCrash.
Inductive api := Verified | Unverified.
Inductive accessor := APrintSource | AVersion | ASymbols | APublicKeys | AExternalKey.

Inductive rcase :=
(* one index accessor call on a token: the loader's verdict per block (authority first,
   asked directly from format::convert), the index, the observed outcome *)
| RIdx (a : api) (acc : accessor) (loadable : list bool) (i : N) (impl : outcome)
(* one expression: the block's symbol strings, the ops; then Expression::print,
   SymbolTable::print_expression, builder::Expression's Display (absent when the
   conversion to the builder type fails on an unknown symbol) and evaluate *)
| RPrint (syms : list bytes) (ops : list op) (iprint : option bytes) (ifallback : dres)
         (idisplay : option dres) (ieval : outcome).

Definition outcome_eqb (a b : outcome) : bool :=
  match a, b with XVal, XVal | XErr, XErr | XCrash, XCrash => true | _, _ => false end.

Definition dres_eqb (a b : dres) : bool :=
  match a, b with
  | DText s, DText t => bytes_eqb s t
  | DInvalid, DInvalid | DCrash, DCrash => true
  | _, _ => false
  end.

Definition obytes_eqb (a b : option bytes) : bool :=
  match a, b with
  | Some s, Some t => bytes_eqb s t
  | None, None => true
  | _, _ => false
  end.

Definition outcome_of {A} (r : access A) : outcome :=
  match r with AOk _ => XVal | AErr _ => XErr | ACrash => XCrash end.

Definition tok_of (loadable : list bool) : option (tok unit) :=
  let f (b : bool) := if b then Some tt else None in
  match loadable with
  | [] => None
  | a :: r => Some (f a, map f r)
  end.

(* outcomes the model allows for one accessor call *)
Definition idx_allowed (vr : variant) (acc : accessor) (t : tok unit) (i : N) : list outcome :=
  match acc with
  | APrintSource | AVersion => [outcome_of (block_at vr t i)]
  | ASymbols | AExternalKey => [outcome_of (raw_at t i)]
  | APublicKeys =>
      (* the keys listed by a third-party block are parsed by the accessor itself: a
         present block may still yield an error; an absent one always does *)
      match raw_at t i with AOk _ => [XVal; XErr] | _ => [XErr] end
  end.

Definition mem_outcome (o : outcome) (l : list outcome) : bool := existsb (outcome_eqb o) l.

(* the unverified API has no block_symbols / block_public_keys / block_external_key *)
Definition well_formed_idx (a : api) (acc : accessor) : bool :=
  match a, acc with
  | Unverified, (ASymbols | APublicKeys | AExternalKey) => false
  | _, _ => true
  end.

Fixpoint value_has_date (v : value) : bool :=
  let fix anyl (l : list value) : bool :=
    match l with [] => false | x :: r => value_has_date x || anyl r end in
  let fix anym (l : list (mapkey * value)) : bool :=
    match l with [] => false | (_, x) :: r => value_has_date x || anym r end in
  match v with
  | VDate _ => true
  | VSet l | VArray l => anyl l
  | VMap m => anym m
  | _ => false
  end.

Fixpoint op_has_date (o : op) : bool :=
  match o with
  | OVal v => value_has_date v
  | OClo _ body => (fix anyo (l : list op) : bool :=
                      match l with [] => false | x :: r => op_has_date x || anyo r end) body
  | _ => false
  end.

(* skipped: a case the model has no answer for *)
Definition rcase_skipped (c : rcase) : bool :=
  match c with
  | RIdx a acc loadable _ _ =>
      match tok_of loadable with None => true | Some _ => negb (well_formed_idx a acc) end
  | RPrint _ ops _ _ _ _ => existsb op_has_date ops
  end.

Definition print_agrees (vr : variant) (syms : list bytes) (ops : list op) (iprint : option bytes)
  (ifallback : dres) (idisplay : option dres) (ieval : outcome) : bool :=
  obytes_eqb (print_expr syms ops) iprint
  && dres_eqb (fallback_print syms ops) ifallback
  && match idisplay with None => true | Some d => dres_eqb (display vr syms ops) d end
  && negb (outcome_eqb ieval XCrash).

Definition rcase_agrees_with (vr : variant) (c : rcase) : bool :=
  match c with
  | RIdx a acc loadable i impl =>
      match tok_of loadable with
      | Some t => mem_outcome impl (idx_allowed vr acc t i)
      | None => false
      end
  | RPrint syms ops ip ifb idp iev => print_agrees vr syms ops ip ifb idp iev
  end.

(* the reference is the repaired model; the faithful behaviour of the unchanged tree is
   accepted as well (it differs only on the two known classes) *)
Definition rcase_agrees (c : rcase) : bool :=
  rcase_agrees_with Repaired c || rcase_agrees_with Faithful c.

(* the implementation shows a known faulty behaviour on this case: it crashed where only
   the faithful model predicts a crash *)
Definition rcase_shows_known (c : rcase) : bool :=
  negb (rcase_agrees_with Repaired c) && rcase_agrees_with Faithful c.

(* what the repaired model answers, for reports *)
Inductive ranswer :=
| AnsIdx (allowed : list outcome)
| AnsPrint (p : option bytes) (d : dres).

Definition rcase_model_with (vr : variant) (c : rcase) : ranswer :=
  match c with
  | RIdx _ acc loadable i _ =>
      match tok_of loadable with
      | Some t => AnsIdx (idx_allowed vr acc t i)
      | None => AnsIdx []
      end
  | RPrint syms ops _ _ _ _ => AnsPrint (print_expr syms ops) (display vr syms ops)
  end.
Definition rcase_model (c : rcase) : ranswer := rcase_model_with Repaired c.
Definition rcase_model_faithful (c : rcase) : ranswer := rcase_model_with Faithful c.

Fixpoint rcase_scan (idx : N) (cs : list rcase) (bad : list (N * ranswer)) (skipped : N)
  : list (N * ranswer) * N :=
  match cs with
  | [] => (rev bad, skipped)
  | c :: cs' =>
      if rcase_skipped c then rcase_scan (N.succ idx) cs' bad (N.succ skipped)
      else if rcase_agrees c then rcase_scan (N.succ idx) cs' bad skipped
      else rcase_scan (N.succ idx) cs' ((idx, rcase_model c) :: bad) skipped
  end.

(* (index, demanded answer) of every disagreeing case, and the number of skipped cases *)
Definition rcase_failures (start : N) (cs : list rcase) := rcase_scan start cs [] 0%N.

Fixpoint rcase_known_scan (idx : N) (cs : list rcase) (seen : list (N * ranswer))
  : list (N * ranswer) * N :=
  match cs with
  | [] => (rev seen, 0%N)
  | c :: cs' =>
      if negb (rcase_skipped c) && rcase_shows_known c
      then rcase_known_scan (N.succ idx) cs' ((idx, rcase_model_faithful c) :: seen)
      else rcase_known_scan (N.succ idx) cs' seen
  end.

(* (index, faithful answer) of every case on which the implementation still shows one of
   the two modelled known findings (index off-by-one crash, Display crash) *)
Definition rcase_known (start : N) (cs : list rcase) := rcase_known_scan start cs [].

(* Executable glue for the block-content correspondence (C02 / C09): the bytes the harness gave
   to prost's schema::Block::decode, what prost answered (the decoded structure and its
   re-encoding, or a refusal), and the comparison with Model/BlockWire.v.  No proofs. *)
From Biscuit Require Export Model.BlockWire.
Local Open Scope N_scope.

(* ---- decidable equality of the decoded structures ---- *)
Definition optN_eqb (a b : option N) : bool :=
  match a, b with Some x, Some y => x =? y | None, None => true | _, _ => false end.
Definition optZ_eqb (a b : option Z) : bool :=
  match a, b with Some x, Some y => Z.eqb x y | None, None => true | _, _ => false end.
Definition optbytes_eqb (a b : option bytes) : bool :=
  match a, b with Some x, Some y => bytes_eqb x y | None, None => true | _, _ => false end.

Fixpoint list_eqb {A} (e : A -> A -> bool) (l m : list A) : bool :=
  match l, m with
  | [], [] => true
  | x :: l', y :: m' => e x y && list_eqb e l' m'
  | _, _ => false
  end.

Definition pmapkey_eqb (a b : pmapkey) : bool :=
  match a, b with
  | PKNone, PKNone => true
  | PKInt x, PKInt y => Z.eqb x y
  | PKStr x, PKStr y => x =? y
  | _, _ => false
  end.

Fixpoint pterm_eqb (a b : pterm) {struct a} : bool :=
  let fix leq (l m : list pterm) {struct l} : bool :=
    match l, m with
    | [], [] => true
    | x :: l', y :: m' => pterm_eqb x y && leq l' m'
    | _, _ => false
    end in
  let fix meq (l m : list (pmapkey * pterm)) {struct l} : bool :=
    match l, m with
    | [], [] => true
    | (k, x) :: l', (k', y) :: m' => pmapkey_eqb k k' && pterm_eqb x y && meq l' m'
    | _, _ => false
    end in
  match a, b with
  | PTNone, PTNone => true
  | PTVariable x, PTVariable y => x =? y
  | PTInteger x, PTInteger y => Z.eqb x y
  | PTString x, PTString y => x =? y
  | PTDate x, PTDate y => x =? y
  | PTBytes x, PTBytes y => bytes_eqb x y
  | PTBool x, PTBool y => Bool.eqb x y
  | PTSet l, PTSet m => leq l m
  | PTNull, PTNull => true
  | PTArray l, PTArray m => leq l m
  | PTMap l, PTMap m => meq l m
  | _, _ => false
  end.

Fixpoint pop_eqb (a b : pop) {struct a} : bool :=
  let fix leq (l m : list pop) {struct l} : bool :=
    match l, m with
    | [], [] => true
    | x :: l', y :: m' => pop_eqb x y && leq l' m'
    | _, _ => false
    end in
  match a, b with
  | PONone, PONone => true
  | POValue x, POValue y => pterm_eqb x y
  | POUnary k n, POUnary k' n' => Z.eqb k k' && optN_eqb n n'
  | POBinary k n, POBinary k' n' => Z.eqb k k' && optN_eqb n n'
  | POClosure p l, POClosure p' l' => list_eqb N.eqb p p' && leq l l'
  | _, _ => false
  end.

Definition pscope_eqb (a b : pscope) : bool :=
  match a, b with
  | PSNone, PSNone => true
  | PSType x, PSType y => Z.eqb x y
  | PSKey x, PSKey y => Z.eqb x y
  | _, _ => false
  end.

Definition ppred_eqb (a b : ppred) : bool :=
  (pp_name a =? pp_name b) && list_eqb pterm_eqb (pp_terms a) (pp_terms b).

Definition prule_eqb (a b : prule) : bool :=
  ppred_eqb (pr_head a) (pr_head b) && list_eqb ppred_eqb (pr_body a) (pr_body b)
  && list_eqb (list_eqb pop_eqb) (pr_exprs a) (pr_exprs b)
  && list_eqb pscope_eqb (pr_scopes a) (pr_scopes b).

Definition pcheck_eqb (a b : pcheck) : bool :=
  list_eqb prule_eqb (pc_queries a) (pc_queries b) && optZ_eqb (pc_kind a) (pc_kind b).

Definition wkey_eqb (a b : wkey) : bool :=
  Z.eqb (wk_alg a) (wk_alg b) && bytes_eqb (wk_bytes a) (wk_bytes b).

Definition pblock_eqb (a b : pblock) : bool :=
  list_eqb bytes_eqb (pb_symbols a) (pb_symbols b)
  && optbytes_eqb (pb_context a) (pb_context b)
  && optN_eqb (pb_version a) (pb_version b)
  && list_eqb ppred_eqb (pb_facts a) (pb_facts b)
  && list_eqb prule_eqb (pb_rules a) (pb_rules b)
  && list_eqb pcheck_eqb (pb_checks a) (pb_checks b)
  && list_eqb pscope_eqb (pb_scopes a) (pb_scopes b)
  && list_eqb wkey_eqb (pb_keys a) (pb_keys b).

(* ---- cases ---- *)
Inductive bwcase :=
| BWDecode (b : bytes) (impl : option (pblock * bytes)).
  (* schema::Block::decode(b): Err, or Ok(block) with block.encode_to_vec() *)

Inductive bwdiff :=
| BWAgree
| BWAccept (model_accepts : bool)     (* one side decodes, the other refuses *)
| BWValue                             (* both decode, to different structures *)
| BWReencode                          (* prost re-encodes the structure to other bytes than the model *)
| BWSelf.                             (* the model does not read back its own encoding of an in-range value *)

Definition bwcase_model (c : bwcase) : bwdiff :=
  match c with
  | BWDecode b impl =>
      match decode_block b, impl with
      | None, None => BWAgree
      | Some _, None => BWAccept true
      | None, Some _ => BWAccept false
      | Some m, Some (p, re) =>
          if negb (pblock_eqb m p) then BWValue
          else if negb (bytes_eqb (encode_block p) re) then BWReencode
          else match decode_block (encode_block p) with
               | Some m' => if pblock_eqb m' p then BWAgree else BWSelf
               | None => if pblock_ok p then BWSelf else BWAgree
               end
      end
  end.

Fixpoint bw_scan (i : N) (cs : list bwcase) (acc : list (N * bwdiff)) : list (N * bwdiff) :=
  match cs with
  | [] => rev acc
  | c :: cs' =>
      match bwcase_model c with
      | BWAgree => bw_scan (i + 1) cs' acc
      | d => bw_scan (i + 1) cs' ((i, d) :: acc)
      end
  end.

Definition bw_failures (start : N) (cs : list bwcase) : list (N * bwdiff) * N :=
  (bw_scan start cs [], 0).

(* Executable glue for the C20/C18 correspondence: the case type (an item skeleton, how it
   was constructed, the API calls made on it, and what the implementation was observed to
   do), the model's prediction under a configuration, and the comparison.  No proofs. *)
From Biscuit Require Export Model.Params.

(* ---- equality of the operator enumerations (defined in Model.Expr without one) ---- *)
Definition unary_tag (u : unary) : N * bytes :=
  match u with
  | UNegate => (0, []) | UParens => (1, []) | ULength => (2, []) | UTypeOf => (3, [])
  | UFfi n => (4, n) | UFfiUnk i => (5 + i, [])
  end%N.

Definition binary_tag (b : binary) : N * bytes :=
  match b with
  | BLessThan => (0, []) | BGreaterThan => (1, []) | BLessOrEqual => (2, []) | BGreaterOrEqual => (3, [])
  | BEqual => (4, []) | BContains => (5, []) | BPrefix => (6, []) | BSuffix => (7, []) | BRegex => (8, [])
  | BAdd => (9, []) | BSub => (10, []) | BMul => (11, []) | BDiv => (12, []) | BAnd => (13, []) | BOr => (14, [])
  | BIntersection => (15, []) | BUnion => (16, []) | BBitwiseAnd => (17, []) | BBitwiseOr => (18, [])
  | BBitwiseXor => (19, []) | BNotEqual => (20, []) | BHeterogeneousEqual => (21, [])
  | BHeterogeneousNotEqual => (22, []) | BLazyAnd => (23, []) | BLazyOr => (24, []) | BAll => (25, [])
  | BAny => (26, []) | BGet => (27, []) | BFfi n => (28, n) | BFfiUnk i => (29 + i, [])
  end%N.

Definition tag_eqb (a b : N * bytes) : bool := N.eqb (fst a) (fst b) && bytes_eqb (snd a) (snd b).

Fixpoint list_eqb {A} (eqb : A -> A -> bool) (l m : list A) : bool :=
  match l, m with
  | [], [] => true
  | x :: l', y :: m' => eqb x y && list_eqb eqb l' m'
  | _, _ => false
  end.

Definition opt_eqb {A} (eqb : A -> A -> bool) (a b : option A) : bool :=
  match a, b with
  | None, None => true
  | Some x, Some y => eqb x y
  | _, _ => false
  end.

Fixpoint pop_eqb (a b : pop) {struct a} : bool :=
  let fix body_eqb (l m : list pop) {struct l} : bool :=
    match l, m with
    | [], [] => true
    | x :: l', y :: m' => pop_eqb x y && body_eqb l' m'
    | _, _ => false
    end in
  match a, b with
  | POVal s, POVal t => pterm_eqb s t
  | POUn u, POUn v => tag_eqb (unary_tag u) (unary_tag v)
  | POBin u, POBin v => tag_eqb (binary_tag u) (binary_tag v)
  | POClo ps x, POClo qs y => list_eqb bytes_eqb ps qs && body_eqb x y
  | _, _ => false
  end.

Definition pscope_eqb (a b : pscope) : bool :=
  match a, b with
  | SAuthority, SAuthority | SPrevious, SPrevious => true
  | SKey k, SKey k' => bytes_eqb k k'
  | SParam n, SParam n' => bytes_eqb n n'
  | _, _ => false
  end.

Definition ppred_eqb (a b : ppred) : bool :=
  bytes_eqb (fst a) (fst b) && list_eqb pterm_eqb (snd a) (snd b).

Definition rskel_eqb (a b : rskel) : bool :=
  let '(h, bd, e, s) := a in
  let '(h', bd', e', s') := b in
  ppred_eqb h h' && list_eqb ppred_eqb bd bd' && list_eqb (list_eqb pop_eqb) e e'
  && list_eqb pscope_eqb s s'.

Definition chkind_eqb (a b : chkind) : bool :=
  match a, b with KOne, KOne | KAll, KAll | KReject, KReject => true | _, _ => false end.
Definition polkind_eqb (a b : polkind) : bool :=
  match a, b with KAllow, KAllow | KDeny, KDeny => true | _, _ => false end.

Definition iskel_eqb (a b : iskel) : bool :=
  match a, b with
  | IFact p, IFact q => ppred_eqb p q
  | IRule r, IRule s => rskel_eqb r s
  | ICheck k qs, ICheck k' qs' => chkind_eqb k k' && list_eqb rskel_eqb qs qs'
  | IPolicy k qs, IPolicy k' qs' => polkind_eqb k k' && list_eqb rskel_eqb qs qs'
  | _, _ => false
  end.

(* ---- name sets (HashMap key sets, error lists): compared sorted, duplicate-free ---- *)
Fixpoint ninsert (x : name) (l : list name) : list name :=
  match l with
  | [] => [x]
  | y :: l' => match bytes_cmp x y with Lt => x :: l | Eq => l | Gt => y :: ninsert x l' end
  end.
Definition nsort (l : list name) : list name := fold_left (fun acc x => ninsert x acc) l [].
Definition nset_eqb (a b : list name) : bool := list_eqb bytes_eqb (nsort a) (nsort b).

Definition perr_eqb (a b : perr) : bool :=
  match a, b with
  | EUnused n, EUnused n' => bytes_eqb n n'
  | EMissing l, EMissing l' => nset_eqb l l'
  | _, _ => false
  end.

(* ---- observations ---- *)
(* per fact / per rule (queries in order): the key sets of `parameters` and
   `scope_parameters` right after construction (None = the field is None) *)
Definition collected : Type := list (option (list name) * option (list name)).

Definition obs : Type :=
  collected * list (option perr) * option perr * option iskel.
  (* after construction; result of each call; validate(); convert() (None = panic) *)

Definition pcase : Type := cmode * iskel * list cmd * obs.

Definition keys {A} (m : option (amap A)) : option (list name) :=
  match m with None => None | Some l => Some (map fst l) end.

Definition state_collected (s : istate) : collected :=
  match s with
  | StFact (Fact _ m) => [(keys m, None)]
  | StRule r => [(keys (rule_pmap r), keys (rule_smap r))]
  | StCheck _ qs | StPolicy _ qs => map (fun r => (keys (rule_pmap r), keys (rule_smap r))) qs
  end.

Definition predict (c : cfg) (mode : cmode) (i : iskel) (cs : list cmd) : obs :=
  let s0 := construct c mode i in
  let (s1, es) := run_cmds s0 cs in
  (state_collected s0, es, state_validate c s1, state_convert c s1).

Definition collected_eqb (a b : collected) : bool :=
  list_eqb (fun x y => opt_eqb nset_eqb (fst x) (fst y) && opt_eqb nset_eqb (snd x) (snd y)) a b.

Definition obs_eqb (m o : obs) : bool :=
  let '(mc, me, mv, mk) := m in
  let '(oc, oe, ov, ok) := o in
  collected_eqb mc oc
  && list_eqb (opt_eqb perr_eqb) me oe
  && opt_eqb perr_eqb mv ov
  && opt_eqb (fun a b => iskel_eqb a (iskel_map canon (fun x => x) b)) mk ok.

Definition all_cfgs : list cfg :=
  [Cfg false false false; Cfg false false true; Cfg false true false; Cfg false true true;
   Cfg true false false; Cfg true false true; Cfg true true false; Cfg true true true].

Definition pcase_matches (pc : pcase) (c : cfg) : bool :=
  let '(mode, i, cs, o) := pc in obs_eqb (predict c mode i cs) o.

(* verdict bits: 1 = no configuration explains the observation (disagreement);
   2 = explained only with non-recursive collection/substitution (finding "nested");
   4 = explained only without the map-key check (finding "mapkey") *)
Definition pcase_verdict (pc : pcase) : N :=
  let ms := filter (pcase_matches pc) all_cfgs in
  match ms with
  | [] => 1
  | _ =>
      (if existsb (fun c => rec_collect c && rec_subst c) ms then 0 else 2)
      + (if existsb key_check ms then 0 else 4)
  end%N.

(* what the repaired model predicts, for reports *)
Definition pcase_model (pc : pcase) : obs :=
  let '(mode, i, cs, _) := pc in predict repaired mode i cs.
Definition pcase_model_faithful (pc : pcase) : obs :=
  let '(mode, i, cs, _) := pc in predict faithful mode i cs.

(* reported index = case index + 2^40 * verdict, for every case whose verdict is not 0 *)
Definition verdict_base : N := 1099511627776.

Fixpoint pcase_scan (idx : N) (cs : list pcase) (bad : list (N * N)) : list (N * N) * N :=
  match cs with
  | [] => (rev bad, 0%N)
  | c :: cs' =>
      let v := pcase_verdict c in
      if N.eqb v 0 then pcase_scan (N.succ idx) cs' bad
      else pcase_scan (N.succ idx) cs' ((idx + verdict_base * v, v)%N :: bad)
  end.

Definition pcase_failures (start : N) (cs : list pcase) := pcase_scan start cs [].

(* driver/prelude.ml refers to the extracted [nat] type; this keeps it in the unit *)
Definition prelude_needs_nat : nat := O.

(* Executable glue for the C17 correspondence: the operations the harness performs on the
   implementation, the oracle answers it records from the curve libraries, the recorded
   implementation outcome, and the comparison.  No proofs. *)
From Biscuit Require Export Model.KeyCodec.
Local Open Scope N_scope.

(* ---- oracle answers recorded by the harness (direct calls to ed25519-dalek / p256) ---- *)
Inductive oans :=
| APoint (a : alg) (b : bytes) (r : option bytes)
| AScalar (b : bytes) (ok : bool)
| ADerive (a : alg) (b : bytes) (p : bytes)
| ADer (sg : bytes) (ok : bool)
| ASig (a : alg) (key msg sg : bytes) (ok : bool).

Fixpoint find_point (t : list oans) (a : alg) (b : bytes) : option (option bytes) :=
  match t with
  | [] => None
  | APoint a' b' r :: t' => if alg_eqb a a' && bytes_eqb b b' then Some r else find_point t' a b
  | _ :: t' => find_point t' a b
  end.
Fixpoint find_scalar (t : list oans) (b : bytes) : option bool :=
  match t with
  | [] => None
  | AScalar b' r :: t' => if bytes_eqb b b' then Some r else find_scalar t' b
  | _ :: t' => find_scalar t' b
  end.
Fixpoint find_derive (t : list oans) (a : alg) (b : bytes) : option bytes :=
  match t with
  | [] => None
  | ADerive a' b' r :: t' => if alg_eqb a a' && bytes_eqb b b' then Some r else find_derive t' a b
  | _ :: t' => find_derive t' a b
  end.
Fixpoint find_der (t : list oans) (s : bytes) : option bool :=
  match t with
  | [] => None
  | ADer s' r :: t' => if bytes_eqb s s' then Some r else find_der t' s
  | _ :: t' => find_der t' s
  end.
Fixpoint find_sig (t : list oans) (a : alg) (k m s : bytes) : option bool :=
  match t with
  | [] => None
  | ASig a' k' m' s' r :: t' =>
      if alg_eqb a a' && bytes_eqb k k' && bytes_eqb m m' && bytes_eqb s s' then Some r
      else find_sig t' a k m s
  | _ :: t' => find_sig t' a k m s
  end.

Definition table_oracles (t : list oans) : oracles :=
  {| point_decode := fun a b => match find_point t a b with Some r => r | None => None end;
     scalar_ok := fun b => match find_scalar t b with Some r => r | None => false end;
     derive_pub := fun a b => match find_derive t a b with Some r => r | None => [] end;
     der_sig_ok := fun s => match find_der t s with Some r => r | None => false end;
     sig_valid := fun a k m s => match find_sig t a k m s with Some r => r | None => false end |}.

(* ---- operations ---- *)
Inductive kop :=
| OpHexEncode (b : bytes)                      (* hex::encode *)
| OpHexDecode (s : bytes)                      (* hex::decode *)
| OpPubFromBytes (a : alg) (b : bytes)         (* PublicKey::from_bytes *)
| OpPubFromHex (a : alg) (s : bytes)           (* PublicKey::from_bytes_hex *)
| OpPubParse (s : bytes)                       (* biscuit_parser::parser::public_key *)
| OpPubFromStr (s : bytes)                     (* PublicKey::from_str *)
| OpPubFromProto (n : Z) (key : bytes)         (* PublicKey::from_proto *)
| OpPubEncode (a : alg) (b : bytes)            (* every encoder of a key rebuilt from (a, b) *)
| OpPrivFromBytes (a : alg) (b : bytes)
| OpPrivFromHex (a : alg) (s : bytes)
| OpPrivFromStr (s : bytes)
| OpPrivEncode (a : alg) (b : bytes)
| OpKeyPairFromBytes (a : alg) (b : bytes)
| OpAlgOfName (s : bytes)                      (* builder::Algorithm::try_from(&str) *)
| OpAlgOfNum (n : Z)                           (* schema Algorithm::from_i32 + From *)
| OpAlgInfo (a : alg)                          (* Display, schema number *)
| OpVerify (a : alg) (key msg sg : bytes).     (* PublicKey::verify_signature *)

Inductive kval :=
| VBytes (b : bytes)
| VPub (a : alg) (b : bytes)
| VPriv (a : alg) (b : bytes)
| VParsed (a : alg) (key rest : bytes)
| VPubEnc (raw hex printed display : bytes) (pn : Z) (pkey wire : bytes)
| VPrivEnc (raw hex printed : bytes) (a : alg) (pub : bytes)
| VKeyPair (a : alg) (priv pub : bytes)
| VAlg (a : alg)
| VAlgInfo (name : bytes) (num : Z)
| VUnit.

Inductive kerrx :=
| XSize (n : N) | XInvalidKey | XDeser | XSigDeser | XInvalidSig
| XHexOdd | XHexChar (c idx : N) | XParse | XOther.

Inductive kout := IOk (v : kval) | IErr (e : kerrx) | IPanic.

Definition kcase : Type := (list oans * kop * kout).

Definition of_kerr (e : kerr) : kerrx :=
  match e with
  | KInvalidKeySize n => XSize n
  | KInvalidKey => XInvalidKey
  | KDeserialization => XDeser
  | KSigDeserialization => XSigDeser
  | KInvalidSignature => XInvalidSig
  end.

Definition out_pub (r : kres pubkey) : kout :=
  match r with KOk (Pub a b) => IOk (VPub a b) | KErr e => IErr (of_kerr e) end.
Definition out_priv (r : kres privkey) : kout :=
  match r with KOk (Priv a b) => IOk (VPriv a b) | KErr e => IErr (of_kerr e) end.

(* [strict] selects the behaviour of PublicKey::from_str on an unparsed remainder *)
Definition kc_eval (strict : bool) (t : list oans) (op : kop) : kout :=
  let O := table_oracles t in
  match op with
  | OpHexEncode b => IOk (VBytes (hex_encode b))
  | OpHexDecode s =>
      match hex_decode s with
      | HOk b => IOk (VBytes b)
      | HErr HexOdd => IErr XHexOdd
      | HErr (HexChar c i) => IErr (XHexChar c i)
      end
  | OpPubFromBytes a b => out_pub (pub_from_bytes O a b)
  | OpPubFromHex a s => out_pub (pub_from_hex O a s)
  | OpPubParse s =>
      match parse_public_key s with
      | Some (a, k, r) => IOk (VParsed a k r)
      | None => IErr XParse
      end
  | OpPubFromStr s => out_pub (pub_from_str_gen strict O s)
  | OpPubFromProto n key => out_pub (pub_from_proto O n key)
  | OpPubEncode a b =>
      match pub_from_bytes O a b with
      | KOk k =>
          IOk (VPubEnc (pub_to_bytes k) (pub_to_hex k) (print_prefixed k) (print_prefixed k)
                       (fst (pub_to_proto k)) (snd (pub_to_proto k)) (proto_wire (pub_to_proto k)))
      | KErr e => IErr (of_kerr e)
      end
  | OpPrivFromBytes a b => out_priv (priv_from_bytes O a b)
  | OpPrivFromHex a s => out_priv (priv_from_hex O a s)
  | OpPrivFromStr s => out_priv (priv_from_str O s)
  | OpPrivEncode a b =>
      match priv_from_bytes O a b with
      | KOk k =>
          match priv_public O k with
          | Pub pa pb => IOk (VPrivEnc (priv_to_bytes k) (hex_encode (priv_to_bytes k)) (priv_print k) pa pb)
          end
      | KErr e => IErr (of_kerr e)
      end
  | OpKeyPairFromBytes a b =>
      match keypair_from_bytes O a b with
      | KOk (Priv a1 sk, Pub _ pk) => IOk (VKeyPair a1 sk pk)
      | KErr e => IErr (of_kerr e)
      end
  | OpAlgOfName s => match alg_of_name s with Some a => IOk (VAlg a) | None => IErr XDeser end
  | OpAlgOfNum n => match alg_of_num n with Some a => IOk (VAlg a) | None => IErr XDeser end
  | OpAlgInfo a => IOk (VAlgInfo (alg_name a) (alg_num a))
  | OpVerify a key msg sg =>
      match verify_signature O (Pub a key) msg sg with
      | KOk _ => IOk VUnit
      | KErr e => IErr (of_kerr e)
      end
  end.

(* ---- has the harness answered every oracle question the operation can ask? ---- *)
Definition has_point t a b := match find_point t a b with Some _ => true | None => false end.
Definition has_scalar t (a : alg) b :=
  match a with Ed25519 => true | Secp256r1 => match find_scalar t b with Some _ => true | None => false end end.
Definition has_derive t a b := match find_derive t a b with Some _ => true | None => false end.

Definition kc_answered (t : list oans) (op : kop) : bool :=
  match op with
  | OpPubFromBytes a b | OpPubEncode a b => has_point t a b
  | OpPubFromHex a s => match hex_decode s with HOk b => has_point t a b | HErr _ => true end
  | OpPubFromStr s =>
      match parse_public_key s with Some (a, k, _) => has_point t a k | None => true end
  | OpPubFromProto n key =>
      match alg_of_num n with Some a => has_point t a key | None => true end
  | OpPrivFromBytes a b => has_scalar t a b
  | OpPrivFromHex a s => match hex_decode s with HOk b => has_scalar t a b | HErr _ => true end
  | OpPrivFromStr s =>
      match split_once slash s with
      | Some (p, r) =>
          match alg_of_name p, hex_decode r with
          | Some a, HOk b => has_scalar t a b
          | _, _ => true
          end
      | None => true
      end
  | OpPrivEncode a b | OpKeyPairFromBytes a b => has_scalar t a b && has_derive t a b
  | OpVerify a key msg sg =>
      match find_sig t a key msg sg with
      | Some _ => match a with
                  | Ed25519 => true
                  | Secp256r1 => match find_der t sg with Some _ => true | None => false end
                  end
      | None => false
      end
  | _ => true
  end.

(* ---- comparison ---- *)
Definition obytes_eqb (a b : option bytes) : bool :=
  match a, b with
  | Some x, Some y => bytes_eqb x y
  | None, None => true
  | _, _ => false
  end.

Definition kval_eqb (x y : kval) : bool :=
  match x, y with
  | VBytes a, VBytes b => bytes_eqb a b
  | VPub a b, VPub a' b' => alg_eqb a a' && bytes_eqb b b'
  | VPriv a b, VPriv a' b' => alg_eqb a a' && bytes_eqb b b'
  | VParsed a k r, VParsed a' k' r' => alg_eqb a a' && bytes_eqb k k' && bytes_eqb r r'
  | VPubEnc r h p d n k w, VPubEnc r' h' p' d' n' k' w' =>
      bytes_eqb r r' && bytes_eqb h h' && bytes_eqb p p' && bytes_eqb d d' && Z.eqb n n'
      && bytes_eqb k k' && bytes_eqb w w'
  | VPrivEnc r h p a q, VPrivEnc r' h' p' a' q' =>
      bytes_eqb r r' && bytes_eqb h h' && bytes_eqb p p' && alg_eqb a a' && bytes_eqb q q'
  | VKeyPair a s p, VKeyPair a' s' p' => alg_eqb a a' && bytes_eqb s s' && bytes_eqb p p'
  | VAlg a, VAlg a' => alg_eqb a a'
  | VAlgInfo s n, VAlgInfo s' n' => bytes_eqb s s' && Z.eqb n n'
  | VUnit, VUnit => true
  | _, _ => false
  end.

Definition kerrx_eqb (x y : kerrx) : bool :=
  match x, y with
  | XSize n, XSize m => n =? m
  | XInvalidKey, XInvalidKey | XDeser, XDeser | XSigDeser, XSigDeser | XInvalidSig, XInvalidSig
  | XHexOdd, XHexOdd | XParse, XParse | XOther, XOther => true
  | XHexChar c i, XHexChar c' i' => (c =? c') && (i =? i')
  | _, _ => false
  end.

Definition kout_eqb (m i : kout) : bool :=
  match m, i with
  | IOk v, IOk w => kval_eqb v w
  | IErr e, IErr e' => kerrx_eqb e e'
  | _, _ => false
  end.

Definition is_ierr (i : kout) : bool := match i with IErr _ => true | _ => false end.

(* the class of the known finding C17-from-str-trailing: PublicKey::from_str on a string
   whose key parses and leaves a non-empty remainder *)
Definition in_trailing_class (op : kop) : bool :=
  match op with
  | OpPubFromStr s =>
      match parse_public_key s with Some (_, _, rest) => negb (is_nil rest) | None => false end
  | _ => false
  end.

(* the reference is the model the property demands; on the known class the faithful
   behaviour of the unchanged tree is also accepted, and so is any refusal (a repaired
   tree may report the remainder with whichever error kind it likes) *)
Definition kc_agrees (c : kcase) : bool :=
  let '(t, op, i) := c in
  kout_eqb (kc_eval true t op) i
  || (in_trailing_class op && (kout_eqb (kc_eval false t op) i || is_ierr i)).

(* the implementation shows the known faulty behaviour on this case *)
Definition kc_shows_known (c : kcase) : bool :=
  let '(t, op, i) := c in
  in_trailing_class op && negb (is_ierr i) && kout_eqb (kc_eval false t op) i.

Definition kc_model (c : kcase) : kout := let '(t, op, _) := c in kc_eval true t op.
Definition kc_model_faithful (c : kcase) : kout := let '(t, op, _) := c in kc_eval false t op.

Fixpoint kc_scan (idx : N) (cs : list kcase) (bad : list (N * kout)) (skipped : N)
  : list (N * kout) * N :=
  match cs with
  | [] => (rev bad, skipped)
  | c :: cs' =>
      let '(t, op, _) := c in
      if negb (kc_answered t op) then kc_scan (N.succ idx) cs' bad (N.succ skipped)
      else if kc_agrees c then kc_scan (N.succ idx) cs' bad skipped
      else kc_scan (N.succ idx) cs' ((idx, kc_model c) :: bad) skipped
  end.

(* (index, demanded result) of every disagreeing case, and the number of skipped cases *)
Definition kc_failures (start : N) (cs : list kcase) := kc_scan start cs [] 0.

Fixpoint kc_known_scan (idx : N) (cs : list kcase) (seen : list (N * kout)) : list (N * kout) * N :=
  match cs with
  | [] => (rev seen, 0)
  | c :: cs' =>
      if kc_shows_known c then kc_known_scan (N.succ idx) cs' ((idx, kc_model_faithful c) :: seen)
      else kc_known_scan (N.succ idx) cs' seen
  end.

(* (index, faithful result) of every case on which the implementation still shows the
   known finding (accepts a key string with an unparsed remainder) *)
Definition kc_known (start : N) (cs : list kcase) := kc_known_scan start cs [].

(* Semantic values: datalog::Term modulo interning.
   Strings are their bytes; [VUnk id] is a string id with no table entry (equal only to
   itself).  Sets and maps are lists in the implementation's iteration order
   (BTreeSet/BTreeMap order: derived Ord of Term, strings by symbol index -- the
   harness interns the strings of a case in byte order so that index order is byte order). *)
From Biscuit Require Export Base.Bytes.

Inductive mapkey := KInt (i : Z) | KStr (s : bytes) | KUnk (id : N).

Inductive value :=
| VInt (i : Z)
| VStr (s : bytes)
| VUnk (id : N)
| VDate (d : Z)
| VBytes (b : bytes)
| VBool (b : bool)
| VSet (l : list value)
| VNull
| VArray (l : list value)
| VMap (l : list (mapkey * value)).

Definition mapkey_eqb (a b : mapkey) : bool :=
  match a, b with
  | KInt i, KInt j => Z.eqb i j
  | KStr s, KStr t => bytes_eqb s t
  | KUnk i, KUnk j => N.eqb i j
  | _, _ => false
  end.

Definition mapkey_cmp (a b : mapkey) : comparison :=
  match a, b with
  | KInt i, KInt j => Z.compare i j
  | KInt _, _ => Lt
  | _, KInt _ => Gt
  | KStr s, KStr t => bytes_cmp s t
  | KStr _, KUnk _ => Lt      (* arbitrary: generators never mix them in one map *)
  | KUnk _, KStr _ => Gt
  | KUnk i, KUnk j => N.compare i j
  end.

(* structural equality = Rust's derived PartialEq on canonical (sorted, duplicate-free)
   sets and maps *)
Fixpoint value_eqb (a b : value) {struct a} : bool :=
  let fix list_eqb (l m : list value) {struct l} : bool :=
    match l, m with
    | [], [] => true
    | x :: l', y :: m' => value_eqb x y && list_eqb l' m'
    | _, _ => false
    end in
  let fix map_eqb (l m : list (mapkey * value)) {struct l} : bool :=
    match l, m with
    | [], [] => true
    | (k, x) :: l', (k', y) :: m' => mapkey_eqb k k' && value_eqb x y && map_eqb l' m'
    | _, _ => false
    end in
  match a, b with
  | VInt i, VInt j => Z.eqb i j
  | VStr s, VStr t => bytes_eqb s t
  | VUnk i, VUnk j => N.eqb i j
  | VDate i, VDate j => Z.eqb i j
  | VBytes s, VBytes t => bytes_eqb s t
  | VBool x, VBool y => Bool.eqb x y
  | VSet l, VSet m => list_eqb l m
  | VNull, VNull => true
  | VArray l, VArray m => list_eqb l m
  | VMap l, VMap m => map_eqb l m
  | _, _ => false
  end.

Definition vlist_eqb : list value -> list value -> bool :=
  fix list_eqb (l m : list value) {struct l} : bool :=
    match l, m with
    | [], [] => true
    | x :: l', y :: m' => value_eqb x y && list_eqb l' m'
    | _, _ => false
    end.

(* variant rank in Rust's enum declaration order:
   Variable, Integer, Str, Date, Bytes, Bool, Set, Null, Array, Map *)
Definition vrank (v : value) : N :=
  match v with
  | VInt _ => 1 | VStr _ => 2 | VUnk _ => 2 | VDate _ => 3 | VBytes _ => 4 | VBool _ => 5
  | VSet _ => 6 | VNull => 7 | VArray _ => 8 | VMap _ => 9
  end%N.

Definition bool_cmp (a b : bool) : comparison :=
  match a, b with false, true => Lt | true, false => Gt | _, _ => Eq end.

Fixpoint vcmp (a b : value) {struct a} : comparison :=
  let fix list_cmp (l m : list value) {struct l} : comparison :=
    match l, m with
    | [], [] => Eq
    | [], _ => Lt
    | _, [] => Gt
    | x :: l', y :: m' => match vcmp x y with Eq => list_cmp l' m' | c => c end
    end in
  let fix map_cmp (l m : list (mapkey * value)) {struct l} : comparison :=
    match l, m with
    | [], [] => Eq
    | [], _ => Lt
    | _, [] => Gt
    | (k, x) :: l', (k', y) :: m' =>
        match mapkey_cmp k k' with
        | Eq => match vcmp x y with Eq => map_cmp l' m' | c => c end
        | c => c
        end
    end in
  match a, b with
  | VInt i, VInt j => Z.compare i j
  | VStr s, VStr t => bytes_cmp s t
  | VStr _, VUnk _ => Lt
  | VUnk _, VStr _ => Gt
  | VUnk i, VUnk j => N.compare i j
  | VDate i, VDate j => Z.compare i j
  | VBytes s, VBytes t => bytes_cmp s t
  | VBool x, VBool y => bool_cmp x y
  | VSet l, VSet m => list_cmp l m
  | VNull, VNull => Eq
  | VArray l, VArray m => list_cmp l m
  | VMap l, VMap m => map_cmp l m
  | _, _ => N.compare (vrank a) (vrank b)
  end.

(* ---- sets as lists ---- *)
Definition vmem (x : value) (l : list value) : bool := existsb (value_eqb x) l.
Definition vsubset (l m : list value) : bool := forallb (fun x => vmem x m) l.
Definition vset_eqb (l m : list value) : bool := vsubset l m && vsubset m l.

(* insertion into a list sorted by vcmp, dropping duplicates (BTreeSet::insert) *)
Fixpoint vinsert (x : value) (l : list value) : list value :=
  match l with
  | [] => [x]
  | y :: l' => match vcmp x y with
               | Lt => x :: l
               | Eq => l
               | Gt => y :: vinsert x l'
               end
  end.

Definition vunion (l m : list value) : list value := fold_left (fun acc x => vinsert x acc) m l.
Definition vinter (l m : list value) : list value := filter (fun x => vmem x m) l.
Definition vsort (l : list value) : list value := fold_left (fun acc x => vinsert x acc) l [].

Fixpoint map_get (k : mapkey) (l : list (mapkey * value)) : option value :=
  match l with
  | [] => None
  | (k', v) :: l' => if mapkey_eqb k k' then Some v else map_get k l'
  end.

Definition key_value (k : mapkey) : value :=
  match k with KInt i => VInt i | KStr s => VStr s | KUnk i => VUnk i end.

(* i64 range *)
Definition i64_min : Z := -9223372036854775808.
Definition i64_max : Z := 9223372036854775807.
Definition in_i64 (z : Z) : bool := (i64_min <=? z) && (z <=? i64_max).

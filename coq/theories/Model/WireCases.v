(* Executable glue for the C02 / C07 correspondence.

   C02 cases
   - [CHist]: one operation history run through the public API (Biscuit or UnverifiedBiscuit
     path) with deterministic keys.  The harness records what the implementation showed (the
     serialized bytes, their size, the bytes and verdicts after every reload path, the
     accessors) and the oracle tables: public parts of secrets, canonical key encodings,
     signatures found in the implementation's token keyed by (algorithm, secret, message) with
     the message built by the harness from the specification's layout table, and the truth
     table of raw ed25519-dalek / p256 verification over those messages.  The model runs the
     history itself (Model.ThirdParty.run_ops over Model.Token), encodes its token with
     Model.Wire.encode and compares byte for byte; it verifies its token with Model.Token.verify
     against the raw truth table (the interoperability clause: every signature of the
     implementation's token must be valid over the model's layout).
   - [CDec]: container bytes (valid, mutated) with prost's decoding result; the model decodes
     with Model.Wire.decode and re-encodes.
   C07 cases
   - [TAppend]: one append_third_party attempt of a response (serialized
     ThirdPartyBlockContents, possibly made for another token / position, possibly mutated)
     on a carrier token, through Biscuit (expected key) or UnverifiedBiscuit (then verify).
   - [TSplice]: a chain group (Model.ChainCases) whose honest token carries third-party
     blocks, with wire-level transplants / re-attributions as variants.
   - [TMsg]: request / response message codec.
   Both C07 kinds carry the ground truth [issued]: which (key, payload, previous signature)
   the honest third parties signed in this run; an accepted token must not attribute anything
   else to them, nor present one of their signatures under another key or position.
   No proofs. *)
From Biscuit Require Export Model.ThirdParty Model.ChainCases.
Local Open Scope N_scope.

(* ------------------------------------------------------------------ tables *)
Definition sgtab := list (alg * bytes * bytes * bytes).   (* algorithm, secret, message, signature *)

Fixpoint sglookup (t : sgtab) (a : alg) (sk m : bytes) : option bytes :=
  match t with
  | [] => None
  | (a', sk', m', s) :: t' =>
      if alg_eqb a a' && bytes_eqb sk sk' && bytes_eqb m m' then Some s else sglookup t' a sk m
  end.

(* lookups with a default: running the model twice with two defaults detects a miss that matters *)
Definition sg_of (t : sgtab) (dflt : bytes) (a : alg) (sk m : bytes) : bytes :=
  match sglookup t a sk m with Some s => s | None => dflt end.
Definition vf_dflt (t : vtab) (dflt : bool) (k : pubkey) (m s : bytes) : bool :=
  match vlookup t k m s with Some r => r | None => dflt end.

Record tables := mktabs { tb_k : ktab; tb_s : ktab; tb_v : vtab; tb_g : sgtab }.

(* ------------------------------------------------------------------ equality tests *)
Definition wkey_eqb (a b : wkey) : bool := Z.eqb (wk_alg a) (wk_alg b) && bytes_eqb (wk_bytes a) (wk_bytes b).
Definition oN_eqb (a b : option N) : bool := opt_eqb N.eqb a b.
Definition wblock_eqb (a b : wblock) : bool :=
  bytes_eqb (w_data a) (w_data b) && wkey_eqb (w_next a) (w_next b) && bytes_eqb (w_sig a) (w_sig b) &&
  opt_eqb (fun x y => bytes_eqb (fst x) (fst y) && wkey_eqb (snd x) (snd y)) (w_ext a) (w_ext b) &&
  oN_eqb (w_version a) (w_version b).
Definition wproof_eqb (a b : wproof) : bool :=
  match a, b with
  | WNone, WNone => true
  | WSecret x, WSecret y | WSeal x, WSeal y => bytes_eqb x y
  | _, _ => false
  end.
Definition wtoken_eqb (a b : wtoken) : bool :=
  oN_eqb (w_root_key_id a) (w_root_key_id b) && wblock_eqb (w_authority a) (w_authority b) &&
  list_eqb wblock_eqb (w_blocks a) (w_blocks b) && wproof_eqb (w_proof a) (w_proof b).

Definition sblock_eqb (a b : sblock) : bool :=
  fields_eqb (fields_of a) (fields_of b) && bytes_eqb (b_sig a) (b_sig b) &&
  opt_eqb (fun x y => pubkey_eqb (fst x) (fst y) && bytes_eqb (snd x) (snd y)) (b_ext a) (b_ext b).
Definition token_eqb (a b : token) : bool :=
  oN_eqb (t_root_key_id a) (t_root_key_id b) && list_eqb sblock_eqb (all_blocks a) (all_blocks b) &&
  proof_eqb (t_proof a) (t_proof b).

Definition terr_class (e : terr) : oclass :=
  match e with
  | TAlreadySealed => OAlreadySealed
  | TAppendOnSealed => OAppendOnSealed
  | _ => OOther
  end.

(* ------------------------------------------------------------------ C02: histories *)
Record himpl := mkhimpl {
  hi_err : option (N * oclass);        (* first failing operation (index, class) *)
  hi_bytes : bytes;                    (* to_vec() of the last token obtained *)
  hi_size : N;                         (* serialized_size() *)
  hi_reload : list bytes;              (* to_vec() after every reload path *)
  hi_accept : list bool;               (* accepted under the root key on every reload path *)
  hi_count : list N;                   (* block_count() on every path *)
  hi_kid : list (option N);            (* root_key_id() on every path *)
  hi_revs : list (list bytes);         (* revocation_identifiers() on every path *)
  hi_eks : list (list (option pubkey));(* external_public_keys() on every path *)
  hi_ctx : list (list (option bytes))  (* context() on every path *)
}.

Inductive hobs := HPanic | HRes (i : himpl).

Record hcase := mkhcase {
  h_unverified : bool;
  h_build : hbuild;
  h_ops : list hop;
  h_tabs : tables;
  h_obs : hobs
}.

Record dcase := mkdcase {
  d_bytes : bytes;
  d_impl : option wtoken;    (* schema::Biscuit::decode *)
  d_reenc : bytes;           (* encode_to_vec of the decoded message *)
  d_len : N                  (* encoded_len of the decoded message *)
}.

Inductive wcase := CHist (h : hcase) | CDec (d : dcase).

(* model result: what the model says, for the replay text *)
Inductive wres :=
| WMiss                            (* an oracle table had no entry *)
| WAgree
| WDiff (clause : N) (b : bytes).  (* clause that failed, with the model's bytes where meaningful *)

(* clauses: 1 operation results; 2 serialized bytes; 3 decode (encode t); 4 encoded_len;
   5 the model's token does not verify under the raw primitives (layout / signing differs from
   the specification); 6 a reload path rejects or re-serializes differently; 7 accessors;
   8 contexts; 9 reload of the model token through deserialize; 10 prost decode differs;
   11 re-encoding differs; 12 implementation panicked; 13 signature version of a block differs
   from the rule *)

Definition kp_covered (st : ktab) (kp : keypair) : bool :=
  match klookup st (kp_alg kp) (kp_sk kp) with Some _ => true | None => false end.

Definition hop_covered (st : ktab) (o : hop) : bool :=
  match o with
  | HAppend n _ _ => kp_covered st n
  | HThird e _ n => kp_covered st e && kp_covered st n
  | HSeal => true
  end.

Definition model_hist (c : hcase) (dv : bool) (ds : bytes) : option (token * option (N * terr)) :=
  let tb := h_tabs c in
  let pub := pub_of (tb_s tb) in
  let sign := sg_of (tb_g tb) ds in
  match build pub sign (h_build c) with
  | TErr _ => None
  | TOk t0 =>
      Some (run_ops (vf_dflt (tb_v tb) dv) pub sign (kc_of (tb_k tb)) (h_unverified c) 0 t0 (h_ops c))
  end.

Definition run_eqb (a b : option (token * option (N * terr))) : bool :=
  match a, b with
  | None, None => true
  | Some (t, e), Some (t', e') =>
      token_eqb t t' &&
      opt_eqb (fun x y => N.eqb (fst x) (fst y) && oclass_eqb (terr_class (snd x)) (terr_class (snd y))) e e'
  | _, _ => false
  end.

Definition err_agrees (e : option (N * terr)) (i : option (N * oclass)) : bool :=
  match e, i with
  | None, None => true
  | Some (n, x), Some (n', c) => N.eqb n n' && oclass_eqb (terr_class x) c
  | _, _ => false
  end.

Definition all_eq {A} (eq : A -> A -> bool) (x : A) (l : list A) : bool := forallb (eq x) l.

Definition wire_versions (w : wtoken) : list N :=
  map (fun b => opt_version (w_version b)) (w_authority w :: w_blocks w).

(* same number of blocks, other versions *)
Definition versions_differ (r : option (token * option (N * terr))) (o : hobs) : bool :=
  match r, o with
  | Some (t, _), HRes i =>
      match decode (hi_bytes i) with
      | Some w =>
          Nat.eqb (length (all_blocks t)) (length (wire_versions w)) &&
          negb (list_eqb N.eqb (map b_version (all_blocks t)) (wire_versions w))
      | None => false
      end
  | _, _ => false
  end.

Definition hist_eval (c : hcase) : wres :=
  let tb := h_tabs c in
  let b := h_build c in
  if negb (kp_covered (tb_s tb) (hb_root b) && kp_covered (tb_s tb) (hb_next b) &&
           forallb (hop_covered (tb_s tb)) (h_ops c)) then WMiss else
  let r1 := model_hist c false [] in
  let r2 := model_hist c true [0] in
  (* the signature versions do not depend on the tables: compared first, so that a version
     chosen against the rule is reported as such and not as a table miss *)
  if versions_differ r1 (h_obs c) then WDiff 13 [] else
  if negb (run_eqb r1 r2) then WMiss else
  match h_obs c with
  | HPanic => WDiff 12 []
  | HRes i =>
      match r1, pub_of (tb_s tb) (kp_alg (hb_root b)) (kp_sk (hb_root b)) with
      | Some (t, e), Some root =>
          let w := to_wire t in
          let bs := encode w in
          if negb (err_agrees e (hi_err i)) then WDiff 1 bs
          else if negb (bytes_eqb bs (hi_bytes i)) then WDiff 2 bs
          else if negb (opt_eqb wtoken_eqb (decode bs) (Some w)) then WDiff 3 bs
          else if negb (N.eqb (encoded_len w) (hi_size i) && N.eqb (encoded_len w) (nlen bs)) then WDiff 4 bs
          else if negb (wire_covered (tb_k tb) (tb_s tb) w) then WMiss
          else if negb (opt_eqb token_eqb (deserialize (kc_of (tb_k tb)) (pub_of (tb_s tb)) w) (Some t))
               then WDiff 9 bs
          else if negb (forallb (triple_covered (tb_v tb)) (queries root t)) then WMiss
          else if negb (verify (vf_of (tb_v tb)) (pub_of (tb_s tb)) root t) then WDiff 5 bs
          else if negb (forallb (fun x => x) (hi_accept i) && all_eq bytes_eqb bs (hi_reload i)) then WDiff 6 bs
          else if negb (all_eq N.eqb (N.of_nat (length (all_blocks t))) (hi_count i) &&
                        all_eq oN_eqb (t_root_key_id t) (hi_kid i) &&
                        all_eq (list_eqb bytes_eqb) (revocation_ids t) (hi_revs i) &&
                        all_eq (list_eqb (opt_eqb pubkey_eqb)) (external_keys t) (hi_eks i)) then WDiff 7 bs
          else if negb (all_eq (list_eqb (opt_eqb (opt_eqb bytes_eqb))) (contexts t)
                               (map (map (@Some (option bytes))) (hi_ctx i))) then WDiff 8 bs
          else WAgree
      | _, _ => WDiff 1 []
      end
  end.

Definition dec_eval (d : dcase) : wres :=
  let m := decode (d_bytes d) in
  if negb (opt_eqb wtoken_eqb m (d_impl d)) then
    WDiff 10 (match m with Some w => encode w | None => [] end)
  else match m with
       | Some w =>
           if negb (bytes_eqb (encode w) (d_reenc d)) then WDiff 11 (encode w)
           else if negb (N.eqb (encoded_len w) (d_len d)) then WDiff 4 (encode w)
           else WAgree
       | None => WAgree
       end.

Definition wcase_model (c : wcase) : wres :=
  match c with CHist h => hist_eval h | CDec d => dec_eval d end.

Fixpoint scan_w {A} (ev : A -> wres) (i : N) (cs : list A) (bad : list (N * wres)) (skipped : N)
  : list (N * wres) * N :=
  match cs with
  | [] => (rev bad, skipped)
  | c :: cs' =>
      match ev c with
      | WAgree => scan_w ev (N.succ i) cs' bad skipped
      | WMiss => scan_w ev (N.succ i) cs' bad (N.succ skipped)
      | r => scan_w ev (N.succ i) cs' ((i, r) :: bad) skipped
      end
  end.

Definition c02_failures (start : N) (cs : list wcase) := scan_w wcase_model start cs [] 0.

(* ------------------------------------------------------------------ C07 *)
Definition issued_t : Type := list (pubkey * bytes * bytes * bytes).   (* key, payload, previous signature, signature *)

(* 0: fine; 7: a signature made by an honest third party presented under another key, for
   another payload or at another place; 8: something attributed to an honest third party that
   it never signed.  (A block that another key signs itself for the same payload and position
   is that key's block: payloads are public data.) *)
Definition tp_verdict (issued : issued_t) (honest : list pubkey) (x : pubkey * bytes * bytes * bytes) : N :=
  let '(ek, d, p, s) := x in
  if existsb (fun i => let '(k, d', p', _) := i in
                       pubkey_eqb k ek && bytes_eqb d d' && bytes_eqb p p') issued then 0
  else if existsb (fun i => let '(_, _, _, s') := i in bytes_eqb s s') issued then 7
  else if existsb (pubkey_eqb ek) honest then 8
  else 0.

(* the documented class: payload, position and signature bytes are those of an honest
   secp256r1 third party; only the stated key differs, and it is a secp256r1 key *)
Definition reattrib_known (issued : issued_t) (x : pubkey * bytes * bytes * bytes) : bool :=
  let '(ek, d, p, s) := x in
  existsb (fun i => let '(k, d', p', s') := i in
                    bytes_eqb s s' && bytes_eqb d d' && bytes_eqb p p' && negb (pubkey_eqb k ek) &&
                    alg_eqb (pk_alg k) Secp256r1 && alg_eqb (pk_alg ek) Secp256r1) issued.

(* first offending third-party block of an accepted token; [tolerant] skips the documented class *)
Fixpoint first_offence (tolerant : bool) (issued : issued_t) (honest : list pubkey)
                       (l : list (pubkey * bytes * bytes * bytes)) : N :=
  match l with
  | [] => 0
  | x :: l' =>
      let v := tp_verdict issued honest x in
      if (v =? 0) || (tolerant && (v =? 7) && reattrib_known issued x)
      then first_offence tolerant issued honest l' else v
  end.

Definition only_known_offences (issued : issued_t) (honest : list pubkey)
                               (l : list (pubkey * bytes * bytes * bytes)) : bool :=
  (first_offence true issued honest l =? 0) && negb (first_offence false issued honest l =? 0).

Inductive aimpl := AErr (c : tpclass) | AOk (b : bytes) (verifies : bool) | APanic.

Record acase := mkacase {
  a_unverified : bool;
  a_root : pubkey;
  a_carrier : wtoken;
  a_tabs : tables;
  a_expected : pubkey;           (* not used on the unverified path *)
  a_resp : bytes;                (* serialized ThirdPartyBlockContents *)
  a_content : bool;              (* the payload decodes as a Block message *)
  a_next : keypair;
  a_issued : issued_t;
  a_honest : list pubkey;
  a_impl : aimpl
}.

Record sgroup := mksgroup { sg_group : group; sg_issued : issued_t; sg_honest : list pubkey }.

Inductive mcase :=
| MReq (prev ser : bytes)                    (* third_party_request().serialize() of a token ending with [prev] *)
| MReqDec (b : bytes) (impl : option bytes)  (* ThirdPartyRequest::deserialize(b) then serialize() *)
| MResp (r : tpresp) (ser : bytes)           (* ThirdPartyBlock::serialize() *)
| MRespDec (b : bytes) (impl : option tpresp).  (* ThirdPartyBlockContents::decode(b) *)

Inductive tcase := TAppend (a : acase) | TSplice (s : sgroup) | TMsg (m : mcase).

Inductive tres7 :=
| TMiss
| TAgree
| TClass (c : option tpclass)        (* the model's outcome class (None = accepted) differs *)
| TBytes (b : bytes)                 (* the model's bytes differ *)
| TVerify (v : bool)                 (* the model's verification verdict differs *)
| TProp (clause : N)                 (* accepted, but the property's conclusion fails: 7 / 8 *)
| TVariant (i : N) (r : mres)        (* splice group: variant i, model result *)
| TCarrier                           (* the honest carrier does not verify in the model *)
| TPanic.

Definition tpclass_eqb (a b : tpclass) : bool :=
  match a, b with
  | TPDecode, TPDecode | TPKey, TPKey | TPUnexpectedKey, TPUnexpectedKey | TPSignature, TPSignature
  | TPContent, TPContent | TPSealed, TPSealed | TPOther, TPOther => true
  | _, _ => false
  end.

Definition tpresp_eqb (a b : tpresp) : bool :=
  bytes_eqb (r_payload a) (r_payload b) && bytes_eqb (r_sig a) (r_sig b) && wkey_eqb (r_key a) (r_key b).

Definition model_append (a : acase) (t : token) (dv : bool) (ds : bytes) : tpres :=
  let tb := a_tabs a in
  match dec_response (a_resp a) with
  | None => TPErr TPDecode
  | Some r =>
      if a_unverified a
      then append_third_party_unverified (pub_of (tb_s tb)) (sg_of (tb_g tb) ds) (kc_of (tb_k tb))
             t r (a_content a) (a_next a)
      else append_third_party_checked (vf_dflt (tb_v tb) dv) (pub_of (tb_s tb)) (sg_of (tb_g tb) ds)
             (kc_of (tb_k tb)) t (a_expected a) r (a_content a) (a_next a)
  end.

Definition tpres_eqb (a b : tpres) : bool :=
  match a, b with
  | TPOk t, TPOk t' => token_eqb t t'
  | TPErr c, TPErr c' => tpclass_eqb c c'
  | _, _ => false
  end.

Definition resp_key_covered (kt : ktab) (b : bytes) : bool :=
  match dec_response b with
  | Some r => wkey_covered kt (r_key r)
  | None => true
  end.

Definition append_eval (tolerant : bool) (a : acase) : tres7 :=
  let tb := a_tabs a in
  if negb (kp_covered (tb_s tb) (a_next a) && resp_key_covered (tb_k tb) (a_resp a)) then TMiss else
  match model_token (tb_k tb) (tb_s tb) (tb_v tb) (a_root a) (a_carrier a) with
  | None => TMiss
  | Some None => TCarrier
  | Some (Some t) =>
      let r1 := model_append a t false [] in
      let r2 := model_append a t true [0] in
      if negb (tpres_eqb r1 r2) then TMiss else
      match r1, a_impl a with
      | _, APanic => TPanic
      | TPErr c, AErr c' => if tpclass_eqb c c' then TAgree else TClass (Some c)
      | TPErr c, AOk _ _ => TClass (Some c)
      | TPOk t', AErr _ =>
          (* a tree that refuses the documented re-attribution class already at append is not an alarm *)
          if only_known_offences (a_issued a) (a_honest a) (third_party_blocks t') then TAgree else TClass None
      | TPOk t', AOk b v =>
          if negb (bytes_eqb (token_bytes t') b) then TBytes (token_bytes t')
          else if negb (forallb (triple_covered (tb_v tb)) (queries (a_root a) t')) then TMiss
          else
            let mv := verify (vf_of (tb_v tb)) (pub_of (tb_s tb)) (a_root a) t' in
            let known_only := only_known_offences (a_issued a) (a_honest a) (third_party_blocks t') in
            if negb (Bool.eqb mv v) then
              (* a tree that refuses the documented re-attribution class is not an alarm *)
              if mv && negb v && known_only then TAgree else TVerify mv
            else if v then
              match first_offence tolerant (a_issued a) (a_honest a) (third_party_blocks t') with
              | 0 => TAgree
              | n => TProp n
              end
            else TAgree
      end
  end.

(* splice groups: verdict agreement as in the chain family, then the C07 conclusion on every
   accepted variant (derived or not: attribution is about the third parties' keys, which no
   token holder has) *)
Definition splice_variant (tolerant : bool) (s : sgroup) (v : variant) : option mres :=
  let g := sg_group s in
  match v_wire v with
  | None => if agrees MReject (v_content v) (v_impl v) then None else Some MReject
  | Some w =>
      match model_token (g_ktab g) (g_stab g) (g_vtab g) (v_root v) w with
      | None => Some MMiss
      | Some None => if agrees MReject (v_content v) (v_impl v) then None else Some MReject
      | Some (Some t') =>
          let m := MAccept (revocation_ids t') (external_keys t') in
          let tps := third_party_blocks t' in
          if negb (agrees m (v_content v) (v_impl v)) then
            if rejects_all (v_impl v) && only_known_offences (sg_issued s) (sg_honest s) tps
            then None else Some m
          else match first_offence tolerant (sg_issued s) (sg_honest s) tps with
               | 0 => None
               | n => Some (MProp n (revocation_ids t'))
               end
      end
  end.

Fixpoint splice_scan (tolerant : bool) (s : sgroup) (i : N) (vs : list variant) : option tres7 :=
  match vs with
  | [] => None
  | v :: vs' =>
      match splice_variant tolerant s v with
      | None => splice_scan tolerant s (N.succ i) vs'
      | Some MMiss => Some TMiss
      | Some r => Some (TVariant i r)
      end
  end.

Definition splice_eval (tolerant : bool) (s : sgroup) : tres7 :=
  let g := sg_group s in
  match model_token (g_ktab g) (g_stab g) (g_vtab g) (g_root g) (g_orig g) with
  | None => TMiss
  | Some None => TCarrier
  | Some (Some t) =>
      match first_offence false (sg_issued s) (sg_honest s) (third_party_blocks t) with
      | 0 => match splice_scan tolerant s 0 (g_variants g) with
             | None => TAgree
             | Some r => r
             end
      | n => TProp n          (* the ground truth does not cover the honest token itself *)
      end
  end.

Definition msg_eval (m : mcase) : tres7 :=
  match m with
  | MReq prev ser =>
      if bytes_eqb (enc_request prev) ser && opt_eqb bytes_eqb (dec_request ser) (Some prev)
      then TAgree else TBytes (enc_request prev)
  | MReqDec b impl =>
      let r := option_map enc_request (dec_request b) in
      if opt_eqb bytes_eqb r impl then TAgree
      else TBytes (match r with Some x => x | None => [] end)
  | MResp r ser =>
      if bytes_eqb (enc_response r) ser && opt_eqb tpresp_eqb (dec_response ser) (Some r)
      then TAgree else TBytes (enc_response r)
  | MRespDec b impl =>
      if opt_eqb tpresp_eqb (dec_response b) impl then TAgree
      else TBytes (match dec_response b with Some r => enc_response r | None => [] end)
  end.

Definition tcase_model (tolerant : bool) (c : tcase) : tres7 :=
  match c with
  | TAppend a => append_eval tolerant a
  | TSplice s => splice_eval tolerant s
  | TMsg m => msg_eval m
  end.

Fixpoint scan_t (tolerant : bool) (i : N) (cs : list tcase) (bad : list (N * tres7)) (skipped : N)
  : list (N * tres7) * N :=
  match cs with
  | [] => (rev bad, skipped)
  | c :: cs' =>
      match tcase_model tolerant c with
      | TAgree => scan_t tolerant (N.succ i) cs' bad skipped
      | TMiss => scan_t tolerant (N.succ i) cs' bad (N.succ skipped)
      | r => scan_t tolerant (N.succ i) cs' ((i, r) :: bad) skipped
      end
  end.

(* strict: every re-attribution is reported; unknown: the documented class is not *)
Definition c07_failures (start : N) (cs : list tcase) := scan_t false start cs [] 0.
Definition c07_failures_unknown (start : N) (cs : list tcase) := scan_t true start cs [] 0.

(* single-case evaluators for replay texts *)
Definition tcase_model_strict (c : tcase) : tres7 := tcase_model false c.

(* Model of the Datalog text layer (property C14): the printers of biscuit-auth
   (builder Display impls, SymbolTable::print_*, datalog::Expression::print) and the
   nom parser of biscuit-parser (parser.rs), character by character.

   Text is a list of Unicode scalar values ([N]).  The parser is modelled with nom's
   three outcomes -- success, recoverable Error (an enclosing `alt`/`many0`/`opt`
   backtracks), Failure (after `cut`: no backtracking) -- plus the model artefact
   OutOfFuel.  No proofs here. *)
From Biscuit Require Export Base.Bytes.
Local Open Scope N_scope.

Definition text := list N.

(* ------------------------------------------------------------------ AST *)
Inductive mkey := MKInt (i : Z) | MKStr (s : text) | MKParam (s : text).

Inductive term :=
| TVar (s : text)
| TInt (i : Z)
| TStr (s : text)
| TDate (d : Z)              (* u64 *)
| TBytes (b : bytes)
| TBool (b : bool)
| TSet (l : list term)       (* BTreeSet: duplicate-free list *)
| TParam (s : text)
| TNull
| TArray (l : list term)
| TMap (l : list (mkey * term)).   (* BTreeMap: keys pairwise distinct *)

Inductive unop := UNegate | UParens | ULength | UTypeOf | UFfi (name : text).

Inductive binop :=
| BLessThan | BGreaterThan | BLessOrEqual | BGreaterOrEqual | BEqual | BContains | BPrefix
| BSuffix | BRegex | BAdd | BSub | BMul | BDiv | BAnd | BOr | BIntersection | BUnion
| BBitwiseAnd | BBitwiseOr | BBitwiseXor | BNotEqual | BHeterogeneousEqual
| BHeterogeneousNotEqual | BLazyAnd | BLazyOr | BAll | BAny | BGet | BFfi (name : text).

(* the parser's tree (parser.rs `Expr`) and the builder's op list *)
Inductive expr :=
| EValue (t : term)
| EUnary (u : unop) (e : expr)
| EBinary (b : binop) (l r : expr)
| EClosure (ps : list text) (body : expr).

Inductive op :=
| OValue (t : term)
| OUnary (u : unop)
| OBinary (b : binop)
| OClosure (ps : list text) (body : list op).

Inductive alg := Ed25519 | Secp256r1.
Inductive scope := SAuthority | SPrevious | SKey (a : alg) (k : bytes) | SParam (s : text).

Record pred := mkpred { pname : text; pterms : list term }.
Record rule := mkrule { rhead : pred; rbody : list pred; rexprs : list (list op); rscopes : list scope }.
Inductive ckind := CheckIf | CheckAll | RejectIf.
Record check := mkcheck { cqueries : list rule; ckind_of : ckind }.
Inductive pkind := Allow | Deny.
Record policy := mkpolicy { pqueries : list rule; pkind_of : pkind }.

(* ------------------------------------------------------------------ equality *)
Fixpoint text_eqb (a b : text) : bool :=
  match a, b with
  | [], [] => true
  | x :: a', y :: b' => N.eqb x y && text_eqb a' b'
  | _, _ => false
  end.

Definition mkey_eqb (a b : mkey) : bool :=
  match a, b with
  | MKInt i, MKInt j => Z.eqb i j
  | MKStr s, MKStr t => text_eqb s t
  | MKParam s, MKParam t => text_eqb s t
  | _, _ => false
  end.

(* structural equality (lists in order) *)
Fixpoint term_eqb (a b : term) {struct a} : bool :=
  let fix list_eqb (l m : list term) {struct l} : bool :=
    match l, m with
    | [], [] => true
    | x :: l', y :: m' => term_eqb x y && list_eqb l' m'
    | _, _ => false
    end in
  let fix map_eqb (l m : list (mkey * term)) {struct l} : bool :=
    match l, m with
    | [], [] => true
    | (k, x) :: l', (k', y) :: m' => mkey_eqb k k' && term_eqb x y && map_eqb l' m'
    | _, _ => false
    end in
  match a, b with
  | TVar s, TVar t => text_eqb s t
  | TInt i, TInt j => Z.eqb i j
  | TStr s, TStr t => text_eqb s t
  | TDate i, TDate j => Z.eqb i j
  | TBytes s, TBytes t => text_eqb s t
  | TBool x, TBool y => Bool.eqb x y
  | TSet l, TSet m => list_eqb l m
  | TParam s, TParam t => text_eqb s t
  | TNull, TNull => true
  | TArray l, TArray m => list_eqb l m
  | TMap l, TMap m => map_eqb l m
  | _, _ => false
  end.

(* ------------------------------------------------------------------ characters *)
Definition cTab := 9. Definition cLF := 10. Definition cCR := 13. Definition cSp := 32.
Definition cBang := 33. Definition cQuote := 34. Definition cDollar := 36. Definition cAmp := 38.
Definition cLPar := 40. Definition cRPar := 41. Definition cStar := 42. Definition cPlus := 43.
Definition cComma := 44. Definition cMinus := 45. Definition cDot := 46. Definition cSlash := 47.
Definition cColon := 58. Definition cSemi := 59. Definition cLt := 60. Definition cEq := 61.
Definition cGt := 62. Definition cLBrk := 91. Definition cBackslash := 92. Definition cRBrk := 93.
Definition cCaret := 94. Definition cUnder := 95. Definition cLBrace := 123. Definition cPipe := 124.
Definition cRBrace := 125. Definition c_n := 110. Definition cT := 84. Definition cZ := 90. Definition c_z := 122.

Definition is_ws (c : N) : bool := (c =? cSp) || (c =? cTab) || (c =? cCR) || (c =? cLF).
Definition is_digit (c : N) : bool := (48 <=? c) && (c <=? 57).
Definition is_alpha (c : N) : bool := ((65 <=? c) && (c <=? 90)) || ((97 <=? c) && (c <=? 122)).
(* `is_alphanumeric(c as u8)`: the char is truncated to its low byte first *)
Definition low8 (c : N) : N := c mod 256.
Definition is_name_char (c : N) : bool :=
  is_alpha (low8 c) || is_digit (low8 c) || (c =? cUnder) || (c =? cColon).
Definition is_name_start (c : N) : bool := is_alpha (low8 c).

(* ------------------------------------------------------------------ printers *)
(* decimal *)
Fixpoint digits_of (fuel : nat) (n : Z) (acc : text) : text :=
  match fuel with
  | O => acc
  | S f => let acc' := (48 + Z.to_N (n mod 10)%Z) :: acc in
           if (n <? 10)%Z then acc' else digits_of f (n / 10)%Z acc'
  end.
Definition print_natz (n : Z) : text := digits_of (S (Z.to_nat (Z.log2 n))) n [].
Definition print_int (i : Z) : text :=
  if (i <? 0)%Z then cMinus :: print_natz (- i)%Z else print_natz i.

Definition hexdigit (n : N) : N := if n <? 10 then 48 + n else 87 + n.
Fixpoint print_hex (b : bytes) : text :=
  match b with [] => [] | x :: r => hexdigit (x / 16) :: hexdigit (x mod 16) :: print_hex r end.

(* strings: [esc = false] is the unchanged code (no escaping at all); [esc = true] the
   repaired printer: backslash, double quote and newline are written as the parser's
   three escape sequences *)
Fixpoint esc_chars (s : text) : text :=
  match s with
  | [] => []
  | c :: r => if c =? cBackslash then cBackslash :: cBackslash :: esc_chars r
              else if c =? cQuote then cBackslash :: cQuote :: esc_chars r
              else if c =? cLF then cBackslash :: c_n :: esc_chars r
              else c :: esc_chars r
  end.
Definition print_string (esc : bool) (s : text) : text :=
  cQuote :: (if esc then esc_chars s else s) ++ [cQuote].

(* dates: civil-date arithmetic (days since 1970-01-01 <-> year, month, day) *)
Definition civil_from_days (z0 : Z) : Z * Z * Z :=
  (let z := z0 + 719468 in
   let era := z / 146097 in
   let doe := z - era * 146097 in
   let yoe := (doe - doe / 1460 + doe / 36524 - doe / 146096) / 365 in
   let y := yoe + era * 400 in
   let doy := doe - (365 * yoe + yoe / 4 - yoe / 100) in
   let mp := (5 * doy + 2) / 153 in
   let d := doy - (153 * mp + 2) / 5 + 1 in
   let m := if mp <? 10 then mp + 3 else mp - 9 in
   ((if m <=? 2 then y + 1 else y), m, d))%Z.

Definition days_from_civil (y0 m d : Z) : Z :=
  (let y := if m <=? 2 then y0 - 1 else y0 in
   let era := y / 400 in
   let yoe := y - era * 400 in
   let doy := (153 * (if 2 <? m then m - 3 else m + 9) + 2) / 5 + d - 1 in
   let doe := yoe * 365 + yoe / 4 - yoe / 100 + doy in
   era * 146097 + doe - 719468)%Z.

Definition dig (n : Z) : N := 48 + Z.to_N (n mod 10)%Z.
Definition pad2 (n : Z) : text := [dig (n / 10); dig n].
Definition pad4 (n : Z) : text := [dig (n / 1000); dig (n / 100); dig (n / 10); dig n].

Definition invalid_date : text := str "<invalid date>".
Definition date_max : Z := 253402300799%Z.      (* 9999-12-31T23:59:59Z *)
Definition date_min : Z := (-62167219200)%Z.    (* 0000-01-01T00:00:00Z *)

(* `*d as i64`, OffsetDateTime::from_unix_timestamp, format(Rfc3339) (year 0..=9999) *)
Definition print_date (d : Z) : text :=
  (let s := if d <? 9223372036854775808 then d else d - 18446744073709551616 in
   if (s <? date_min) || (date_max <? s) then invalid_date else
   let days := s / 86400 in
   let sod := s mod 86400 in
   let '(y, m, dd) := civil_from_days days in
   pad4 y ++ [cMinus] ++ pad2 m ++ [cMinus] ++ pad2 dd ++ [cT] ++
   pad2 (sod / 3600) ++ [cColon] ++ pad2 (sod mod 3600 / 60) ++ [cColon] ++ pad2 (sod mod 60) ++ [cZ])%Z.

Fixpoint join (sep : text) (l : list text) : text :=
  match l with
  | [] => []
  | [x] => x
  | x :: r => x ++ sep ++ join sep r
  end.
Definition comma_sp : text := [cComma; cSp].

Definition print_mkey (esc : bool) (k : mkey) : text :=
  match k with
  | MKInt i => print_int i
  | MKStr s => print_string esc s
  | MKParam s => cLBrace :: s ++ [cRBrace]
  end.

Fixpoint print_term (esc : bool) (t : term) {struct t} : text :=
  match t with
  | TVar s => cDollar :: s
  | TInt i => print_int i
  | TStr s => print_string esc s
  | TDate d => print_date d
  | TBytes b => str "hex:" ++ print_hex b
  | TBool b => if b then str "true" else str "false"
  | TSet l => match l with
              | [] => str "{,}"
              | _ => cLBrace :: join comma_sp (map (print_term esc) l) ++ [cRBrace]
              end
  | TParam s => cLBrace :: s ++ [cRBrace]
  | TNull => str "null"
  | TArray l => cLBrk :: join comma_sp (map (print_term esc) l) ++ [cRBrk]
  | TMap l => cLBrace ::
              join comma_sp (map (fun kv => print_mkey esc (fst kv) ++ [cColon; cSp] ++ print_term esc (snd kv)) l)
              ++ [cRBrace]
  end.

Definition print_pred (esc : bool) (p : pred) : text :=
  pname p ++ [cLPar] ++ join comma_sp (map (print_term esc) (pterms p)) ++ [cRPar].

Definition print_unary (u : unop) (v : text) : text :=
  match u with
  | UNegate => cBang :: v
  | UParens => cLPar :: v ++ [cRPar]
  | ULength => v ++ str ".length()"
  | UTypeOf => v ++ str ".type()"
  | UFfi n => v ++ str ".extern::" ++ n ++ str "()"
  end.

Definition infix (l : text) (o : string) (r : text) : text := l ++ [cSp] ++ str o ++ [cSp] ++ r.
Definition method (l : text) (m : text) (r : text) : text := l ++ [cDot] ++ m ++ [cLPar] ++ r ++ [cRPar].

Definition print_binary (b : binop) (l r : text) : text :=
  match b with
  | BLessThan => infix l "<" r
  | BGreaterThan => infix l ">" r
  | BLessOrEqual => infix l "<=" r
  | BGreaterOrEqual => infix l ">=" r
  | BEqual => infix l "===" r
  | BHeterogeneousEqual => infix l "==" r
  | BNotEqual => infix l "!==" r
  | BHeterogeneousNotEqual => infix l "!=" r
  | BContains => method l (str "contains") r
  | BPrefix => method l (str "starts_with") r
  | BSuffix => method l (str "ends_with") r
  | BRegex => method l (str "matches") r
  | BAdd => infix l "+" r
  | BSub => infix l "-" r
  | BMul => infix l "*" r
  | BDiv => infix l "/" r
  | BAnd => infix l "&&!" r
  | BOr => infix l "||!" r
  | BIntersection => method l (str "intersection") r
  | BUnion => method l (str "union") r
  | BBitwiseAnd => infix l "&" r
  | BBitwiseOr => infix l "|" r
  | BBitwiseXor => infix l "^" r
  | BLazyAnd => infix l "&&" r
  | BLazyOr => infix l "||" r
  | BAll => method l (str "all") r
  | BAny => method l (str "any") r
  | BGet => method l (str "get") r
  | BFfi n => method l (str "extern::" ++ n) r
  end.

Definition print_closure (ps : list text) (body : text) : text :=
  match ps with
  | [] => body
  | _ => join comma_sp (map (fun p => cDollar :: p) ps) ++ str " -> " ++ body
  end.

(* datalog::Expression::print: a stack machine over the op list; None when the list is
   not the post-order of one tree *)
Fixpoint print_op (esc : bool) (o : op) (st : list text) {struct o} : option (list text) :=
  let fix run (l : list op) (st : list text) {struct l} : option (list text) :=
    match l with
    | [] => Some st
    | o :: l' => match print_op esc o st with Some st' => run l' st' | None => None end
    end in
  match o with
  | OValue t => Some (print_term esc t :: st)
  | OUnary u => match st with v :: st' => Some (print_unary u v :: st') | [] => None end
  | OBinary b => match st with r :: l :: st' => Some (print_binary b l r :: st') | _ => None end
  | OClosure ps body =>
      match run body [] with
      | Some [b] => Some (print_closure ps b :: st)
      | _ => None
      end
  end.

Fixpoint print_ops_st (esc : bool) (l : list op) (st : list text) : option (list text) :=
  match l with
  | [] => Some st
  | o :: l' => match print_op esc o st with Some st' => print_ops_st esc l' st' | None => None end
  end.

Definition print_ops (esc : bool) (l : list op) : option text :=
  match print_ops_st esc l [] with Some [t] => Some t | _ => None end.

(* the tree printer the stack machine computes on post-orders *)
Fixpoint print_expr (esc : bool) (e : expr) : text :=
  match e with
  | EValue t => print_term esc t
  | EUnary u a => print_unary u (print_expr esc a)
  | EBinary b l r => print_binary b (print_expr esc l) (print_expr esc r)
  | EClosure ps b => print_closure ps (print_expr esc b)
  end.

Fixpoint opcodes (e : expr) : list op :=
  match e with
  | EValue t => [OValue t]
  | EUnary u a => opcodes a ++ [OUnary u]
  | EBinary b l r => opcodes l ++ opcodes r ++ [OBinary b]
  | EClosure ps b => [OClosure ps (opcodes b)]
  end.

Definition print_key (a : alg) (k : bytes) : text :=
  (match a with Ed25519 => str "ed25519/" | Secp256r1 => str "secp256r1/" end) ++ print_hex k.

Definition print_scope (s : scope) : text :=
  match s with
  | SAuthority => str "authority"
  | SPrevious => str "previous"
  | SKey a k => print_key a k
  | SParam n => cLBrace :: n ++ [cRBrace]
  end.

(* the builder Display unwraps Expression::print (a malformed op list panics: C09);
   SymbolTable::print_expression prints a debug rendering instead.  The model yields
   None for the whole item. *)
Fixpoint print_exprs (esc : bool) (l : list (list op)) : option (list text) :=
  match l with
  | [] => Some []
  | e :: r => match print_ops esc e, print_exprs esc r with
              | Some t, Some ts => Some (t :: ts)
              | _, _ => None
              end
  end.

Definition print_rule_body (esc : bool) (r : rule) : option text :=
  match print_exprs esc (rexprs r) with
  | None => None
  | Some es =>
      let ps := map (print_pred esc) (rbody r) in
      Some (join comma_sp ps
            ++ (match es, ps with
                | [], _ => []
                | _, [] => join comma_sp es
                | _, _ => comma_sp ++ join comma_sp es
                end)
            ++ (match rscopes r with
                | [] => []
                | ss => str " trusting " ++ join comma_sp (map print_scope ss)
                end))
  end.

Definition print_rule (esc : bool) (r : rule) : option text :=
  match print_rule_body esc r with
  | Some b => Some (print_pred esc (rhead r) ++ str " <- " ++ b)
  | None => None
  end.

Fixpoint print_bodies (esc : bool) (l : list rule) : option (list text) :=
  match l with
  | [] => Some []
  | q :: r => match print_rule_body esc q, print_bodies esc r with
              | Some t, Some ts => Some (t :: ts)
              | _, _ => None
              end
  end.

Definition print_check (esc : bool) (c : check) : option text :=
  match print_bodies esc (cqueries c) with
  | None => None
  | Some bs =>
      Some ((match ckind_of c with
             | CheckIf => str "check if "
             | CheckAll => str "check all "
             | RejectIf => str "reject if "
             end) ++ join (str " or ") bs)
  end.

Definition print_policy (esc : bool) (p : policy) : option text :=
  match pqueries p with
  | [] => Some (match pkind_of p with Allow => str "allow" | Deny => str "deny" end)
  | qs =>
      match print_bodies esc qs with
      | None => None
      | Some bs => Some ((match pkind_of p with Allow => str "allow if " | Deny => str "deny if " end)
                         ++ join (str " or ") bs)
      end
  end.

(* ------------------------------------------------------------------ parser: basics *)
Inductive pr (A : Type) :=
| POk (a : A) (rest : text)
| PErr            (* nom::Err::Error: the enclosing alternative may backtrack *)
| PFail           (* nom::Err::Failure: produced by `cut` *)
| PFuel.          (* model artefact *)
Arguments POk {A} a rest.
Arguments PErr {A}.
Arguments PFail {A}.
Arguments PFuel {A}.

Definition pbind {A B} (r : pr A) (f : A -> text -> pr B) : pr B :=
  match r with POk a i => f a i | PErr => PErr | PFail => PFail | PFuel => PFuel end.
Definition cut {A} (r : pr A) : pr A := match r with PErr => PFail | _ => r end.
Definition pmap {A B} (f : A -> B) (r : pr A) : pr B :=
  match r with POk a i => POk (f a) i | PErr => PErr | PFail => PFail | PFuel => PFuel end.
(* alt((p, q)) *)
Definition por {A} (r : pr A) (q : unit -> pr A) : pr A := match r with PErr => q tt | _ => r end.
Definition of_opt {A} (o : option (A * text)) : pr A :=
  match o with Some (a, i) => POk a i | None => PErr end.

Fixpoint ws (i : text) : text :=
  match i with c :: r => if is_ws c then ws r else i | [] => [] end.

Fixpoint tag (t i : text) : option text :=
  match t with
  | [] => Some i
  | x :: t' => match i with y :: i' => if x =? y then tag t' i' else None | [] => None end
  end.

(* tag_no_case against a lower-case ASCII tag *)
Definition lower (c : N) : N := if (65 <=? c) && (c <=? 90) then c + 32 else c.
Fixpoint tag_nc (t i : text) : option text :=
  match t with
  | [] => Some i
  | x :: t' => match i with y :: i' => if x =? lower y then tag_nc t' i' else None | [] => None end
  end.

Definition chr (c : N) (i : text) : option text :=
  match i with y :: r => if c =? y then Some r else None | [] => None end.

Fixpoint span (p : N -> bool) (i : text) : text * text :=
  match i with
  | c :: r => if p c then let (a, b) := span p r in (c :: a, b) else ([], i)
  | [] => ([], [])
  end.

Definition take_while1 (p : N -> bool) (i : text) : option (text * text) :=
  match span p i with ([], _) => None | (a, r) => Some (a, r) end.

Definition p_name (i : text) : option (text * text) := take_while1 is_name_char i.

Definition p_param_name (i : text) : option (text * text) :=
  match i with
  | c :: r => if is_name_start c then let (a, b) := span is_name_char r in Some (c :: a, b) else None
  | [] => None
  end.

(* delimited(char('{'), <name>, char('}')) *)
Definition p_braced (nm : text -> option (text * text)) (i : text) : option (text * text) :=
  match chr cLBrace i with
  | Some i1 => match nm i1 with
               | Some (n, i2) => match chr cRBrace i2 with Some i3 => Some (n, i3) | None => None end
               | None => None
               end
  | None => None
  end.

(* ---- strings: escaped_transform(printable, backslash, alt(backslash | quote | n)) between quotes *)
Definition unescape (c : N) : option N :=
  if c =? cBackslash then Some cBackslash
  else if c =? cQuote then Some cQuote
  else if c =? c_n then Some cLF
  else None.

Fixpoint str_body (i : text) : option (text * text) :=
  match i with
  | [] => Some ([], [])
  | c :: r =>
      if c =? cQuote then Some ([], i)
      else if c =? cBackslash then
        match r with
        | [] => None
        | e :: r' => match unescape e with
                     | Some ch => match str_body r' with Some (s, rest) => Some (ch :: s, rest) | None => None end
                     | None => None
                     end
        end
      else match str_body r with Some (s, rest) => Some (c :: s, rest) | None => None end
  end.

Definition parse_string (i : text) : option (text * text) :=
  match i with
  | q :: r =>
      if q =? cQuote then
        match r with
        | q2 :: r2 =>
            if q2 =? cQuote then Some ([], r2)
            else match str_body r with
                 | Some (s, rest) => match chr cQuote rest with Some rest' => Some (s, rest') | None => None end
                 | None => None
                 end
        | [] => None
        end
      else None
  | [] => None
  end.

(* ---- integers: recognize(opt('-') digit1) then str::parse::<i64> *)
Fixpoint digits_val (ds : text) (acc : Z) : Z :=
  match ds with [] => acc | d :: r => digits_val r (acc * 10 + Z.of_N (d - 48))%Z end.

Definition in_i64 (z : Z) : bool := ((-9223372036854775808 <=? z) && (z <=? 9223372036854775807))%Z.

Definition parse_integer (i : text) : option (Z * text) :=
  let '(neg, i1) := match i with c :: r => if c =? cMinus then (true, r) else (false, i) | [] => (false, i) end in
  match span is_digit i1 with
  | ([], _) => None
  | (ds, rest) => let v := digits_val ds 0%Z in
                  let v' := if neg then (- v)%Z else v in
                  if in_i64 v' then Some (v', rest) else None
  end.

(* ---- bytes: take_while1 over the *truncated* char, then hex::decode *)
Definition is_hex_trunc (c : N) : bool :=
  let b := low8 c in is_digit b || ((97 <=? b) && (b <=? 102)) || ((65 <=? b) && (b <=? 70)).
Definition hexv (c : N) : option N :=
  if is_digit c then Some (c - 48)
  else if (97 <=? c) && (c <=? 102) then Some (c - 87)
  else if (65 <=? c) && (c <=? 70) then Some (c - 55)
  else None.
Fixpoint hex_decode (i : text) : option bytes :=
  match i with
  | [] => Some []
  | a :: b :: r => match hexv a, hexv b, hex_decode r with
                   | Some x, Some y, Some l => Some (16 * x + y :: l)
                   | _, _, _ => None
                   end
  | _ => None
  end.
Definition parse_hex (i : text) : option (bytes * text) :=
  match take_while1 is_hex_trunc i with
  | Some (h, rest) => match hex_decode h with Some b => Some (b, rest) | None => None end
  | None => None
  end.
Definition parse_bytes (i : text) : option (bytes * text) :=
  match tag (str "hex:") i with Some r => parse_hex r | None => None end.

(* ---- dates: take_while1(not one of ", )];}") then time's Rfc3339 parser *)
Definition is_date_char (c : N) : bool :=
  negb ((c =? cComma) || (c =? cSp) || (c =? cRPar) || (c =? cRBrk) || (c =? cSemi) || (c =? cRBrace)).

Definition dig2 (t : text) : option (Z * text) :=
  match t with
  | a :: b :: r => if is_digit a && is_digit b then Some ((Z.of_N (a - 48) * 10 + Z.of_N (b - 48))%Z, r) else None
  | _ => None
  end.

Definition is_leap (y : Z) : bool := ((y mod 4 =? 0) && (negb (y mod 100 =? 0) || (y mod 400 =? 0)))%Z.
Definition days_in_month (y m : Z) : Z :=
  (if (m =? 2) then (if is_leap y then 29 else 28)
   else if (m =? 4) || (m =? 6) || (m =? 9) || (m =? 11) then 30 else 31)%Z.

(* subsecond: '.' digit+ (value irrelevant: the timestamp is in whole seconds) *)
Definition skip_subsec (t : text) : option text :=
  match t with
  | c :: r => if c =? cDot then
                match span is_digit r with ([], _) => None | (_, r') => Some r' end
              else Some t
  | [] => Some t
  end.

(* offset in seconds: Z | z | (+|-)hh:mm with hh <= 23, mm <= 59; nothing may follow *)
Definition parse_offset (t : text) : option Z :=
  match t with
  | [c] => if (c =? cZ) || (c =? c_z) then Some 0%Z else None
  | s :: r =>
      if (s =? cPlus) || (s =? cMinus) then
        match dig2 r with
        | Some (hh, c :: r2) =>
            if (c =? cColon) && (hh <=? 23)%Z then
              match dig2 r2 with
              | Some (mm, []) => if (mm <=? 59)%Z then
                                   Some (if s =? cMinus then (- (hh * 3600 + mm * 60))%Z else (hh * 3600 + mm * 60)%Z)
                                 else None
              | _ => None
              end
            else None
        | _ => None
        end
      else None
  | [] => None
  end.

(* YYYY-MM-DD *)
Definition rfc_date (t : text) : option (Z * Z * Z * text) :=
  match t with
  | y1 :: y2 :: y3 :: y4 :: t1 =>
    if is_digit y1 && is_digit y2 && is_digit y3 && is_digit y4 then
      match chr cMinus t1 with None => None | Some t2 =>
      match dig2 t2 with None => None | Some (mo, t3) =>
      match chr cMinus t3 with None => None | Some t4 =>
      match dig2 t4 with None => None | Some (da, t5) =>
        Some (digits_val [y1; y2; y3; y4] 0%Z, mo, da, t5)
      end end end end
    else None
  | _ => None
  end.

(* hh:mm:ss *)
Definition rfc_time (t : text) : option (Z * Z * Z * text) :=
  match dig2 t with None => None | Some (hh, t7) =>
  match chr cColon t7 with None => None | Some t8 =>
  match dig2 t8 with None => None | Some (mi, t9) =>
  match chr cColon t9 with None => None | Some t10 =>
  match dig2 t10 with None => None | Some (ss, t11) => Some (hh, mi, ss, t11)
  end end end end end.

(* component ranges (Date::from_calendar_date, Time::from_hms), the leap-second rule and
   the timestamp *)
Definition rfc_finish (year mo da hh mi ss off : Z) : option Z :=
  let leap := (ss =? 60)%Z in
  let ss' := if leap then 59%Z else ss in
  if ((1 <=? mo) && (mo <=? 12) && (1 <=? da) && (da <=? days_in_month year mo)
      && (hh <? 24) && (mi <? 60) && (ss' <? 60))%Z then
    let ts := (days_from_civil year mo da * 86400 + hh * 3600 + mi * 60 + ss' - off)%Z in
    (* a leap second must stand for 23:59:59 UTC on the last day of a month *)
    let ok_leap :=
      if leap then
        (let sod := ts mod 86400 in
         let '(y', m', d') := civil_from_days (ts / 86400) in
         (sod =? 86399) && (d' =? days_in_month y' m'))%Z
      else true in
    if ok_leap then Some ts else None
  else None.

Definition rfc3339 (t : text) : option Z :=
  match rfc_date t with
  | Some (year, mo, da, sep :: t6) =>
      (* any one-byte separator: a multi-byte character leaves continuation bytes behind *)
      if 128 <=? sep then None else
      match rfc_time t6 with
      | Some (hh, mi, ss, t11) =>
          match skip_subsec t11 with
          | Some t12 => match parse_offset t12 with
                        | Some off => rfc_finish year mo da hh mi ss off
                        | None => None
                        end
          | None => None
          end
      | None => None
      end
  | _ => None
  end.

Definition parse_date (i : text) : option (Z * text) :=
  match take_while1 is_date_char i with
  | Some (tok, rest) => match rfc3339 tok with
                        | Some ts => if (0 <=? ts)%Z && (ts <? 18446744073709551616)%Z then Some (ts, rest) else None
                        | None => None
                        end
  | None => None
  end.

(* ---- scalars, in the order of the `alt` lists (variable only in `term`) *)
Definition parse_bool (i : text) : option (bool * text) :=
  match tag (str "true") i with
  | Some r => Some (true, r)
  | None => match tag (str "false") i with Some r => Some (false, r) | None => None end
  end.

Definition opt_map {A B} (f : A -> B) (o : option (A * text)) : option (B * text) :=
  match o with Some (a, r) => Some (f a, r) | None => None end.
Definition oor {A} (o : option A) (q : unit -> option A) : option A :=
  match o with Some _ => o | None => q tt end.

Definition p_scalar (with_var : bool) (i : text) : option (term * text) :=
  oor (opt_map TParam (p_braced p_param_name i)) (fun _ =>
  oor (opt_map TStr (parse_string i)) (fun _ =>
  oor (opt_map TDate (parse_date i)) (fun _ =>
  oor (if with_var then match chr cDollar i with
                        | Some r => opt_map TVar (p_name r)
                        | None => None
                        end
       else None) (fun _ =>
  oor (opt_map TInt (parse_integer i)) (fun _ =>
  oor (opt_map TBytes (parse_bytes i)) (fun _ =>
  oor (opt_map TBool (parse_bool i)) (fun _ =>
  match tag (str "null") i with Some r => Some (TNull, r) | None => None end))))))).

(* map_key: preceded(space0, alt({param}, string, integer)) *)
Definition p_mkey (i : text) : option (mkey * text) :=
  let i := ws i in
  oor (opt_map MKParam (p_braced p_param_name i)) (fun _ =>
  oor (opt_map MKStr (parse_string i)) (fun _ =>
  opt_map MKInt (parse_integer i))).

(* BTreeSet::insert / BTreeMap::insert on the list representation *)
Fixpoint set_mem (x : term) (l : list term) : bool :=
  match l with [] => false | y :: r => term_eqb x y || set_mem x r end.
Fixpoint set_of_list (l : list term) (acc : list term) : list term :=
  match l with
  | [] => rev acc
  | x :: r => if set_mem x acc then set_of_list r acc else set_of_list r (x :: acc)
  end.
Fixpoint map_insert (k : mkey) (v : term) (l : list (mkey * term)) : list (mkey * term) :=
  match l with
  | [] => [(k, v)]
  | (k', v') :: r => if mkey_eqb k k' then (k', v) :: r else (k', v') :: map_insert k v r
  end.
Definition map_of_list (l : list (mkey * term)) : list (mkey * term) :=
  fold_left (fun acc kv => map_insert (fst kv) (snd kv) acc) l [].

(* the `kind` index of non_empty_set; None: a variable or a set (Failure in the parser) *)
Definition set_kind (t : term) : option N :=
  match t with
  | TVar _ => None | TSet _ => None
  | TInt _ => Some 2 | TStr _ => Some 3 | TDate _ => Some 4 | TBytes _ => Some 5
  | TBool _ => Some 6 | TParam _ => Some 7 | TNull => Some 8 | TArray _ => Some 9 | TMap _ => Some 10
  end.
Fixpoint same_kind (k : N) (l : list term) : bool :=
  match l with
  | [] => true
  | x :: r => match set_kind x with Some k' => (k =? k') && same_kind k r | None => false end
  end.
Definition kinds_ok (l : list term) : bool :=
  match l with
  | [] => true
  | x :: r => match set_kind x with Some k => same_kind k r | None => false end
  end.

Definition sep_comma (i : text) : option text := chr cComma (ws i).

(* ------------------------------------------------------------------ parser: terms *)
Inductive tctx := CTerm | CFact | CSet.

(* non-terminals of the term grammar; list non-terminals carry what was read so far *)
Inductive tnt :=
| TT (c : tctx)                                  (* term / term_in_fact / term_in_set *)
| TListF (acc : list term)                       (* rest of separated_list(',', term_in_fact) after an element *)
| TListS (acc : list term)                       (* the same for term_in_set *)
| TMapL (acc : list (mkey * term)).              (* rest of the map entry list after an entry *)

Inductive tres := RT (t : term) | RL (l : list term) | RM (l : list (mkey * term)).

Definition as_term (r : pr tres) : pr term :=
  match r with POk (RT t) i => POk t i | POk _ _ => PErr | PErr => PErr | PFail => PFail | PFuel => PFuel end.
Definition as_list (r : pr tres) : pr (list term) :=
  match r with POk (RL l) i => POk l i | POk _ _ => PErr | PErr => PErr | PFail => PFail | PFuel => PFuel end.
Definition as_map (r : pr tres) : pr (list (mkey * term)) :=
  match r with POk (RM l) i => POk l i | POk _ _ => PErr | PErr => PErr | PFail => PFail | PFuel => PFuel end.

(* One unfolding of the term grammar over [rec], the parser with one unit of fuel less
   (open recursion: the proofs reason about [t_step] for an abstract [rec]). *)
Section TermStep.
  Variable rec : tnt -> text -> pr tres.

  (* sep then element; an Error of either ends the list before the separator *)
  Definition t_list (c : tctx) (again : list term -> tnt) (acc : list term) (i : text) : pr tres :=
    match sep_comma i with
    | None => POk (RL (rev acc)) i
    | Some i1 =>
        match as_term (rec (TT c) i1) with
        | POk t i2 => rec (again (t :: acc)) i2
        | PErr => POk (RL (rev acc)) i
        | PFail => PFail
        | PFuel => PFuel
        end
    end.

  Definition t_mapl (acc : list (mkey * term)) (i : text) : pr tres :=
    match sep_comma i with
    | None => POk (RM (rev acc)) i
    | Some i1 =>
        match p_mkey i1 with
        | None => POk (RM (rev acc)) i
        | Some (key, i2) =>
            match chr cColon (ws i2) with
            | None => POk (RM (rev acc)) i
            | Some i3 =>
                match as_term (rec (TT CFact) i3) with
                | POk t i4 => rec (TMapL ((key, t) :: acc)) i4
                | PErr => POk (RM (rev acc)) i
                | PFail => PFail
                | PFuel => PFuel
                end
            end
        end
    end.

  (* '[' cut(separated_list0(sep, term_in_fact)) ']' *)
  Definition t_array (i0 : text) : pr tres :=
    match chr cLBrk (ws i0) with
    | None => PErr
    | Some i1 =>
        let lst :=
          match as_term (rec (TT CFact) i1) with
          | POk t i2 => as_list (rec (TListF [t]) i2)
          | PErr => POk [] i1
          | PFail => PFail
          | PFuel => PFuel
          end in
        pbind lst (fun l i3 =>
          match chr cRBrk (ws i3) with
          | Some i4 => POk (RT (TArray l)) i4
          | None => PErr
          end)
    end.

  (* '{' cut(separated_list0(sep, key ':' term_in_fact)) '}' *)
  Definition t_map (i0 : text) : pr tres :=
    match chr cLBrace (ws i0) with
    | None => PErr
    | Some i1 =>
        let first :=
          match p_mkey i1 with
          | None => POk [] i1
          | Some (key, i2) =>
              match chr cColon (ws i2) with
              | None => POk [] i1
              | Some i3 =>
                  match as_term (rec (TT CFact) i3) with
                  | POk t i4 => as_map (rec (TMapL [(key, t)]) i4)
                  | PErr => POk [] i1
                  | PFail => PFail
                  | PFuel => PFuel
                  end
              end
          end in
        pbind first (fun l i5 =>
          match chr cRBrace (ws i5) with
          | Some i6 => POk (RT (TMap (map_of_list l))) i6
          | None => PErr
          end)
    end.

  (* "{,}" | '{' cut(separated_list1(sep, term_in_set)) <kind check> '}' *)
  Definition t_set (i0 : text) : pr tres :=
    match tag (str "{,}") i0 with
    | Some r => POk (RT (TSet [])) r
    | None =>
        match chr cLBrace (ws i0) with
        | None => PErr
        | Some i1 =>
            let lst :=
              match as_term (rec (TT CSet) i1) with
              | POk t i2 => as_list (rec (TListS [t]) i2)
              | PErr => PFail
              | PFail => PFail
              | PFuel => PFuel
              end in
            pbind lst (fun l i3 =>
              if kinds_ok l then
                match chr cRBrace (ws i3) with
                | Some i4 => POk (RT (TSet (set_of_list l []))) i4
                | None => PErr
                end
              else PFail)
        end
    end.

  Definition t_term (c : tctx) (i : text) : pr tres :=
    let i0 := ws i in
    match p_scalar (match c with CTerm => true | _ => false end) i0 with
    | Some (t, r) => POk (RT t) r
    | None =>
        match c with
        | CTerm => por (t_array i0) (fun _ => por (t_map i0) (fun _ => t_set i0))
        | CFact => por (t_set i0) (fun _ => por (t_array i0) (fun _ => t_map i0))
        | CSet => t_map i0
        end
    end.

  Definition t_step (k : tnt) (i : text) : pr tres :=
    match k with
    | TListF acc => t_list CFact TListF acc i
    | TListS acc => t_list CSet TListS acc i
    | TMapL acc => t_mapl acc i
    | TT c => t_term c i
    end.
End TermStep.

Fixpoint p_t (fuel : nat) (k : tnt) (i : text) {struct fuel} : pr tres :=
  match fuel with
  | O => PFuel
  | S f => t_step (p_t f) k i
  end.

Definition p_term (fuel : nat) (c : tctx) (i : text) : pr term := as_term (p_t fuel (TT c) i).

(* ------------------------------------------------------------------ parser: expressions *)
(* binary operators by precedence level (binary_op_0 .. binary_op_7), after space0;
   the alternatives are tried in the order of the source *)
Definition try_tags (l : list (string * binop)) (i : text) : option (binop * text) :=
  (fix go (l : list (string * binop)) : option (binop * text) :=
     match l with
     | [] => None
     | (s, b) :: r => match tag (str s) i with Some i' => Some (b, i') | None => go r end
     end) l.

Definition binop_at (k : nat) (i : text) : option (binop * text) :=
  match k with
  | 0%nat => try_tags [("||"%string, BLazyOr)] i
  | 1%nat => try_tags [("&&"%string, BLazyAnd)] i
  | 2%nat => try_tags [("<="%string, BLessOrEqual); (">="%string, BGreaterOrEqual); ("<"%string, BLessThan); (">"%string, BGreaterThan);
                       ("==="%string, BEqual); ("!=="%string, BNotEqual); ("=="%string, BHeterogeneousEqual);
                       ("!="%string, BHeterogeneousNotEqual)] i
  | 3%nat => try_tags [("^"%string, BBitwiseXor)] i
  | 4%nat => try_tags [("|"%string, BBitwiseOr)] i
  | 5%nat => try_tags [("&"%string, BBitwiseAnd)] i
  | 6%nat => try_tags [("+"%string, BAdd); ("-"%string, BSub)] i
  | 7%nat => try_tags [("*"%string, BMul); ("/"%string, BDiv)] i
  | _ => None
  end.

(* binary_op_8 *)
Definition method_op (i : text) : option (binop * text) :=
  match try_tags [("contains"%string, BContains); ("starts_with"%string, BPrefix); ("ends_with"%string, BSuffix);
                  ("matches"%string, BRegex); ("intersection"%string, BIntersection); ("union"%string, BUnion);
                  ("all"%string, BAll); ("any"%string, BAny); ("get"%string, BGet)] i with
  | Some r => Some r
  | None => match tag (str "extern::") i with
            | Some i1 => opt_map BFfi (p_name i1)
            | None => None
            end
  end.

(* unary_method: (length | type | extern::name) '(' space0 ')' *)
Definition unary_method (i : text) : option (unop * text) :=
  let o := match tag (str "length") i with
           | Some r => Some (ULength, r)
           | None => match tag (str "type") i with
                     | Some r => Some (UTypeOf, r)
                     | None => match tag (str "extern::") i with
                               | Some i1 => opt_map UFfi (p_name i1)
                               | None => None
                               end
                     end
           end in
  match o with
  | Some (u, i1) => match chr cLPar i1 with
                    | Some i2 => match chr cRPar (ws i2) with Some i3 => Some (u, i3) | None => None end
                    | None => None
                    end
  | None => None
  end.

(* fold_exprs: the right operand of && and || becomes a closure without parameters *)
Definition mk_binary (b : binop) (l r : expr) : expr :=
  match b with
  | BLazyAnd | BLazyOr => EBinary b l (EClosure [] r)
  | _ => EBinary b l r
  end.

Inductive ent :=
| NL (k : nat)                 (* expr (k = 0), expr1 .. expr7 *)
| NLoop (k : nat) (acc : expr) (* many0((space0 binary_op_k, expr_{k+1})) with the fold applied eagerly *)
| N8                           (* expr8: alt(unary_negate, expr9) *)
| N9                           (* expr9: expr_term then the method loop *)
| NMeth (acc : expr)           (* the method loop *)
| NTerm.                       (* expr_term: alt(unary_parens, term) *)

Definition next_level (k : nat) : ent := if Nat.eqb k 7 then N8 else NL (S k).

Section ExprStep.
  Variable rec : ent -> text -> pr expr.
  Variable pterm : text -> pr term.        (* `term` (CTerm) with the same fuel *)

  (* not associative: at most one comparison; any failure of the optional part is dropped *)
  Definition e_cmp (i : text) : pr expr :=
    pbind (rec (NL 3) i) (fun l i1 =>
      match binop_at 2 (ws i1) with
      | None => POk l i1
      | Some (b, i2) =>
          match rec (NL 3) i2 with
          | POk r i3 => POk (EBinary b l r) i3
          | PFuel => PFuel
          | _ => POk l i1
          end
      end).

  Definition e_loop (k : nat) (acc : expr) (i : text) : pr expr :=
    match binop_at k (ws i) with
    | None => POk acc i
    | Some (b, i1) =>
        match rec (next_level k) i1 with
        | POk r i2 => rec (NLoop k (mk_binary b acc r)) i2
        | PErr => POk acc i
        | PFail => PFail
        | PFuel => PFuel
        end
    end.

  (* unary_negate: space0 '!' space0 expr6; else expr9 *)
  Definition e_neg (i : text) : pr expr :=
    let neg :=
      match chr cBang (ws i) with
      | Some i1 => pmap (EUnary UNegate) (rec (NL 6) (ws i1))
      | None => PErr
      end in
    por neg (fun _ => rec N9 i).

  Definition e_binary_method (acc : expr) (i1 : text) : pr expr :=
    match method_op i1 with
    | None => PErr
    | Some (b, i2) =>
        match chr cLPar i2 with
        | None => PErr
        | Some i3 =>
            let i4 := ws i3 in
            match b with
            | BAll | BAny =>
                match chr cDollar i4 with
                | None => PErr
                | Some i5 =>
                    match p_name i5 with
                    | None => PErr
                    | Some (p, i6) =>
                        match tag (str "->") (ws i6) with
                        | None => PErr
                        | Some i7 =>
                            pbind (rec (NL 0) (ws i7)) (fun a i8 =>
                              match chr cRPar (ws i8) with
                              | Some i9 => POk (EBinary b acc (EClosure [p] a)) i9
                              | None => PErr
                              end)
                        end
                    end
                end
            | _ =>
                pbind (rec (NL 0) i4) (fun a i5 =>
                  match chr cRPar (ws i5) with
                  | Some i6 => POk (EBinary b acc a) i6
                  | None => PErr
                  end)
            end
        end
    end.

  Definition e_meth (acc : expr) (i : text) : pr expr :=
    match chr cDot i with
    | None => POk acc i
    | Some i1 =>
        match e_binary_method acc i1 with
        | POk e i' => rec (NMeth e) i'
        | PFuel => PFuel
        | _ =>
            (* (_, Ok(unary)) | (_, Err(e)) => return Err(e): unary_method only has Errors *)
            match unary_method i1 with
            | Some (u, i') => rec (NMeth (EUnary u acc)) i'
            | None => PErr
            end
        end
    end.

  (* expr_term: alt(unary_parens, term); unary_parens: space0 '(' space0 expr space0 ')' *)
  Definition e_term (i : text) : pr expr :=
    let par :=
      match chr cLPar (ws i) with
      | Some i1 =>
          pbind (rec (NL 0) (ws i1)) (fun a i2 =>
            match chr cRPar (ws i2) with
            | Some i3 => POk (EUnary UParens a) i3
            | None => PErr
            end)
      | None => PErr
      end in
    por par (fun _ => pmap EValue (pterm i)).

  Definition e_step (k : ent) (i : text) : pr expr :=
    match k with
    | NL 2%nat => e_cmp i
    | NL k => pbind (rec (next_level k) i) (fun l i1 => rec (NLoop k l) i1)
    | NLoop k acc => e_loop k acc i
    | N8 => e_neg i
    | N9 => pbind (rec NTerm i) (fun t i1 => rec (NMeth t) i1)
    | NMeth acc => e_meth acc i
    | NTerm => e_term i
    end.
End ExprStep.

Fixpoint p_e (fuel : nat) (k : ent) (i : text) {struct fuel} : pr expr :=
  match fuel with
  | O => PFuel
  | S f => e_step (p_e f) (p_term f CTerm) k i
  end.

Definition p_expr (fuel : nat) (i : text) : pr expr := p_e fuel (NL 0) i.

(* ------------------------------------------------------------------ parser: items *)
Definition p_alg_key (i : text) : option (scope * text) :=
  match tag (str "ed25519/") i with
  | Some r => opt_map (SKey Ed25519) (parse_hex r)
  | None => match tag (str "secp256r1/") i with
            | Some r => opt_map (SKey Secp256r1) (parse_hex r)
            | None => None
            end
  end.

Definition p_scope (i : text) : option (scope * text) :=
  match tag (str "authority") i with
  | Some r => Some (SAuthority, r)
  | None =>
      match tag (str "previous") i with
      | Some r => Some (SPrevious, r)
      | None => oor (p_alg_key i) (fun _ => opt_map SParam (p_braced p_name i))
      end
  end.

(* separated_list1(space0 ',', space0 cut(scope)) after "trusting" *)
Fixpoint p_scope_list (fuel : nat) (acc : list scope) (i : text) : pr (list scope) :=
  match fuel with
  | O => PFuel
  | S f =>
      match sep_comma i with
      | None => POk (rev acc) i
      | Some i1 => match p_scope (ws i1) with
                   | Some (s, i2) => p_scope_list f (s :: acc) i2
                   | None => PFail
                   end
      end
  end.

Definition p_scopes (fuel : nat) (i : text) : pr (list scope) :=
  match tag (str "trusting") (ws i) with
  | None => POk [] i
  | Some i1 => match p_scope (ws i1) with
               | Some (s, i2) => p_scope_list fuel [s] i2
               | None => PFail
               end
  end.

(* the term lists of predicates: separated_list(space0 ',', cut(term)) *)
Fixpoint p_term_list (fuel : nat) (c : tctx) (acc : list term) (i : text) : pr (list term) :=
  match fuel with
  | O => PFuel
  | S f =>
      match sep_comma i with
      | None => POk (rev acc) i
      | Some i1 => match cut (p_term fuel c i1) with
                   | POk t i2 => p_term_list f c (t :: acc) i2
                   | PErr => PFail | PFail => PFail | PFuel => PFuel
                   end
      end
  end.

(* name space0 '(' cut(separated_list{0,1}(',', cut(term))) space0 ')' *)
Definition p_pred_gen (fuel : nat) (c : tctx) (allow_empty : bool) (i : text) : pr pred :=
  match p_name (ws i) with
  | None => PErr
  | Some (n, i1) =>
      match chr cLPar (ws i1) with
      | None => PErr
      | Some i2 =>
          let terms :=
            match cut (p_term fuel c i2) with
            | POk t i3 => p_term_list fuel c [t] i3
            | PFail => if allow_empty then
                         (* separated_list0: a recoverable Error of the first element gives the
                            empty list, but `cut(term)` has already turned it into a Failure *)
                         PFail
                       else PFail
            | PErr => PFail
            | PFuel => PFuel
            end in
          pbind terms (fun ts i4 =>
            match chr cRPar (ws i4) with
            | Some i5 => POk (mkpred n ts) i5
            | None => PErr
            end)
      end
  end.

Definition p_fact_inner (fuel : nat) (i : text) : pr pred := p_pred_gen fuel CFact false i.
Definition p_predicate (fuel : nat) (i : text) : pr pred := p_pred_gen fuel CTerm false i.
Definition p_rule_head (fuel : nat) (i : text) : pr pred := p_pred_gen fuel CTerm true i.

(* predicate_or_expression = alt(predicate, expr); expressions are stored as op lists *)
Definition p_pred_or_expr (fuel : nat) (i : text) : pr (pred + list op) :=
  match p_predicate fuel i with
  | POk p r => POk (inl p) r
  | PErr => pmap (fun e => inr (opcodes e)) (p_expr fuel i)
  | PFail => PFail
  | PFuel => PFuel
  end.

Definition body_t : Type := list pred * list (list op) * list scope.

(* separated_list1(space0 ',', space0 cut(predicate_or_expression)) then scopes *)
Fixpoint p_body_list (fuel : nat) (ps : list pred) (es : list (list op)) (i : text) : pr body_t :=
  match fuel with
  | O => PFuel
  | S f =>
      match sep_comma i with
      | None => pmap (fun ss => (rev ps, rev es, ss)) (p_scopes fuel i)
      | Some i1 =>
          match cut (p_pred_or_expr fuel (ws i1)) with
          | POk (inl p) i2 => p_body_list f (p :: ps) es i2
          | POk (inr e) i2 => p_body_list f ps (e :: es) i2
          | PErr => PFail | PFail => PFail | PFuel => PFuel
          end
      end
  end.

Definition p_rule_body (fuel : nat) (i : text) : pr body_t :=
  match cut (p_pred_or_expr fuel (ws i)) with
  | POk (inl p) i2 => p_body_list fuel [p] [] i2
  | POk (inr e) i2 => p_body_list fuel [] [e] i2
  | PErr => PFail | PFail => PFail | PFuel => PFuel
  end.

(* Rule::validate_variables: head variables and the variables that appear as top-level
   Value ops of the expressions must occur as top-level terms of body predicates *)
Fixpoint term_vars (l : list term) : list text :=
  match l with [] => [] | TVar s :: r => s :: term_vars r | _ :: r => term_vars r end.
Fixpoint ops_vars (l : list op) : list text :=
  match l with [] => [] | OValue (TVar s) :: r => s :: ops_vars r | _ :: r => ops_vars r end.
Fixpoint text_mem (x : text) (l : list text) : bool :=
  match l with [] => false | y :: r => text_eqb x y || text_mem x r end.
Definition validate_variables (r : rule) : bool :=
  let bound := flat_map (fun p => term_vars (pterms p)) (rbody r) in
  forallb (fun v => text_mem v bound)
          (term_vars (pterms (rhead r)) ++ flat_map ops_vars (rexprs r)).

Definition p_rule_inner (fuel : nat) (i : text) : pr rule :=
  pbind (p_rule_head fuel i) (fun h i1 =>
    match tag (str "<-") (ws i1) with
    | None => PErr
    | Some i2 =>
        pbind (cut (p_rule_body fuel i2)) (fun b i3 =>
          let '(ps, es, ss) := b in
          let r := mkrule h ps es ss in
          if validate_variables r then POk r i3 else PFail)
    end).

Definition query_head : pred := mkpred (str "query") [].

(* check_body: separated_list1(space0 "or", space0 cut(rule_body)) *)
Fixpoint p_or_list (fuel : nat) (acc : list rule) (i : text) : pr (list rule) :=
  match fuel with
  | O => PFuel
  | S f =>
      match tag_nc (str "or") (ws i) with
      | None => POk (rev acc) i
      | Some i1 =>
          match cut (p_rule_body fuel (ws i1)) with
          | POk (ps, es, ss) i2 => p_or_list f (mkrule query_head ps es ss :: acc) i2
          | PErr => PFail | PFail => PFail | PFuel => PFuel
          end
      end
  end.

Definition p_check_body (fuel : nat) (i : text) : pr (list rule) :=
  match cut (p_rule_body fuel (ws i)) with
  | POk (ps, es, ss) i2 => p_or_list fuel [mkrule query_head ps es ss] i2
  | PErr => PFail | PFail => PFail | PFuel => PFuel
  end.

Definition p_check_inner (fuel : nat) (i : text) : pr check :=
  let i0 := ws i in
  let kind :=
    match tag_nc (str "check if") i0 with
    | Some r => Some (CheckIf, r)
    | None => match tag_nc (str "check all") i0 with
              | Some r => Some (CheckAll, r)
              | None => match tag_nc (str "reject if") i0 with
                        | Some r => Some (RejectIf, r)
                        | None => None
                        end
              end
    end in
  match kind with
  | None => PErr
  | Some (k, i1) => pmap (fun qs => mkcheck qs k) (cut (p_check_body fuel i1))
  end.

Definition p_policy_inner (fuel : nat) (i : text) : pr policy :=
  let i0 := ws i in
  match tag_nc (str "allow if") i0 with
  | Some i1 => pmap (fun qs => mkpolicy qs Allow) (cut (p_check_body fuel i1))
  | None =>
      match tag_nc (str "deny if") i0 with
      | Some i1 => pmap (fun qs => mkpolicy qs Deny) (cut (p_check_body fuel i1))
      | None => PErr
      end
  end.

(* the public entry points: the item, then preceded(space0, eof) *)
Definition at_eof {A} (r : pr A) : option A :=
  match r with
  | POk a i => match ws i with [] => Some a | _ => None end
  | _ => None
  end.

(* enough fuel for every text the checks evaluate: each non-terminal consumes at most
   ~14 units before a character is read *)
Definition fuel_for (i : text) : nat := (40 + 20 * length i)%nat.

Definition parse_fact (i : text) : option pred := at_eof (p_fact_inner (fuel_for i) i).
Definition parse_rule (i : text) : option rule := at_eof (p_rule_inner (fuel_for i) i).
Definition parse_check (i : text) : option check := at_eof (p_check_inner (fuel_for i) i).
Definition parse_policy (i : text) : option policy := at_eof (p_policy_inner (fuel_for i) i).

(* ---- sources *)
Record source := mksource {
  s_scopes : list scope; s_facts : list pred; s_rules : list rule;
  s_checks : list check; s_policies : list policy }.

(* sep: space0 then ';' or eof *)
Definition p_sep (i : text) : option text :=
  match ws i with
  | [] => Some []
  | c :: r => if c =? cSemi then Some r else None
  end.

Fixpoint skip_line (i : text) : text :=
  match i with c :: r => if (c =? cCR) || (c =? cLF) then i else skip_line r | [] => [] end.
Definition p_line_comment (i : text) : option text :=
  match tag (str "//") (ws i) with
  | None => None
  | Some i1 =>
      match skip_line i1 with
      | [] => Some []
      | c :: r => if c =? cLF then Some r
                  else match r with
                       | c2 :: r2 => if (c =? cCR) && (c2 =? cLF) then Some r2 else None
                       | [] => None
                       end
      end
  end.
Fixpoint skip_until_close (i : text) : option text :=
  match i with
  | a :: r => match r with
              | b :: r' => if (a =? cStar) && (b =? cSlash) then Some r' else skip_until_close r
              | [] => None
              end
  | [] => None
  end.
Definition p_multiline_comment (i : text) : option text :=
  match tag (str "/*") (ws i) with Some i1 => skip_until_close i1 | None => None end.

Inductive element := ElRule (r : rule) | ElFact (f : pred) | ElCheck (c : check) | ElPolicy (p : policy) | ElComment.

Definition with_sep {A} (r : pr A) (f : A -> element) : pr element :=
  match r with
  | POk a i => match p_sep i with Some i' => POk (f a) i' | None => PErr end
  | PErr => PErr | PFail => PFail | PFuel => PFuel
  end.

Definition p_element (fuel : nat) (with_policies : bool) (i : text) : pr element :=
  por (with_sep (p_rule_inner fuel i) ElRule) (fun _ =>
  por (with_sep (p_fact_inner fuel i) ElFact) (fun _ =>
  por (with_sep (p_check_inner fuel i) ElCheck) (fun _ =>
  por (if with_policies then with_sep (p_policy_inner fuel i) ElPolicy else PErr) (fun _ =>
  match p_line_comment i with
  | Some r => POk ElComment r
  | None => match p_multiline_comment i with Some r => POk ElComment r | None => PErr end
  end)))).

Definition add_element (e : element) (s : source) : source :=
  match e with
  | ElRule r => mksource (s_scopes s) (s_facts s) (r :: s_rules s) (s_checks s) (s_policies s)
  | ElFact f => mksource (s_scopes s) (f :: s_facts s) (s_rules s) (s_checks s) (s_policies s)
  | ElCheck c => mksource (s_scopes s) (s_facts s) (s_rules s) (c :: s_checks s) (s_policies s)
  | ElPolicy p => mksource (s_scopes s) (s_facts s) (s_rules s) (s_checks s) (p :: s_policies s)
  | ElComment => s
  end.

Definition finish_source (s : source) : source :=
  mksource (s_scopes s) (rev (s_facts s)) (rev (s_rules s)) (rev (s_checks s)) (rev (s_policies s)).

(* any error makes the whole result Err(errors): only the success path is modelled *)
Fixpoint p_elements (n fuel : nat) (with_policies : bool) (acc : source) (i : text) : option source :=
  match i with
  | [] => Some (finish_source acc)
  | _ =>
      match n with
      | O => None
      | S n' =>
          match p_element fuel with_policies i with
          | POk e r => p_elements n' fuel with_policies (add_element e acc) (ws r)
          | _ => None
          end
      end
  end.

Definition empty_source : source := mksource [] [] [] [] [].

Definition parse_source (i : text) : option source :=
  p_elements (S (length i)) (fuel_for i) true empty_source i.

Definition parse_block_source (i : text) : option source :=
  let fuel := fuel_for i in
  match p_scopes fuel i with
  | POk ss i1 =>
      match p_sep i1 with
      | Some i2 => p_elements (S (length i)) fuel false (mksource ss [] [] [] []) i2
      | None => p_elements (S (length i)) fuel false empty_source i
      end
  | _ => None
  end.

(* C19 -- the size/announce contract of the C API's serialisation entry points, the handle
   (Option) discipline of its builders and the index checks of its error channel.

   Mirrors biscuit-capi/src/lib.rs:
   * biscuit_serialized_size / biscuit_serialize, biscuit_sealed_size /
     biscuit_serialize_sealed (lines 650-759): the callee builds a slice of the *announced*
     size over the caller's buffer and `copy_from_slice`s the serialized token into it --
     a length mismatch panics inside `extern "C"`, which aborts the process;
   * key_pair_serialize / public_key_serialize (348-428): a fixed 32-byte slice;
   * BiscuitBuilder / BlockBuilder / AuthorizerBuilder wrappers (432-465, 812-836,
     998-1027): `self.0.take().unwrap()`, the builder is put back only on success;
   * error_check_id / block_id / rule / is_authorizer (205-300): index checked against the
     number of failed checks.

   The token codec is abstract here (C02's Model/Wire.v is another family's): [enc] is the
   Rust API's `to_vec`, [seal] its `seal`; the one concrete piece is the `proof` field of
   the container message (field 4: nextSecret = 1 / finalSignature = 2), which is what makes
   a sealed token longer than the unsealed one.  Two variants: [Faithful] = the unchanged
   code, [Repaired] = what the property demands.  No proofs here. *)
From Biscuit Require Export Model.Robust.

(* what a C entry point did with the caller's buffer *)
Inductive cres :=
| CWritten (n : N) (buf : bytes)   (* returned n, wrote exactly these bytes *)
| CError                           (* returned 0 / null and set the error channel *)
| CAbort.                          (* panicked inside extern "C": the process is gone *)

Definition blen (b : bytes) : N := N.of_nat (length b).

(* `from_raw_parts_mut(ptr, size).copy_from_slice(&v)`: panics unless the lengths agree *)
Definition copy_into (size : N) (v : bytes) : cres :=
  if (size =? blen v)%N then CWritten (blen v) v else CAbort.

Section Serialise.
  Variable token : Type.
  Variable enc : token -> bytes.            (* Biscuit::to_vec *)
  Variable seal : token -> option token.    (* Biscuit::seal; None: already sealed *)

  (* biscuit_serialized_size: `to_proto().encoded_len()`, which prost guarantees to be the
     length of the encoding *)
  Definition serialized_size (t : token) : N := blen (enc t).

  Definition serialize (t : token) : cres := copy_into (serialized_size t) (enc t).

  (* biscuit_sealed_size: the unchanged code calls `biscuit.0.serialized_size()` -- the size
     of the *unsealed* token; 0 = error *)
  Definition sealed_size (vr : variant) (t : token) : N :=
    match vr with
    | Faithful => serialized_size t
    | Repaired => match seal t with Some s => serialized_size s | None => 0%N end
    end.

  (* biscuit_serialize_sealed: seals, serializes, then copies into a slice of ... the
     unsealed size (unchanged code) / the sealed size (repaired) *)
  Definition serialize_sealed (vr : variant) (t : token) : cres :=
    match seal t with
    | None => CError
    | Some s =>
        copy_into (match vr with Faithful => serialized_size t | Repaired => serialized_size s end)
                  (enc s)
    end.
End Serialise.

(* ---- the proof field of the container message, concretely ---- *)

Definition varint1 (n : N) : bytes := [n].     (* valid for n < 128 *)

(* length-delimited field with a one-byte key and a one-byte length (payload < 128 bytes) *)
Definition ld_small (tag : N) (b : bytes) : bytes := (tag * 8 + 2)%N :: blen b :: b.

Inductive proof := NextSecret (k : bytes) | FinalSignature (s : bytes).

Definition proof_field (p : proof) : bytes :=
  ld_small 4 (match p with NextSecret k => ld_small 1 k | FinalSignature s => ld_small 2 s end).

(* a container: the encoded fields 1-3 (root key id, authority, blocks) and the proof *)
Record wtoken := mkw { w_body : bytes; w_proof : proof }.

Definition wenc (t : wtoken) : bytes := w_body t ++ proof_field (w_proof t).

(* sealing keeps the blocks and replaces the next secret by a signature *)
Definition wseal (sig : wtoken -> bytes) (t : wtoken) : option wtoken :=
  match w_proof t with
  | NextSecret _ => Some (mkw (w_body t) (FinalSignature (sig t)))
  | FinalSignature _ => None
  end.

(* ---- keys: fixed 32-byte buffers ---- *)

(* public_key_serialize / key_pair_serialize: `from_raw_parts_mut(ptr, 32).copy_from_slice(bytes)`;
   the repaired function reports a key that does not fit instead of aborting *)
Definition key_serialize (vr : variant) (key_bytes : bytes) : cres :=
  match vr with
  | Faithful => copy_into 32 key_bytes
  | Repaired => if (blen key_bytes =? 32)%N then CWritten 32 key_bytes else CError
  end.

(* ---- builders: Option<inner>, taken on every call ---- *)

(* one add_* call: [ok] = the Datalog text parses and is accepted by the inner builder.
   State: is the inner builder still there?  Result: Some true / Some false = the call's
   return value, None = abort (`take().unwrap()` on an emptied wrapper). *)
Definition builder_step (vr : variant) (present : bool) (ok : bool) : bool * option bool :=
  if negb present then (false, None)
  else if ok then (true, Some true)
  else match vr with
       | Faithful => (false, Some false)     (* `inner.fact(f)?` consumed the builder *)
       | Repaired => (true, Some false)      (* the builder survives a refused item *)
       end.

Fixpoint builder_run (vr : variant) (present : bool) (steps : list bool) : list (option bool) :=
  match steps with
  | [] => []
  | ok :: r => let '(p, out) := builder_step vr present ok in
               match out with
               | None => [None]              (* the process is gone *)
               | Some _ => out :: builder_run vr p r
               end
  end.

(* authorizer_builder_build(builder = NULL): `builder.unwrap()` after noting the error *)
Definition build_with_null_builder (vr : variant) : cres :=
  match vr with Faithful => CAbort | Repaired => CError end.

(* ---- error channel ---- *)

(* error_check_id & co: `if check_index >= checks.len() { u64::MAX } else { checks[i] }` *)
Definition check_at {A} (checks : list A) (i : N) : option A :=
  if (N.of_nat (length checks) <=? i)%N then None else nthN checks i.

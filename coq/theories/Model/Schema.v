(* Schema / language versions (property C16).

   Mirrors, at the level of observable behaviour:
   - the feature detector  datalog/mod.rs:860-1013  (get_schema_version, SchemaVersion::version,
     SchemaVersion::check_compatibility, contains_v3_1_op, contains_v3_3_op,
     contains_v3_3_predicate, contains_v3_3_term);
   - the builders' choice of the declared version  token/builder/block.rs:185-225
     (BlockBuilder::build) and token/third_party.rs:93-101 (create_block: at least 3.2);
   - the load-time gate  format/convert.rs:49-132  (proto_block_to_token_block and the
     per-rule / per-check conversions it calls);
   - the block signature version rule  format/mod.rs:548-577  (block_signature_version) as
     used by SerializedBiscuit::new / append / append_serialized.

   Two places of the unchanged code do not do what the property demands; the model carries
   both behaviours, selected by a [variant]:
   - [v_detect = false]: the detector as coded -- Array and Map terms (anywhere) and the
     [Get] operator are not recognised as 3.3 features, and a set is inspected only for a
     direct [null] member;  [v_detect = true]: the repaired detector;
   - [v_compat = false]: check_compatibility as coded -- for a declared version < 3.1 only
     the three 3.1 flags are consulted, the 3.3 flag is ignored;  [v_compat = true]: the
     3.3 flag is consulted for every declared version < 3.3.

   The independent specification [required] is the maximum over a per-feature table written
   from the Biscuit specification (DESIGN.md Appendix D.5); it never mentions the detector.
   No proofs here. *)
From Biscuit Require Export Model.Datalog.
Local Open Scope N_scope.

(* ---- version numbers of the `version` field of a block (spec-fixed, written here
        independently of token/mod.rs:31-39) ---- *)
Definition MIN_SCHEMA_VERSION : N := 3.     (* Datalog 3.0 *)
Definition DATALOG_3_1 : N := 4.
Definition DATALOG_3_2 : N := 5.
Definition DATALOG_3_3 : N := 6.
Definition MAX_SCHEMA_VERSION : N := 6.

(* ---- syntax of a block ---- *)
Inductive check_kind := CkOne | CkAll | CkReject.

Record check := mkcheck { cqueries : list rule; ckind : check_kind }.

Record block := mkblock {
  bfacts : list fact;
  brules : list rule;
  bchecks : list check;
  bscopes : list scope;
  bversion : N;            (* declared Datalog version *)
  bthird : bool            (* third-party block (carries an external signature) *)
}.

Record variant := mkvariant { v_detect : bool; v_compat : bool }.
Definition faithful : variant := mkvariant false false.
Definition repaired : variant := mkvariant true true.

(* =====================================================================================
   1. The feature detector
   ===================================================================================== *)

Definition is_null (v : value) : bool := match v with VNull => true | _ => false end.

(* contains_v3_3_term as coded: Null, or a set with Null as a direct member *)
Definition term33_coded (v : value) : bool :=
  match v with
  | VNull => true
  | VSet l => existsb is_null l
  | _ => false
  end.

(* repaired: Null, Array, Map, or a set with such a member *)
Fixpoint term33_fixed (v : value) : bool :=
  match v with
  | VNull | VArray _ | VMap _ => true
  | VSet l => existsb term33_fixed l
  | _ => false
  end.

Definition term33 (vr : variant) (v : value) : bool :=
  if v_detect vr then term33_fixed v else term33_coded v.

Definition tterm33 (vr : variant) (t : term) : bool :=
  match t with TVar _ => false | TVal v => term33 vr v end.

(* contains_v3_3_predicate *)
Definition pred33 (vr : variant) (p : pred) : bool := existsb (tterm33 vr) (pargs p).
Definition fact33 (vr : variant) (f : fact) : bool := existsb (term33 vr) (fargs f).

(* one op of contains_v3_3_op (closures are not entered: a closure is 3.3 by itself) *)
Definition op33 (vr : variant) (o : op) : bool :=
  match o with
  | OVal v => term33 vr v
  | OVar _ => false
  | OClo _ _ => true
  | OUn u => match u with UTypeOf | UFfi _ | UFfiUnk _ => true | _ => false end
  | OBin b =>
      match b with
      | BHeterogeneousEqual | BHeterogeneousNotEqual | BLazyAnd | BLazyOr
      | BAll | BAny | BFfi _ | BFfiUnk _ => true
      | BGet => v_detect vr
      | _ => false
      end
  end.

Definition exprs33 (vr : variant) (es : list (list op)) : bool := existsb (existsb (op33 vr)) es.

(* contains_v3_1_op: top-level ops only *)
Definition op31 (o : op) : bool :=
  match o with
  | OBin (BBitwiseAnd | BBitwiseOr | BBitwiseXor | BNotEqual) => true
  | _ => false
  end.
Definition exprs31 (es : list (list op)) : bool := existsb (existsb op31) es.

Record schema_version := mksv {
  contains_scopes : bool;
  contains_v3_1 : bool;
  contains_check_all : bool;
  contains_v3_3 : bool
}.

Definition nonempty {A} (l : list A) : bool := match l with [] => false | _ => true end.

Definition is_all (k : check_kind) : bool := match k with CkAll => true | _ => false end.
Definition is_reject (k : check_kind) : bool := match k with CkReject => true | _ => false end.

(* get_schema_version *)
Definition get_schema_version (vr : variant) (facts : list fact) (rules : list rule)
           (checks : list check) (scopes : list scope) : schema_version :=
  let c_scopes :=
      nonempty scopes
      || existsb (fun r => nonempty (rscopes r)) rules
      || existsb (fun c => existsb (fun q => nonempty (rscopes q)) (cqueries c)) checks in
  let c_all := existsb (fun c => is_all (ckind c)) checks in
  let c_reject := existsb (fun c => is_reject (ckind c)) checks in
  let c_31 :=
      existsb (fun r => exprs31 (rexprs r)) rules
      || existsb (fun c => existsb (fun q => exprs31 (rexprs q)) (cqueries c)) checks in
  let c_33_rules :=
      existsb (fun r => pred33 vr (rhead r) || existsb (pred33 vr) (rbody r)
                        || exprs33 vr (rexprs r)) rules
      || existsb (fun c => existsb (fun q => existsb (pred33 vr) (rbody q)
                                             || exprs33 vr (rexprs q)) (cqueries c)) checks in
  let c_33_facts := existsb (fact33 vr) facts in
  mksv c_scopes c_31 c_all (c_reject || c_33_rules || c_33_facts).

(* SchemaVersion::version *)
Definition sv_version (sv : schema_version) : N :=
  if contains_v3_3 sv then DATALOG_3_3
  else if contains_scopes sv || contains_v3_1 sv || contains_check_all sv then DATALOG_3_1
  else MIN_SCHEMA_VERSION.

(* SchemaVersion::check_compatibility: true = Ok(()) *)
Definition check_compatibility (vr : variant) (sv : schema_version) (version : N) : bool :=
  if version <? DATALOG_3_1 then
    if contains_scopes sv then false
    else if contains_v3_1 sv then false
    else if contains_check_all sv then false
    else if v_compat vr then negb (contains_v3_3 sv)     (* repaired *)
    else true                                            (* as coded: 3.3 flag not consulted *)
  else if (version <? DATALOG_3_3) && contains_v3_3 sv then false
  else true.

Definition detect (vr : variant) (b : block) : schema_version :=
  get_schema_version vr (bfacts b) (brules b) (bchecks b) (bscopes b).

(* =====================================================================================
   2. The builders
   ===================================================================================== *)

(* BlockBuilder::build (first-party) and ThirdPartyRequest::create_block *)
Definition build (vr : variant) (facts : list fact) (rules : list rule) (checks : list check)
           (scopes : list scope) (third : bool) : block :=
  let v := sv_version (get_schema_version vr facts rules checks scopes) in
  mkblock facts rules checks scopes (if third then N.max DATALOG_3_2 v else v) third.

(* =====================================================================================
   3. The load-time gate (proto_block_to_token_block)
   ===================================================================================== *)

(* a check as it is on the wire: the kind is an optional enum number *)
Record wcheck := mkwcheck { wqueries : list rule; wkind : option N }.

Record wblock := mkwblock {
  wfacts : list fact;
  wrules : list rule;
  wchecks : list wcheck;
  wscopes : list scope;
  wversion : N               (* absent on the wire = 0 *)
}.

Definition kind_to_wire (k : check_kind) : option N :=
  match k with CkOne => None | CkAll => Some 1 | CkReject => Some 2 end.

(* proto_check_to_token_check: None | Some 0 -> One, 1 -> All, 2 -> Reject, else error *)
Definition kind_of_wire (k : option N) : option check_kind :=
  match k with
  | None => Some CkOne
  | Some 0 => Some CkOne
  | Some 1 => Some CkAll
  | Some 2 => Some CkReject
  | Some _ => None
  end.

Definition to_wire (b : block) : wblock :=
  mkwblock (bfacts b) (brules b)
           (map (fun c => mkwcheck (cqueries c) (kind_to_wire (ckind c))) (bchecks b))
           (bscopes b) (bversion b).

Inductive lerr := LVersion | LDeser.
Inductive lres := LOk (b : block) | LErr (e : lerr).

(* proto_rule_to_token_rule: scopes in a rule need 3.1 *)
Definition rule_gate (version : N) (r : rule) : bool :=
  negb ((version <? DATALOG_3_1) && nonempty (rscopes r)).

(* the loop over checks_v2 at convert.rs:75-90 (only entered when version < 6) *)
Definition kind_gate (version : N) (c : wcheck) : bool :=
  if (version <? DATALOG_3_1) && (match wkind c with Some _ => true | None => false end) then false
  else if (version <? DATALOG_3_3) && (match wkind c with Some 2 => true | _ => false end) then false
  else true.

Fixpoint convert_checks (version : N) (cs : list wcheck) : option (list check) :=
  match cs with
  | [] => Some []
  | c :: cs' =>
      if forallb (rule_gate version) (wqueries c) then
        match kind_of_wire (wkind c), convert_checks version cs' with
        | Some k, Some l => Some (mkcheck (wqueries c) k :: l)
        | _, _ => None
        end
      else None
  end.

Definition load (vr : variant) (w : wblock) (ext : bool) : lres :=
  let version := wversion w in
  if negb ((MIN_SCHEMA_VERSION <=? version) && (version <=? MAX_SCHEMA_VERSION)) then LErr LVersion
  else if negb (forallb (rule_gate version) (wrules w)) then LErr LDeser
  else if (version <? MAX_SCHEMA_VERSION) && negb (forallb (kind_gate version) (wchecks w)) then LErr LDeser
  else if (version <? DATALOG_3_2) && ext then LErr LDeser
  else match convert_checks version (wchecks w) with
       | None => LErr LDeser
       | Some checks =>
           let sv := get_schema_version vr (wfacts w) (wrules w) checks (wscopes w) in
           if check_compatibility vr sv version
           then LOk (mkblock (wfacts w) (wrules w) checks (wscopes w) version ext)
           else LErr LDeser
       end.

(* =====================================================================================
   4. The specification: lowest version that includes every feature of a block
   ===================================================================================== *)

Inductive feature :=
| FScope | FCheckAll | FBitwise | FStrictNotEqual                 (* Datalog 3.1 *)
| FThirdParty                                                     (* Datalog 3.2 *)
| FRejectIf | FNull | FArray | FMap | FClosure | FLazy | FHeteroEq
| FTypeOf | FGet | FAllAny | FExtern.                             (* Datalog 3.3 *)

Definition feature_version (f : feature) : N :=
  match f with
  | FScope | FCheckAll | FBitwise | FStrictNotEqual => 4
  | FThirdParty => 5
  | FRejectIf | FNull | FArray | FMap | FClosure | FLazy | FHeteroEq
  | FTypeOf | FGet | FAllAny | FExtern => 6
  end.

(* features of a term, at every nesting depth *)
Fixpoint value_features (v : value) : list feature :=
  match v with
  | VNull => [FNull]
  | VArray l => FArray :: flat_map value_features l
  | VMap l => FMap :: flat_map (fun kv => value_features (snd kv)) l
  | VSet l => flat_map value_features l
  | _ => []
  end.

Definition term_features (t : term) : list feature :=
  match t with TVar _ => [] | TVal v => value_features v end.

Definition unary_features (u : unary) : list feature :=
  match u with
  | UTypeOf => [FTypeOf]
  | UFfi _ | UFfiUnk _ => [FExtern]
  | _ => []
  end.

Definition binary_features (b : binary) : list feature :=
  match b with
  | BBitwiseAnd | BBitwiseOr | BBitwiseXor => [FBitwise]
  | BNotEqual => [FStrictNotEqual]
  | BHeterogeneousEqual | BHeterogeneousNotEqual => [FHeteroEq]
  | BLazyAnd | BLazyOr => [FLazy]
  | BAll | BAny => [FAllAny]
  | BGet => [FGet]
  | BFfi _ | BFfiUnk _ => [FExtern]
  | _ => []
  end.

(* features of an op, including everything inside closures *)
Fixpoint op_features (o : op) : list feature :=
  match o with
  | OVal v => value_features v
  | OVar _ => []
  | OUn u => unary_features u
  | OBin b => binary_features b
  | OClo _ body => FClosure :: flat_map op_features body
  end.

Definition pred_features (p : pred) : list feature := flat_map term_features (pargs p).
Definition fact_features (f : fact) : list feature := flat_map value_features (fargs f).
Definition scopes_features (s : list scope) : list feature := if nonempty s then [FScope] else [].

Definition rule_features (r : rule) : list feature :=
  pred_features (rhead r) ++ flat_map pred_features (rbody r)
  ++ flat_map (flat_map op_features) (rexprs r) ++ scopes_features (rscopes r).

Definition kind_features (k : check_kind) : list feature :=
  match k with CkOne => [] | CkAll => [FCheckAll] | CkReject => [FRejectIf] end.

(* a check query is "body, expressions, trusting scopes"; the head the wire format carries
   for it (always `query()` when built from Datalog text) is not language content and is
   read neither here nor by the detector *)
Definition query_features (q : rule) : list feature :=
  flat_map pred_features (rbody q) ++ flat_map (flat_map op_features) (rexprs q)
  ++ scopes_features (rscopes q).

Definition check_features (c : check) : list feature :=
  kind_features (ckind c) ++ flat_map query_features (cqueries c).

Definition block_features (b : block) : list feature :=
  flat_map fact_features (bfacts b) ++ flat_map rule_features (brules b)
  ++ flat_map check_features (bchecks b) ++ scopes_features (bscopes b)
  ++ (if bthird b then [FThirdParty] else []).

Definition required (b : block) : N :=
  fold_right N.max 3 (map feature_version (block_features b)).

(* =====================================================================================
   5. The signature version of a block
   ===================================================================================== *)

Inductive alg := AEd25519 | ASecp256r1.
Definition is_ed (a : alg) : bool := match a with AEd25519 => true | _ => false end.

Fixpoint list_max (l : list N) : N := match l with [] => 0 | x :: l' => N.max x (list_max l') end.

(* block_signature_version(block_keypair, next_keypair, external_signature, block_version,
   previous_blocks_sig_versions) *)
Definition block_signature_version (signer next : alg) (ext : bool) (dver : option N)
           (prev : list N) : N :=
  if ext then 1
  else if match dver with Some v => DATALOG_3_3 <=? v | None => false end then 1
  else if is_ed signer && is_ed next then list_max prev
  else 1.

(* how a block gets into a token *)
Inductive bkind :=
| BkBuilder       (* Biscuit::append / BiscuitBuilder::build: the Datalog version is seen *)
| BkThird         (* append_third_party: external signature *)
| BkRaw.          (* SerializedBiscuit::append_serialized without external signature:
                     the Datalog version is not looked at *)

Record sblock := mksblock { sb_next : alg; sb_kind : bkind; sb_dver : N }.

Definition sb_sigversion (signer : alg) (prev : list N) (b : sblock) : N :=
  block_signature_version signer (sb_next b)
    (match sb_kind b with BkThird => true | _ => false end)
    (match sb_kind b with BkBuilder => Some (sb_dver b) | _ => None end)
    prev.

(* signature versions of the blocks of a token, in order; [signer] signs the first one,
   every block's next key signs the following one *)
Fixpoint sign_chain (signer : alg) (prev : list N) (bs : list sblock) : list N :=
  match bs with
  | [] => []
  | b :: bs' =>
      let v := sb_sigversion signer prev b in
      v :: sign_chain (sb_next b) (prev ++ [v]) bs'
  end.

Definition token_sigversions (root : alg) (bs : list sblock) : list N := sign_chain root [] bs.

(* C11: the set of outcomes of authorization over all iteration orders of the engine's hash
   based fact store.  [decide] evaluates bindings in list order; here every query returns the
   SET of results it can produce when its bindings are met in any order. *)
From Biscuit Require Export Model.Authorizer.

Inductive qout := QTrue | QFalse | QErr.

Definition qout_eqb (a b : qout) : bool :=
  match a, b with QTrue, QTrue | QFalse, QFalse | QErr, QErr => true | _, _ => false end.
Definition qmem (x : qout) (l : list qout) : bool := existsb (qout_eqb x) l.
Definition qadd (x : qout) (l : list qout) : list qout := if qmem x l then l else l ++ [x].
Definition qunion (a b : list qout) : list qout := fold_left (fun acc x => qadd x acc) b a.

Section Sets.
Variable orc : oracles.

(* what one binding contributes to find_match *)
Definition binding_find (r : rule) (s : env) : qout :=
  match eval_exprs orc s (rexprs r) with
  | Err _ => QErr
  | Ok false => QFalse
  | Ok true => match inst_terms s (pargs (rhead r)) with Some _ => QTrue | None => QFalse end
  end.

Definition binding_all (r : rule) (s : env) : qout :=
  match eval_exprs orc s (rexprs r) with
  | Err _ => QErr
  | Ok false => QFalse
  | Ok true => QTrue
  end.

(* find_match over every order: true iff some binding is true; an error iff some binding
   errors; false iff neither *)
Definition find_set_of (outs : list qout) : list qout :=
  (if qmem QTrue outs then [QTrue] else []) ++
  (if qmem QErr outs then [QErr] else []) ++
  (if qmem QTrue outs || qmem QErr outs then [] else [QFalse]).

(* check_match_all over every order: false iff some binding is false; an error iff some
   binding errors; otherwise whether a binding exists *)
Definition all_set_of (outs : list qout) : list qout :=
  (if qmem QFalse outs then [QFalse] else []) ++
  (if qmem QErr outs then [QErr] else []) ++
  (if qmem QFalse outs || qmem QErr outs then []
   else [match outs with [] => QFalse | _ => QTrue end]).

Definition bindings (facts : list ofact) (tr : origin) (r : rule) : list env :=
  map snd (join (visible tr facts) (rbody r) [] []).

Definition qneg (o : qout) : qout := match o with QTrue => QFalse | QFalse => QTrue | QErr => QErr end.

Definition query_set (k : check_kind) (facts : list ofact) (tr : origin) (q : rule) : list qout :=
  match k with
  | CkOne => find_set_of (map (binding_find q) (bindings facts tr q))
  | CkAll => all_set_of (map (binding_all q) (bindings facts tr q))
  | CkReject => map qneg (find_set_of (map (binding_find q) (bindings facts tr q)))
  end.

Fixpoint any_set (k : check_kind) (facts : list ofact) (default : origin) (cur : N) (km : keymap)
         (qs : list rule) : list qout :=
  match qs with
  | [] => [QFalse]
  | q :: qs' =>
      let here := query_set k facts (from_scopes (rscopes q) default cur km) q in
      (if qmem QTrue here then [QTrue] else []) ++
      (if qmem QErr here then [QErr] else []) ++
      (if qmem QFalse here then any_set k facts default cur km qs' else [])
  end.

Fixpoint all_set (k : check_kind) (facts : list ofact) (default : origin) (cur : N) (km : keymap)
         (qs : list rule) : list qout :=
  match qs with
  | [] => [QTrue]
  | q :: qs' =>
      let here := query_set k facts (from_scopes (rscopes q) default cur km) q in
      (if qmem QFalse here then [QFalse] else []) ++
      (if qmem QErr here then [QErr] else []) ++
      (if qmem QTrue here then all_set k facts default cur km qs' else [])
  end.

Definition dedup (l : list qout) : list qout := qunion [] l.

Definition check_set (facts : list ofact) (default : origin) (cur : N) (km : keymap) (c : check)
  : list qout :=
  dedup (match ckind c with
         | CkReject => match cqueries c with
                       | [] => [QFalse]
                       | _ => all_set CkReject facts default cur km (cqueries c)
                       end
         | k => any_set k facts default cur km (cqueries c)
         end).

(* sets of (failed list | error) for a list of checks *)
Definition fres := option (list failed).         (* None = execution error *)

Definition fres_eqb (a b : fres) : bool :=
  match a, b with
  | None, None => true
  | Some x, Some y =>
      (fix eqb (x y : list failed) : bool :=
         match x, y with
         | [], [] => true
         | FAuth i :: x', FAuth j :: y' => N.eqb i j && eqb x' y'
         | FBlock b i :: x', FBlock b' j :: y' => N.eqb b b' && N.eqb i j && eqb x' y'
         | _, _ => false
         end) x y
  | _, _ => false
  end.
Definition fadd (x : fres) (l : list fres) : list fres := if existsb (fres_eqb x) l then l else l ++ [x].

Fixpoint checks_set (facts : list ofact) (default : origin) (cur : N) (km : keymap)
         (mk : N -> failed) (j : N) (cs : list check) : list fres :=
  match cs with
  | [] => [Some []]
  | c :: cs' =>
      let here := check_set facts default cur km c in
      let rest := checks_set facts default cur km mk (N.succ j) cs' in
      fold_left (fun acc o =>
                   match o with
                   | QErr => fadd None acc
                   | QTrue => fold_left (fun a r => fadd r a) rest acc
                   | QFalse => fold_left (fun a r => fadd (match r with Some l => Some (mk j :: l) | None => None end) a) rest acc
                   end) here []
  end.

Fixpoint block_checks_set (facts : list ofact) (km : keymap) (i : N) (bs : list block) : list fres :=
  match bs with
  | [] => [Some []]
  | b :: bs' =>
      let here := checks_set facts (block_trust km i b) i km (FBlock i) 0 (bchecks b) in
      let rest := block_checks_set facts km (N.succ i) bs' in
      fold_left (fun acc h =>
                   match h with
                   | None => fadd None acc
                   | Some l => fold_left (fun a r => fadd (match r with Some l' => Some (l ++ l') | None => None end) a) rest acc
                   end) here []
  end.

(* Some None = no policy matched; None = execution error *)
Definition pres := option (option (policy_kind * N)).
Definition pres_eqb (a b : pres) : bool :=
  match a, b with
  | None, None => true
  | Some None, Some None => true
  | Some (Some (PAllow, i)), Some (Some (PAllow, j)) => N.eqb i j
  | Some (Some (PDeny, i)), Some (Some (PDeny, j)) => N.eqb i j
  | _, _ => false
  end.
Definition padd (x : pres) (l : list pres) : list pres := if existsb (pres_eqb x) l then l else l ++ [x].

Fixpoint policies_set (facts : list ofact) (default : origin) (km : keymap) (i : N) (ps : list policy)
  : list pres :=
  match ps with
  | [] => [Some None]
  | p :: ps' =>
      let here := dedup (any_set CkOne facts default auth_id km (pqueries p)) in
      fold_left (fun acc o =>
                   match o with
                   | QErr => padd None acc
                   | QTrue => padd (Some (Some (pkind p, i))) acc
                   | QFalse => fold_left (fun a r => padd r a) (policies_set facts default km (N.succ i) ps') acc
                   end) here []
  end.

Definition outcome_class_eqb (a b : outcome) : bool :=
  match a, b with
  | OAllow i, OAllow j => N.eqb i j
  | ONoPolicy f, ONoPolicy g => fres_eqb (Some f) (Some g)
  | ORefused x i f, ORefused y j g => Bool.eqb x y && N.eqb i j && fres_eqb (Some f) (Some g)
  | OExec _, OExec _ => true
  | OLimit _, OLimit _ => true
  | _, _ => false
  end.
Definition oadd (x : outcome) (l : list outcome) : list outcome :=
  if existsb (outcome_class_eqb x) l then l else l ++ [x].

Definition mk_outcome (pol : option (policy_kind * N)) (fails : list failed) : outcome :=
  match pol, fails with
  | Some (PAllow, i), [] => OAllow i
  | None, _ => ONoPolicy fails
  | Some (PAllow, i), _ => ORefused true i fails
  | Some (PDeny, i), _ => ORefused false i fails
  end.

(* every outcome authorize_inner can produce on a saturated world, over all orders; the
   evaluation order of the phases (authorizer checks, authority checks, policies, other blocks)
   matters for which errors are reachable: an error aborts immediately *)
Definition decide_set (facts : list ofact) (t : token) (a : authorizer) : list outcome :=
  let km := token_keymap t in
  let atr := auth_trust km a in
  let s1 := checks_set facts atr auth_id km FAuth 0 (achecks a) in
  let s2 := block_checks_set facts km 0 (firstn 1 t) in
  let s3 := policies_set facts atr km 0 (apolicies a) in
  let s4 := block_checks_set facts km 1 (skipn 1 t) in
  fold_left (fun acc1 r1 =>
    match r1 with
    | None => oadd (OExec EInvalidType) acc1
    | Some f1 =>
      fold_left (fun acc2 r2 =>
        match r2 with
        | None => oadd (OExec EInvalidType) acc2
        | Some f2 =>
          fold_left (fun acc3 r3 =>
            match r3 with
            | None => oadd (OExec EInvalidType) acc3
            | Some pol =>
              fold_left (fun acc4 r4 =>
                match r4 with
                | None => oadd (OExec EInvalidType) acc4
                | Some f3 => oadd (mk_outcome pol (f1 ++ f2 ++ f3)) acc4
                end) s4 acc3
            end) s3 acc2
        end) s2 acc1
    end) s1 [].

Definition authorize_set (fuel : nat) (max_facts max_iter : N) (t : token) (a : authorizer)
  : list outcome :=
  let W := load t a in
  match run_loop orc fuel max_iter max_facts 0 (w_rules W) (w_facts W) with
  | (RErr (RunExpr e), _) => [OExec e]
  | (RErr e, _) => [OLimit e]
  | (ROk (fs, _), _) => decide_set fs t a
  end.

End Sets.

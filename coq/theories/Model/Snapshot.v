(* Authorizer snapshots and saved policies (property C13).

   Mirrors, at the level of observable behaviour:
     token/authorizer/snapshot.rs   Authorizer::{snapshot, from_snapshot} (raw / base64 forms are
                                    encodings of the same message)
     token/builder/authorizer.rs    build_inner, load_and_translate_block (the loading path that
                                    from_snapshot re-uses)
     token/block.rs                 Block::translate
     format/convert.rs              token_block_to_proto_snapshot_block,
                                    proto_snapshot_block_to_token_block,
                                    authorizer_to_proto_authorizer, proto_authorizer_to_authorizer
     token/authorizer.rs            Authorizer::{save, from}, AuthorizerPolicies, authorize_inner

   An authorizer is described by strings and keys (its own interning table is an internal
   detail); a snapshot carries ONE table and every block, policy and fact as references
   into it.  Two variants: [Faithful] is the unchanged restore -- a third-party block is
   translated with an *empty* table, and the key -> blocks map is filled while the blocks are
   loaded, so a rule of block i trusting the key of a later block is stored with a trusted
   set that misses it; saved policies carry no public keys at all.  [Repaired] translates
   every block with the snapshot's table, fills the map before loading, and carries the
   keys.  The program class is the one of Model/Symbols.v.  No proofs here. *)
From Biscuit Require Export Model.Symbols.

Definition blk := (acontent * option key)%type.            (* contents, external key *)
Definition policy_ (S K : Type) := (bool * check_ S K)%type.  (* allow? if body("arg") trusting .. *)

Record astate := mkastate {
  a_blocks : list blk;                       (* the token's blocks, as loaded *)
  a_auth : acontent;                         (* authorizer facts, rules, checks, scopes *)
  a_policies : list (policy_ bytes key);
  a_facts : list ofact;                      (* world facts with their origins *)
  a_rules : list rentry;                     (* world rules: owner, trusted origins, head, body *)
  a_limits : N * N * N;                      (* max_facts, max_iterations, max_time (ns) *)
  a_iterations : N;
  a_exec : N                                 (* execution time (ns) *)
}.

Record asnap := mksnap {
  s_strings : list bytes;
  s_keys : list key;
  s_blocks : list (wcontent * option key);
  s_auth : wcontent;
  s_policies : list (policy_ N N);
  s_facts : list (origin * fact_ N);
  s_limits : N * N * N;
  s_iterations : N;
  s_exec : N
}.

(* ---------------------------------------------------------------- what loading computes *)
Definition auth_trust (bs : list blk) (a : acontent) : origin :=
  from_scopes bs (block_scopes a) default_trust None.

Definition auth_facts (a : acontent) : list ofact :=
  match a with YContent fs _ _ _ =>
    map (fun x => match x with YFact n v => ([auth_id], n, v) end) fs end.

Definition auth_rules (bs : list blk) (a : acontent) : list rentry :=
  match a with YContent _ rs _ _ =>
    map (fun x => match x with YRule h b _ sc =>
           (auth_id, from_scopes bs sc (auth_trust bs a) None, h, b) end) rs end.

(* the key -> blocks map a block's rules are stored with: all blocks (build_inner fills the
   map from the container first; Repaired restore), or the blocks up to and including the
   one being loaded (Faithful restore) *)
Definition keymap_at (vr : variant) (all : list blk) (i : nat) : list blk :=
  match vr with Faithful => firstn (S i) all | Repaired => all end.

Fixpoint load_rules (vr : variant) (all : list blk) (i : nat) (l : list blk) : list rentry :=
  match l with
  | [] => []
  | (c, _) :: l' => block_rules (keymap_at vr all i) i c ++ load_rules vr all (S i) l'
  end.

Definition world_rules (vr : variant) (bs : list blk) (a : acontent) : list rentry :=
  load_rules vr bs 0%nat bs ++ auth_rules bs a.

Definition initial_facts (bs : list blk) (a : acontent) : list ofact :=
  collect block_facts 0%nat bs ++ auth_facts a.

(* AuthorizerBuilder::build: the authorizer before any run *)
Definition build_authorizer (bs : list blk) (a : acontent) (ps : list (policy_ bytes key))
           (limits : N * N * N) : astate :=
  mkastate bs a ps (initial_facts bs a) (world_rules Repaired bs a) limits 0%N 0%N.

(* what every authorizer produced by the API satisfies, at any moment *)
Definition wf_b (a : astate) : bool :=
  forallb (fun f => existsb (ofact_eqb f) (a_facts a)) (initial_facts (a_blocks a) (a_auth a)).

(* ---------------------------------------------------------------- snapshot *)
Definition intern_policy (t : tables) (p : policy_ bytes key) : tables * policy_ N N :=
  let '(t', c) := intern_check t (snd p) in (t', (fst p, c)).
Definition intern_blk (t : tables) (b : blk) : tables * (wcontent * option key) :=
  let '(t', w) := intern_content t (fst b) in (t', (w, snd b)).
Definition intern_ofact (t : tables) (f : ofact) : tables * (origin * fact_ N) :=
  let '(o, n, v) := f in
  let '(t', w) := intern_fact t (YFact n v) in (t', (o, w)).

(* Authorizer::snapshot: one fresh table; policies, then the authorizer block (built against
   a copy of the table and its new entries added back -- the same as interning in place),
   then every block (Block::translate), then every fact *)
Definition snapshot (a : astate) : asnap :=
  let '(t1, ps) := intern_list intern_policy ([], []) (a_policies a) in
  let '(t2, wa) := intern_content t1 (a_auth a) in
  let '(t3, bs) := intern_list intern_blk t2 (a_blocks a) in
  let '(t4, fs) := intern_list intern_ofact t3 (a_facts a) in
  mksnap (fst t4) (snd t4) bs wa ps fs (a_limits a) (a_iterations a) (a_exec a).

(* ---------------------------------------------------------------- restore *)
Inductive rerr := RUnknownRef | RFormat.
Inductive rres (A : Type) := ROk' (a : A) | RErr' (e : rerr).
Arguments ROk' {A} a.
Arguments RErr' {A} e.

Definition read_content (t : tables) (w : wcontent) : option acontent := unres_view (resolve_content t w).
Definition read_policy (t : tables) (p : policy_ N N) : option (policy_ bytes key) :=
  match unres_check (map_check (res_str (fst t)) (res_key (snd t)) (snd p)) with
  | Some c => Some (fst p, c)
  | None => None
  end.
Definition read_ofact (t : tables) (f : origin * fact_ N) : option ofact :=
  match unres_fact (map_fact (res_str (fst t)) (snd f)) with
  | Some (YFact n v) => Some (fst f, n, v)
  | None => None
  end.

(* the table a block of the snapshot is translated with (load_and_translate_block called
   from from_snapshot): a third-party block (never block 0) has SymbolTable::new() as
   "its own" table -- Faithful *)
Definition restore_tables (vr : variant) (t : tables) (i : nat) (ext : option key) : tables :=
  match vr, ext, i with
  | Faithful, Some _, S _ => ([], [])
  | _, _, _ => t
  end.

Fixpoint read_blocks (vr : variant) (t : tables) (i : nat) (l : list (wcontent * option key)) : option (list blk) :=
  match l with
  | [] => Some []
  | (w, ext) :: l' =>
      match read_content (restore_tables vr t i ext) w, read_blocks vr t (S i) l' with
      | Some c, Some r => Some ((c, ext) :: r)
      | _, _ => None
      end
  end.

(* [vt]: which table third-party blocks are translated with; [vk]: which key -> blocks map
   the rules are stored with.  The unchanged code is [restore Faithful Faithful]. *)
Definition restore (vt vk : variant) (s : asnap) : rres astate :=
  let t := (s_strings s, s_keys s) in
  match read_content t (s_auth s), all_some (map (read_policy t) (s_policies s)) with
  | Some a, Some ps =>
      match read_blocks vt t 0%nat (s_blocks s) with
      | None => RErr' RUnknownRef
      | Some bs =>
          match all_some (map (read_ofact t) (s_facts s)) with
          | None => RErr' RUnknownRef
          | Some fs =>
              (* block facts and authorizer facts are inserted by the loading path, the
                 generated facts after them: a set union *)
              ROk' (mkastate bs a ps (fold_left add_ofact (initial_facts bs a) fs)
                             (world_rules vk bs a) (s_limits s) (s_iterations s) (s_exec s))
          end
      end
  | _, _ => RErr' RUnknownRef
  end.

(* ---------------------------------------------------------------- saved policies *)
(* AuthorizerPolicies: facts, rules, checks, policies of the authorizer, as strings *)
Definition apolicies := (acontent * list (policy_ bytes key))%type.
(* the serialized form: a string table and references; public keys are interned like
   everything else but the message has no field for them -- Faithful *)
Definition spolicies := (list bytes * list key * wcontent * list (policy_ N N))%type.

Definition save_policies (vr : variant) (p : apolicies) : spolicies :=
  let '(t1, w) := intern_content ([], []) (fst p) in
  let '(t2, ps) := intern_list intern_policy t1 (snd p) in
  (fst t2, match vr with Faithful => [] | Repaired => snd t2 end, w, ps).

Definition load_policies (s : spolicies) : rres apolicies :=
  let '(ss, ks, w, ps) := s in
  if has_common ss default_symbols then RErr' RFormat else
  match read_content (ss, ks) w, all_some (map (read_policy (ss, ks)) ps) with
  | Some a, Some l => ROk' (a, l)
  | _, _ => RErr' RUnknownRef
  end.

(* ---------------------------------------------------------------- evaluation *)
(* Authorizer::authorize on a state: run to the fixpoint, authorizer checks, block checks,
   first matching policy *)
Inductive soutcome := SDone (policy : option (bool * N)) (failed : list (N * N)).

Definition auth_failed (bs : list blk) (a : acontent) (facts : list ofact) : list (N * N) :=
  match a with YContent _ _ cs _ =>
    let fix go (j : nat) (l : list (check_ bytes key)) : list (N * N) :=
      match l with
      | [] => []
      | YCheck b v sc :: l' =>
          let tr := from_scopes bs sc (auth_trust bs a) None in
          if holds facts tr b (Some v) then go (S j) l' else (auth_id, N.of_nat j) :: go (S j) l'
      end in go 0%nat cs end.

Fixpoint first_policy (bs : list blk) (a : acontent) (facts : list ofact) (j : nat)
         (ps : list (policy_ bytes key)) : option (bool * N) :=
  match ps with
  | [] => None
  | (allow, YCheck b v sc) :: ps' =>
      if holds facts (from_scopes bs sc (auth_trust bs a) None) b (Some v)
      then Some (allow, N.of_nat j) else first_policy bs a facts (S j) ps'
  end.

Definition eval_state (a : astate) : soutcome * list ofact :=
  let facts := saturate 64 (a_rules a) (a_facts a) in
  (SDone (first_policy (a_blocks a) (a_auth a) facts 0%nat (a_policies a))
         (auth_failed (a_blocks a) (a_auth a) facts ++ failed_checks (a_blocks a) facts),
   facts).

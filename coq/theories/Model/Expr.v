(* Expression evaluation: mirrors biscuit-auth/src/datalog/expression.rs
   (Unary::evaluate, Binary::evaluate, Binary::evaluate_with_closure, Expression::evaluate)
   at the level of observable behaviour.  Written from DESIGN.md Appendix D.4. *)
From Biscuit Require Export Model.Value.

Inductive unary := UNegate | UParens | ULength | UTypeOf
                 | UFfi (name : bytes) | UFfiUnk (id : N).

Inductive binary :=
| BLessThan | BGreaterThan | BLessOrEqual | BGreaterOrEqual
| BEqual | BContains | BPrefix | BSuffix | BRegex
| BAdd | BSub | BMul | BDiv | BAnd | BOr
| BIntersection | BUnion | BBitwiseAnd | BBitwiseOr | BBitwiseXor
| BNotEqual | BHeterogeneousEqual | BHeterogeneousNotEqual
| BLazyAnd | BLazyOr | BAll | BAny | BGet
| BFfi (name : bytes) | BFfiUnk (id : N).

Inductive op :=
| OVal (v : value)
| OVar (x : N)
| OUn (u : unary)
| OBin (b : binary)
| OClo (params : list N) (body : list op).

Inductive selem := STerm (v : value) | SClo (params : list N) (body : list op).

Definition env := list (N * value).

Fixpoint lookup (x : N) (e : env) : option value :=
  match e with
  | [] => None
  | (y, v) :: e' => if N.eqb x y then Some v else lookup x e'
  end.

(* The outside world: regex engine and extern functions, as oracles. *)
Record oracles := {
  regex_match : bytes -> bytes -> res bool;               (* subject, pattern *)
  extern_call : bytes -> value -> option value -> res value  (* name, left, right *)
}.

Definition type_name (v : value) : bytes :=
  match v with
  | VInt _ => str "integer" | VStr _ | VUnk _ => str "string" | VDate _ => str "date"
  | VBytes _ => str "bytes" | VBool _ => str "bool" | VSet _ => str "set"
  | VNull => str "null" | VArray _ => str "array" | VMap _ => str "map"
  end.

Definition zlen {A} (l : list A) : Z := Z.of_nat (length l).

Definition eval_unary (O : oracles) (u : unary) (v : value) : res value :=
  match u, v with
  | UNegate, VBool b => Ok (VBool (negb b))
  | UParens, v => Ok v
  | ULength, VStr s => Ok (VInt (zlen s))
  | ULength, VUnk id => Err (EUnknownSym id)
  | ULength, VBytes b => Ok (VInt (zlen b))
  | ULength, VSet l => Ok (VInt (zlen l))
  | ULength, VArray l => Ok (VInt (zlen l))
  | ULength, VMap l => Ok (VInt (zlen l))
  | UTypeOf, v => Ok (VStr (type_name v))
  | UFfi name, v => extern_call O name v None
  | UFfiUnk id, _ => Err (EUnknownSym id)
  | _, _ => Err EInvalidType
  end.

Definition checked (z : Z) : res value :=
  if in_i64 z then Ok (VInt z) else Err EOverflow.

(* two strings: the content of both is needed; unknown ids are reported the way
   the implementation does (right one only if the left one is known) *)
Definition str2 (l r : value) (f : bytes -> bytes -> res value) : res value :=
  match l, r with
  | VStr a, VStr b => f a b
  | VStr _, VUnk j => Err (EUnknownSym j)
  | VUnk i, _ => Err (EUnknownSym i)
  | _, _ => Err EInvalidType
  end.

Definition is_strlike (v : value) : bool :=
  match v with VStr _ | VUnk _ => true | _ => false end.

(* same-type equality used by ===, !==, == and != ; None = operands of different types *)
Definition same_type_eq (l r : value) : option bool :=
  match l, r with
  | VInt i, VInt j => Some (Z.eqb i j)
  | (VStr _ | VUnk _), (VStr _ | VUnk _) => Some (value_eqb l r)
  | VDate i, VDate j => Some (Z.eqb i j)
  | VBytes a, VBytes b => Some (bytes_eqb a b)
  | VSet a, VSet b => Some (vset_eqb a b)
  | VBool a, VBool b => Some (Bool.eqb a b)
  | VNull, VNull => Some true
  | VArray a, VArray b => Some (vlist_eqb a b)
  | VMap _, VMap _ => Some (value_eqb l r)
  | _, _ => None
  end.

Definition map_has_key (m : list (mapkey * value)) (j : value) : bool :=
  existsb (fun kv => match fst kv, j with
                     | KInt k, VInt l => Z.eqb k l
                     | KStr k, VStr l => bytes_eqb k l
                     | KUnk k, VUnk l => N.eqb k l
                     | _, _ => false
                     end) m.

Definition eval_binary (O : oracles) (b : binary) (l r : value) : res value :=
  match b with
  | BLessThan =>
      match l, r with
      | VInt i, VInt j | VDate i, VDate j => Ok (VBool (i <? j))
      | _, _ => Err EInvalidType end
  | BGreaterThan =>
      match l, r with
      | VInt i, VInt j | VDate i, VDate j => Ok (VBool (i >? j))
      | _, _ => Err EInvalidType end
  | BLessOrEqual =>
      match l, r with
      | VInt i, VInt j | VDate i, VDate j => Ok (VBool (i <=? j))
      | _, _ => Err EInvalidType end
  | BGreaterOrEqual =>
      match l, r with
      | VInt i, VInt j | VDate i, VDate j => Ok (VBool (i >=? j))
      | _, _ => Err EInvalidType end
  | BEqual =>
      match same_type_eq l r with Some x => Ok (VBool x) | None => Err EInvalidType end
  | BNotEqual =>
      match same_type_eq l r with Some x => Ok (VBool (negb x)) | None => Err EInvalidType end
  | BHeterogeneousEqual =>
      match same_type_eq l r with Some x => Ok (VBool x) | None => Ok (VBool false) end
  | BHeterogeneousNotEqual =>
      match same_type_eq l r with Some x => Ok (VBool (negb x)) | None => Ok (VBool true) end
  | BContains =>
      match l, r with
      | VSet s, VSet t => Ok (VBool (vsubset t s))
      | VSet s, (VInt _ | VDate _ | VBool _ | VStr _ | VUnk _ | VBytes _) => Ok (VBool (vmem r s))
      | VArray a, _ => Ok (VBool (vmem r a))
      | VMap m, _ => Ok (VBool (map_has_key m r))
      | _, _ => if is_strlike l && is_strlike r
                then str2 l r (fun a b => Ok (VBool (is_infix b a)))
                else Err EInvalidType
      end
  | BPrefix =>
      match l, r with
      | VArray a, VArray p =>
          Ok (VBool (vlist_eqb (firstn (length p) a) p))
      | _, _ => if is_strlike l && is_strlike r
                then str2 l r (fun a b => Ok (VBool (is_prefix b a)))
                else Err EInvalidType
      end
  | BSuffix =>
      match l, r with
      | VArray a, VArray p =>
          Ok (VBool (vlist_eqb (skipn (length a - length p) a) p && (length p <=? length a)%nat))
      | _, _ => if is_strlike l && is_strlike r
                then str2 l r (fun a b => Ok (VBool (is_suffix b a)))
                else Err EInvalidType
      end
  | BRegex =>
      if is_strlike l && is_strlike r
      then str2 l r (fun a b => match regex_match O a b with Ok x => Ok (VBool x) | Err e => Err e end)
      else Err EInvalidType
  | BAdd =>
      match l, r with
      | VInt i, VInt j => checked (i + j)
      | _, _ => if is_strlike l && is_strlike r
                then str2 l r (fun a b => Ok (VStr (a ++ b)))
                else Err EInvalidType
      end
  | BSub => match l, r with VInt i, VInt j => checked (i - j) | _, _ => Err EInvalidType end
  | BMul => match l, r with VInt i, VInt j => checked (i * j) | _, _ => Err EInvalidType end
  | BDiv =>
      match l, r with
      | VInt i, VInt j =>
          if Z.eqb j 0 then Err EDivZero
          else if in_i64 (Z.quot i j) then Ok (VInt (Z.quot i j)) else Err EDivZero
      | _, _ => Err EInvalidType end
  | BAnd => match l, r with VBool x, VBool y => Ok (VBool (andb x y)) | _, _ => Err EInvalidType end
  | BOr => match l, r with VBool x, VBool y => Ok (VBool (orb x y)) | _, _ => Err EInvalidType end
  | BIntersection =>
      match l, r with VSet s, VSet t => Ok (VSet (vinter s t)) | _, _ => Err EInvalidType end
  | BUnion =>
      match l, r with VSet s, VSet t => Ok (VSet (vunion s t)) | _, _ => Err EInvalidType end
  | BBitwiseAnd => match l, r with VInt i, VInt j => Ok (VInt (Z.land i j)) | _, _ => Err EInvalidType end
  | BBitwiseOr => match l, r with VInt i, VInt j => Ok (VInt (Z.lor i j)) | _, _ => Err EInvalidType end
  | BBitwiseXor => match l, r with VInt i, VInt j => Ok (VInt (Z.lxor i j)) | _, _ => Err EInvalidType end
  | BGet =>
      match l, r with
      | VArray a, VInt i =>
          if (i <? 0) || (zlen a <=? i) then Ok VNull
          else Ok (nth (Z.to_nat i) a VNull)
      | VMap m, VInt i => Ok (match map_get (KInt i) m with Some v => v | None => VNull end)
      | VMap m, VStr s => Ok (match map_get (KStr s) m with Some v => v | None => VNull end)
      | VMap m, VUnk s => Ok (match map_get (KUnk s) m with Some v => v | None => VNull end)
      | _, _ => Err EInvalidType
      end
  | BFfi name => extern_call O name l (Some r)
  | BFfiUnk id => Err (EUnknownSym id)
  | BLazyAnd | BLazyOr | BAll | BAny => Err EInvalidType   (* need a closure on the right *)
  end.

Definition shadows (e : env) (params : list N) : bool :=
  existsb (fun p => match lookup p e with Some _ => true | None => false end) params.

(* elements a closure of all/any ranges over *)
Definition closure_domain (l : value) : option (list value) :=
  match l with
  | VSet s => Some s
  | VArray a => Some a
  | VMap m => Some (map (fun kv => VArray [key_value (fst kv); snd kv]) m)
  | _ => None
  end.

Fixpoint op_size (o : op) : nat :=
  match o with
  | OClo _ body => S ((fix go (l : list op) : nat :=
                         match l with [] => O | x :: r => (op_size x + go r)%nat end) body)
  | _ => 1%nat
  end.
Definition ops_size (ops : list op) : nat :=
  (fix go (l : list op) : nat :=
     match l with [] => O | x :: r => (op_size x + go r)%nat end) ops.

Section Eval.
Variable orc : oracles.

(* one fuel unit per operation; closure bodies are evaluated with the remaining fuel *)
Fixpoint eval (fuel : nat) (e : env) (ops : list op) (stack : list selem) {struct fuel} : res value :=
  match fuel with
  | 0%nat => Err EOutOfFuel
  | S f =>
    match ops with
    | [] => match stack with [STerm v] => Ok v | _ => Err EInvalidStack end
    | o :: rest =>
      match o with
      | OVal v => eval f e rest (STerm v :: stack)
      | OVar x => match lookup x e with
                  | Some v => eval f e rest (STerm v :: stack)
                  | None => Err (EUnknownVar x)
                  end
      | OClo ps body => eval f e rest (SClo ps body :: stack)
      | OUn u =>
          match stack with
          | STerm v :: st => do w <- eval_unary orc u v; eval f e rest (STerm w :: st)
          | _ => Err EInvalidStack
          end
      | OBin b =>
          match stack with
          | STerm r :: STerm l :: st =>
              do w <- eval_binary orc b l r; eval f e rest (STerm w :: st)
          | SClo ps body :: STerm l :: st =>
              if shadows e ps then Err EShadowed else
              let run_body (e' : env) := eval f e' body [] in
              let fix all_loop (xs : list value) (p : N) : res value :=
                match xs with
                | [] => Ok (VBool true)
                | x :: xs' => do w <- run_body ((p, x) :: e);
                              match w with
                              | VBool true => all_loop xs' p
                              | VBool false => Ok (VBool false)
                              | _ => Err EInvalidType
                              end
                end in
              let fix any_loop (xs : list value) (p : N) : res value :=
                match xs with
                | [] => Ok (VBool false)
                | x :: xs' => do w <- run_body ((p, x) :: e);
                              match w with
                              | VBool false => any_loop xs' p
                              | VBool true => Ok (VBool true)
                              | _ => Err EInvalidType
                              end
                end in
              do w <- match b, l, ps with
                      | BLazyOr, VBool true, [] => Ok (VBool true)
                      | BLazyOr, VBool false, [] => run_body e
                      | BLazyAnd, VBool false, [] => Ok (VBool false)
                      | BLazyAnd, VBool true, [] => run_body e
                      | BAll, _, [p] => match closure_domain l with
                                        | Some xs => all_loop xs p
                                        | None => Err EInvalidType end
                      | BAny, _, [p] => match closure_domain l with
                                        | Some xs => any_loop xs p
                                        | None => Err EInvalidType end
                      | _, _, _ => Err EInvalidType
                      end;
              eval f e rest (STerm w :: st)
          | _ => Err EInvalidStack
          end
      end
    end
  end.

Definition evaluate (e : env) (ops : list op) : res value :=
  eval (S (ops_size ops)) e ops [].

End Eval.

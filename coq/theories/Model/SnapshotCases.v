(* Executable glue for the C13 correspondence.  A case describes an authorizer (token
   blocks, authorizer block, policies, limits), gives its world at the moment of the
   snapshot as the implementation reported it, and records what the implementation did:
   restore from the raw and base64 forms, the snapshot of the restored object, authorize()
   and the facts after it on the original and on the restored object, and the save/load of
   the policies.  No proofs. *)
From Biscuit Require Export Model.Snapshot.
From Biscuit Require Import Model.SymbolsCases.

Inductive irestore := IRestored | IUnknownRef | IRestoreOther.
Inductive ioutcome := IDone (p : option (bool * N)) (failed : list (N * N)) | IOther.
Inductive ipol := IPolLoaded (same : bool) | IPolUnknownRef | IPolOther.
Inductive sobs :=
  SObs (raw b64 : irestore)
       (restored : option (list ofact * N * (N * N * N) * N))     (* facts, iterations, limits, exec *)
       (orig_beh restored_beh : option (ioutcome * list ofact * list (bytes * bytes)))   (* authorize, facts, query_all *)
       (pol : ipol)
       (builder_roundtrip : bool).    (* AuthorizerBuilder snapshot -> from_snapshot: same code, limits, snapshot *)

Definition ncase : Type :=
  (list blk * acontent * list (policy_ bytes key) * (N * N * N) * list ofact * N * N * sobs).

Definition facts_sub (a b : list ofact) : bool := forallb (fun f => existsb (ofact_eqb f) b) a.
Definition facts_seteq (a b : list ofact) : bool := facts_sub a b && facts_sub b a.

Definition pairs_eqb (a b : list (N * N)) : bool :=
  list_eqb (fun x y => N.eqb (fst x) (fst y) && N.eqb (snd x) (snd y)) a b.
Definition lim_eqb (a b : N * N * N) : bool :=
  let '(x, y, z) := a in let '(x', y', z') := b in N.eqb x x' && N.eqb y y' && N.eqb z z'.

(* query_all("data($x) <- name($x)") trusts every block: the (name, argument) pairs of the world *)
Definition pair_mem (x : bytes * bytes) (l : list (bytes * bytes)) : bool :=
  existsb (fun y => bytes_eqb (fst x) (fst y) && bytes_eqb (snd x) (snd y)) l.
Definition pairs_seteq (a b : list (bytes * bytes)) : bool :=
  forallb (fun x => pair_mem x b) a && forallb (fun x => pair_mem x a) b.
Definition world_pairs (fs : list ofact) : list (bytes * bytes) := map (fun f => let '(_, n, v) := f in (n, v)) fs.

Definition beh_agrees (m : soutcome * list ofact) (i : ioutcome * list ofact * list (bytes * bytes)) : bool :=
  let '(io, ifs, iqs) := i in
  match fst m, io with
  | SDone p f, IDone p' f' =>
      option_eqb (fun x y => Bool.eqb (fst x) (fst y) && N.eqb (snd x) (snd y)) p p'
      && pairs_eqb f f' && facts_seteq (snd m) ifs && pairs_seteq (world_pairs (snd m)) iqs
  | _, _ => false
  end.

Definition case_state (c : ncase) : astate :=
  let '(bs, a, ps, lim, fs, it, ex, _) := c in
  mkastate bs a ps fs (world_rules Repaired bs a) lim it ex.

Definition strip_scopes (a : acontent) : acontent :=
  match a with YContent fs rs cs _ => YContent fs rs cs [] end.

(* the three independent parts of a case *)
(* 1. restore and the snapshot of the restored object -- depends on the table variant *)
Definition part_restore (vt : variant) (c : ncase) : bool :=
  let a := case_state c in
  let '(_, _, _, _, _, _, _, SObs raw b64 rest _ _ _ bld) := c in
  bld &&
  match restore vt Repaired (snapshot a) with
  | RErr' _ =>
      match raw, b64, rest with IUnknownRef, IUnknownRef, None => true | _, _, _ => false end
  | ROk' a' =>
      match raw, b64, rest with
      | IRestored, IRestored, Some (fs, it, lim, ex) =>
          facts_seteq fs (a_facts a') && N.eqb it (a_iterations a') && lim_eqb lim (a_limits a')
          && N.eqb ex (a_exec a')
      | _, _, _ => false
      end
  end.

(* 2. authorize() on the original and on the restored object -- depends on the key map
   variant (and on the table variant through the success of the restore) *)
Definition part_behaviour (vt vk : variant) (c : ncase) : bool :=
  let a := case_state c in
  let '(_, _, _, _, _, _, _, SObs _ _ _ ob rb _ _) := c in
  match ob with None => true | Some i => beh_agrees (eval_state a) i end &&
  match restore vt vk (snapshot a), rb with
  | RErr' _, None => true
  | ROk' a', Some i => beh_agrees (eval_state a') i
  | ROk' _, None => true          (* failed-run moment: behaviour not compared *)
  | RErr' _, Some _ => false
  end.

(* 3. saved policies *)
Definition part_policies (vc : variant) (c : ncase) : bool :=
  let '(_, a, ps, _, _, _, _, SObs _ _ _ _ _ pol _) := c in
  match load_policies (save_policies vc (strip_scopes a, ps)), pol with
  | ROk' _, IPolLoaded true => true
  | RErr' RUnknownRef, IPolUnknownRef => true
  | _, _ => false
  end.

(* ---- classes of the known findings ---- *)
Definition is_default (s : bytes) : bool := mem s default_symbols.
Definition content_strings (c : acontent) : list bytes :=
  match c with YContent fs rs cs _ =>
    flat_map (fun x => match x with YFact n v => [n; v] end) fs ++
    flat_map (fun x => match x with YRule h b v _ => [h; b; v] end) rs ++
    flat_map (fun x => match x with YCheck b v _ => [b; v] end) cs end.
(* A: a third-party block with a symbol outside the default table, or a key scope *)
Definition class_tp_symbols (c : ncase) : bool :=
  let '(bs, _, _, _, _, _, _, _) := c in
  existsb (fun b => match snd b with
                    | Some _ => negb (forallb is_default (content_strings (fst b))) || content_has_key (fst b)
                    | None => false end) (tl bs).
(* B: a rule of block i trusts the external key of a later block *)
Definition rule_keys (c : acontent) : list key :=
  match c with YContent _ rs _ ss =>
    flat_map (fun x => match x with YRule _ _ _ sc =>
       flat_map (fun s => match s with YKey k => [k] | _ => [] end) (sc ++ ss) end) rs end.
Fixpoint class_forward_key_l (l : list blk) : bool :=
  match l with
  | [] => false
  | b :: l' =>
      existsb (fun k => existsb (fun b' => match snd b' with Some k' => bytes_eqb k k' | None => false end) l')
              (rule_keys (fst b))
      || class_forward_key_l l'
  end.
Definition class_forward_key (c : ncase) : bool :=
  let '(bs, _, _, _, _, _, _, _) := c in class_forward_key_l bs.
(* C: the saved policies mention a public key *)
Definition class_policy_keys (c : ncase) : bool :=
  let '(_, a, ps, _, _, _, _, _) := c in
  content_has_key (strip_scopes a)
  || existsb (fun p => match snd p with YCheck _ _ sc => existsb scope_has_key sc end) ps.

(* verdict: None = disagreement; Some mask = agreement, where bit 0/1/2 of mask says that the
   restore / behaviour / policies part agrees only with the faithful model (inside its class) *)
Definition ncase_verdict (c : ncase) : option N :=
  let vA := if part_restore Repaired c then Some Repaired
            else if part_restore Faithful c && class_tp_symbols c then Some Faithful else None in
  match vA with
  | None => None
  | Some vt =>
      let vB := if part_behaviour vt Repaired c then Some Repaired
                else if part_behaviour vt Faithful c && class_forward_key c then Some Faithful else None in
      let vC := if part_policies Repaired c then Some Repaired
                else if part_policies Faithful c && class_policy_keys c then Some Faithful else None in
      match vB, vC with
      | Some vk, Some vc =>
          Some ((match vt with Faithful => 1 | Repaired => 0 end) +
                (match vk with Faithful => 2 | Repaired => 0 end) +
                (match vc with Faithful => 4 | Repaired => 0 end))%N
      | _, _ => None
      end
  end.

Definition known_offset : N := 1073741824%N.

Fixpoint ncase_scan (idx : N) (cs : list ncase) (bad : list (N * option N)) : list (N * option N) * N :=
  match cs with
  | [] => (rev bad, 0%N)
  | c :: cs' =>
      match ncase_verdict c with
      | Some 0%N => ncase_scan (N.succ idx) cs' bad
      | Some m => ncase_scan (N.succ idx) cs' ((idx + known_offset * m, Some m)%N :: bad)
      | None => ncase_scan (N.succ idx) cs' ((idx, None) :: bad)
      end
  end.

(* disagreeing cases keep their index; a case showing known faulty behaviour is listed with
   index + known_offset * mask *)
Definition ncase_failures (start : N) (cs : list ncase) := ncase_scan start cs [].

(* the model's account of a case, for replay files *)
Definition ncase_model (c : ncase) :=
  let a := case_state c in
  (match restore Repaired Repaired (snapshot a) with
   | ROk' a' => Some (a_facts a', eval_state a')
   | RErr' _ => None
   end,
   eval_state a,
   match restore Faithful Faithful (snapshot a) with
   | ROk' a' => Some (eval_state a')
   | RErr' _ => None
   end,
   (part_restore Repaired c, part_behaviour Repaired Repaired c, part_policies Repaired c),
   (class_tp_symbols c, class_forward_key c, class_policy_keys c)).

Definition prelude_anchor13 : Z * nat := (0%Z, 0%nat).

(* Executable glue for the C14 correspondence: case type (strings arrive as UTF-8 bytes),
   UTF-8 decoding, comparison of ASTs up to the order of sets and maps, the checker.
   No proofs. *)
From Biscuit Require Export Model.Text.
Local Open Scope N_scope.

(* ---- UTF-8 (the harness only sends valid UTF-8) *)
Fixpoint utf8 (b : bytes) : text :=
  match b with
  | [] => []
  | c :: r =>
      if c <? 128 then c :: utf8 r
      else if c <? 224 then
        match r with
        | c2 :: r2 => ((c - 192) * 64 + (c2 - 128)) :: utf8 r2
        | _ => [c]
        end
      else if c <? 240 then
        match r with
        | c2 :: c3 :: r3 => ((c - 224) * 4096 + (c2 - 128) * 64 + (c3 - 128)) :: utf8 r3
        | _ => [c]
        end
      else
        match r with
        | c2 :: c3 :: c4 :: r4 =>
            ((c - 240) * 262144 + (c2 - 128) * 4096 + (c3 - 128) * 64 + (c4 - 128)) :: utf8 r4
        | _ => [c]
        end
  end.

(* ---- decoding the strings of an AST *)
Definition dec_mkey (k : mkey) : mkey :=
  match k with MKInt i => MKInt i | MKStr s => MKStr (utf8 s) | MKParam s => MKParam (utf8 s) end.

Fixpoint dec_term (t : term) : term :=
  match t with
  | TVar s => TVar (utf8 s)
  | TStr s => TStr (utf8 s)
  | TParam s => TParam (utf8 s)
  | TSet l => TSet (map dec_term l)
  | TArray l => TArray (map dec_term l)
  | TMap l => TMap (map (fun kv => (dec_mkey (fst kv), dec_term (snd kv))) l)
  | other => other
  end.

Definition dec_unop (u : unop) : unop := match u with UFfi n => UFfi (utf8 n) | o => o end.
Definition dec_binop (b : binop) : binop := match b with BFfi n => BFfi (utf8 n) | o => o end.

Fixpoint dec_op (o : op) : op :=
  match o with
  | OValue t => OValue (dec_term t)
  | OUnary u => OUnary (dec_unop u)
  | OBinary b => OBinary (dec_binop b)
  | OClosure ps body => OClosure (map utf8 ps) (map dec_op body)
  end.

Definition dec_scope (s : scope) : scope := match s with SParam n => SParam (utf8 n) | o => o end.
Definition dec_pred (p : pred) : pred := mkpred (utf8 (pname p)) (map dec_term (pterms p)).
Definition dec_rule (r : rule) : rule :=
  mkrule (dec_pred (rhead r)) (map dec_pred (rbody r)) (map (map dec_op) (rexprs r)) (map dec_scope (rscopes r)).
Definition dec_check (c : check) : check := mkcheck (map dec_rule (cqueries c)) (ckind_of c).
Definition dec_policy (p : policy) : policy := mkpolicy (map dec_rule (pqueries p)) (pkind_of p).
Definition dec_source (s : source) : source :=
  mksource (map dec_scope (s_scopes s)) (map dec_pred (s_facts s)) (map dec_rule (s_rules s))
           (map dec_check (s_checks s)) (map dec_policy (s_policies s)).

Inductive item :=
| IFact (p : pred) | IRule (r : rule) | ICheck (c : check) | IPolicy (p : policy)
| ISource (s : source) | ITerm (t : term) | IExpr (e : list op).

Definition dec_item (i : item) : item :=
  match i with
  | IFact p => IFact (dec_pred p)
  | IRule r => IRule (dec_rule r)
  | ICheck c => ICheck (dec_check c)
  | IPolicy p => IPolicy (dec_policy p)
  | ISource s => ISource (dec_source s)
  | ITerm t => ITerm (dec_term t)
  | IExpr e => IExpr (map dec_op e)
  end.

(* ---- comparison up to the order of sets and maps (BTreeSet / BTreeMap equality) *)
Fixpoint term_equiv (a b : term) {struct a} : bool :=
  let fix list_eq (l m : list term) {struct l} : bool :=
    match l, m with
    | [], [] => true
    | x :: l', y :: m' => term_equiv x y && list_eq l' m'
    | _, _ => false
    end in
  let fix incl_l (l m : list term) {struct l} : bool :=      (* every x of l has an equal in m *)
    match l with
    | [] => true
    | x :: l' => (fix any (m : list term) : bool :=
                    match m with [] => false | y :: m' => term_equiv x y || any m' end) m
                 && incl_l l' m
    end in
  let fix mem_r (l : list term) (y : term) {struct l} : bool :=   (* y has an equal in l *)
    match l with [] => false | x :: l' => term_equiv x y || mem_r l' y end in
  let fix mincl_l (l m : list (mkey * term)) {struct l} : bool :=
    match l with
    | [] => true
    | (k, x) :: l' => (fix any (m : list (mkey * term)) : bool :=
                         match m with
                         | [] => false
                         | (k', y) :: m' => (mkey_eqb k k' && term_equiv x y) || any m'
                         end) m
                      && mincl_l l' m
    end in
  let fix mmem_r (l : list (mkey * term)) (k' : mkey) (y : term) {struct l} : bool :=
    match l with [] => false | (k, x) :: l' => (mkey_eqb k k' && term_equiv x y) || mmem_r l' k' y end in
  match a, b with
  | TVar s, TVar t => text_eqb s t
  | TInt i, TInt j => Z.eqb i j
  | TStr s, TStr t => text_eqb s t
  | TDate i, TDate j => Z.eqb i j
  | TBytes s, TBytes t => text_eqb s t
  | TBool x, TBool y => Bool.eqb x y
  | TSet l, TSet m => incl_l l m && forallb (mem_r l) m
  | TParam s, TParam t => text_eqb s t
  | TNull, TNull => true
  | TArray l, TArray m => list_eq l m
  | TMap l, TMap m => mincl_l l m && forallb (fun kv => mmem_r l (fst kv) (snd kv)) m
  | _, _ => false
  end.

Fixpoint list_eqb {A} (eq : A -> A -> bool) (l m : list A) : bool :=
  match l, m with
  | [], [] => true
  | x :: l', y :: m' => eq x y && list_eqb eq l' m'
  | _, _ => false
  end.

Definition unop_eqb (a b : unop) : bool :=
  match a, b with
  | UNegate, UNegate | UParens, UParens | ULength, ULength | UTypeOf, UTypeOf => true
  | UFfi n, UFfi m => text_eqb n m
  | _, _ => false
  end.

Definition binop_tag (b : binop) : N :=
  match b with
  | BLessThan => 0 | BGreaterThan => 1 | BLessOrEqual => 2 | BGreaterOrEqual => 3 | BEqual => 4
  | BContains => 5 | BPrefix => 6 | BSuffix => 7 | BRegex => 8 | BAdd => 9 | BSub => 10 | BMul => 11
  | BDiv => 12 | BAnd => 13 | BOr => 14 | BIntersection => 15 | BUnion => 16 | BBitwiseAnd => 17
  | BBitwiseOr => 18 | BBitwiseXor => 19 | BNotEqual => 20 | BHeterogeneousEqual => 21
  | BHeterogeneousNotEqual => 22 | BLazyAnd => 23 | BLazyOr => 24 | BAll => 25 | BAny => 26
  | BGet => 27 | BFfi _ => 28
  end.
Definition binop_eqb (a b : binop) : bool :=
  match a, b with
  | BFfi n, BFfi m => text_eqb n m
  | _, _ => binop_tag a =? binop_tag b
  end.

Fixpoint op_equiv (a b : op) {struct a} : bool :=
  let fix ops_eq (l m : list op) {struct l} : bool :=
    match l, m with
    | [], [] => true
    | x :: l', y :: m' => op_equiv x y && ops_eq l' m'
    | _, _ => false
    end in
  match a, b with
  | OValue t, OValue u => term_equiv t u
  | OUnary u, OUnary v => unop_eqb u v
  | OBinary x, OBinary y => binop_eqb x y
  | OClosure ps body, OClosure qs body' => list_eqb text_eqb ps qs && ops_eq body body'
  | _, _ => false
  end.

Definition alg_eqb (a b : alg) : bool :=
  match a, b with Ed25519, Ed25519 | Secp256r1, Secp256r1 => true | _, _ => false end.
Definition scope_eqb (a b : scope) : bool :=
  match a, b with
  | SAuthority, SAuthority | SPrevious, SPrevious => true
  | SKey x k, SKey y k' => alg_eqb x y && text_eqb k k'
  | SParam n, SParam m => text_eqb n m
  | _, _ => false
  end.
Definition pred_equiv (a b : pred) : bool :=
  text_eqb (pname a) (pname b) && list_eqb term_equiv (pterms a) (pterms b).
Definition rule_equiv (a b : rule) : bool :=
  pred_equiv (rhead a) (rhead b) && list_eqb pred_equiv (rbody a) (rbody b)
  && list_eqb (list_eqb op_equiv) (rexprs a) (rexprs b) && list_eqb scope_eqb (rscopes a) (rscopes b).
Definition ckind_eqb (a b : ckind) : bool :=
  match a, b with CheckIf, CheckIf | CheckAll, CheckAll | RejectIf, RejectIf => true | _, _ => false end.
Definition pkind_eqb (a b : pkind) : bool :=
  match a, b with Allow, Allow | Deny, Deny => true | _, _ => false end.
Definition check_equiv (a b : check) : bool :=
  list_eqb rule_equiv (cqueries a) (cqueries b) && ckind_eqb (ckind_of a) (ckind_of b).
Definition policy_equiv (a b : policy) : bool :=
  list_eqb rule_equiv (pqueries a) (pqueries b) && pkind_eqb (pkind_of a) (pkind_of b).
Definition source_equiv (a b : source) : bool :=
  list_eqb scope_eqb (s_scopes a) (s_scopes b) && list_eqb pred_equiv (s_facts a) (s_facts b)
  && list_eqb rule_equiv (s_rules a) (s_rules b) && list_eqb check_equiv (s_checks a) (s_checks b)
  && list_eqb policy_equiv (s_policies a) (s_policies b).

Definition item_equiv (a b : item) : bool :=
  match a, b with
  | IFact p, IFact q => pred_equiv p q
  | IRule p, IRule q => rule_equiv p q
  | ICheck p, ICheck q => check_equiv p q
  | IPolicy p, IPolicy q => policy_equiv p q
  | ISource p, ISource q => source_equiv p q
  | ITerm p, ITerm q => term_equiv p q
  | IExpr p, IExpr q => list_eqb op_equiv p q
  | _, _ => false
  end.

(* ---- cases *)
Inductive pksel := KFact | KRule | KCheck | KPolicy | KSource | KBlockSource.
Inductive iparse := ROk (i : item) | RErr | RPanic.
Inductive tcase :=
| CPrint (i : item) (out : option bytes)           (* printed by the implementation; None: panic *)
| CParse (k : pksel) (input : bytes) (r : iparse).

Inductive tres :=
| MPrinted (faithful repaired : option text) (impl_text_parses_back model_text_parses_back : bool)
| MParsed (o : option item).

Definition print_item (esc : bool) (i : item) : option text :=
  match i with
  | IFact p => Some (print_pred esc p)
  | IRule r => print_rule esc r
  | ICheck c => print_check esc c
  | IPolicy p => print_policy esc p
  | ITerm t => Some (print_term esc t)
  | IExpr e => print_ops esc e
  | ISource _ => None
  end.

Definition parse_item (k : pksel) (i : text) : option item :=
  match k with
  | KFact => option_map IFact (parse_fact i)
  | KRule => option_map IRule (parse_rule i)
  | KCheck => option_map ICheck (parse_check i)
  | KPolicy => option_map IPolicy (parse_policy i)
  | KSource => option_map ISource (parse_source i)
  | KBlockSource => option_map ISource (parse_block_source i)
  end.

(* the printed text satisfies the property itself: it parses back (model parser) to the item *)
Definition reparse_ok (i : item) (t : text) : bool :=
  match i with
  | IFact p => match parse_fact t with Some q => pred_equiv p q | None => false end
  | IRule p => match parse_rule t with Some q => rule_equiv p q | None => false end
  | ICheck p => match parse_check t with Some q => check_equiv p q | None => false end
  | IPolicy p => match parse_policy t with Some q => policy_equiv p q | None => false end
  | ITerm p => match at_eof (p_term (fuel_for t) CTerm t) with Some q => term_equiv p q | None => false end
  | IExpr p => match at_eof (p_expr (fuel_for t) t) with
               | Some q => list_eqb op_equiv p (opcodes q)
               | None => false
               end
  | ISource _ => false
  end.

Definition tcase_model (c : tcase) : tres :=
  match c with
  | CPrint i out => let i' := dec_item i in
                    MPrinted (print_item false i') (print_item true i')
                             (match out with Some b => reparse_ok i' (utf8 b) | None => false end)
                             (match print_item false i' with Some t => reparse_ok i' t | None => false end)
  | CParse k input _ => MParsed (parse_item k (utf8 input))
  end.

Definition otext_eqb (a : option text) (b : text) : bool :=
  match a with Some t => text_eqb t b | None => false end.

(* `<invalid expression` : the placeholder SymbolTable::print_expression (and, since the
   C09 repair, the builders' Display) writes for an op list that breaks the stack discipline.
   Such items are outside the property (nothing parses to them); the model printer answers
   None, and the implementation may panic (before the repair) or print the placeholder. *)
Definition invalid_marker : text :=
  [60; 105; 110; 118; 97; 108; 105; 100; 32; 101; 120; 112; 114; 101; 115; 115; 105; 111; 110]%N.
Fixpoint is_prefix (p t : text) : bool :=
  match p, t with
  | [], _ => true
  | x :: p', y :: t' => N.eqb x y && is_prefix p' t'
  | _, [] => false
  end.
Fixpoint has_sub (p t : text) : bool :=
  is_prefix p t || match t with [] => false | _ :: t' => has_sub p t' end.

(* The correspondence accepts the unchanged printer (no escaping), the repaired one
   (escaping), and any other text that parses back (model parser) to the item -- the
   behaviour the property demands; only a printed text that does not come back is reported. *)
Definition tcase_agrees (c : tcase) : bool :=
  match c, tcase_model c with
  | CPrint _ None, MPrinted None _ _ _ => true
  | CPrint _ (Some b), MPrinted None None _ _ => has_sub invalid_marker (utf8 b)
  | CPrint i (Some b), MPrinted f r back _ =>
      let t := utf8 b in otext_eqb f t || otext_eqb r t || back
  | CParse _ _ (ROk i), MParsed (Some j) => item_equiv (dec_item i) j
  | CParse _ _ RErr, MParsed None => true
  | _, _ => false
  end.

Fixpoint tcase_scan (idx : N) (cs : list tcase) (bad : list (N * tres)) : list (N * tres) * N :=
  match cs with
  | [] => (rev bad, 0)
  | c :: cs' => if tcase_agrees c then tcase_scan (N.succ idx) cs' bad
                else tcase_scan (N.succ idx) cs' ((idx, tcase_model c) :: bad)
  end.

Definition tcase_failures (start : N) (cs : list tcase) := tcase_scan start cs [].

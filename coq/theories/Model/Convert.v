(* From the decoded protobuf Block to the token block the library works with:
   biscuit-auth/src/format/convert.rs  proto_block_to_token_block (lines 49-132) and the v2
   conversions it calls (proto_fact_to_token_fact, proto_rule_to_token_rule,
   proto_check_to_token_check, proto_predicate_to_token_predicate, proto_id_to_token_term,
   proto_op_to_token_op, proto_expression_to_token_expression, proto_scope_to_token_scope),
   PublicKey::from_proto (crypto/mod.rs:314), PublicKeys::insert_fallible
   (token/public_keys.rs:37), SymbolTable::from (datalog/symbol.rs:59), and the way back,
   token_block_to_proto_block.

   The input is the [pblock] of Model/BlockWire.v (what prost decodes); the output is the
   *index-level* block: terms hold symbol indices, not strings, exactly like datalog::Term.
   Sets are BTreeSet<Term> and maps BTreeMap<MapKey, Term>: the model keeps them as lists in
   the order of Rust's derived Ord ([icmp] below: variant rank, then contents), built by the same
   insertions the code performs ([iinsert]: an equal element is dropped; [minsert]: a later entry
   with an equal key replaces the value).

   Order of the checks, and the class of the first error, follow the code:
     version range -> facts -> rules (body, expressions, scope gate, scopes, head) ->
     check kinds against the version (only below 3.3) -> third-party needs 3.2 ->
     checks -> scopes -> public keys (algorithm, size, curve, duplicates) ->
     symbols disjoint from the default table -> feature detection + compatibility.
   The detector and the compatibility test are the ones of Model/Schema.v (variant [repaired] =
   the code after fe0a9bb / 78c3768), applied to the *feature shape* of the index-level block
   ([shape_*]: strings become [VUnk id], which is what they are before a table is consulted;
   a variable below an array or map -- which the wire format allows and the conversion
   accepts -- becomes an integer, which carries no feature either).

   Curve validity and the canonical encoding of a key are an oracle
   ([canon : algorithm -> bytes -> option bytes], answered by the raw ed25519-dalek / p256
   crates in the harness).  No proofs here. *)
From Biscuit Require Export Model.BlockWire Model.Datalog.
From Biscuit Require Model.Schema Model.Symbols.
Local Open Scope N_scope.

(* ------------------------------------------------------------------ index-level terms *)
Inductive ikey := IKInt (z : Z) | IKStr (n : N).

Inductive iterm :=
| ITVar (n : N) | ITInt (z : Z) | ITStr (n : N) | ITDate (n : N)
| ITBytes (b : bytes) | ITBool (b : bool)
| ITSet (l : list iterm) | ITNull | ITArray (l : list iterm)
| ITMap (l : list (ikey * iterm)).

Definition ikey_cmp (a b : ikey) : comparison :=
  match a, b with
  | IKInt i, IKInt j => Z.compare i j
  | IKInt _, IKStr _ => Lt
  | IKStr _, IKInt _ => Gt
  | IKStr i, IKStr j => N.compare i j
  end.

(* variant rank in Rust's declaration order *)
Definition irank (t : iterm) : N :=
  match t with
  | ITVar _ => 0 | ITInt _ => 1 | ITStr _ => 2 | ITDate _ => 3 | ITBytes _ => 4 | ITBool _ => 5
  | ITSet _ => 6 | ITNull => 7 | ITArray _ => 8 | ITMap _ => 9
  end.

(* derived Ord of datalog::Term: lexicographic on Vec / BTreeSet / BTreeMap contents *)
Section CmpHelpers.
Variable cmp : iterm -> iterm -> comparison.
Fixpoint list_cmp_with (l m : list iterm) : comparison :=
  match l, m with
  | [], [] => Eq
  | [], _ => Lt
  | _, [] => Gt
  | x :: l', y :: m' => match cmp x y with Eq => list_cmp_with l' m' | c => c end
  end.
Fixpoint map_cmp_with (l m : list (ikey * iterm)) : comparison :=
  match l, m with
  | [], [] => Eq
  | [], _ => Lt
  | _, [] => Gt
  | kv :: l', kv' :: m' =>
      match ikey_cmp (fst kv) (fst kv') with
      | Eq => match cmp (snd kv) (snd kv') with Eq => map_cmp_with l' m' | c => c end
      | c => c
      end
  end.
End CmpHelpers.

Fixpoint icmp (a b : iterm) {struct a} : comparison :=
  match a, b with
  | ITVar i, ITVar j => N.compare i j
  | ITInt i, ITInt j => Z.compare i j
  | ITStr i, ITStr j => N.compare i j
  | ITDate i, ITDate j => N.compare i j
  | ITBytes s, ITBytes t => bytes_cmp s t
  | ITBool x, ITBool y => bool_cmp x y
  | ITSet l, ITSet m => list_cmp_with icmp l m
  | ITNull, ITNull => Eq
  | ITArray l, ITArray m => list_cmp_with icmp l m
  | ITMap l, ITMap m => map_cmp_with icmp l m
  | _, _ => N.compare (irank a) (irank b)
  end.

(* BTreeSet::insert *)
Fixpoint iinsert (x : iterm) (l : list iterm) : list iterm :=
  match l with
  | [] => [x]
  | y :: l' => match icmp x y with
               | Lt => x :: l
               | Eq => l
               | Gt => y :: iinsert x l'
               end
  end.

(* BTreeMap::insert: the value of an equal key is replaced *)
Fixpoint minsert (k : ikey) (v : iterm) (l : list (ikey * iterm)) : list (ikey * iterm) :=
  match l with
  | [] => [(k, v)]
  | (k', v') :: l' => match ikey_cmp k k' with
                      | Lt => (k, v) :: l
                      | Eq => (k, v) :: l'
                      | Gt => (k', v') :: minsert k v l'
                      end
  end.

Definition isort (l : list iterm) : list iterm := fold_left (fun acc x => iinsert x acc) l [].
Definition msort (l : list (ikey * iterm)) : list (ikey * iterm) :=
  fold_left (fun acc kv => minsert (fst kv) (snd kv) acc) l [].

(* ------------------------------------------------------------------ terms *)
(* the "index" the set loop of proto_id_to_token_term computes for an element: None = refused *)
Definition set_kind (t : pterm) : option N :=
  match t with
  | PTNone | PTVariable _ | PTSet _ => None
  | PTInteger _ => Some 2 | PTString _ => Some 3 | PTDate _ => Some 4 | PTBytes _ => Some 5
  | PTBool _ => Some 6 | PTNull => Some 8 | PTArray _ => Some 9 | PTMap _ => Some 10
  end.

Definition conv_key (k : pmapkey) : option ikey :=
  match k with PKNone => None | PKInt z => Some (IKInt z) | PKStr n => Some (IKStr n) end.

Section TermHelpers.
Variable f : pterm -> option iterm.

Fixpoint conv_list_with (l : list pterm) : option (list iterm) :=
  match l with
  | [] => Some []
  | x :: l' => match f x, conv_list_with l' with
               | Some y, Some r => Some (y :: r)
               | _, _ => None
               end
  end.

(* the loop over the elements of a set: kind of the first element, then every other one must
   have it; the converted element goes into the BTreeSet *)
Fixpoint conv_set_with (l : list pterm) (kind : option N) (acc : list iterm) : option (list iterm) :=
  match l with
  | [] => Some acc
  | x :: l' =>
      match set_kind x with
      | None => None
      | Some k =>
          if match kind with Some k0 => negb (k0 =? k) | None => false end then None
          else match f x with
               | Some y => conv_set_with l' (Some k) (iinsert y acc)
               | None => None
               end
      end
  end.

Fixpoint conv_map_with (l : list (pmapkey * pterm)) (acc : list (ikey * iterm))
  : option (list (ikey * iterm)) :=
  match l with
  | [] => Some acc
  | kv :: l' =>
      match conv_key (fst kv) with
      | None => None
      | Some k' => match f (snd kv) with
                   | Some v' => conv_map_with l' (minsert k' v' acc)
                   | None => None
                   end
      end
  end.
End TermHelpers.

Fixpoint conv_term (t : pterm) {struct t} : option iterm :=
  match t with
  | PTNone => None
  | PTVariable n => Some (ITVar n)
  | PTInteger z => Some (ITInt z)
  | PTString n => Some (ITStr n)
  | PTDate n => Some (ITDate n)
  | PTBytes b => Some (ITBytes b)
  | PTBool b => Some (ITBool b)
  | PTSet l => match conv_set_with conv_term l None [] with Some s => Some (ITSet s) | None => None end
  | PTNull => Some ITNull
  | PTArray l => match conv_list_with conv_term l with Some a => Some (ITArray a) | None => None end
  | PTMap l => match conv_map_with conv_term l [] with Some m => Some (ITMap m) | None => None end
  end.

Definition conv_terms (l : list pterm) : option (list iterm) := conv_list_with conv_term l.

(* ------------------------------------------------------------------ operations *)
(* op_unary::Kind / op_binary::Kind numbers, written from the specification's schema *)
Definition unary_of_kind (k : Z) (ffi : option N) : option unary :=
  match k, ffi with
  | 0%Z, None => Some UNegate
  | 1%Z, None => Some UParens
  | 2%Z, None => Some ULength
  | 3%Z, None => Some UTypeOf
  | 4%Z, Some n => Some (UFfiUnk n)
  | _, _ => None
  end.

Definition plain_binaries : list binary :=
  [ BLessThan; BGreaterThan; BLessOrEqual; BGreaterOrEqual; BEqual; BContains; BPrefix; BSuffix;
    BRegex; BAdd; BSub; BMul; BDiv; BAnd; BOr; BIntersection; BUnion; BBitwiseAnd; BBitwiseOr;
    BBitwiseXor; BNotEqual; BHeterogeneousEqual; BHeterogeneousNotEqual; BLazyAnd; BLazyOr;
    BAll; BAny; BGet ].

Definition binary_of_kind (k : Z) (ffi : option N) : option binary :=
  if (k <? 0)%Z then None
  else if (k =? 28)%Z then match ffi with Some n => Some (BFfiUnk n) | None => None end
  else match ffi with
       | Some _ => None
       | None => nth_error plain_binaries (Z.to_nat k)
       end.

Inductive iop :=
| IOVal (t : iterm)
| IOUn (u : unary)
| IOBin (b : binary)
| IOClo (params : list N) (body : list iop).

Section OpHelpers.
Variable f : pop -> option iop.
Fixpoint conv_ops_with (l : list pop) : option (list iop) :=
  match l with
  | [] => Some []
  | x :: l' => match f x, conv_ops_with l' with
               | Some y, Some r => Some (y :: r)
               | _, _ => None
               end
  end.
End OpHelpers.

Fixpoint conv_op (o : pop) {struct o} : option iop :=
  match o with
  | PONone => None
  | POValue t => match conv_term t with Some t' => Some (IOVal t') | None => None end
  | POUnary k ffi => match unary_of_kind k ffi with Some u => Some (IOUn u) | None => None end
  | POBinary k ffi => match binary_of_kind k ffi with Some b => Some (IOBin b) | None => None end
  | POClosure ps body => match conv_ops_with conv_op body with Some b => Some (IOClo ps b) | None => None end
  end.

Definition conv_ops (l : list pop) : option (list iop) := conv_ops_with conv_op l.

Fixpoint conv_exprs (l : list (list pop)) : option (list (list iop)) :=
  match l with
  | [] => Some []
  | e :: l' => match conv_ops e, conv_exprs l' with
               | Some e', Some r => Some (e' :: r)
               | _, _ => None
               end
  end.

(* ------------------------------------------------------------------ scopes, predicates, rules, checks *)
Inductive iscope := ISAuthority | ISPrevious | ISKey (k : N).   (* `*i as u64` of the int64 field *)

Definition conv_scope (s : pscope) : option iscope :=
  match s with
  | PSNone => None
  | PSType 0%Z => Some ISAuthority
  | PSType 1%Z => Some ISPrevious
  | PSType _ => None
  | PSKey z => Some (ISKey (of_i64 z))
  end.

Fixpoint conv_scopes (l : list pscope) : option (list iscope) :=
  match l with
  | [] => Some []
  | s :: l' => match conv_scope s, conv_scopes l' with
               | Some s', Some r => Some (s' :: r)
               | _, _ => None
               end
  end.

Record ipred := mkipred { ip_name : N; ip_terms : list iterm }.
Record irule := mkirule { ir_head : ipred; ir_body : list ipred;
                          ir_exprs : list (list iop); ir_scopes : list iscope }.
Inductive ickind := ICOne | ICAll | ICReject.
Definition shape_kind (k : ickind) : Schema.check_kind :=
  match k with ICOne => Schema.CkOne | ICAll => Schema.CkAll | ICReject => Schema.CkReject end.
Record icheck := mkicheck { ic_queries : list irule; ic_kind : ickind }.

Definition conv_pred (p : ppred) : option ipred :=
  match conv_terms (pp_terms p) with
  | Some ts => Some (mkipred (pp_name p) ts)
  | None => None
  end.

Fixpoint conv_preds (l : list ppred) : option (list ipred) :=
  match l with
  | [] => Some []
  | p :: l' => match conv_pred p, conv_preds l' with
               | Some p', Some r => Some (p' :: r)
               | _, _ => None
               end
  end.

(* proto_rule_to_token_rule: body, expressions, the 3.1 gate on scopes, scopes, head *)
Definition conv_rule (version : N) (r : prule) : option irule :=
  match conv_preds (pr_body r) with
  | None => None
  | Some body =>
      match conv_exprs (pr_exprs r) with
      | None => None
      | Some exprs =>
          if (version <? Schema.DATALOG_3_1) && Schema.nonempty (pr_scopes r) then None
          else match conv_scopes (pr_scopes r) with
               | None => None
               | Some scopes =>
                   match conv_pred (pr_head r) with
                   | Some head => Some (mkirule head body exprs scopes)
                   | None => None
                   end
               end
      end
  end.

Fixpoint conv_rules (version : N) (l : list prule) : option (list irule) :=
  match l with
  | [] => Some []
  | r :: l' => match conv_rule version r, conv_rules version l' with
               | Some r', Some rs => Some (r' :: rs)
               | _, _ => None
               end
  end.

Definition kind_of_wire (k : option Z) : option ickind :=
  match k with
  | None => Some ICOne
  | Some 0%Z => Some ICOne
  | Some 1%Z => Some ICAll
  | Some 2%Z => Some ICReject
  | Some _ => None
  end.

Definition conv_check (version : N) (c : pcheck) : option icheck :=
  match conv_rules version (pc_queries c) with
  | None => None
  | Some qs => match kind_of_wire (pc_kind c) with
               | Some k => Some (mkicheck qs k)
               | None => None
               end
  end.

Fixpoint conv_checks (version : N) (l : list pcheck) : option (list icheck) :=
  match l with
  | [] => Some []
  | c :: l' => match conv_check version c, conv_checks version l' with
               | Some c', Some cs => Some (c' :: cs)
               | _, _ => None
               end
  end.

(* the loop at convert.rs:75-90 *)
Definition kind_gate (version : N) (c : pcheck) : bool :=
  if (version <? Schema.DATALOG_3_1) && (match pc_kind c with Some _ => true | None => false end) then false
  else if (version <? Schema.DATALOG_3_3) && (match pc_kind c with Some 2%Z => true | _ => false end) then false
  else true.

(* ------------------------------------------------------------------ feature shape *)
Definition shape_key (k : ikey) : mapkey :=
  match k with IKInt z => KInt z | IKStr n => KUnk n end.

Fixpoint shape_val (t : iterm) : value :=
  match t with
  | ITVar _ => VInt 0
  | ITInt z => VInt z
  | ITStr n => VUnk n
  | ITDate n => VDate (Z.of_N n)
  | ITBytes b => VBytes b
  | ITBool b => VBool b
  | ITSet l => VSet (map shape_val l)
  | ITNull => VNull
  | ITArray l => VArray (map shape_val l)
  | ITMap l => VMap (map (fun kv => (shape_key (fst kv), shape_val (snd kv))) l)
  end.

Definition shape_term (t : iterm) : term :=
  match t with ITVar n => TVar n | _ => TVal (shape_val t) end.

Fixpoint shape_op (o : iop) : op :=
  match o with
  | IOVal (ITVar n) => OVar n
  | IOVal t => OVal (shape_val t)
  | IOUn u => OUn u
  | IOBin b => OBin b
  | IOClo ps body => OClo ps (map shape_op body)
  end.

Definition shape_scope (s : iscope) : scope :=
  match s with ISAuthority => ScAuthority | ISPrevious => ScPrevious | ISKey k => ScKey k end.

Definition shape_pred (p : ipred) : pred := mkpred (SymUnk (ip_name p)) (map shape_term (ip_terms p)).
Definition shape_fact (p : ipred) : fact := mkfact (SymUnk (ip_name p)) (map shape_val (ip_terms p)).
Definition shape_rule (r : irule) : rule :=
  mkrule (shape_pred (ir_head r)) (map shape_pred (ir_body r))
         (map (map shape_op) (ir_exprs r)) (map shape_scope (ir_scopes r)).
Definition shape_check (c : icheck) : Schema.check :=
  Schema.mkcheck (map shape_rule (ic_queries c)) (shape_kind (ic_kind c)).

(* ------------------------------------------------------------------ public keys, symbols *)
Inductive cerr := CVersion | CDeser | CSymOverlap | CKeyOverlap | CKeySize | CKey.

Section WithCurve.
(* canonical encoding of a key that lies on its curve; None = not a valid point / encoding *)
Variable canon : Z -> bytes -> option bytes.

(* PublicKey::from_proto: the key as (algorithm, canonical bytes) *)
Definition conv_key_proto (k : wkey) : cerr + wkey :=
  if (wk_alg k =? 0)%Z then
    if negb (Nat.eqb (length (wk_bytes k)) 32) then inl CKeySize
    else match canon 0%Z (wk_bytes k) with
         | Some c => inr (mkwkey 0%Z c)
         | None => inl CKey
         end
  else if (wk_alg k =? 1)%Z then
    match canon 1%Z (wk_bytes k) with
    | Some c => inr (mkwkey 1%Z c)
    | None => inl CKey
    end
  else inl CDeser.

Definition wkey_eqb (a b : wkey) : bool :=
  Z.eqb (wk_alg a) (wk_alg b) && bytes_eqb (wk_bytes a) (wk_bytes b).

(* the loop of insert_fallible *)
Fixpoint conv_keys (l : list wkey) (acc : list wkey) : cerr + list wkey :=
  match l with
  | [] => inr acc
  | k :: l' =>
      match conv_key_proto k with
      | inl e => inl e
      | inr k' => if existsb (wkey_eqb k') acc then inl CKeyOverlap
                  else conv_keys l' (acc ++ [k'])
      end
  end.

(* ------------------------------------------------------------------ the block *)
Record iblock := mkiblock {
  ib_symbols : list bytes;
  ib_context : option bytes;
  ib_version : N;
  ib_facts : list ipred;
  ib_rules : list irule;
  ib_checks : list icheck;
  ib_scopes : list iscope;
  ib_keys : list wkey;          (* canonical *)
  ib_external : bool
}.

Inductive cres := COk (b : iblock) | CErr (e : cerr).

Definition shape_version (facts : list ipred) (rules : list irule) (checks : list icheck)
           (scopes : list iscope) : Schema.schema_version :=
  Schema.get_schema_version Schema.repaired (map shape_fact facts) (map shape_rule rules)
                            (map shape_check checks) (map shape_scope scopes).

Definition conv_block (p : pblock) (ext : bool) : cres :=
  let version := match pb_version p with Some v => v | None => 0 end in
  if negb ((Schema.MIN_SCHEMA_VERSION <=? version) && (version <=? Schema.MAX_SCHEMA_VERSION))
  then CErr CVersion
  else match conv_preds (pb_facts p) with
  | None => CErr CDeser
  | Some facts =>
  match conv_rules version (pb_rules p) with
  | None => CErr CDeser
  | Some rules =>
  if (version <? Schema.MAX_SCHEMA_VERSION) && negb (forallb (kind_gate version) (pb_checks p))
  then CErr CDeser
  else if (version <? Schema.DATALOG_3_2) && ext then CErr CDeser
  else match conv_checks version (pb_checks p) with
  | None => CErr CDeser
  | Some checks =>
  match conv_scopes (pb_scopes p) with
  | None => CErr CDeser
  | Some scopes =>
  match conv_keys (pb_keys p) [] with
  | inl e => CErr e
  | inr keys =>
  if Symbols.has_common (pb_symbols p) Symbols.default_symbols then CErr CSymOverlap
  else if Schema.check_compatibility Schema.repaired (shape_version facts rules checks scopes) version
  then COk (mkiblock (pb_symbols p) (pb_context p) version facts rules checks scopes keys ext)
  else CErr CDeser
  end end end end end.

(* ------------------------------------------------------------------ blocks of an authorizer snapshot *)
(* proto_snapshot_block_to_token_block (convert.rs:162-223): the same conversion for a
   SnapshotBlock -- no symbol or key table, an optional external key converted last, check kinds
   refused only at 3.0, and *no* 3.2 floor for a block that carries an external key *)
Record psnap := mkpsnap {
  ps_context : option bytes; ps_version : option N;
  ps_facts : list ppred; ps_rules : list prule; ps_checks : list pcheck;
  ps_scopes : list pscope; ps_external : option wkey }.

Inductive sres := SOk (b : iblock) (ext : option wkey) | SErr (e : cerr).

Definition conv_snapshot_block (p : psnap) : sres :=
  let version := match ps_version p with Some v => v | None => 0 end in
  if negb ((Schema.MIN_SCHEMA_VERSION <=? version) && (version <=? Schema.MAX_SCHEMA_VERSION))
  then SErr CVersion
  else match conv_preds (ps_facts p) with
  | None => SErr CDeser
  | Some facts =>
  match conv_rules version (ps_rules p) with
  | None => SErr CDeser
  | Some rules =>
  if (version =? Schema.MIN_SCHEMA_VERSION)
     && existsb (fun c => match pc_kind c with Some _ => true | None => false end) (ps_checks p)
  then SErr CDeser
  else match conv_checks version (ps_checks p) with
  | None => SErr CDeser
  | Some checks =>
  match conv_scopes (ps_scopes p) with
  | None => SErr CDeser
  | Some scopes =>
  if negb (Schema.check_compatibility Schema.repaired (shape_version facts rules checks scopes) version)
  then SErr CDeser
  else match ps_external p with
       | None => SOk (mkiblock [] (ps_context p) version facts rules checks scopes [] false) None
       | Some k => match conv_key_proto k with
                   | inl e => SErr e
                   | inr k' => SOk (mkiblock [] (ps_context p) version facts rules checks scopes [] true) (Some k')
                   end
       end
  end end end end.

End WithCurve.

(* ------------------------------------------------------------------ the way back *)
Definition unconv_key (k : ikey) : pmapkey :=
  match k with IKInt z => PKInt z | IKStr n => PKStr n end.

Fixpoint unconv_term (t : iterm) : pterm :=
  match t with
  | ITVar n => PTVariable n
  | ITInt z => PTInteger z
  | ITStr n => PTString n
  | ITDate n => PTDate n
  | ITBytes b => PTBytes b
  | ITBool b => PTBool b
  | ITSet l => PTSet (map unconv_term l)
  | ITNull => PTNull
  | ITArray l => PTArray (map unconv_term l)
  | ITMap l => PTMap (map (fun kv => (unconv_key (fst kv), unconv_term (snd kv))) l)
  end.

Definition unary_kind (u : unary) : Z * option N :=
  match u with
  | UNegate => (0, None) | UParens => (1, None) | ULength => (2, None) | UTypeOf => (3, None)
  | UFfiUnk n => (4, Some n)
  | UFfi _ => (4, None)          (* not an index-level operation; excluded by [iop_wf] *)
  end%Z.

Definition binary_kind (b : binary) : Z * option N :=
  match b with
  | BLessThan => (0, None)
  | BGreaterThan => (1, None)
  | BLessOrEqual => (2, None)
  | BGreaterOrEqual => (3, None)
  | BEqual => (4, None)
  | BContains => (5, None)
  | BPrefix => (6, None)
  | BSuffix => (7, None)
  | BRegex => (8, None)
  | BAdd => (9, None)
  | BSub => (10, None)
  | BMul => (11, None)
  | BDiv => (12, None)
  | BAnd => (13, None)
  | BOr => (14, None)
  | BIntersection => (15, None)
  | BUnion => (16, None)
  | BBitwiseAnd => (17, None)
  | BBitwiseOr => (18, None)
  | BBitwiseXor => (19, None)
  | BNotEqual => (20, None)
  | BHeterogeneousEqual => (21, None)
  | BHeterogeneousNotEqual => (22, None)
  | BLazyAnd => (23, None)
  | BLazyOr => (24, None)
  | BAll => (25, None)
  | BAny => (26, None)
  | BGet => (27, None)
  | BFfiUnk n => (28, Some n)
  | BFfi _ => (28, None)        (* not an index-level operation; excluded by [iop_wf] *)
  end%Z.

Fixpoint unconv_op (o : iop) : pop :=
  match o with
  | IOVal t => POValue (unconv_term t)
  | IOUn u => let '(k, f) := unary_kind u in POUnary k f
  | IOBin b => let '(k, f) := binary_kind b in POBinary k f
  | IOClo ps body => POClosure ps (map unconv_op body)
  end.

Definition unconv_scope (s : iscope) : pscope :=
  match s with
  | ISAuthority => PSType 0%Z
  | ISPrevious => PSType 1%Z
  | ISKey k => PSKey (to_i64 k)
  end.

Definition unconv_pred (p : ipred) : ppred := mkppred (ip_name p) (map unconv_term (ip_terms p)).
Definition unconv_rule (r : irule) : prule :=
  mkprule (unconv_pred (ir_head r)) (map unconv_pred (ir_body r))
          (map (map unconv_op) (ir_exprs r)) (map unconv_scope (ir_scopes r)).
Definition kind_to_wire (k : ickind) : option Z :=
  match k with ICOne => None | ICAll => Some 1%Z | ICReject => Some 2%Z end.
Definition unconv_check (c : icheck) : pcheck :=
  mkpcheck (map unconv_rule (ic_queries c)) (kind_to_wire (ic_kind c)).

(* token_block_to_proto_block *)
Definition unconv_block (b : iblock) : pblock :=
  mkpblock (ib_symbols b) (ib_context b) (Some (ib_version b))
           (map unconv_pred (ib_facts b)) (map unconv_rule (ib_rules b))
           (map unconv_check (ib_checks b)) (map unconv_scope (ib_scopes b)) (ib_keys b).

(* ------------------------------------------------------------------ well-formed index-level values *)
(* what a datalog::Term can be: a set is what BTreeSet construction yields from its own elements
   (sorted by [icmp], no two equal), holds no variable and no set, and one kind of element;
   a map is what BTreeMap construction yields from its own entries *)
Definition elem_kind (t : iterm) : option N := set_kind (unconv_term t).

Definition same_kind (l : list iterm) : bool :=
  match l with
  | [] => true
  | x :: l' => match elem_kind x with
               | None => false
               | Some k => forallb (fun y => match elem_kind y with Some k' => k =? k' | None => false end) l'
               end
  end.

Section AllWith.
Context {A : Type} (P : A -> Prop).
Fixpoint all_with (l : list A) : Prop :=
  match l with [] => True | x :: l' => P x /\ all_with l' end.
End AllWith.

Fixpoint iterm_wf (t : iterm) : Prop :=
  match t with
  | ITSet l => isort l = l /\ same_kind l = true /\ all_with iterm_wf l
  | ITArray l => all_with iterm_wf l
  | ITMap l => msort l = l /\ all_with (fun kv => match kv with (_, v) => iterm_wf v end) l
  | _ => True
  end.

Definition unary_wf (u : unary) : Prop := match u with UFfi _ => False | _ => True end.
Definition binary_wf (b : binary) : Prop := match b with BFfi _ => False | _ => True end.

Fixpoint iop_wf (o : iop) : Prop :=
  match o with
  | IOVal t => iterm_wf t
  | IOUn u => unary_wf u
  | IOBin b => binary_wf b
  | IOClo _ body => all_with iop_wf body
  end.

Definition scope_wf (s : iscope) : Prop := match s with ISKey k => k < two64 | _ => True end.
Definition ipred_wf (p : ipred) : Prop := Forall iterm_wf (ip_terms p).
Definition irule_wf (r : irule) : Prop :=
  ipred_wf (ir_head r) /\ Forall ipred_wf (ir_body r) /\ Forall (Forall iop_wf) (ir_exprs r)
  /\ Forall scope_wf (ir_scopes r).
Definition icheck_wf (c : icheck) : Prop := Forall irule_wf (ic_queries c).

(* the version gates a block has to pass, on the index-level structure *)
Definition rule_scopes_ok (version : N) (r : irule) : bool :=
  negb ((version <? Schema.DATALOG_3_1) && Schema.nonempty (ir_scopes r)).

Definition iblock_gates (b : iblock) : bool :=
  let v := ib_version b in
  (Schema.MIN_SCHEMA_VERSION <=? v) && (v <=? Schema.MAX_SCHEMA_VERSION)
  && forallb (rule_scopes_ok v) (ib_rules b)
  && forallb (fun c => forallb (rule_scopes_ok v) (ic_queries c)) (ib_checks b)
  && ((Schema.MAX_SCHEMA_VERSION <=? v) || forallb (fun c => kind_gate v (unconv_check c)) (ib_checks b))
  && negb ((v <? Schema.DATALOG_3_2) && ib_external b)
  && negb (Symbols.has_common (ib_symbols b) Symbols.default_symbols)
  && Schema.check_compatibility Schema.repaired
       (shape_version (ib_facts b) (ib_rules b) (ib_checks b) (ib_scopes b)) v.

Section WF.
Variable canon : Z -> bytes -> option bytes.

(* keys are canonical encodings of valid keys, pairwise different *)
Definition keys_wf (l : list wkey) : Prop := conv_keys canon l [] = inr l.

Definition iblock_wf (b : iblock) : Prop :=
  Forall ipred_wf (ib_facts b) /\ Forall irule_wf (ib_rules b) /\ Forall icheck_wf (ib_checks b)
  /\ Forall scope_wf (ib_scopes b) /\ keys_wf (ib_keys b) /\ iblock_gates b = true.
End WF.

(* token_block_to_proto_snapshot_block *)
Definition unconv_snapshot_block (b : iblock) (ext : option wkey) : psnap :=
  mkpsnap (ib_context b) (Some (ib_version b))
          (map unconv_pred (ib_facts b)) (map unconv_rule (ib_rules b))
          (map unconv_check (ib_checks b)) (map unconv_scope (ib_scopes b)) ext.

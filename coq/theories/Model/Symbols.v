(* Symbol and public-key tables across API histories (property C12).

   Mirrors, at the level of observable behaviour:
     datalog/symbol.rs        SymbolTable::{insert, get_symbol, split_at, extend, is_disjoint, from}
     token/public_keys.rs     PublicKeys::{insert, insert_fallible, extend, get_key, split_at}
     token/builder/block.rs   BlockBuilder::build (facts, rules, checks, scopes -- in that order --
                              interned against a copy of the token tables, new entries split off)
     token/builder/biscuit.rs BiscuitBuilder::build, token/mod.rs Biscuit::new_with_key_pair
     token/mod.rs             Biscuit::{append_with_keypair, append_third_party_with_keypair, seal,
                              block, print_block_source, block_symbols, block_public_keys}
     token/unverified.rs      UnverifiedBiscuit::{append_with_keypair, append_third_party_with_keypair,
                              seal, block, print_block_source}
     token/third_party.rs     ThirdPartyRequest::create_block (block built against empty tables)
     format/mod.rs            SerializedBiscuit::extract_blocks (tables rebuilt at load)
     format/convert.rs        proto_block_to_token_block (per-block table checks)
     builder/authorizer.rs    AuthorizerBuilder::build_inner, load_and_translate_block
     token/authorizer.rs      authorize_inner (checks, policies; restricted program class)

   A block carries its own string table, its own key table, its external key when it is a
   third-party block, and its contents as *references* (string indices, key indices).  What
   the author wrote is a [content_ bytes key]; what is stored is a [content_ N N]; what a
   reader sees is a [content_ rstr rkey].

   Two variants are modelled: [Faithful] is the unchanged code; [Repaired] aligns the
   unverified third-party path with the verified one (DESIGN section 8, C12).  No proofs here. *)
From Biscuit Require Export Base.Bytes.

Definition key := bytes.        (* a public key, as the bytes of its printed form "ed25519/<hex>" *)

(* ---------------------------------------------------------------- default symbols *)
(* written from the Biscuit specification (section "symbol table"), not from the code *)
Definition default_symbols : list bytes :=
  map str [ "read"; "write"; "resource"; "operation"; "right"; "time"; "role"; "owner";
            "tenant"; "namespace"; "user"; "team"; "service"; "admin"; "email"; "group";
            "member"; "ip_address"; "client"; "client_ip"; "domain"; "path"; "version";
            "cluster"; "node"; "hostname"; "nonce"; "query" ]%string.

Definition offset : N := 1024%N.

(* ---------------------------------------------------------------- list helpers on N indices *)
Fixpoint nth_N {A} (l : list A) (i : N) : option A :=
  match l with
  | [] => None
  | x :: l' => if N.eqb i 0 then Some x else nth_N l' (N.pred i)
  end.

Fixpoint index_of (x : bytes) (l : list bytes) : option N :=
  match l with
  | [] => None
  | y :: l' => if bytes_eqb x y then Some 0%N
               else match index_of x l' with Some i => Some (N.succ i) | None => None end
  end.

Definition len_N {A} (l : list A) : N := N.of_nat (length l).

Definition mem (x : bytes) (l : list bytes) : bool := existsb (bytes_eqb x) l.
(* HashSet::is_disjoint, negated *)
Definition has_common (a b : list bytes) : bool := existsb (fun x => mem x b) a.

(* ---------------------------------------------------------------- SymbolTable / PublicKeys *)
(* the token part of a SymbolTable is a list; the defaults are implicit, as in the code *)
Definition sym_insert (t : list bytes) (s : bytes) : list bytes * N :=
  match index_of s default_symbols with
  | Some i => (t, i)
  | None =>
      match index_of s t with
      | Some i => (t, (offset + i)%N)
      | None => (t ++ [s], (offset + len_N t)%N)
      end
  end.

Definition get_symbol (t : list bytes) (i : N) : option bytes :=
  if (offset <=? i)%N then nth_N t (i - offset)%N else nth_N default_symbols i.

Definition key_insert (t : list key) (k : key) : list key * N :=
  match index_of k t with
  | Some i => (t, i)
  | None => (t ++ [k], len_N t)
  end.

Definition get_key (t : list key) (i : N) : option key := nth_N t i.

(* PublicKeys::insert_fallible over a list of keys, in order *)
Fixpoint keys_insert_fallible (t : list key) (ks : list key) : option (list key) :=
  match ks with
  | [] => Some t
  | k :: ks' => if mem k t then None else keys_insert_fallible (t ++ [k]) ks'
  end.

(* PublicKeys::insert over a list of keys (block_public_keys) *)
Definition keys_insert_all (ks : list key) : list key :=
  fold_left (fun t k => fst (key_insert t k)) ks [].

Definition tables := (list bytes * list key)%type.

(* ---------------------------------------------------------------- block contents *)
(* The program class of the correspondence: unary facts over strings, one-premise rules
   with a variable, one-premise checks; every rule, check and block can carry scopes.
   S = strings, K = public keys. *)
Inductive scope_ (K : Type) := YAuth | YPrev | YKey (k : K).
Arguments YAuth {K}. Arguments YPrev {K}. Arguments YKey {K} k.

Inductive fact_ (S : Type) := YFact (name arg : S).           (* name("arg") *)
Arguments YFact {S} name arg.
Inductive rule_ (S K : Type) := YRule (head body var : S) (sc : list (scope_ K)).
Arguments YRule {S K} head body var sc.                      (* head($var) <- body($var) trusting sc *)
Inductive check_ (S K : Type) := YCheck (body arg : S) (sc : list (scope_ K)).
Arguments YCheck {S K} body arg sc.                          (* check if body("arg") trusting sc *)
Inductive content_ (S K : Type) :=
  YContent (facts : list (fact_ S)) (rules : list (rule_ S K)) (checks : list (check_ S K))
           (scopes : list (scope_ K)).
Arguments YContent {S K} facts rules checks scopes.

Definition acontent := content_ bytes key.     (* as the author writes it *)
Definition wcontent := content_ N N.           (* as stored: references *)

Definition map_scope {K K'} (g : K -> K') (s : scope_ K) : scope_ K' :=
  match s with YAuth => YAuth | YPrev => YPrev | YKey k => YKey (g k) end.
Definition map_fact {S S'} (f : S -> S') (x : fact_ S) : fact_ S' :=
  match x with YFact n a => YFact (f n) (f a) end.
Definition map_rule {S S' K K'} (f : S -> S') (g : K -> K') (x : rule_ S K) : rule_ S' K' :=
  match x with YRule h b v sc => YRule (f h) (f b) (f v) (map (map_scope g) sc) end.
Definition map_check {S S' K K'} (f : S -> S') (g : K -> K') (x : check_ S K) : check_ S' K' :=
  match x with YCheck b a sc => YCheck (f b) (f a) (map (map_scope g) sc) end.
Definition map_content {S S' K K'} (f : S -> S') (g : K -> K') (c : content_ S K) : content_ S' K' :=
  match c with
  | YContent fs rs cs ss =>
      YContent (map (map_fact f) fs) (map (map_rule f g) rs) (map (map_check f g) cs)
               (map (map_scope g) ss)
  end.

(* ---------------------------------------------------------------- interning (Convert::convert) *)
Definition intern_str (t : tables) (s : bytes) : tables * N :=
  let '(st, i) := sym_insert (fst t) s in ((st, snd t), i).
Definition intern_key (t : tables) (k : key) : tables * N :=
  let '(kt, i) := key_insert (snd t) k in ((fst t, kt), i).

Definition intern_scope (t : tables) (s : scope_ key) : tables * scope_ N :=
  match s with
  | YAuth => (t, YAuth)
  | YPrev => (t, YPrev)
  | YKey k => let '(t', i) := intern_key t k in (t', YKey i)
  end.

Fixpoint intern_list {A B} (f : tables -> A -> tables * B) (t : tables) (l : list A) : tables * list B :=
  match l with
  | [] => (t, [])
  | x :: l' => let '(t1, y) := f t x in
               let '(t2, ys) := intern_list f t1 l' in (t2, y :: ys)
  end.

(* Predicate::convert: name first, then the terms *)
Definition intern_fact (t : tables) (x : fact_ bytes) : tables * fact_ N :=
  match x with
  | YFact n a => let '(t1, n') := intern_str t n in
                 let '(t2, a') := intern_str t1 a in (t2, YFact n' a')
  end.

(* Rule::convert: head (name, terms), body predicates, expressions, scopes *)
Definition intern_rule (t : tables) (x : rule_ bytes key) : tables * rule_ N N :=
  match x with
  | YRule h b v sc =>
      let '(t1, h') := intern_str t h in
      let '(t2, v') := intern_str t1 v in
      let '(t3, b') := intern_str t2 b in
      let '(t4, _) := intern_str t3 v in
      let '(t5, sc') := intern_list intern_scope t4 sc in (t5, YRule h' b' v' sc')
  end.

(* a check query is a rule whose head is query(): "query" is default symbol 27 *)
Definition intern_check (t : tables) (x : check_ bytes key) : tables * check_ N N :=
  match x with
  | YCheck b a sc =>
      let '(t0, _) := intern_str t (str "query") in
      let '(t1, b') := intern_str t0 b in
      let '(t2, a') := intern_str t1 a in
      let '(t3, sc') := intern_list intern_scope t2 sc in (t3, YCheck b' a' sc')
  end.

(* BlockBuilder::build: facts, rules, checks, block scopes *)
Definition intern_content (t : tables) (c : acontent) : tables * wcontent :=
  match c with
  | YContent fs rs cs ss =>
      let '(t1, fs') := intern_list intern_fact t fs in
      let '(t2, rs') := intern_list intern_rule t1 rs in
      let '(t3, cs') := intern_list intern_check t2 cs in
      let '(t4, ss') := intern_list intern_scope t3 ss in
      (t4, YContent fs' rs' cs' ss')
  end.

(* ---------------------------------------------------------------- blocks and tokens *)
Record block := mkblock {
  b_strings : list bytes;      (* schema::Block.symbols *)
  b_keys : list key;           (* schema::Block.public_keys *)
  b_ext : option key;          (* external signature key of the signed block *)
  b_content : wcontent
}.

Record token := mktoken {
  t_strings : list bytes;      (* Biscuit.symbols (token part) *)
  t_keys : list key;           (* Biscuit.symbols.public_keys *)
  t_blocks : list block;
  t_sealed : bool
}.

Definition t_tables (t : token) : tables := (t_strings t, t_keys t).

(* BlockBuilder::build(symbols): split_at the starting offsets *)
Definition build_block (t : tables) (ext : option key) (c : acontent) : block :=
  let '(t', w) := intern_content t c in
  mkblock (skipn (length (fst t)) (fst t')) (skipn (length (snd t)) (snd t')) ext w.

Inductive terr := ESymbolOverlap | EKeyOverlap | ESealed | EOther.
Inductive tres (A : Type) := TOk (a : A) | TErr (e : terr).
Arguments TOk {A} a.
Arguments TErr {A} e.

Inductive variant := Faithful | Repaired.
Inductive side := V | U.        (* Biscuit / UnverifiedBiscuit *)

(* BiscuitBuilder::build + Biscuit::new_with_key_pair, from the default (empty) tables *)
Definition tok_build (c : acontent) : token :=
  let b := build_block ([], []) None c in
  mktoken (b_strings b) (b_keys b) [b] false.

(* Biscuit::append_with_keypair and UnverifiedBiscuit::append_with_keypair are the same code:
   block built against a copy of the token tables; is_disjoint (always true after split_at);
   container.append fails on a sealed token; tables extended with the block's entries *)
Definition tok_append (t : token) (c : acontent) : tres token :=
  let b := build_block (t_tables t) None c in
  if has_common (t_strings t) (b_strings b) then TErr ESymbolOverlap
  else if t_sealed t then TErr ESealed
  else if has_common (t_keys t) (b_keys b) then TErr EKeyOverlap
  else TOk (mktoken (t_strings t ++ b_strings b) (t_keys t ++ b_keys b)
                    (t_blocks t ++ [b]) false).

(* ThirdPartyRequest::create_block builds against SymbolTable::new();
   Biscuit::append_third_party leaves the token tables alone;
   UnverifiedBiscuit::append_third_party inserts the block's keys into the token key table
   (insert_fallible: a key already present is an error) -- Faithful only *)
Definition tok_append_tp (vr : variant) (sd : side) (t : token) (ext : key) (c : acontent) : tres token :=
  if t_sealed t then TErr ESealed else
  let b := build_block ([], []) (Some ext) c in
  match sd, vr with
  | U, Faithful =>
      match keys_insert_fallible (t_keys t) (b_keys b) with
      | None => TErr EKeyOverlap
      | Some ks => TOk (mktoken (t_strings t) ks (t_blocks t ++ [b]) false)
      end
  | _, _ => TOk (mktoken (t_strings t) (t_keys t) (t_blocks t ++ [b]) false)
  end.

Definition tok_seal (t : token) : tres token :=
  if t_sealed t then TErr ESealed
  else TOk (mktoken (t_strings t) (t_keys t) (t_blocks t) true).

(* SerializedBiscuit::extract_blocks, one block: SymbolTable::from (defaults), extend
   (is_disjoint), then insert_fallible of every key; third-party blocks are skipped *)
Definition load_block (acc : tables) (b : block) : tres tables :=
  match b_ext b with
  | Some _ => TOk acc
  | None =>
      if has_common (b_strings b) default_symbols then TErr ESymbolOverlap
      else if has_common (fst acc) (b_strings b) then TErr ESymbolOverlap
      else match keys_insert_fallible (snd acc) (b_keys b) with
           | None => TErr EKeyOverlap
           | Some ks => TOk (fst acc ++ b_strings b, ks)
           end
  end.

Definition load_step (acc : tres tables) (b : block) : tres tables :=
  match acc with TErr e => TErr e | TOk a => load_block a b end.

Definition load_tables (bs : list block) : tres tables := fold_left load_step bs (TOk ([], [])).

(* to_vec then Biscuit::from / UnverifiedBiscuit::from: only the blocks and the seal travel *)
Definition tok_reload (t : token) : tres token :=
  match load_tables (t_blocks t) with
  | TErr e => TErr e
  | TOk (ss, ks) => TOk (mktoken ss ks (t_blocks t) (t_sealed t))
  end.

(* a hand-made first-party block signed with container().append_serialized, then loaded *)
Definition tok_append_raw (t : token) (b : block) : tres token :=
  if t_sealed t then TErr ESealed
  else tok_reload (mktoken (t_strings t) (t_keys t) (t_blocks t ++ [b]) false).

(* ---------------------------------------------------------------- reading a block *)
Inductive rstr := RStr (s : bytes) | RUnk (i : N).
Inductive rkey := RKey (k : key) | RKeyUnk (i : N).

Definition res_str (t : list bytes) (i : N) : rstr :=
  match get_symbol t i with Some s => RStr s | None => RUnk i end.
Definition res_key (t : list key) (i : N) : rkey :=
  match get_key t i with Some k => RKey k | None => RKeyUnk i end.

Definition view := content_ rstr rkey.
Definition resolve_content (t : tables) (c : wcontent) : view :=
  map_content (res_str (fst t)) (res_key (snd t)) c.
Definition authored (c : acontent) : view := map_content RStr RKey c.

Fixpoint nodup_b (l : list bytes) : bool :=
  match l with [] => true | x :: l' => negb (mem x l') && nodup_b l' end.

(* proto_block_to_token_block: the table checks (keys insert_fallible, then SymbolTable::from) *)
Definition convert_block (b : block) : tres unit :=
  if negb (nodup_b (b_keys b)) then TErr EKeyOverlap
  else if has_common (b_strings b) default_symbols then TErr ESymbolOverlap
  else TOk tt.

(* which tables a block is read with: Biscuit::print_block_source / load_and_translate_block
   use the token tables for a first-party block and the block's own tables for a third-party
   block; UnverifiedBiscuit::block replaces the block's key table by the token's -- Faithful *)
Definition view_tables (vr : variant) (sd : side) (t : token) (b : block) : tables :=
  match b_ext b with
  | None => t_tables t
  | Some _ =>
      match sd, vr with
      | U, Faithful => (b_strings b, t_keys t)
      | _, _ => (b_strings b, b_keys b)
      end
  end.

Definition block_view (vr : variant) (sd : side) (t : token) (i : nat) : tres view :=
  match nth_error (t_blocks t) i with
  | None => TErr EOther
  | Some b =>
      match convert_block b with
      | TErr e => TErr e
      | TOk _ => TOk (resolve_content (view_tables vr sd t b) (b_content b))
      end
  end.

Definition block_symbols (t : token) (i : nat) : option (list bytes) :=
  match nth_error (t_blocks t) i with Some b => Some (b_strings b) | None => None end.
Definition block_public_keys (t : token) (i : nat) : option (list key) :=
  match nth_error (t_blocks t) i with Some b => Some (keys_insert_all (b_keys b)) | None => None end.

(* ---------------------------------------------------------------- printing (print_source) *)
Fixpoint dec_digits (fuel : nat) (n : N) (acc : bytes) : bytes :=
  match fuel with
  | 0%nat => acc
  | S f => let acc' := (48 + N.modulo n 10)%N :: acc in
           if N.eqb (N.div n 10) 0 then acc' else dec_digits f (N.div n 10) acc'
  end.
Definition dec (n : N) : bytes := dec_digits 20 n [].

(* print_symbol_default *)
Definition p_sym (s : rstr) : bytes :=
  match s with RStr b => b | RUnk i => str "<" ++ dec i ++ str "?>" end.
(* print_predicate: an unknown name prints as <?> *)
Definition p_name (s : rstr) : bytes :=
  match s with RStr b => b | RUnk _ => str "<?>" end.
Definition p_string (s : rstr) : bytes := str """" ++ p_sym s ++ str """".
Definition p_var (s : rstr) : bytes := str "$" ++ p_sym s.

Fixpoint join_bytes (sep : bytes) (l : list bytes) : bytes :=
  match l with
  | [] => []
  | [x] => x
  | x :: l' => x ++ sep ++ join_bytes sep l'
  end.

Definition p_scope (s : scope_ rkey) : bytes :=
  match s with
  | YAuth => str "authority"
  | YPrev => str "previous"
  | YKey (RKey k) => k
  | YKey (RKeyUnk _) => str "<unknown public key id>"
  end.
Definition p_scopes (sc : list (scope_ rkey)) : bytes :=
  match sc with
  | [] => []
  | _ => str " trusting " ++ join_bytes (str ", ") (map p_scope sc)
  end.

Definition p_fact (x : fact_ rstr) : bytes :=
  match x with YFact n a => p_name n ++ str "(" ++ p_string a ++ str ")" end.
Definition p_rule (x : rule_ rstr rkey) : bytes :=
  match x with
  | YRule h b v sc =>
      p_name h ++ str "(" ++ p_var v ++ str ") <- " ++ p_name b ++ str "(" ++ p_var v ++ str ")"
      ++ p_scopes sc
  end.
Definition p_check (x : check_ rstr rkey) : bytes :=
  match x with
  | YCheck b a sc => str "check if " ++ p_name b ++ str "(" ++ p_string a ++ str ")" ++ p_scopes sc
  end.

Definition nl : bytes := [59; 10]%N.     (* ";\n" *)
Definition p_section (l : list bytes) : bytes :=
  match l with [] => [] | _ => join_bytes nl l ++ nl end.

(* Block::print_source: block-level scopes are not printed *)
Definition print_view (v : view) : bytes :=
  match v with
  | YContent fs rs cs _ =>
      p_section (map p_fact fs) ++ p_section (map p_rule rs) ++ p_section (map p_check cs)
  end.

Definition print_block_source (vr : variant) (sd : side) (t : token) (i : nat) : tres bytes :=
  match block_view vr sd t i with TOk v => TOk (print_view v) | TErr e => TErr e end.

(* ---------------------------------------------------------------- authorization (Biscuit only) *)
(* AuthorizerBuilder::build_inner + authorize_inner on the program class above, with one
   authorizer policy  allow if name($x) [trusting scope]  (or  allow if true). *)
Definition auth_id : N := 18446744073709551615%N.
Definition origin := list N.      (* duplicate-free, order irrelevant *)
Definition o_mem (x : N) (o : origin) : bool := existsb (N.eqb x) o.
Definition o_add (x : N) (o : origin) : origin := if o_mem x o then o else x :: o.
Definition o_union (a b : origin) : origin := fold_left (fun acc x => o_add x acc) b a.
Definition o_sub (a b : origin) : bool := forallb (fun x => o_mem x b) a.
Definition o_eqb (a b : origin) : bool := o_sub a b && o_sub b a.

Fixpoint upto (n : nat) : origin := match n with 0%nat => [0%N] | S m => N.of_nat n :: upto m end.

Definition unres_str (s : rstr) : option bytes := match s with RStr b => Some b | RUnk _ => None end.
Definition unres_key (k : rkey) : option key := match k with RKey b => Some b | RKeyUnk _ => None end.

Fixpoint all_some {A} (l : list (option A)) : option (list A) :=
  match l with
  | [] => Some []
  | Some x :: l' => match all_some l' with Some r => Some (x :: r) | None => None end
  | None :: _ => None
  end.

Definition unres_scope (s : scope_ rkey) : option (scope_ key) :=
  match s with
  | YAuth => Some YAuth | YPrev => Some YPrev
  | YKey k => match unres_key k with Some b => Some (YKey b) | None => None end
  end.
Definition unres_fact (x : fact_ rstr) : option (fact_ bytes) :=
  match x with YFact n a =>
    match unres_str n, unres_str a with Some n', Some a' => Some (YFact n' a') | _, _ => None end end.
Definition unres_rule (x : rule_ rstr rkey) : option (rule_ bytes key) :=
  match x with YRule h b v sc =>
    match unres_str h, unres_str b, unres_str v, all_some (map unres_scope sc) with
    | Some h', Some b', Some v', Some sc' => Some (YRule h' b' v' sc')
    | _, _, _, _ => None
    end end.
Definition unres_check (x : check_ rstr rkey) : option (check_ bytes key) :=
  match x with YCheck b a sc =>
    match unres_str b, unres_str a, all_some (map unres_scope sc) with
    | Some b', Some a', Some sc' => Some (YCheck b' a' sc')
    | _, _, _ => None
    end end.
(* Convert::convert_from of a whole block: any unknown reference is an error *)
Definition unres_view (v : view) : option acontent :=
  match v with YContent fs rs cs ss =>
    match all_some (map unres_fact fs), all_some (map unres_rule rs),
          all_some (map unres_check cs), all_some (map unres_scope ss) with
    | Some fs', Some rs', Some cs', Some ss' => Some (YContent fs' rs' cs' ss')
    | _, _, _, _ => None
    end end.

(* the blocks as the authorizer loads them (Biscuit::blocks + load_and_translate_block) *)
Fixpoint load_views (vr : variant) (t : token) (n : nat) (i : nat) : option (list (acontent * option key)) :=
  match n with
  | 0%nat => Some []
  | S n' =>
      match nth_error (t_blocks t) i, block_view vr V t i with
      | Some b, TOk v =>
          match unres_view v, load_views vr t n' (S i) with
          | Some c, Some r => Some ((c, b_ext b) :: r)
          | _, _ => None
          end
      | _, _ => None
      end
  end.

Definition keymap_get (k : key) (bs : list (acontent * option key)) : origin :=
  let fix go (i : nat) (l : list (acontent * option key)) : origin :=
    match l with
    | [] => []
    | (_, Some k') :: l' => if bytes_eqb k k' then N.of_nat i :: go (S i) l' else go (S i) l'
    | (_, None) :: l' => go (S i) l'
    end in go 0%nat bs.

(* TrustedOrigins::from_scopes *)
(* [current]: Some i for block i, None for the authorizer (usize::MAX) *)
Definition cur_id (current : option nat) : N :=
  match current with Some i => N.of_nat i | None => auth_id end.
Definition from_scopes (bs : list (acontent * option key)) (sc : list (scope_ key))
           (default : origin) (current : option nat) : origin :=
  match sc with
  | [] => o_add auth_id (o_add (cur_id current) default)
  | _ =>
      fold_left (fun acc s =>
                   match s with
                   | YAuth => o_add 0%N acc
                   | YPrev => match current with
                              | None => acc
                              | Some i => o_union acc (upto i)
                              end
                   | YKey k => o_union acc (keymap_get k bs)
                   end) sc (o_add (cur_id current) (o_add auth_id []))
  end.

Definition default_trust : origin := [0%N; auth_id].
Definition block_scopes (c : acontent) : list (scope_ key) := match c with YContent _ _ _ ss => ss end.
Definition block_trust (bs : list (acontent * option key)) (i : nat) (c : acontent) : origin :=
  from_scopes bs (block_scopes c) default_trust (Some i).

Definition ofact := (origin * bytes * bytes)%type.     (* origin, name, argument *)
Definition ofact_eqb (a b : ofact) : bool :=
  let '(o1, n1, a1) := a in let '(o2, n2, a2) := b in
  o_eqb o1 o2 && bytes_eqb n1 n2 && bytes_eqb a1 a2.
Definition add_ofact (l : list ofact) (f : ofact) : list ofact :=
  if existsb (ofact_eqb f) l then l else l ++ [f].

(* rule entries: owner block, trusted origins, head name, body name *)
Definition rentry := (N * origin * bytes * bytes)%type.

Definition block_facts (i : nat) (c : acontent) : list ofact :=
  match c with YContent fs _ _ _ =>
    map (fun x => match x with YFact n a => ([N.of_nat i], n, a) end) fs end.
Definition block_rules (bs : list (acontent * option key)) (i : nat) (c : acontent) : list rentry :=
  match c with YContent _ rs _ _ =>
    map (fun x => match x with YRule h b _ sc =>
           (N.of_nat i, from_scopes bs sc (block_trust bs i c) (Some i), h, b) end) rs end.

Fixpoint collect {A} (f : nat -> acontent -> list A) (i : nat) (bs : list (acontent * option key)) : list A :=
  match bs with [] => [] | (c, _) :: bs' => f i c ++ collect f (S i) bs' end.

Definition apply_entry (facts : list ofact) (r : rentry) : list ofact :=
  let '(owner, trusted, h, b) := r in
  flat_map (fun f => let '(o, n, a) := f in
              if bytes_eqb n b && o_sub o trusted then [(o_add owner o, h, a)] else []) facts.

Fixpoint saturate (fuel : nat) (rules : list rentry) (facts : list ofact) : list ofact :=
  match fuel with
  | 0%nat => facts
  | S f =>
      let facts' := fold_left add_ofact (flat_map (apply_entry facts) rules) facts in
      if (length facts' =? length facts)%nat then facts else saturate f rules facts'
  end.

Definition holds (facts : list ofact) (trusted : origin) (name : bytes) (arg : option bytes) : bool :=
  existsb (fun f => let '(o, n, a) := f in
             bytes_eqb n name && o_sub o trusted &&
             match arg with Some x => bytes_eqb a x | None => true end) facts.

Definition failed_checks (bs : list (acontent * option key)) (facts : list ofact) : list (N * N) :=
  collect (fun i c =>
    match c with YContent _ _ cs _ =>
      let fix go (j : nat) (l : list (check_ bytes key)) : list (N * N) :=
        match l with
        | [] => []
        | YCheck b a sc :: l' =>
            let tr := from_scopes bs sc (block_trust bs i c) (Some i) in
            if holds facts tr b (Some a) then go (S j) l' else (N.of_nat i, N.of_nat j) :: go (S j) l'
        end in go 0%nat cs end) 0%nat bs.

(* a probe authorizer: allow if true (None), or allow if name($x) [trusting scope] *)
Definition probe := option (bytes * option (scope_ key)).

(* outcome: authorizer could not be built | (a policy matched?, failed checks (block, check)) *)
Inductive aoutcome := ABuildErr | ADone (matched : bool) (failed : list (N * N))
                   | AOther.    (* any other error: never predicted *)

Definition authorize (vr : variant) (t : token) (p : probe) : aoutcome :=
  match load_views vr t (length (t_blocks t)) 0%nat with
  | None => ABuildErr
  | Some bs =>
      let facts := saturate 64 (collect (block_rules bs) 0%nat bs) (collect block_facts 0%nat bs) in
      let matched :=
        match p with
        | None => true
        | Some (name, sc) =>
            let auth_trust := from_scopes bs [] default_trust None in
            let tr := from_scopes bs (match sc with Some s => [s] | None => [] end) auth_trust None in
            holds facts tr name None
        end in
      ADone matched (failed_checks bs facts)
  end.

(* ---------------------------------------------------------------- histories *)
Inductive op :=
| OAppend (sd : side) (c : acontent)
| OAppendTP (sd : side) (ext : key) (c : acontent)
| OSeal (sd : side)
| OReload (sd : side)
| OAppendRaw (b : block).

Definition op_side (o : op) : side :=
  match o with
  | OAppend sd _ | OAppendTP sd _ _ | OSeal sd | OReload sd => sd
  | OAppendRaw _ => V
  end.

(* the API state: which type holds the token, and the token.  A Biscuit becomes an
   UnverifiedBiscuit only through its bytes (UnverifiedBiscuit::from); the other direction,
   UnverifiedBiscuit::verify, keeps the in-memory tables. *)
Definition state := (side * token)%type.

Definition to_side (sd : side) (s : state) : tres state :=
  match fst s, sd with
  | V, U => match tok_reload (snd s) with TOk t => TOk (U, t) | TErr e => TErr e end
  | _, _ => TOk (sd, snd s)
  end.

Definition exec_op (vr : variant) (s : state) (o : op) : tres state :=
  match to_side (op_side o) s with
  | TErr e => TErr e
  | TOk (sd, t) =>
      let r := match o with
               | OAppend _ c => tok_append t c
               | OAppendTP _ ext c => tok_append_tp vr sd t ext c
               | OSeal _ => tok_seal t
               | OReload _ => tok_reload t
               | OAppendRaw b => tok_append_raw t b
               end in
      match r with TOk t' => TOk (sd, t') | TErr e => TErr e end
  end.

(* a failing operation returns Err and the caller keeps the token it had *)
Definition step (vr : variant) (s : state) (o : op) : state :=
  match exec_op vr s o with TOk s' => s' | TErr _ => s end.

Definition run (vr : variant) (c0 : acontent) (ops : list op) : state :=
  fold_left (step vr) ops (V, tok_build c0).

(* ---------------------------------------------------------------- vocabulary of the statements *)
(* what the authors of the blocks wrote, along a history (successful API operations only) *)
Definition op_content (o : op) : list acontent :=
  match o with OAppend _ c | OAppendTP _ _ c => [c] | _ => [] end.
Definition is_api (o : op) : bool := match o with OAppendRaw _ => false | _ => true end.

Definition step_a (vr : variant) (sa : state * list acontent) (o : op) : state * list acontent :=
  match exec_op vr (fst sa) o with
  | TOk s' => (s', snd sa ++ op_content o)
  | TErr _ => sa
  end.
Definition run_a (vr : variant) (c0 : acontent) (ops : list op) : state * list acontent :=
  fold_left (step_a vr) ops ((V, tok_build c0), [c0]).

(* strings / keys declared by the first-party blocks of a list of blocks *)
Definition fp_strings (bs : list block) : list bytes :=
  flat_map (fun b => match b_ext b with None => b_strings b | Some _ => [] end) bs.
Definition fp_keys (bs : list block) : list key :=
  flat_map (fun b => match b_ext b with None => b_keys b | Some _ => [] end) bs.

Definition is_unverified_tp (o : op) : bool := match o with OAppendTP U _ _ => true | _ => false end.

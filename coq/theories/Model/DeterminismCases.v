(* Glue for the C11 correspondence: the same authorizer is rebuilt and evaluated several
   times (fresh hash seeds, shuffled insertion order); every observed outcome must be in the
   model's outcome set, and a singleton set allows a single observed outcome. *)
From Biscuit Require Export Model.Determinism Model.AuthorizerCases.

Definition ncase : Type :=
  (token * authorizer * (N * N) * list (bytes * bytes * bool) * list ioutcome).

Definition ncase_model (c : ncase) : list outcome :=
  let '(t, a, (mf, mi), rx, _) := c in
  authorize_set (case_oracles rx) (acase_fuel mi) mf mi t a.

Definition in_set (s : list outcome) (i : ioutcome) : bool :=
  match i with
  | IOutcome o => existsb (outcome_class_eqb o) s
  | _ => false
  end.

(* indices: a case whose observed outcomes leave the model's set is reported as is; a case
   that stays inside a non-singleton set but shows several outcomes (the known
   error-coexistence class) is reported as index + 2^40 *)
Definition known_offset : N := 1099511627776%N.

Fixpoint ncase_scan (idx : N) (cs : list ncase) (bad : list (N * list outcome)) (skipped : N)
  : list (N * list outcome) * N :=
  match cs with
  | [] => (rev bad, skipped)
  | c :: cs' =>
      let m := ncase_model c in
      let obs := snd c in
      if forallb (in_set m) obs
      then match obs with
           | _ :: _ :: _ => ncase_scan (N.succ idx) cs' ((idx + known_offset, m)%N :: bad) skipped
           | _ => ncase_scan (N.succ idx) cs' bad skipped
           end
      else ncase_scan (N.succ idx) cs' ((idx, m) :: bad) skipped
  end.

Definition ncase_failures (start : N) (cs : list ncase) := ncase_scan start cs [] 0%N.

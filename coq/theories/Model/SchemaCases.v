(* Executable glue for the C16 correspondence: the case type (ending with what was observed
   on the implementation), the model's answer under a given variant, and the comparison.
   No proofs. *)
From Biscuit Require Export Model.Schema.
Local Open Scope N_scope.

(* what the implementation did with a (re-versioned, correctly signed) block when the
   token was loaded and its blocks converted (Biscuit::block_version / Biscuit::authorizer) *)
Inductive lobs := OAccept | ORejectVersion | ORejectDeser | OOther.

Inductive scase :=
| SBuild (w : wblock) (third : bool) (declared : N)
    (* content of a block built through the public builder API, as decoded from the
       serialized block; [declared] = the `version` field the implementation wrote *)
| SLoad (w : wblock) (ext : bool) (obs : list (N * lobs))
    (* the block [w] re-encoded with each listed `version` (0 also stands for an absent field),
       correctly re-signed, loaded: what happened *)
| SSig (root : alg) (bs : list sblock) (obs : list N).
    (* obs: the `version` field of every SignedBlock of the serialized token (absent = 0) *)

Inductive sres := RVersion (v : N) | RLoad (o : list (N * lobs)) | RSig (l : list N) | RInvalid.

Definition set_version (w : wblock) (v : N) : wblock :=
  mkwblock (wfacts w) (wrules w) (wchecks w) (wscopes w) v.

Definition load_obs (vr : variant) (w : wblock) (ext : bool) (v : N) : lobs :=
  match load vr (set_version w v) ext with
  | LOk _ => OAccept
  | LErr LVersion => ORejectVersion
  | LErr LDeser => ORejectDeser
  end.

Definition scase_model (vr : variant) (c : scase) : sres :=
  match c with
  | SBuild w third _ =>
      match convert_checks MAX_SCHEMA_VERSION (wchecks w) with
      | Some checks => RVersion (bversion (build vr (wfacts w) (wrules w) checks (wscopes w) third))
      | None => RInvalid
      end
  | SLoad w ext obs => RLoad (map (fun vo => (fst vo, load_obs vr w ext (fst vo))) obs)
  | SSig root bs _ => RSig (token_sigversions root bs)
  end.

Definition lobs_eqb (a b : lobs) : bool :=
  match a, b with
  | OAccept, OAccept | ORejectVersion, ORejectVersion | ORejectDeser, ORejectDeser
  | OOther, OOther => true
  | _, _ => false
  end.

Fixpoint nlist_eqb (a b : list N) : bool :=
  match a, b with
  | [], [] => true
  | x :: a', y :: b' => N.eqb x y && nlist_eqb a' b'
  | _, _ => false
  end.

Fixpoint obs_eqb (a b : list (N * lobs)) : bool :=
  match a, b with
  | [], [] => true
  | (v, x) :: a', (v', y) :: b' => N.eqb v v' && lobs_eqb x y && obs_eqb a' b'
  | _, _ => false
  end.

Definition scase_agrees (vr : variant) (c : scase) : bool :=
  match c, scase_model vr c with
  | SBuild _ _ declared, RVersion v => N.eqb declared v
  | SLoad _ _ obs, RLoad o => obs_eqb obs o
  | SSig _ _ obs, RSig l => nlist_eqb obs l
  | _, _ => false
  end.

(* (index, model result) of every case on which the implementation's recorded behaviour
   differs from the model under the variant (detect, compat); nothing is ever skipped *)
Fixpoint scase_scan (vr : variant) (idx : N) (cs : list scase) (bad : list (N * sres))
  : list (N * sres) * N :=
  match cs with
  | [] => (rev bad, 0)
  | c :: cs' =>
      if scase_agrees vr c
      then scase_scan vr (N.succ idx) cs' bad
      else scase_scan vr (N.succ idx) cs' ((idx, scase_model vr c) :: bad)
  end.

Definition scase_failures (detect compat : bool) (start : N) (cs : list scase) :=
  scase_scan (mkvariant detect compat) start cs [].

(* All four variants in one pass, for the volume runs: a disagreement of case [idx] with
   variant number [k] is reported under the index [4 * idx + k], where
   k = 0: repaired (detect, compat), 1: (detect, coded compat), 2: (coded detect, compat),
   3: faithful (as coded).  ./check decodes the numbers (fam_schema.py); the model's answer
   for one case and one variant is [scase_model]. *)
Definition variants4 : list (N * variant) :=
  [(0, mkvariant true true); (1, mkvariant true false);
   (2, mkvariant false true); (3, mkvariant false false)].

Fixpoint scase_scan4 (idx : N) (cs : list scase) (bad : list (N * unit)) : list (N * unit) * N :=
  match cs with
  | [] => (rev bad, 0)
  | c :: cs' =>
      let bad' := fold_left (fun acc kv =>
                    if scase_agrees (snd kv) c then acc
                    else (4 * idx + fst kv, tt) :: acc) variants4 bad in
      scase_scan4 (N.succ idx) cs' bad'
  end.

Definition scase_failures4 (start : N) (cs : list scase) := scase_scan4 start cs [].

(* the property's own verdict on a load case, for classification: a block whose declared
   version is out of range or below [required] must not be accepted *)
Definition must_reject (w : wblock) (ext : bool) (v : N) : bool :=
  match convert_checks MAX_SCHEMA_VERSION (wchecks w) with
  | None => true
  | Some checks =>
      let b := mkblock (wfacts w) (wrules w) checks (wscopes w) v ext in
      negb ((3 <=? v) && (v <=? 6)) || (v <? required b)
  end.

(* the versions of a load case at which the implementation accepted a block the property
   says must be refused *)
Definition wrongly_accepted (c : scase) : list N :=
  match c with
  | SLoad w ext obs =>
      map fst (filter (fun vo => lobs_eqb (snd vo) OAccept && must_reject w ext (fst vo)) obs)
  | _ => []
  end.

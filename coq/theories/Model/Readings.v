(* Readings of a signed message: every well-formed field tuple (version, data, next key,
   external signature) whose block message is a given byte string.  The layouts carry no
   length prefixes, so a message may in principle be read in several ways; the decidable
   premise of the chain theorems ([layout_ok]) is that every message of the honest token has
   exactly one reading as a block message and that its seal messages have none.
   Executable (the correspondence evaluates [layout_ok] on every honest token); the
   completeness proof is in Proofs/ChainProofs.v.  No proofs here. *)
From Biscuit Require Export Model.Token.
Local Open Scope N_scope.

Fixpoint strip_prefix (p s : bytes) : option bytes :=
  match p, s with
  | [], _ => Some s
  | x :: p', y :: s' => if N.eqb x y then strip_prefix p' s' else None
  | _ :: _, [] => None
  end.

(* s = x ++ k with |k| = n *)
Definition split_end (n : nat) (s : bytes) : option (bytes * bytes) :=
  if (n <=? length s)%nat
  then Some (firstn (length s - n) s, skipn (length s - n) s) else None.

Definition strip_suffix (p s : bytes) : option bytes :=
  match split_end (length p) s with
  | Some (x, k) => if bytes_eqb k p then Some x else None
  | None => None
  end.

(* every (x, y) with s = x ++ pat ++ y *)
Fixpoint splits (pat s : bytes) : list (bytes * bytes) :=
  (match strip_prefix pat s with Some y => [([], y)] | None => [] end) ++
  match s with
  | [] => []
  | c :: s' => map (fun xy => (c :: fst xy, snd xy)) (splits pat s')
  end.

(* valid canonical key encoding: length by algorithm; SEC1-compressed tag 2 or 3 *)
Definition key_ok (k : pubkey) : bool :=
  Nat.eqb (length (pk_bytes k)) (key_len (pk_alg k)) &&
  match pk_alg k with
  | Ed25519 => true
  | Secp256r1 => match pk_bytes k with b :: _ => (b =? 2) || (b =? 3) | [] => false end
  end.

Definition sep_v0 (a : alg) : bytes := le32 (alg_num a).
Definition sep_v1 (a : alg) : bytes := tag_algorithm ++ le32 (alg_num a) ++ tag_nextkey.

(* readings of  data ++ sep alg ++ key *)
Definition read_key_alg (sep : alg -> bytes) (R : bytes) (a : alg) : list (bytes * pubkey) :=
  match split_end (key_len a) R with
  | Some (R1, key) =>
      if key_ok (mkpub a key)
      then match strip_suffix (sep a) R1 with
           | Some d => [(d, mkpub a key)]
           | None => []
           end
      else []
  | None => []
  end.

Definition read_key (sep : alg -> bytes) (R : bytes) : list (bytes * pubkey) :=
  read_key_alg sep R Ed25519 ++ read_key_alg sep R Secp256r1.

Definition fields : Type := N * bytes * pubkey * option bytes.
Definition fields_of (b : sblock) : fields := (b_version b, b_data b, b_next b, ext_sig b).

Definition v1_header (v : N) : bytes := tag_block_version ++ le32 v ++ tag_payload.

Definition mk_fields (v : N) (e : option bytes) (dk : bytes * pubkey) : fields :=
  (v, fst dk, snd dk, e).

Definition readings_authority (M : bytes) : list fields :=
  map (mk_fields 0 None) (read_key sep_v0 M) ++
  match strip_prefix (v1_header 1) M with
  | Some rest => map (mk_fields 1 None) (read_key sep_v1 rest)
  | None => []
  end.

Definition readings_block (prev M : bytes) : list fields :=
  map (mk_fields 0 None) (read_key sep_v0 M) ++
  match strip_prefix (v1_header 1) M with
  | Some rest =>
      match strip_suffix (tag_prevsig ++ prev) rest with
      | Some R => map (mk_fields 1 None) (read_key sep_v1 R)
      | None => []
      end ++
      flat_map (fun Re => map (mk_fields 1 (Some (snd Re))) (read_key sep_v1 (fst Re)))
               (splits (tag_prevsig ++ prev ++ tag_externalsig) rest)
  | None => []
  end.

(* well-formed blocks: what structural_ok and key parsing guarantee of an accepted token *)
Definition block_wf (b : sblock) : bool :=
  (b_version b <=? 1) &&
  match b_ext b with Some _ => b_version b =? 1 | None => true end &&
  key_ok (b_next b).

Definition keys_ok (t : token) : bool := forallb (fun b => key_ok (b_next b)) (all_blocks t).

(* ---- decidable equality on readings ---- *)
Definition obytes_eqb (a b : option bytes) : bool :=
  match a, b with
  | None, None => true
  | Some x, Some y => bytes_eqb x y
  | _, _ => false
  end.

Definition fields_eqb (x y : fields) : bool :=
  let '(v, d, k, e) := x in let '(v', d', k', e') := y in
  N.eqb v v' && bytes_eqb d d' && pubkey_eqb k k' && obytes_eqb e e'.

Fixpoint fields_list_eqb (a b : list fields) : bool :=
  match a, b with
  | [], [] => true
  | x :: a', y :: b' => fields_eqb x y && fields_list_eqb a' b'
  | _, _ => false
  end.

Definition is_nil {A} (l : list A) : bool := match l with [] => true | _ => false end.

(* ---- the layout premise on an honest token ---- *)
Fixpoint chain_layout_ok (prev : bytes) (bs : list sblock) : bool :=
  match bs with
  | [] => true
  | b :: bs' =>
      fields_list_eqb (readings_block prev (msg_block prev b)) [fields_of b] &&
      chain_layout_ok (b_sig b) bs'
  end.

Definition seal_layout_ok (b : sblock) : bool :=
  is_nil (readings_block (b_sig b) (msg_seal b)).

Definition layout_ok (t : token) : bool :=
  fields_list_eqb (readings_authority (msg_authority (t_authority t))) [fields_of (t_authority t)] &&
  chain_layout_ok (b_sig (t_authority t)) (t_blocks t) &&
  forallb seal_layout_ok (all_blocks t) &&
  keys_ok t.

(* Third-party blocks: the request / response messages on the wire, the two append paths
   (Biscuit::append_third_party_with_keypair, which compares keys and verifies the external
   signature, and UnverifiedBiscuit::append_third_party_with_keypair, which checks nothing and
   leaves it to UnverifiedBiscuit::verify), and operation histories
   Build ; (Append | AppendThirdParty | Seal)*  as the public API runs them.

   Mirrors biscuit-auth/src/token/third_party.rs (ThirdPartyRequest::{from_container, serialize,
   deserialize, create_block}, ThirdPartyBlock::serialize), token/mod.rs:415-486,
   token/unverified.rs:305-367 and schema.proto (ThirdPartyBlockRequest, ThirdPartyBlockContents).
   No proofs here. *)
From Biscuit Require Export Model.Wire.
Local Open Scope N_scope.

(* ------------------------------------------------------------------ messages *)

(* ThirdPartyBlockRequest { optional PublicKey legacyPreviousKey = 1;
                            repeated PublicKey legacyPublicKeys = 2;
                            required bytes previousSignature = 3 } *)
Record wrequest := mkwreq { rq_legacy_key : option wkey; rq_legacy_keys : list wkey; rq_prev : bytes }.

Definition step_request (ctx : nat) (r : wrequest) (f : field) : option wrequest :=
  match f with
  | (1, FLen b) =>
      match merge_body step_key ctx (match rq_legacy_key r with Some k => k | None => wkey0 end) b with
      | Some k => Some (mkwreq (Some k) (rq_legacy_keys r) (rq_prev r))
      | None => None
      end
  | (1, _) => None
  | (2, FLen b) =>
      match merge_body step_key ctx wkey0 b with
      | Some k => Some (mkwreq (rq_legacy_key r) (rq_legacy_keys r ++ [k]) (rq_prev r))
      | None => None
      end
  | (2, _) => None
  | (3, FLen b) => Some (mkwreq (rq_legacy_key r) (rq_legacy_keys r) b)
  | (3, _) => None
  | (_, _) => Some r
  end.

(* ThirdPartyRequest::serialize: only the previous signature is ever written *)
Definition enc_request (prev : bytes) : bytes := enc_fields [(3, FLen prev)].

(* ThirdPartyRequest::deserialize: the legacy fields must be absent *)
Definition dec_request (b : bytes) : option bytes :=
  match fields_of_body recursion_limit b with
  | Some fs =>
      match fold_opt (step_request recursion_limit) fs (mkwreq None [] []) with
      | Some r =>
          match rq_legacy_keys r, rq_legacy_key r with
          | [], None => Some (rq_prev r)
          | _, _ => None
          end
      | None => None
      end
  | None => None
  end.

(* ThirdPartyBlockContents { required bytes payload = 1; required ExternalSignature externalSignature = 2 } *)
Record tpresp := mkresp { r_payload : bytes; r_sig : bytes; r_key : wkey }.

Definition step_response (ctx : nat) (r : tpresp) (f : field) : option tpresp :=
  match f with
  | (1, FLen b) => Some (mkresp b (r_sig r) (r_key r))
  | (1, _) => None
  | (2, FLen b) =>
      match merge_body step_ext ctx (r_sig r, r_key r) b with
      | Some e => Some (mkresp (r_payload r) (fst e) (snd e))
      | None => None
      end
  | (2, _) => None
  | (_, _) => Some r
  end.

Definition enc_response (r : tpresp) : bytes :=
  enc_fields [(1, FLen (r_payload r)); (2, FLen (body_ext (r_sig r, r_key r)))].

Definition dec_response (b : bytes) : option tpresp :=
  match fields_of_body recursion_limit b with
  | Some fs => fold_opt (step_response recursion_limit) fs (mkresp [] [] wkey0)
  | None => None
  end.

(* ------------------------------------------------------------------ the two append paths *)

Inductive tpclass :=
| TPDecode            (* the response bytes are not a ThirdPartyBlockContents message *)
| TPKey               (* the stated public key is not a key *)
| TPUnexpectedKey     (* the stated key is not the expected key *)
| TPSignature         (* the external signature does not verify *)
| TPContent           (* the payload is not a Block message *)
| TPSealed            (* the token is sealed *)
| TPOther.

Inductive tpres := TPOk (t : token) | TPErr (c : tpclass).

Section ThirdParty.
Variable verify_sig : pubkey -> bytes -> bytes -> bool.
Variable pub : alg -> bytes -> option pubkey.
Variable sign : alg -> bytes -> bytes -> bytes.
Variable key_canon : alg -> bytes -> option bytes.

(* Biscuit::append_third_party_with_keypair.  [content_ok]: the payload decodes as a Block
   message (block contents are outside the container model).  Order of the checks as in the
   code: key parsing, key comparison, external signature, payload decoding, sealed. *)
Definition append_third_party_checked (t : token) (expected : pubkey) (r : tpresp)
                                      (content_ok : bool) (next : keypair) : tpres :=
  match parse_wkey key_canon (r_key r) with
  | None => TPErr TPKey
  | Some ek =>
      match append_third_party verify_sig pub sign t expected (r_payload r, ek, r_sig r) next with
      | TErr TUnexpectedKey => TPErr TPUnexpectedKey
      | TErr TSignature => TPErr TPSignature
      | res =>
          if negb content_ok then TPErr TPContent
          else match res with
               | TOk t' => TPOk t'
               | TErr TAlreadySealed => TPErr TPSealed
               | TErr _ => TPErr TPOther
               end
      end
  end.

(* UnverifiedBiscuit::append_third_party_with_keypair: the stated key must parse and the
   payload must decode; neither the key nor the external signature is checked here (there is
   no expected key on this path): SerializedBiscuit::verify checks the signature later. *)
Definition append_third_party_unverified (t : token) (r : tpresp) (content_ok : bool)
                                         (next : keypair) : tpres :=
  match parse_wkey key_canon (r_key r) with
  | None => TPErr TPKey
  | Some ek =>
      if negb content_ok then TPErr TPContent
      else match proof_keypair t with
           | TErr _ => TPErr TPSealed
           | TOk kp =>
               match append_signed pub sign t kp next (r_payload r) (Some (ek, r_sig r))
                       (sig_version (kp_alg kp) (kp_alg next) true None (map b_version (all_blocks t))) with
               | TOk t' => TPOk t'
               | TErr _ => TPErr TPOther
               end
           end
  end.

(* the response an honest third party makes for a request (ThirdPartyRequest::create_block) *)
Definition response_for (prev : bytes) (ext : keypair) (payload : bytes) : tres tpresp :=
  match create_block pub sign prev ext payload with
  | TOk (p, ek, es) => TOk (mkresp p es (to_wkey ek))
  | TErr e => TErr e
  end.

(* ------------------------------------------------------------------ histories *)
Inductive hop :=
| HAppend (next : keypair) (data : bytes) (dver : N)         (* Biscuit::append_with_keypair *)
| HThird (ext : keypair) (payload : bytes) (next : keypair)  (* request, create_block, append_third_party *)
| HSeal.

Record hbuild := mkbuild {
  hb_kid : option N; hb_root : keypair; hb_next : keypair; hb_data : bytes; hb_dver : N
}.

Definition tres_of (r : tpres) : tres token :=
  match r with
  | TPOk t => TOk t
  | TPErr TPSealed => TErr TAlreadySealed
  | TPErr TPUnexpectedKey => TErr TUnexpectedKey
  | TPErr TPSignature => TErr TSignature
  | TPErr _ => TErr TInvalidKey
  end.

(* one operation; [unverified] selects the UnverifiedBiscuit path for third-party appends
   (first-party append and seal are the same container functions on both paths) *)
Definition run_op (unverified : bool) (t : token) (o : hop) : tres token :=
  match o with
  | HAppend next data dver => append pub sign t next data dver
  | HSeal => seal sign t
  | HThird ext payload next =>
      match third_party_request t with
      | TErr e => TErr e
      | TOk prev =>
          match response_for prev ext payload with
          | TErr e => TErr e
          | TOk r =>
              match kp_pub pub ext with
              | None => TErr TInvalidKey
              | Some ek =>
                  tres_of (if unverified then append_third_party_unverified t r true next
                           else append_third_party_checked t ek r true next)
              end
          end
      end
  end.

(* runs the operations in order; stops at the first error, reporting its position *)
Fixpoint run_ops (unverified : bool) (i : N) (t : token) (ops : list hop) : token * option (N * terr) :=
  match ops with
  | [] => (t, None)
  | o :: ops' =>
      match run_op unverified t o with
      | TOk t' => run_ops unverified (N.succ i) t' ops'
      | TErr e => (t, Some (i, e))
      end
  end.

Definition build (b : hbuild) : tres token :=
  new_token pub sign (hb_kid b) (hb_root b) (hb_next b) (hb_data b) (hb_dver b).

(* the whole history, all operations succeeding *)
Fixpoint run_all (unverified : bool) (t : token) (ops : list hop) : tres token :=
  match ops with
  | [] => TOk t
  | o :: ops' =>
      match run_op unverified t o with
      | TOk t' => run_all unverified t' ops'
      | TErr e => TErr e
      end
  end.

Definition run_history (unverified : bool) (b : hbuild) (ops : list hop) : tres token :=
  match build b with
  | TOk t => run_all unverified t ops
  | TErr e => TErr e
  end.

End ThirdParty.

(* ------------------------------------------------------------------ the PREVSIG fragment *)
(* The external payload ends with  "\0PREVSIG\0" ++ previous signature  and has no length
   prefixes.  A previous signature that does not contain the tail of that tag cannot be
   confused with the end of a payload (decidable; evaluated by the correspondence on every
   signature that serves as a position). *)
Definition prevsig_fragment : bytes := str "PREVSIG" ++ [0].
Definition frag_free (p : bytes) : bool := negb (is_infix prevsig_fragment p).

(* ------------------------------------------------------------------ positions *)
(* every non-authority block paired with the signature it was appended after *)
Fixpoint with_prev (prev : bytes) (bs : list sblock) : list (bytes * sblock) :=
  match bs with
  | [] => []
  | b :: bs' => (prev, b) :: with_prev (b_sig b) bs'
  end.

Definition positions (t : token) : list (bytes * sblock) :=
  with_prev (b_sig (t_authority t)) (t_blocks t).

(* the third-party blocks of a token: (external key, payload, previous signature, external signature) *)
Definition third_party_blocks (t : token) : list (pubkey * bytes * bytes * bytes) :=
  flat_map (fun pb => match b_ext (snd pb) with
                      | Some (k, s) => [(k, b_data (snd pb), fst pb, s)]
                      | None => []
                      end) (positions t).

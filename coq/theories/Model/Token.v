(* The signed-block chain: tokens, the triples the chain walk verifies, structural checks,
   verification, revocation identifiers, and the operations new / append /
   append_third_party / third_party_request / seal; then the container as it appears on the
   wire (optional fields, raw keys) with deserialize / to_wire.

   Mirrors biscuit-auth/src/format/mod.rs (SerializedBiscuit::{deserialize, verify_inner,
   new, append, append_serialized, seal, to_proto}, block_signature_version),
   crypto/mod.rs (verify_authority_block_signature, verify_block_signature,
   verify_external_signature, TokenNext), token/mod.rs (append_third_party_with_keypair,
   revocation_identifiers) and token/third_party.rs (from_container, create_block).

   The signature primitives are Section variables; nothing is assumed about them here.
   No proofs here. *)
From Biscuit Require Export Model.Payload.
Local Open Scope N_scope.

(* ------------------------------------------------------------------ tokens *)

Record sblock := mkblock {
  b_data : bytes;                       (* serialized Block message, opaque here *)
  b_next : pubkey;                      (* next public key *)
  b_sig : bytes;                        (* signature by the previous key *)
  b_ext : option (pubkey * bytes);      (* external (third-party) key and signature *)
  b_version : N                         (* signature payload version *)
}.

Inductive proof := Secret (sk : bytes) | Seal (sig : bytes).

Record token := mktoken {
  t_root_key_id : option N;             (* unauthenticated hint *)
  t_authority : sblock;
  t_blocks : list sblock;
  t_proof : proof
}.

Definition triple : Type := pubkey * bytes * bytes.   (* key, message, signature *)

Definition ext_sig (b : sblock) : option bytes :=
  match b_ext b with Some (_, s) => Some s | None => None end.

Definition all_blocks (t : token) : list sblock := t_authority t :: t_blocks t.
Definition last_block (t : token) : sblock := last (t_blocks t) (t_authority t).
Definition sealed (t : token) : bool := match t_proof t with Seal _ => true | Secret _ => false end.

(* revocation identifiers: the signature bytes of each block, in order *)
Definition revocation_ids (t : token) : list bytes := map b_sig (all_blocks t).
Definition external_keys (t : token) : list (option pubkey) :=
  map (fun b => match b_ext b with Some (k, _) => Some k | None => None end) (all_blocks t).

(* ------------------------------------------------------------------ signed messages *)

(* version 0 -> untagged layout; any other version -> tagged layout carrying the version
   (versions above 1 are refused by [structural_ok]) *)
Definition msg_authority (b : sblock) : bytes :=
  if b_version b =? 0 then payload_v0 (b_data b) (ext_sig b) (b_next b)
  else payload_authority_v1 (b_data b) (b_next b) (b_version b).

Definition msg_block (prev : bytes) (b : sblock) : bytes :=
  if b_version b =? 0 then payload_v0 (b_data b) (ext_sig b) (b_next b)
  else payload_block_v1 (b_data b) (b_next b) (ext_sig b) prev (b_version b).

Definition msg_external (prev : bytes) (b : sblock) : bytes :=
  payload_external_v1 (b_data b) prev (b_version b).

Definition msg_seal (b : sblock) : bytes := payload_seal (b_data b) (b_next b) (b_sig b).

(* the triples checked for one non-authority block signed by [k] after signature [prev] *)
Definition block_queries (k : pubkey) (prev : bytes) (b : sblock) : list triple :=
  (k, msg_block prev b, b_sig b) ::
  match b_ext b with
  | Some (ek, es) => [(ek, msg_external prev b, es)]
  | None => []
  end.

Fixpoint chain_queries (k : pubkey) (prev : bytes) (bs : list sblock) : list triple :=
  match bs with
  | [] => []
  | b :: bs' => block_queries k prev b ++ chain_queries (b_next b) (b_sig b) bs'
  end.

Definition proof_queries (t : token) : list triple :=
  match t_proof t with
  | Seal s => [(b_next (last_block t), msg_seal (last_block t), s)]
  | Secret _ => []
  end.

(* every triple the chain walk must verify, in the order the code checks them *)
Definition queries (root : pubkey) (t : token) : list triple :=
  (root, msg_authority (t_authority t), b_sig (t_authority t)) ::
  chain_queries (b_next (t_authority t)) (b_sig (t_authority t)) (t_blocks t) ++
  proof_queries t.

(* ------------------------------------------------------------------ key pairs *)

Record keypair := mkkp { kp_alg : alg; kp_sk : bytes }.

(* ------------------------------------------------------------------ error kinds *)
Inductive terr :=
| TAlreadySealed          (* error::Token::AlreadySealed: the proof is a seal, no secret *)
| TAppendOnSealed         (* error::Token::AppendOnSealed *)
| TInvalidKey             (* a key pair whose secret has no public part *)
| TUnexpectedKey          (* third-party response key differs from the expected key *)
| TSignature.             (* third-party response signature does not verify *)

Inductive tres (A : Type) := TOk (a : A) | TErr (e : terr).
Arguments TOk {A} a.
Arguments TErr {A} e.

Section Chain.

(* verification of one signature: ed25519-dalek verify_strict / p256 ECDSA over DER *)
Variable verify_sig : pubkey -> bytes -> bytes -> bool.
(* public part of a secret key read with a given algorithm; None = not a valid secret *)
Variable pub : alg -> bytes -> option pubkey.
(* signing *)
Variable sign : alg -> bytes -> bytes -> bytes.

Definition verify_triple (q : triple) : bool := let '(k, m, s) := q in verify_sig k m s.

Definition version_ok (b : sblock) : bool := b_version b <=? 1.

(* third-party blocks must use version 1 (format/mod.rs deserialize) *)
Definition ext_version_ok (b : sblock) : bool :=
  match b_ext b with Some _ => b_version b =? 1 | None => true end.

Definition has_ext (b : sblock) : bool := match b_ext b with Some _ => true | None => false end.

(* a Secret proof must be the secret of the last next key (verify_inner) *)
Definition proof_ok (t : token) : bool :=
  match t_proof t with
  | Secret sk =>
      match pub (pk_alg (b_next (last_block t))) sk with
      | Some k => pubkey_eqb k (b_next (last_block t))
      | None => false
      end
  | Seal _ => true
  end.

Definition structural_ok (t : token) : bool :=
  negb (has_ext (t_authority t)) &&
  forallb version_ok (all_blocks t) &&
  forallb ext_version_ok (t_blocks t) &&
  proof_ok t.

Definition verify (root : pubkey) (t : token) : bool :=
  structural_ok t && forallb verify_triple (queries root t).

(* ------------------------------------------------------------------ operations *)

Definition kp_pub (kp : keypair) : option pubkey := pub (kp_alg kp) (kp_sk kp).
Definition kp_sign (kp : keypair) (m : bytes) : bytes := sign (kp_alg kp) (kp_sk kp) m.

Fixpoint max_list (l : list N) : N :=
  match l with [] => 0 | x :: l' => N.max x (max_list l') end.

(* block_signature_version: 1 if third-party, or Datalog version >= 3.3 (= 6), or a
   non-ed25519 signer or next key; else the maximum over the earlier blocks (0 if none) *)
Definition sig_version (signer next : alg) (third_party : bool) (datalog_version : option N)
                       (previous : list N) : N :=
  if third_party then 1
  else if match datalog_version with Some v => 6 <=? v | None => false end then 1
  else match signer, next with
       | Ed25519, Ed25519 => max_list previous
       | _, _ => 1
       end.

(* SerializedBiscuit::new *)
Definition new_token (root_key_id : option N) (root next : keypair) (data : bytes)
                     (datalog_version : N) : tres token :=
  match kp_pub next with
  | None => TErr TInvalidKey
  | Some nk =>
      let v := sig_version (kp_alg root) (kp_alg next) false (Some datalog_version) [] in
      let b0 := mkblock data nk [] None v in
      TOk (mktoken root_key_id
             (mkblock data nk (kp_sign root (msg_authority b0)) None v)
             [] (Secret (kp_sk next)))
  end.

(* TokenNext::keypair: the key pair that may extend the token *)
Definition proof_keypair (t : token) : tres keypair :=
  match t_proof t with
  | Seal _ => TErr TAlreadySealed
  | Secret sk => TOk (mkkp (pk_alg (b_next (last_block t))) sk)
  end.

Definition append_signed (t : token) (kp next : keypair) (data : bytes)
                         (ext : option (pubkey * bytes)) (v : N) : tres token :=
  match kp_pub next with
  | None => TErr TInvalidKey
  | Some nk =>
      let prev := b_sig (last_block t) in
      let b0 := mkblock data nk [] ext v in
      TOk (mktoken (t_root_key_id t) (t_authority t)
             (t_blocks t ++ [mkblock data nk (kp_sign kp (msg_block prev b0)) ext v])
             (Secret (kp_sk next)))
  end.

(* SerializedBiscuit::append (first-party block) *)
Definition append (t : token) (next : keypair) (data : bytes) (datalog_version : N) : tres token :=
  match proof_keypair t with
  | TErr e => TErr e
  | TOk kp =>
      append_signed t kp next data None
        (sig_version (kp_alg kp) (kp_alg next) false (Some datalog_version)
                     (map b_version (all_blocks t)))
  end.

(* ThirdPartyRequest::from_container: the previous signature, refused on a sealed token *)
Definition third_party_request (t : token) : tres bytes :=
  if sealed t then TErr TAppendOnSealed else TOk (b_sig (last_block t)).

(* ThirdPartyRequest::create_block: payload, external key, external signature *)
Definition create_block (prevsig : bytes) (ext : keypair) (payload : bytes)
  : tres (bytes * pubkey * bytes) :=
  match kp_pub ext with
  | None => TErr TInvalidKey
  | Some ek => TOk (payload, ek, kp_sign ext (payload_external_v1 payload prevsig 1))
  end.

(* Biscuit::append_third_party_with_keypair: key comparison, external signature check,
   then SerializedBiscuit::append_serialized (which needs the secret) *)
Definition append_third_party (t : token) (expected : pubkey)
                              (resp : bytes * pubkey * bytes) (next : keypair) : tres token :=
  let '(payload, ek, es) := resp in
  if negb (pubkey_eqb expected ek) then TErr TUnexpectedKey
  else if negb (verify_sig ek (payload_external_v1 payload (b_sig (last_block t)) 1) es)
  then TErr TSignature
  else match proof_keypair t with
       | TErr e => TErr e
       | TOk kp =>
           append_signed t kp next payload (Some (ek, es))
             (sig_version (kp_alg kp) (kp_alg next) true None (map b_version (all_blocks t)))
       end.

(* SerializedBiscuit::seal *)
Definition seal (t : token) : tres token :=
  match proof_keypair t with
  | TErr e => TErr e
  | TOk kp =>
      TOk (mktoken (t_root_key_id t) (t_authority t) (t_blocks t)
             (Seal (kp_sign kp (msg_seal (last_block t)))))
  end.

End Chain.

(* ------------------------------------------------------------------ the container on the wire *)
(* schema::{Biscuit, SignedBlock, ExternalSignature, PublicKey, Proof} after protobuf
   decoding: optional fields, raw algorithm numbers, raw key bytes. *)

Record wkey := mkwkey { wk_alg : Z; wk_bytes : bytes }.

Record wblock := mkwblock {
  w_data : bytes;
  w_next : wkey;
  w_sig : bytes;
  w_ext : option (bytes * wkey);        (* signature, public key *)
  w_version : option N
}.

Inductive wproof := WNone | WSecret (sk : bytes) | WSeal (sig : bytes).

Record wtoken := mkwtoken {
  w_root_key_id : option N;
  w_authority : wblock;
  w_blocks : list wblock;
  w_proof : wproof
}.

Definition alg_of_num (z : Z) : option alg :=
  if Z.eqb z 0 then Some Ed25519 else if Z.eqb z 1 then Some Secp256r1 else None.

Section Wire.

(* canonical encoding of a public key given on the wire (ed25519: 32 bytes decoding to a
   point; secp256r1: any SEC1 encoding of a curve point, re-encoded compressed);
   None = rejected by PublicKey::from_proto *)
Variable key_canon : alg -> bytes -> option bytes.
Variable pub : alg -> bytes -> option pubkey.

Definition parse_wkey (k : wkey) : option pubkey :=
  match alg_of_num (wk_alg k) with
  | None => None
  | Some a => match key_canon a (wk_bytes k) with
              | Some b => Some (mkpub a b)
              | None => None
              end
  end.

Definition opt_version (v : option N) : N := match v with Some n => n | None => 0 end.

Definition deserialize_block (authority : bool) (w : wblock) : option sblock :=
  match parse_wkey (w_next w) with
  | None => None
  | Some nk =>
      match w_ext w with
      | None => Some (mkblock (w_data w) nk (w_sig w) None (opt_version (w_version w)))
      | Some (es, ek) =>
          if authority then None     (* the authority block must not carry an external signature *)
          else match w_version w with
               | Some 1 =>
                   match parse_wkey ek with
                   | Some k => Some (mkblock (w_data w) nk (w_sig w) (Some (k, es)) 1)
                   | None => None
                   end
               | _ => None           (* unsupported third party block version *)
               end
      end
  end.

Fixpoint deserialize_blocks (ws : list wblock) : option (list sblock) :=
  match ws with
  | [] => Some []
  | w :: ws' =>
      match deserialize_block false w with
      | None => None
      | Some b => match deserialize_blocks ws' with
                  | None => None
                  | Some bs => Some (b :: bs)
                  end
      end
  end.

(* SerializedBiscuit::deserialize (PreviousSignatureHashing mode) *)
Definition deserialize (w : wtoken) : option token :=
  match deserialize_block true (w_authority w) with
  | None => None
  | Some a =>
      match deserialize_blocks (w_blocks w) with
      | None => None
      | Some bs =>
          match w_proof w with
          | WNone => None
          | WSeal s => Some (mktoken (w_root_key_id w) a bs (Seal s))
          | WSecret sk =>
              (* the secret is read with the algorithm of the last next key *)
              match pub (pk_alg (b_next (last bs a))) sk with
              | Some _ => Some (mktoken (w_root_key_id w) a bs (Secret sk))
              | None => None
              end
          end
      end
  end.

End Wire.

(* SerializedBiscuit::to_proto *)
Definition to_wkey (k : pubkey) : wkey := mkwkey (Z.of_N (alg_num (pk_alg k))) (pk_bytes k).

Definition to_wblock (b : sblock) : wblock :=
  mkwblock (b_data b) (to_wkey (b_next b)) (b_sig b)
    (match b_ext b with Some (k, s) => Some (s, to_wkey k) | None => None end)
    (if b_version b =? 0 then None else Some (b_version b)).

Definition to_wire (t : token) : wtoken :=
  mkwtoken (t_root_key_id t)
    (let a := to_wblock (t_authority t) in
     mkwblock (w_data a) (w_next a) (w_sig a) None (w_version a))
    (map to_wblock (t_blocks t))
    (match t_proof t with Secret sk => WSecret sk | Seal s => WSeal s end).

(* SerializedBiscuit::from_slice after protobuf decoding *)
Definition from_wire (verify_sig : pubkey -> bytes -> bytes -> bool)
                     (key_canon : alg -> bytes -> option bytes)
                     (pub : alg -> bytes -> option pubkey)
                     (root : pubkey) (w : wtoken) : option token :=
  match deserialize key_canon pub w with
  | Some t => if verify verify_sig pub root t then Some t else None
  | None => None
  end.

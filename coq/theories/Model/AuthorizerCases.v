(* Executable glue for the C03/C04/C11 correspondence: token + authorizer + limits, the
   recorded behaviour of Authorizer::authorize (and the world it computed), comparison. *)
From Biscuit Require Export Model.Authorizer Model.DatalogCases.

Inductive ioutcome := IOutcome (o : outcome) | IOther | IPanic.

(* what Authorizer::query / query_all returned for a rule: the facts, an error, or not asked *)
Inductive qobs := QFacts (l : list Datalog.fact) | QFail | QSkip.

(* max_facts, max_iterations; queries asked after authorize(): rule, query result, query_all result *)
Definition acase : Type :=
  (token * authorizer * (N * N) * list (bytes * bytes * bool) * (ioutcome * option (list ofact))
   * list (rule * qobs * qobs)).

Definition failed_eqb (a b : failed) : bool :=
  match a, b with
  | FAuth i, FAuth j => N.eqb i j
  | FBlock b1 i, FBlock b2 j => N.eqb b1 b2 && N.eqb i j
  | _, _ => false
  end.

Fixpoint fails_eqb (a b : list failed) : bool :=
  match a, b with
  | [], [] => true
  | x :: a', y :: b' => failed_eqb x y && fails_eqb a' b'
  | _, _ => false
  end.

Definition run_error_eqb (a b : run_error) : bool :=
  match a, b with
  | RunExpr _, RunExpr _ | TooManyIterations, TooManyIterations
  | TooManyFacts, TooManyFacts | Timeout, Timeout => true
  | _, _ => false
  end.

(* execution errors are compared by class only: which erroring binding is met first depends
   on the hash order (C11) *)
Definition outcome_eqb (a b : outcome) : bool :=
  match a, b with
  | OAllow i, OAllow j => N.eqb i j
  | ONoPolicy f, ONoPolicy g => fails_eqb f g
  | ORefused x i f, ORefused y j g => Bool.eqb x y && N.eqb i j && fails_eqb f g
  | OExec _, OExec _ => true
  | OLimit e, OLimit e' => run_error_eqb e e'
  | _, _ => false
  end.

Definition acase_fuel (max_iter : N) : nat := N.to_nat (N.min max_iter 3000).

Definition acase_model (c : acase) : outcome * list ofact :=
  let '(t, a, (mf, mi), rx, _, _) := c in
  authorize_world (case_oracles rx) true (acase_fuel mi) mf mi t a.

(* the same under the pre-fix reading of `reject if` (first unmatched alternative passes) *)
Definition acase_model_old_reject (c : acase) : outcome * list ofact :=
  let '(t, a, (mf, mi), rx, _, _) := c in
  authorize_world (case_oracles rx) false (acase_fuel mi) mf mi t a.

Definition is_exec (o : outcome) : bool := match o with OExec _ => true | _ => false end.

Definition aagrees (m : outcome * list ofact) (i : ioutcome * option (list ofact)) : bool :=
  match fst i with
  | IOutcome o =>
      outcome_eqb (fst m) o &&
      match snd i, fst m with
      | _, OExec _ | _, OLimit _ => true
      | Some fs, _ => facts_eq fs (snd m)
      | None, _ => true
      end
  | _ => false
  end.

(* some binding of some check or policy alternative makes an expression fail: the program is
   outside "error-free programs"; whether the failure is met depends on the iteration order
   of the engine's hash maps (that is C11's subject), so such cases are not compared here *)
Definition query_errs (O : oracles) (facts : list ofact) (tr : origin) (q : rule) : bool :=
  existsb (fun os => match eval_exprs O (snd os) (rexprs q) with Err _ => true | _ => false end)
          (join (visible tr facts) (rbody q) [] []).

Definition queries_err (O : oracles) (facts : list ofact) (default : origin) (cur : N) (km : keymap)
           (qs : list rule) : bool :=
  existsb (fun q => query_errs O facts (from_scopes (rscopes q) default cur km) q) qs.

Fixpoint blocks_err (O : oracles) (facts : list ofact) (km : keymap) (i : N) (bs : list block) : bool :=
  match bs with
  | [] => false
  | b :: bs' =>
      existsb (fun c => queries_err O facts (block_trust km i b) i km (cqueries c)) (bchecks b)
      || blocks_err O facts km (N.succ i) bs'
  end.

(* the run itself (rule application) succeeded in the model: an execution error of the model
   then comes from a check or policy, i.e. the mixed class above *)
Definition acase_run_ok (c : acase) : bool :=
  let '(t, a, (mf, mi), rx, _, _) := c in
  let W := load t a in
  match run_loop (case_oracles rx) (acase_fuel mi) mi mf 0 (w_rules W) (w_facts W) with
  | (ROk _, _) => true
  | _ => false
  end.

Definition acase_mixed (c : acase) : bool :=
  let '(t, a, _, rx, _, _) := c in
  let O := case_oracles rx in
  let facts := snd (acase_model c) in
  let km := token_keymap t in
  let atr := auth_trust km a in
  existsb (fun ck => queries_err O facts atr auth_id km (cqueries ck)) (achecks a)
  || existsb (fun p => queries_err O facts atr auth_id km (pqueries p)) (apolicies a)
  || blocks_err O facts km 0 t.

(* ---- queries: Authorizer::query (authority + authorizer unless scoped) and query_all ---- *)
Definition fset_subset (a b : list Datalog.fact) : bool := forallb (fun f => existsb (fact_eqb f) b) a.
Definition fset_eq (a b : list Datalog.fact) : bool := fset_subset a b && fset_subset b a.
(* equality as multisets: Authorizer::query lists a fact once per origin set it was derived under *)
Definition fcount (f : Datalog.fact) (l : list Datalog.fact) : nat := length (filter (fact_eqb f) l).
Definition fmset_eq (a b : list Datalog.fact) : bool :=
  (length a =? length b)%nat && forallb (fun f => (fcount f a =? fcount f b)%nat) a.

Definition qobs_agrees (m : res (list Datalog.fact)) (o : qobs) : bool :=
  match o, m with
  | QSkip, _ => true
  | QFacts l, Ok l' => fmset_eq l l'
  | QFail, Err _ => true
  | _, _ => false
  end.

(* a query whose bindings can error is order dependent (C11): not compared *)
Definition acase_queries_ok (c : acase) : bool :=
  let '(t, a, (mf, mi), rx, _, qs) := c in
  let O := case_oracles rx in
  match qs with
  | [] => true
  | _ =>
    let W := load t a in
    match run_loop O (acase_fuel mi) mi mf 0 (w_rules W) (w_facts W) with
    | (ROk (fs, _), _) =>
        forallb (fun x =>
                   let '(q, o1, o2) := x in
                   let km := token_keymap t in
                   (query_errs O fs (query_trust km q) q || qobs_agrees (query O fs t q) o1) &&
                   (query_errs O fs (query_all_trust km (length t) q) q || qobs_agrees (query_all O fs t q) o2)) qs
    | _ => forallb (fun x => let '(_, o1, o2) := x in
                             match o1, o2 with QFacts _, _ | _, QFacts _ => false | _, _ => true end) qs
    end
  end.

Fixpoint acase_scan (idx : N) (cs : list acase) (bad : list (N * outcome)) (skipped : N)
  : list (N * outcome) * N :=
  match cs with
  | [] => (rev bad, skipped)
  | c :: cs' =>
      let m := acase_model c in
      if aagrees m (snd (fst c)) && acase_queries_ok c
      then acase_scan (N.succ idx) cs' bad skipped
      else if acase_run_ok c && acase_mixed c &&
              acase_queries_ok c &&
              match fst (snd (fst c)) with
              | IOutcome (OLimit _) | IOther | IPanic => false
              | IOutcome o => xorb (is_exec o) (is_exec (fst m))
              end
           then acase_scan (N.succ idx) cs' bad (N.succ skipped)
           else acase_scan (N.succ idx) cs' ((idx, fst m) :: bad) skipped
  end.

Definition acase_failures (start : N) (cs : list acase) := acase_scan start cs [] 0%N.

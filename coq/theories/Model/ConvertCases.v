(* Executable glue for the block-conversion correspondence (C02 / C16 / C09): the bytes of a Block
   message, whether the block is third-party, the oracle table of key encodings, and what
   prost's decode followed by format::convert::proto_block_to_token_block answered -- the token
   block (index-level) with its re-conversion token_block_to_proto_block(..).encode_to_vec(), or
   the class of the error.  No proofs. *)
From Biscuit Require Export Model.Convert Model.BlockWireCases.
Local Open Scope N_scope.

Definition ikey_eqb (a b : ikey) : bool :=
  match a, b with
  | IKInt x, IKInt y => Z.eqb x y
  | IKStr x, IKStr y => x =? y
  | _, _ => false
  end.

Fixpoint iterm_eqb (a b : iterm) {struct a} : bool :=
  let fix leq (l m : list iterm) {struct l} : bool :=
    match l, m with
    | [], [] => true
    | x :: l', y :: m' => iterm_eqb x y && leq l' m'
    | _, _ => false
    end in
  let fix meq (l m : list (ikey * iterm)) {struct l} : bool :=
    match l, m with
    | [], [] => true
    | (k, x) :: l', (k', y) :: m' => ikey_eqb k k' && iterm_eqb x y && meq l' m'
    | _, _ => false
    end in
  match a, b with
  | ITVar x, ITVar y => x =? y
  | ITInt x, ITInt y => Z.eqb x y
  | ITStr x, ITStr y => x =? y
  | ITDate x, ITDate y => x =? y
  | ITBytes x, ITBytes y => bytes_eqb x y
  | ITBool x, ITBool y => Bool.eqb x y
  | ITSet l, ITSet m => leq l m
  | ITNull, ITNull => true
  | ITArray l, ITArray m => leq l m
  | ITMap l, ITMap m => meq l m
  | _, _ => false
  end.

Definition unary_eqb (a b : unary) : bool :=
  match a, b with
  | UNegate, UNegate | UParens, UParens | ULength, ULength | UTypeOf, UTypeOf => true
  | UFfi x, UFfi y => bytes_eqb x y
  | UFfiUnk x, UFfiUnk y => x =? y
  | _, _ => false
  end.

Definition binary_eqb (a b : binary) : bool :=
  match a, b with
  | BFfi x, BFfi y => bytes_eqb x y
  | BFfiUnk x, BFfiUnk y => x =? y
  | BFfi _, _ | _, BFfi _ | BFfiUnk _, _ | _, BFfiUnk _ => false
  | _, _ => let '(k, _) := binary_kind a in let '(k', _) := binary_kind b in Z.eqb k k'
  end.

Fixpoint iop_eqb (a b : iop) {struct a} : bool :=
  let fix leq (l m : list iop) {struct l} : bool :=
    match l, m with
    | [], [] => true
    | x :: l', y :: m' => iop_eqb x y && leq l' m'
    | _, _ => false
    end in
  match a, b with
  | IOVal x, IOVal y => iterm_eqb x y
  | IOUn x, IOUn y => unary_eqb x y
  | IOBin x, IOBin y => binary_eqb x y
  | IOClo p l, IOClo p' l' => list_eqb N.eqb p p' && leq l l'
  | _, _ => false
  end.

Definition iscope_eqb (a b : iscope) : bool :=
  match a, b with
  | ISAuthority, ISAuthority | ISPrevious, ISPrevious => true
  | ISKey x, ISKey y => x =? y
  | _, _ => false
  end.

Definition ipred_eqb (a b : ipred) : bool :=
  (ip_name a =? ip_name b) && list_eqb iterm_eqb (ip_terms a) (ip_terms b).
Definition irule_eqb (a b : irule) : bool :=
  ipred_eqb (ir_head a) (ir_head b) && list_eqb ipred_eqb (ir_body a) (ir_body b)
  && list_eqb (list_eqb iop_eqb) (ir_exprs a) (ir_exprs b)
  && list_eqb iscope_eqb (ir_scopes a) (ir_scopes b).
Definition kind_eqb (a b : ickind) : bool :=
  match a, b with
  | ICOne, ICOne | ICAll, ICAll | ICReject, ICReject => true
  | _, _ => false
  end.
Definition icheck_eqb (a b : icheck) : bool :=
  list_eqb irule_eqb (ic_queries a) (ic_queries b) && kind_eqb (ic_kind a) (ic_kind b).

Definition iblock_eqb (a b : iblock) : bool :=
  list_eqb bytes_eqb (ib_symbols a) (ib_symbols b)
  && optbytes_eqb (ib_context a) (ib_context b)
  && (ib_version a =? ib_version b)
  && list_eqb ipred_eqb (ib_facts a) (ib_facts b)
  && list_eqb irule_eqb (ib_rules a) (ib_rules b)
  && list_eqb icheck_eqb (ib_checks a) (ib_checks b)
  && list_eqb iscope_eqb (ib_scopes a) (ib_scopes b)
  && list_eqb Convert.wkey_eqb (ib_keys a) (ib_keys b)
  && Bool.eqb (ib_external a) (ib_external b).

Definition cerr_eqb (a b : cerr) : bool :=
  match a, b with
  | CVersion, CVersion | CDeser, CDeser | CSymOverlap, CSymOverlap | CKeyOverlap, CKeyOverlap
  | CKeySize, CKeySize | CKey, CKey => true
  | _, _ => false
  end.

(* the oracle: (algorithm, bytes as given) -> canonical bytes or invalid; a miss is reported *)
Definition keytab := list (Z * bytes * option bytes).
Fixpoint tab_canon (t : keytab) (a : Z) (b : bytes) : option (option bytes) :=
  match t with
  | [] => None
  | (a', b', r) :: t' => if Z.eqb a a' && bytes_eqb b b' then Some r else tab_canon t' a b
  end.
Definition canon_of (t : keytab) (a : Z) (b : bytes) : option bytes :=
  match tab_canon t a b with Some r => r | None => None end.
Definition tab_covers (t : keytab) (p : pblock) : bool :=
  forallb (fun k => match tab_canon t (wk_alg k) (wk_bytes k) with Some _ => true | None => false end)
          (pb_keys p).

(* what the implementation answered *)
Inductive cvimpl :=
| CVNoDecode                              (* prost refused the bytes *)
| CVErr (e : cerr)                        (* decoded, conversion refused *)
| CVOk (b : iblock) (back : bytes).       (* converted; bytes of token_block_to_proto_block *)

Inductive cvcase := CVCase (bytes_in : bytes) (ext : bool) (tab : keytab) (impl : cvimpl).

Inductive cvdiff :=
| CVAgree
| CVDecode (model_decodes : bool)         (* one side decodes the bytes, the other does not *)
| CVAccept (model_accepts : bool)         (* one side converts, the other refuses *)
| CVClass                                 (* both refuse, with different error classes *)
| CVValue                                 (* both convert, to different blocks *)
| CVBack                                  (* the way back gives other bytes than the model's *)
| CVSelf                                  (* the model does not read back what it wrote *)
| CVOracle.                               (* the key table has no entry for a key of the block *)

Definition cvcase_model (c : cvcase) : cvdiff :=
  match c with
  | CVCase b ext tab impl =>
      match decode_block b, impl with
      | None, CVNoDecode => CVAgree
      | None, _ => CVDecode false
      | Some _, CVNoDecode => CVDecode true
      | Some p, _ =>
          if negb (tab_covers tab p) then CVOracle
          else
          match conv_block (canon_of tab) p ext, impl with
          | CErr e, CVErr e' => if cerr_eqb e e' then CVAgree else CVClass
          | CErr _, _ => CVAccept false
          | COk _, CVErr _ => CVAccept true
          | COk m, CVOk i back =>
              if negb (iblock_eqb m i) then CVValue
              else if negb (bytes_eqb (encode_block (unconv_block i)) back) then CVBack
              else
                (* the written form reads back to the same block (keys are canonical now) *)
                match decode_block back with
                | Some p' =>
                    match conv_block (fun a k => if existsb (fun w => Z.eqb (wk_alg w) a && bytes_eqb (wk_bytes w) k) (ib_keys i)
                                                 then Some k else None) p' ext with
                    | COk m' => if iblock_eqb m' i then CVAgree else CVSelf
                    | CErr _ => CVSelf
                    end
                | None => CVSelf
                end
          | _, CVNoDecode => CVDecode true
          end
      end
  end.

(* ---- snapshot blocks: the structure prost decoded, and proto_snapshot_block_to_token_block's answer ---- *)
Definition optkey_eqb (a b : option wkey) : bool :=
  match a, b with Some x, Some y => Convert.wkey_eqb x y | None, None => true | _, _ => false end.

Definition psnap_eqb (a b : psnap) : bool :=
  optbytes_eqb (ps_context a) (ps_context b) && optN_eqb (ps_version a) (ps_version b)
  && list_eqb ppred_eqb (ps_facts a) (ps_facts b) && list_eqb prule_eqb (ps_rules a) (ps_rules b)
  && list_eqb pcheck_eqb (ps_checks a) (ps_checks b) && list_eqb pscope_eqb (ps_scopes a) (ps_scopes b)
  && optkey_eqb (ps_external a) (ps_external b).

Inductive svimpl :=
| SVErr (e : cerr)
| SVOk (b : iblock) (ext : option wkey) (back : psnap).   (* back = token_block_to_proto_snapshot_block *)

Inductive svcase := SVCase (p : psnap) (tab : keytab) (impl : svimpl).

Definition svcase_model (c : svcase) : cvdiff :=
  match c with
  | SVCase p tab impl =>
      if negb (match ps_external p with
               | Some k => match tab_canon tab (wk_alg k) (wk_bytes k) with Some _ => true | None => false end
               | None => true
               end) then CVOracle
      else
      match conv_snapshot_block (canon_of tab) p, impl with
      | SErr e, SVErr e' => if cerr_eqb e e' then CVAgree else CVClass
      | SErr _, SVOk _ _ _ => CVAccept false
      | SOk _ _, SVErr _ => CVAccept true
      | SOk m mk, SVOk i ik back =>
          if negb (iblock_eqb m i && optkey_eqb mk ik) then CVValue
          else if negb (psnap_eqb (unconv_snapshot_block i ik) back) then CVBack
          else match conv_snapshot_block (fun a k => Some k) back with
               | SOk m' mk' => if iblock_eqb m' i && optkey_eqb mk' ik then CVAgree else CVSelf
               | SErr _ => CVSelf
               end
      end
  end.

Fixpoint sv_scan (i : N) (cs : list svcase) (acc : list (N * cvdiff)) : list (N * cvdiff) :=
  match cs with
  | [] => rev acc
  | c :: cs' =>
      match svcase_model c with
      | CVAgree => sv_scan (i + 1) cs' acc
      | d => sv_scan (i + 1) cs' ((i, d) :: acc)
      end
  end.

Definition sv_failures (start : N) (cs : list svcase) : list (N * cvdiff) * N :=
  (sv_scan start cs [], 0).

Fixpoint cv_scan (i : N) (cs : list cvcase) (acc : list (N * cvdiff)) : list (N * cvdiff) :=
  match cs with
  | [] => rev acc
  | c :: cs' =>
      match cvcase_model c with
      | CVAgree => cv_scan (i + 1) cs' acc
      | d => cv_scan (i + 1) cs' ((i, d) :: acc)
      end
  end.

Definition cv_failures (start : N) (cs : list cvcase) : list (N * cvdiff) * N :=
  (cv_scan start cs [], 0).

(* Signature payloads of the token chain, byte for byte.

   Written from the specification table of DESIGN.md Appendix D.1 (and cross-read against
   biscuit-auth/src/crypto/mod.rs: generate_block_signature_payload_v0/v1,
   generate_authority_block_signature_payload_v1, generate_external_signature_payload_v0/v1,
   generate_seal_signature_payload_v0).  The constants (domain tags, algorithm numbers,
   little-endian 32-bit integers) are written here independently of the code: a drift in the
   code is a correspondence disagreement, not something this file follows.

   No proofs here. *)
From Biscuit Require Export Base.Bytes.
Local Open Scope N_scope.

(* ---- 32-bit little-endian integers ---- *)
Definition le32 (n : N) : bytes :=
  [n mod 256; (n / 256) mod 256; (n / 65536) mod 256; (n / 16777216) mod 256].

(* ---- algorithms and public keys ---- *)
Inductive alg := Ed25519 | Secp256r1.

Definition alg_num (a : alg) : N := match a with Ed25519 => 0 | Secp256r1 => 1 end.

Definition alg_eqb (a b : alg) : bool :=
  match a, b with Ed25519, Ed25519 | Secp256r1, Secp256r1 => true | _, _ => false end.

(* a public key in its canonical encoding: ed25519 = 32 bytes (compressed Edwards y),
   secp256r1 = 33 bytes SEC1-compressed (first byte 2 or 3) *)
Record pubkey := mkpub { pk_alg : alg; pk_bytes : bytes }.

Definition pubkey_eqb (a b : pubkey) : bool :=
  alg_eqb (pk_alg a) (pk_alg b) && bytes_eqb (pk_bytes a) (pk_bytes b).

Definition key_len (a : alg) : nat := match a with Ed25519 => 32%nat | Secp256r1 => 33%nat end.

(* length check of the canonical encoding (the point-validity part is the crypto library's) *)
Definition key_wf (k : pubkey) : bool := Nat.eqb (length (pk_bytes k)) (key_len (pk_alg k)).

(* ---- domain tags ---- *)
Definition tag_block_version : bytes := 0 :: str "BLOCK" ++ [0; 0] ++ str "VERSION" ++ [0].
Definition tag_external_version : bytes := 0 :: str "EXTERNAL" ++ [0; 0] ++ str "VERSION" ++ [0].
Definition tag_payload : bytes := 0 :: str "PAYLOAD" ++ [0].
Definition tag_algorithm : bytes := 0 :: str "ALGORITHM" ++ [0].
Definition tag_nextkey : bytes := 0 :: str "NEXTKEY" ++ [0].
Definition tag_prevsig : bytes := 0 :: str "PREVSIG" ++ [0].
Definition tag_externalsig : bytes := 0 :: str "EXTERNALSIG" ++ [0].

Definition key_part (k : pubkey) : bytes := le32 (alg_num (pk_alg k)) ++ pk_bytes k.

Definition opt_bytes (o : option bytes) : bytes := match o with Some b => b | None => [] end.

(* ---- the six layouts ---- *)

(* authority v0 and block v0: data || [extsig] || le32 alg || key *)
Definition payload_v0 (data : bytes) (extsig : option bytes) (next : pubkey) : bytes :=
  data ++ opt_bytes extsig ++ key_part next.

(* authority v1 *)
Definition payload_authority_v1 (data : bytes) (next : pubkey) (version : N) : bytes :=
  tag_block_version ++ le32 version ++ tag_payload ++ data ++
  tag_algorithm ++ le32 (alg_num (pk_alg next)) ++ tag_nextkey ++ pk_bytes next.

(* block v1: authority-v1 layout || PREVSIG || prevsig || [EXTERNALSIG || extsig] *)
Definition payload_block_v1 (data : bytes) (next : pubkey) (extsig : option bytes)
                            (prevsig : bytes) (version : N) : bytes :=
  payload_authority_v1 data next version ++ tag_prevsig ++ prevsig ++
  match extsig with Some s => tag_externalsig ++ s | None => [] end.

(* external signature v1 (what the third party signs) *)
Definition payload_external_v1 (data : bytes) (prevsig : bytes) (version : N) : bytes :=
  tag_external_version ++ le32 version ++ tag_payload ++ data ++ tag_prevsig ++ prevsig.

(* seal: data || le32 alg || key || signature, all of the last block *)
Definition payload_seal (data : bytes) (next : pubkey) (sig : bytes) : bytes :=
  data ++ key_part next ++ sig.

(* external signature v0 (legacy, only reachable through unsafe_deprecated_deserialize):
   data || le32 alg(previous key) || previous key *)
Definition payload_external_v0 (data : bytes) (prevkey : pubkey) : bytes :=
  data ++ key_part prevkey.

(* Executable glue for the C05 correspondence: a world, queries, the recorded behaviour of
   datalog::World, and the comparison.  No proofs. *)
From Biscuit Require Export Model.Datalog Model.ExprCases.

Inductive rb := RB (b : bool) | RE.          (* a boolean answer or an execution error *)

(* per query: find_match, check_match_all, query_rule (None = error) *)
Definition qres : Type := (rb * rb * option (list ofact)).
Definition dquery : Type := (origin * N * rule).        (* trusted, owner, rule *)

Inductive dresult :=
| DOk (facts : list ofact) (qs : list qres) (iterations : N)
| DErr
| DPanic.

Definition dcase : Type :=
  (list ofact * list rule_entry * list dquery * list (bytes * bytes * bool) * dresult).

Definition facts_subset (a b : list ofact) : bool :=
  forallb (fun f => existsb (ofact_eqb f) b) a.
Definition facts_eq (a b : list ofact) : bool := facts_subset a b && facts_subset b a.

Definition rb_of (r : res bool) : rb := match r with Ok b => RB b | Err _ => RE end.
Definition rb_eqb (a b : rb) : bool :=
  match a, b with RB x, RB y => Bool.eqb x y | RE, RE => true | _, _ => false end.

Definition dquery_model (O : oracles) (facts : list ofact) (q : dquery) : qres :=
  let '(tr, owner, r) := q in
  (rb_of (find_match O facts tr r), rb_of (check_match_all O facts tr r),
   match query_rule O facts tr owner r with Ok l => Some l | Err _ => None end).

Definition qres_eqb (a b : qres) : bool :=
  let '(a1, a2, a3) := a in
  let '(b1, b2, b3) := b in
  rb_eqb a1 b1 && rb_eqb a2 b2 &&
  match a3, b3 with
  | Some x, Some y => facts_eq x y
  | None, None => true
  | _, _ => false
  end.

Fixpoint qres_all_eqb (a b : list qres) : bool :=
  match a, b with
  | [], [] => true
  | x :: a', y :: b' => qres_eqb x y && qres_all_eqb a' b'
  | _, _ => false
  end.

(* the model's answer: the saturated fact set and the query answers, or an error.
   A case where some binding errors may answer differently from the implementation in WHICH
   error it reports or whether a check errors (hash order, C11); only Err-vs-Err is compared
   for the run, and queries are compared only when no query errors. *)
Definition model_fuel : nat := 400.

Definition dcase_model (c : dcase) : dresult :=
  let '(facts, rules, qs, rx, _) := c in
  let O := case_oracles rx in
  (* the limited loop with non-binding limits: also yields World::iterations *)
  match run_loop O model_fuel 100000 1000000 0 rules (merge [] facts) with
  | (RErr (RunExpr _), _) => DErr
  | (RErr _, _) => DPanic                     (* fuel exhausted: never expected *)
  | (ROk (fs, _), it) => DOk fs (map (dquery_model O fs) qs) it
  end.

Definition has_error (q : qres) : bool :=
  let '(a, b, c) := q in
  match a, b, c with RB _, RB _, Some _ => false | _, _, _ => true end.

Definition dagrees (m i : dresult) : bool :=
  match m, i with
  | DOk f qs it, DOk f' qs' it' =>
      facts_eq f f' && N.eqb it it' &&
      (if existsb has_error qs || existsb has_error qs' then (length qs =? length qs')%nat
       else qres_all_eqb qs qs')
  | DErr, DErr => true
  | _, _ => false
  end.

Fixpoint dcase_scan (idx : N) (cs : list dcase) (bad : list (N * dresult)) (skipped : N)
  : list (N * dresult) * N :=
  match cs with
  | [] => (rev bad, skipped)
  | c :: cs' =>
      let m := dcase_model c in
      if dagrees m (snd c)
      then dcase_scan (N.succ idx) cs' bad skipped
      else dcase_scan (N.succ idx) cs' ((idx, m) :: bad) skipped
  end.

Definition dcase_failures (start : N) (cs : list dcase) := dcase_scan start cs [] 0%N.

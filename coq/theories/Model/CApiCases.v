(* Glue for the C19 correspondence: what the C entry points did (read off the caller's
   buffer and the return value in a child process) next to what the Rust API answers on
   the same objects.  No proofs. *)
From Biscuit Require Export Model.CApi.

Inductive ccase :=
(* biscuit_serialized_size + biscuit_serialize vs Biscuit::to_vec *)
| CSer (rust : bytes) (announced : N) (impl : cres)
(* biscuit_sealed_size + biscuit_serialize_sealed vs Biscuit::to_vec and seal().to_vec() *)
| CSealed (rust_unsealed : bytes) (rust_sealed : option bytes) (announced : N) (impl : cres)
(* key_pair_serialize / public_key_serialize vs to_bytes *)
| CKey (rust : bytes) (impl : cres)
(* a sequence of add_* calls on one builder: which texts the Rust builder accepts, and
   what each C call returned (None = the process aborted) *)
| CBuilder (steps : list bool) (impl : list (option bool))
(* authorizer_builder_build / _unauthenticated with a NULL builder *)
| CNullBuild (impl : cres)
(* error_check_id(i) after a failed authorization: ids of the Rust error's failed checks *)
| CCheckIdx (ids : list N) (i : N) (impl : option N).

Definition cres_eqb (a b : cres) : bool :=
  match a, b with
  | CWritten n x, CWritten m y => (n =? m)%N && bytes_eqb x y
  | CError, CError | CAbort, CAbort => true
  | _, _ => false
  end.

Definition obool_eqb (a b : option bool) : bool :=
  match a, b with
  | Some x, Some y => Bool.eqb x y
  | None, None => true
  | _, _ => false
  end.

Fixpoint olist_eqb (a b : list (option bool)) : bool :=
  match a, b with
  | [], [] => true
  | x :: a', y :: b' => obool_eqb x y && olist_eqb a' b'
  | _, _ => false
  end.

Definition oN_eqb (a b : option N) : bool :=
  match a, b with
  | Some x, Some y => (x =? y)%N
  | None, None => true
  | _, _ => false
  end.

(* the two-state token of a CSealed case: false = as built, true = sealed *)
Definition enc2 (u : bytes) (s : option bytes) (sealed : bool) : bytes :=
  if sealed then match s with Some b => b | None => [] end else u.
Definition seal2 (s : option bytes) (sealed : bool) : option bool :=
  if sealed then None else match s with Some _ => Some true | None => None end.

(* each observable agrees with one of the two variants; [strict] = with the repaired one *)
Definition either (strict : bool) {A} (eqb : A -> A -> bool) (f : variant -> A) (x : A) : bool :=
  eqb (f Repaired) x || (negb strict && eqb (f Faithful) x).

Definition ccase_agrees_with (strict : bool) (c : ccase) : bool :=
  match c with
  | CSer rust announced impl =>
      (announced =? serialized_size bytes (fun b => b) rust)%N
      && cres_eqb (serialize bytes (fun b => b) rust) impl
  | CSealed u s announced impl =>
      either strict N.eqb (fun vr => sealed_size bool (enc2 u s) (seal2 s) vr false) announced
      && either strict cres_eqb (fun vr => serialize_sealed bool (enc2 u s) (seal2 s) vr false) impl
  | CKey rust impl => either strict cres_eqb (fun vr => key_serialize vr rust) impl
  | CBuilder steps impl => either strict olist_eqb (fun vr => builder_run vr true steps) impl
  | CNullBuild impl => either strict cres_eqb build_with_null_builder impl
  | CCheckIdx ids i impl => oN_eqb (check_at ids i) impl
  end.

Definition ccase_agrees (c : ccase) : bool := ccase_agrees_with false c.
Definition ccase_shows_known (c : ccase) : bool :=
  ccase_agrees_with false c && negb (ccase_agrees_with true c).

(* the repaired model's answer, for reports *)
Inductive canswer :=
| AnsSize (n : N) (r : cres)
| AnsRun (l : list (option bool))
| AnsIdx (o : option N).

Definition ccase_model_with (vr : variant) (c : ccase) : canswer :=
  match c with
  | CSer rust _ _ => AnsSize (serialized_size bytes (fun b => b) rust) (serialize bytes (fun b => b) rust)
  | CSealed u s _ _ => AnsSize (sealed_size bool (enc2 u s) (seal2 s) vr false)
                               (serialize_sealed bool (enc2 u s) (seal2 s) vr false)
  | CKey rust _ => AnsSize 32 (key_serialize vr rust)
  | CBuilder steps _ => AnsRun (builder_run vr true steps)
  | CNullBuild _ => AnsSize 0 (build_with_null_builder vr)
  | CCheckIdx ids i _ => AnsIdx (check_at ids i)
  end.
Definition ccase_model (c : ccase) : canswer := ccase_model_with Repaired c.
Definition ccase_model_faithful (c : ccase) : canswer := ccase_model_with Faithful c.

Fixpoint ccase_scan (idx : N) (cs : list ccase) (bad : list (N * canswer)) : list (N * canswer) * N :=
  match cs with
  | [] => (rev bad, 0%N)
  | c :: cs' =>
      if ccase_agrees c then ccase_scan (N.succ idx) cs' bad
      else ccase_scan (N.succ idx) cs' ((idx, ccase_model c) :: bad)
  end.

(* (index, demanded answer) of every disagreeing case; no case is ever skipped *)
Definition ccase_failures (start : N) (cs : list ccase) := ccase_scan start cs [].

Fixpoint ccase_known_scan (idx : N) (cs : list ccase) (seen : list (N * canswer)) : list (N * canswer) * N :=
  match cs with
  | [] => (rev seen, 0%N)
  | c :: cs' =>
      if ccase_shows_known c then ccase_known_scan (N.succ idx) cs' ((idx, ccase_model_faithful c) :: seen)
      else ccase_known_scan (N.succ idx) cs' seen
  end.

(* cases on which the implementation still shows one of the modelled known findings *)
Definition ccase_known (start : N) (cs : list ccase) := ccase_known_scan start cs [].

(* Evaluation budgets (C10): the authorizer as a state machine over run / authorize / query
   calls, with consumed iterations, the fact count and an explicit clock.
   Mirrors World::run_with_limits (datalog/mod.rs), Authorizer::run / authorize / query /
   authorize_inner (token/authorizer.rs) including WHERE the clock is read: every
   `Instant::now()` / `elapsed()` of the implementation consumes one reading of the scripted
   clock (start, start + step, start + 2 step, ...).

   [legacy = true] is biscuit-rust before the budget fixes (kept to state the refutations):
     - the iteration test `index == max_iterations` only after a productive pass, so a budget of
       0 is never hit and a retry after a failed run gets the full budget again;
     - `max_iterations -= iterations` on u64 (wraps in release, panics in debug);
     - facts present before the first pass are not counted;
     - `start + max_time` overflows for Duration::MAX (panic).
   [legacy = false] is the repaired behaviour. *)
From Biscuit Require Export Model.Authorizer.

Record clock := mkclock { c_now : N; c_step : N }.
Definition tick (c : clock) : N * clock := (c_now c, mkclock (c_now c + c_step c) (c_step c)).

Record limits := mklimits { max_facts : N; max_iter : N; max_time : N; time_is_max : bool }.
(* max_time in nanoseconds; time_is_max: the caller passed Duration::MAX *)

Definition two64 : N := 18446744073709551616%N.

Inductive lerr := LLimit (e : run_error) | LExec | LPanic.

Record astate := mkastate {
  s_facts : list ofact;
  s_iter : N;
  s_exec : option N
}.

Definition nlen {A} (l : list A) : N := N.of_nat (length l).

Inductive tres (A : Type) := TOk (a : A) (c : clock) | TErr (e : lerr) (c : clock).
Arguments TOk {A} a c.
Arguments TErr {A} e c.

Section Machine.
Variable orc : oracles.
Variable legacy : bool.
Variable overflow_checks : bool.     (* debug build: u64 underflow panics instead of wrapping *)
Variable rules : list rule_entry.

(* run_with_limits after the two start readings; returns result, facts, iterations to add, clock *)
Fixpoint rwl (fuel : nat) (mf mi : N) (time_limit : option N) (index : N) (facts : list ofact)
         (c : clock) : option lerr * list ofact * N * clock :=
  match fuel with
  | 0%nat => (Some (LLimit TooManyIterations), facts, index, c)
  | S f =>
      match apply_rules orc facts rules with
      | Err _ => (Some LExec, facts, 0%N, c)       (* early return: nothing accounted *)
      | Ok new =>
          let facts' := merge facts new in
          if (length facts' =? length facts)%nat then (None, facts', index, c)
          else
            let index' := N.succ index in
            if N.eqb index' mi then (Some (LLimit TooManyIterations), facts', index', c)
            else if (mf <=? nlen facts')%N then (Some (LLimit TooManyFacts), facts', index', c)
            else
              let '(now, c') := tick c in
              match time_limit with
              | Some tl => if (tl <=? now)%N then (Some (LLimit Timeout), facts', index', c')
                           else rwl f mf mi time_limit index' facts' c'
              | None => rwl f mf mi time_limit index' facts' c'
              end
      end
  end.

Definition rwl_fuel (mi : N) : nat :=
  S (N.to_nat (if N.eqb mi 0 then 5000%N else N.min mi 5000)).

(* World::run_with_limits: one reading for `start` *)
Definition run_with_limits (l : limits) (mi : N) (facts : list ofact) (c : clock)
  : option lerr * list ofact * N * clock :=
  let '(start, c1) := tick c in
  if time_is_max l && legacy then (Some LPanic, facts, 0%N, c1)
  else
    let tl := if time_is_max l then None else Some (start + max_time l)%N in
    if negb legacy && N.eqb mi 0 then (Some (LLimit TooManyIterations), facts, 0%N, c1)
    else if negb legacy && (max_facts l <? nlen facts)%N then (Some (LLimit TooManyFacts), facts, 0%N, c1)
    else rwl (rwl_fuel mi) (max_facts l) mi tl 0 facts c1.

(* Authorizer::run: cached after a success; otherwise one reading, the run, one reading *)
Definition a_run (l : limits) (st : astate) (c : clock) : (lerr + N) * astate * clock :=
  match s_exec st with
  | Some t => (inr t, st, c)
  | None =>
      let '(start, c1) := tick c in
      let mi := if legacy then max_iter l else (max_iter l - s_iter st)%N in
      let '(r, facts', idx, c2) := run_with_limits l mi (s_facts st) c1 in
      let iter' := ((s_iter st + idx) mod two64)%N in
      match r with
      | Some e => (inl e, mkastate facts' iter' None, c2)
      | None =>
          let '(now, c3) := tick c2 in
          let t := (now - start)%N in
          (inr t, mkastate facts' iter' (Some t), c3)
      end
  end.

(* `limits.max_iterations -= self.world.iterations` *)
Definition sub_iterations (mi it : N) : option N :=
  if (it <=? mi)%N then Some (mi - it)%N
  else if legacy then (if overflow_checks then None else Some (mi + two64 - it)%N)
  else Some 0%N.

(* ---- authorize_inner with the clock: one reading after every evaluated query ---- *)

Definition timed_out (tl : option N) (now : N) : bool :=
  match tl with Some t => (t <=? now)%N | None => false end.

Fixpoint t_any_query (k : check_kind) (facts : list ofact) (default : origin) (cur : N) (km : keymap)
         (tl : option N) (qs : list rule) (c : clock) : tres bool :=
  match qs with
  | [] => TOk false c
  | q :: qs' =>
      match query_holds orc k facts (from_scopes (rscopes q) default cur km) q with
      | Err _ => TErr LExec c
      | Ok b =>
          let '(now, c') := tick c in
          if timed_out tl now then TErr (LLimit Timeout) c'
          else if b then TOk true c' else t_any_query k facts default cur km tl qs' c'
      end
  end.

(* reject-if (repaired reading): stops at the first alternative that matches *)
Fixpoint t_reject (facts : list ofact) (default : origin) (cur : N) (km : keymap)
         (tl : option N) (qs : list rule) (seen : bool) (c : clock) : tres bool :=
  match qs with
  | [] => TOk seen c
  | q :: qs' =>
      match find_match orc facts (from_scopes (rscopes q) default cur km) q with
      | Err _ => TErr LExec c
      | Ok m =>
          let '(now, c') := tick c in
          if timed_out tl now then TErr (LLimit Timeout) c'
          else if m then TOk false c' else t_reject facts default cur km tl qs' true c'
      end
  end.

Definition t_check (facts : list ofact) (default : origin) (cur : N) (km : keymap)
           (tl : option N) (ck : check) (c : clock) : tres bool :=
  match ckind ck with
  | CkReject => t_reject facts default cur km tl (cqueries ck) false c
  | k => t_any_query k facts default cur km tl (cqueries ck) c
  end.

Fixpoint t_checks (facts : list ofact) (default : origin) (cur : N) (km : keymap) (tl : option N)
         (mk : N -> failed) (j : N) (cs : list check) (c : clock) : tres (list failed) :=
  match cs with
  | [] => TOk [] c
  | ck :: cs' =>
      match t_check facts default cur km tl ck c with
      | TErr e c' => TErr e c'
      | TOk ok c' =>
          match t_checks facts default cur km tl mk (N.succ j) cs' c' with
          | TErr e c'' => TErr e c''
          | TOk l c'' => TOk (if ok then l else mk j :: l) c''
          end
      end
  end.

Fixpoint t_policies (facts : list ofact) (default : origin) (km : keymap) (tl : option N) (i : N)
         (ps : list policy) (c : clock) : tres (option (policy_kind * N)) :=
  match ps with
  | [] => TOk None c
  | p :: ps' =>
      match t_any_query CkOne facts default auth_id km tl (pqueries p) c with
      | TErr e c' => TErr e c'
      | TOk true c' => TOk (Some (pkind p, i)) c'
      | TOk false c' => t_policies facts default km tl (N.succ i) ps' c'
      end
  end.

Fixpoint t_blocks (facts : list ofact) (km : keymap) (tl : option N) (i : N) (bs : list block)
         (c : clock) : tres (list failed) :=
  match bs with
  | [] => TOk [] c
  | b :: bs' =>
      match t_checks facts (block_trust km i b) i km tl (FBlock i) 0 (bchecks b) c with
      | TErr e c' => TErr e c'
      | TOk l c' =>
          match t_blocks facts km tl (N.succ i) bs' c' with
          | TErr e c'' => TErr e c''
          | TOk l' c'' => TOk (l ++ l') c''
          end
      end
  end.

Definition t_decide (facts : list ofact) (t : token) (a : authorizer) (tl : option N) (c : clock)
  : tres outcome :=
  let km := token_keymap t in
  let atr := auth_trust km a in
  match t_checks facts atr auth_id km tl FAuth 0 (achecks a) c with
  | TErr e c1 => TErr e c1
  | TOk f1 c1 =>
    match t_blocks facts km tl 0 (firstn 1 t) c1 with
    | TErr e c2 => TErr e c2
    | TOk f2 c2 =>
      match t_policies facts atr km tl 0 (apolicies a) c2 with
      | TErr e c3 => TErr e c3
      | TOk pol c3 =>
        match t_blocks facts km tl 1 (skipn 1 t) c3 with
        | TErr e c4 => TErr e c4
        | TOk f3 c4 =>
            let fails := f1 ++ f2 ++ f3 in
            TOk (match pol, fails with
                 | Some (PAllow, i), [] => OAllow i
                 | None, _ => ONoPolicy fails
                 | Some (PAllow, i), _ => ORefused true i fails
                 | Some (PDeny, i), _ => ORefused false i fails
                 end) c4
        end
      end
    end
  end.

(* Authorizer::authorize *)
Definition a_authorize (l : limits) (t : token) (a : authorizer) (st : astate) (c : clock)
  : (lerr + outcome) * astate * clock :=
  match a_run l st c with
  | (inl e, st1, c1) => (inl e, st1, c1)
  | (inr exec, st1, c1) =>
      match sub_iterations (max_iter l) (s_iter st1) with
      | None => (inl LPanic, st1, c1)
      | Some _ =>
          if negb (time_is_max l) && (max_time l <=? exec)%N then (inl (LLimit Timeout), st1, c1)
          else
            let mt := (max_time l - exec)%N in
            (* authorize_with_limits: run() is cached; start; authorize_inner: start, limit *)
            let '(start, c2) := tick c1 in
            let '(start_i, c3) := tick c2 in
            if time_is_max l && legacy then (inl LPanic, st1, c3)
            else
              let tl := if time_is_max l then None else Some (start_i + mt)%N in
              match t_decide (s_facts st1) t a tl c3 with
              | TErr e c4 =>
                  let '(now, c5) := tick c4 in
                  (inl e, mkastate (s_facts st1) (s_iter st1) (Some (exec + (now - start))%N), c5)
              | TOk o c4 =>
                  let '(now, c5) := tick c4 in
                  (inr o, mkastate (s_facts st1) (s_iter st1) (Some (exec + (now - start))%N), c5)
              end
      end
  end.

(* Authorizer::query / query_all: budgets checked the same way, then two readings *)
Definition a_query (l : limits) (st : astate) (c : clock) : option lerr * astate * clock :=
  match a_run l st c with
  | (inl e, st1, c1) => (Some e, st1, c1)
  | (inr exec, st1, c1) =>
      match sub_iterations (max_iter l) (s_iter st1) with
      | None => (Some LPanic, st1, c1)
      | Some _ =>
          if negb (time_is_max l) && (max_time l <=? exec)%N then (Some (LLimit Timeout), st1, c1)
          else
            let '(start, c2) := tick c1 in
            let '(now, c3) := tick c2 in
            (None, mkastate (s_facts st1) (s_iter st1) (Some (exec + (now - start))%N), c3)
      end
  end.

End Machine.

Inductive lop := LRun | LAuthorize | LQuery.

(* observation after each call: result class, iterations(), fact_count(), execution_time() *)
Inductive lobs_res := BRunOk | BAuth (o : outcome) | BQueryOk | BErr (e : lerr).
Definition lobs : Type := (lobs_res * N * N * option N).

Section History.
Variable orc : oracles.
Variables (legacy overflow_checks : bool).

Definition step (l : limits) (t : token) (a : authorizer) (rules : list rule_entry)
           (op : lop) (st : astate) (c : clock) : lobs * astate * clock :=
  let obs r st' := (r, s_iter st', nlen (s_facts st'), s_exec st') in
  match op with
  | LRun =>
      match a_run orc legacy rules l st c with
      | (inl e, st', c') => (obs (BErr e) st', st', c')
      | (inr _, st', c') => (obs BRunOk st', st', c')
      end
  | LAuthorize =>
      match a_authorize orc legacy overflow_checks rules l t a st c with
      | (inl e, st', c') => (obs (BErr e) st', st', c')
      | (inr o, st', c') => (obs (BAuth o) st', st', c')
      end
  | LQuery =>
      match a_query orc legacy overflow_checks rules l st c with
      | (Some e, st', c') => (obs (BErr e) st', st', c')
      | (None, st', c') => (obs BQueryOk st', st', c')
      end
  end.

Fixpoint run_history (l : limits) (t : token) (a : authorizer) (rules : list rule_entry)
         (ops : list lop) (st : astate) (c : clock) : list lobs :=
  match ops with
  | [] => []
  | op :: ops' =>
      let '(o, st', c') := step l t a rules op st c in
      match fst (fst (fst o)) with
      | BErr LPanic => [o]                 (* the object is gone *)
      | _ => o :: run_history l t a rules ops' st' c'
      end
  end.

Definition history (l : limits) (t : token) (a : authorizer) (ops : list lop) (c : clock) : list lobs :=
  let W := load t a in
  run_history l t a (w_rules W) ops (mkastate (w_facts W) 0 None) c.

End History.

(* Executable glue for the C01 / C08 / C15 correspondence.

   A case is a *group*: one honest token built through the public API (its wire form, its
   root key), the oracle tables computed by the harness with raw ed25519-dalek / p256 calls
   (canonical key encodings, public parts of secrets, truth table of signature triples over
   payload bytes the harness builds independently of biscuit-auth), the observed results of
   the operations tried on the honest token, and the list of variants of its wire message
   with the implementation's verdicts.  The model deserializes and verifies every variant
   with Model.Token, looking signatures up in the table (a miss is counted, never guessed),
   and compares with the implementation.  No proofs. *)
From Biscuit Require Export Model.Token Model.Readings.
Local Open Scope N_scope.

(* ---- what the implementation showed ---- *)
Inductive ires :=
| IRes (ser bis unv : bool)                       (* SerializedBiscuit::from_slice, Biscuit::from,
                                                     UnverifiedBiscuit::from(..).verify(..) *)
       (revs : list (list bytes))                 (* revocation ids seen on every accepting path *)
       (eks : list (list (option pubkey)))        (* external keys seen on every accepting path *)
| IPanic.

Inductive oclass := OOk | OAlreadySealed | OAppendOnSealed | OOther.

Record variant := mkvar {
  v_kind : N;                (* mutation kind, for histograms and replay texts *)
  v_derived : bool;          (* made from the honest token by a party holding only what the
                                token itself carries (no other honest secret) *)
  v_root : pubkey;           (* root key the variant is presented under *)
  v_wire : option wtoken;    (* None: the bytes are not a protobuf Biscuit message *)
  v_content : bool;          (* block contents parse (UnverifiedBiscuit::from succeeded) *)
  v_impl : ires
}.

Definition ktab := list (alg * bytes * option bytes).
Definition vtab := list (pubkey * bytes * bytes * bool).

Record group := mkgroup {
  g_root : pubkey;
  g_orig : wtoken;
  g_ktab : ktab;             (* key_canon *)
  g_stab : ktab;             (* secret -> canonical public bytes *)
  g_vtab : vtab;
  g_ops : list (N * oclass);
  g_variants : list variant
}.

(* ---- table lookups: Some = hit ---- *)
Fixpoint klookup (t : ktab) (a : alg) (b : bytes) : option (option bytes) :=
  match t with
  | [] => None
  | (a', b', r) :: t' => if alg_eqb a a' && bytes_eqb b b' then Some r else klookup t' a b
  end.

Fixpoint vlookup (t : vtab) (k : pubkey) (m s : bytes) : option bool :=
  match t with
  | [] => None
  | (k', m', s', r) :: t' =>
      if pubkey_eqb k k' && bytes_eqb s s' && bytes_eqb m m' then Some r else vlookup t' k m s
  end.

Definition kc_of (t : ktab) (a : alg) (b : bytes) : option bytes :=
  match klookup t a b with Some r => r | None => None end.
Definition pub_of (t : ktab) (a : alg) (b : bytes) : option pubkey :=
  match klookup t a b with Some (Some p) => Some (mkpub a p) | _ => None end.
Definition vf_of (t : vtab) (k : pubkey) (m s : bytes) : bool :=
  match vlookup t k m s with Some r => r | None => false end.

(* coverage of the oracle tables: every key of the message with a known algorithm, the
   secret under both algorithms, and (after deserialization) every triple of the walk *)
Definition wkey_covered (kt : ktab) (k : wkey) : bool :=
  match alg_of_num (wk_alg k) with
  | None => true
  | Some a => match klookup kt a (wk_bytes k) with Some _ => true | None => false end
  end.

Definition wblock_covered (kt : ktab) (w : wblock) : bool :=
  wkey_covered kt (w_next w) &&
  match w_ext w with Some (_, ek) => wkey_covered kt ek | None => true end.

Definition wire_covered (kt st : ktab) (w : wtoken) : bool :=
  forallb (wblock_covered kt) (w_authority w :: w_blocks w) &&
  match w_proof w with
  | WSecret sk =>
      match klookup st Ed25519 sk, klookup st Secp256r1 sk with
      | Some _, Some _ => true
      | _, _ => false
      end
  | _ => true
  end.

Definition triple_covered (vt : vtab) (q : triple) : bool :=
  let '(k, m, s) := q in match vlookup vt k m s with Some _ => true | None => false end.

(* ---- model verdict on one wire message ---- *)
Inductive mres :=
| MMiss                                   (* an oracle table had no entry *)
| MReject
| MAccept (revs : list bytes) (eks : list (option pubkey))
| MOps (op : N) (expected : oclass)       (* an operation result differs *)
| MProp (clause : N) (revs : list bytes). (* accepted by both, but the property's conclusion fails *)

Definition model_token (kt st : ktab) (vt : vtab) (root : pubkey) (w : wtoken)
  : option (option token) :=       (* None = miss; Some None = reject; Some (Some t) = accept *)
  if negb (wire_covered kt st w) then None else
  match deserialize (kc_of kt) (pub_of st) w with
  | None => Some None
  | Some t =>
      if negb (forallb (triple_covered vt) (queries root t)) then None
      else if verify (vf_of vt) (pub_of st) root t then Some (Some t) else Some None
  end.

Definition eval_wire (kt st : ktab) (vt : vtab) (root : pubkey) (w : option wtoken) : mres :=
  match w with
  | None => MReject
  | Some w =>
      match model_token kt st vt root w with
      | None => MMiss
      | Some None => MReject
      | Some (Some t) => MAccept (revocation_ids t) (external_keys t)
      end
  end.

(* ---- comparison ---- *)
Fixpoint list_eqb {A} (eq : A -> A -> bool) (a b : list A) : bool :=
  match a, b with
  | [], [] => true
  | x :: a', y :: b' => eq x y && list_eqb eq a' b'
  | _, _ => false
  end.

Definition opt_eqb {A} (eq : A -> A -> bool) (a b : option A) : bool :=
  match a, b with
  | None, None => true
  | Some x, Some y => eq x y
  | _, _ => false
  end.

Definition agrees (m : mres) (content : bool) (i : ires) : bool :=
  match m, i with
  | MAccept r e, IRes ser bis unv revs eks =>
      ser && Bool.eqb bis content && Bool.eqb unv content &&
      forallb (list_eqb bytes_eqb r) revs &&
      forallb (list_eqb (opt_eqb pubkey_eqb) e) eks
  | MReject, IRes ser bis unv _ _ => negb ser && negb bis && negb unv
  | _, _ => false
  end.

(* ---- the property's conclusion on accepted derived variants ---- *)
(* signed content of the honest blocks is a prefix of the variant's; signature bytes are
   compared for every honest block except the last one *)
Fixpoint content_prefix (hon var : list sblock) : bool :=
  match hon, var with
  | [], _ => true
  | b :: hon', b' :: var' =>
      fields_eqb (fields_of b) (fields_of b') &&
      match hon' with [] => true | _ => bytes_eqb (b_sig b) (b_sig b') end &&
      content_prefix hon' var'
  | _ :: _, [] => false
  end.

Fixpoint bytes_list_prefix (a b : list bytes) : bool :=
  match a, b with
  | [], _ => true
  | x :: a', y :: b' => bytes_eqb x y && bytes_list_prefix a' b'
  | _ :: _, [] => false
  end.

(* key that signed the last block of a token presented under [root] *)
Definition last_signer (root : pubkey) (t : token) : pubkey :=
  match rev (t_blocks t) with
  | [] => root
  | _ :: r => match r with [] => b_next (t_authority t) | b :: _ => b_next b end
  end.

(* the documented C15 class: unsealed honest token whose last block was signed by a
   secp256r1 key; the variant keeps every signed content and every other signature *)
Definition c15_known_class (root : pubkey) (t t' : token) : bool :=
  negb (sealed t) &&
  alg_eqb (pk_alg (last_signer root t)) Secp256r1 &&
  content_prefix (all_blocks t) (all_blocks t') &&
  bytes_list_prefix (removelast (revocation_ids t)) (revocation_ids t').

(* mode: 1 = C01, 2 = C08, 3 = C15 (strict), 4 = C15 outside the known class *)
Definition conclusion (mode : N) (root : pubkey) (v : variant) (t t' : token) : option N :=
  if negb (v_derived v) then None else
  if negb (pubkey_eqb root (v_root v)) then Some 1 else
  if negb (content_prefix (all_blocks t) (all_blocks t')) then Some 2 else
  if sealed t && negb (sealed t' && Nat.eqb (length (t_blocks t)) (length (t_blocks t'))) then Some 3 else
  if (mode =? 3) && negb (bytes_list_prefix (revocation_ids t) (revocation_ids t')) then Some 4 else
  if (mode =? 4) && negb (bytes_list_prefix (revocation_ids t) (revocation_ids t'))
     && negb (c15_known_class root t t') then Some 4 else
  None.

(* ---- operations on the honest token: expected result classes ---- *)
Definition dpub (a : alg) (sk : bytes) : option pubkey := Some (mkpub a sk).
Definition dsign (a : alg) (sk m : bytes) : bytes := [].
Definition dverify (k : pubkey) (m s : bytes) : bool := true.

Definition class_of {A} (r : tres A) : oclass :=
  match r with
  | TOk _ => OOk
  | TErr TAlreadySealed => OAlreadySealed
  | TErr TAppendOnSealed => OAppendOnSealed
  | TErr _ => OOther
  end.

Definition dkp : keypair := mkkp Ed25519 [].

(* op mod 10: 0 append, 1 seal, 2 third_party_request, 3 append_third_party, other: flag *)
Definition expected_op (t : token) (op : N) : oclass :=
  match op mod 10 with
  | 0 => class_of (append dpub dsign t dkp [] 3)
  | 1 => class_of (seal dsign t)
  | 2 => class_of (third_party_request t)
  | 3 => class_of (append_third_party dverify dpub dsign t (mkpub Ed25519 [])
                     ([], mkpub Ed25519 [], []) dkp)
  | _ => OOk                (* impl-only flags (e.g. identifier uniqueness): must be Ok *)
  end.

Definition oclass_eqb (a b : oclass) : bool :=
  match a, b with
  | OOk, OOk | OAlreadySealed, OAlreadySealed | OAppendOnSealed, OAppendOnSealed | OOther, OOther => true
  | _, _ => false
  end.

(* append_third_party on a sealed token: the key / signature checks come first in the code,
   so any error class is accepted there; everything else must match exactly *)
Definition op_agrees (t : token) (o : N * oclass) : bool :=
  let '(op, seen) := o in
  let e := expected_op t op in
  if (op mod 10 =? 3) && negb (oclass_eqb e OOk) then negb (oclass_eqb seen OOk)
  else oclass_eqb e seen.

Fixpoint first_bad_op (t : token) (ops : list (N * oclass)) : option (N * oclass) :=
  match ops with
  | [] => None
  | o :: ops' => if op_agrees t o then first_bad_op t ops' else Some (fst o, expected_op t (fst o))
  end.

(* ---- scanning ---- *)
(* the other behaviour allowed on the documented C15 class: a tree in which the defect was
   repaired refuses the re-encoded signature (the faithful model, asking the raw primitive,
   accepts it) *)
Definition rejects_all (i : ires) : bool :=
  match i with IRes ser bis unv _ _ => negb ser && negb bis && negb unv | IPanic => false end.

Definition proof_eqb (a b : proof) : bool :=
  match a, b with
  | Secret x, Secret y | Seal x, Seal y => bytes_eqb x y
  | _, _ => false
  end.

Definition repaired_behaviour (g : group) (orig : option token) (v : variant) (t' : token) : bool :=
  match orig with
  | Some t =>
      v_derived v && pubkey_eqb (g_root g) (v_root v) && rejects_all (v_impl v) &&
      ((* unsealed: the last block's signature re-encoded *)
       (c15_known_class (g_root g) t t' &&
        negb (bytes_list_prefix (revocation_ids t) (revocation_ids t'))) ||
       (* sealed: same blocks and identifiers, the secp256r1 seal signature re-encoded *)
       (sealed t && sealed t' &&
        alg_eqb (pk_alg (b_next (last_block t))) Secp256r1 &&
        Nat.eqb (length (t_blocks t)) (length (t_blocks t')) &&
        content_prefix (all_blocks t) (all_blocks t') &&
        list_eqb bytes_eqb (revocation_ids t) (revocation_ids t') &&
        negb (proof_eqb (t_proof t) (t_proof t'))))
  | None => false
  end.

Definition eval_variant (mode : N) (g : group) (orig : option token) (v : variant) : option mres :=
  (* None = agreement; Some r = the model says r and the case disagrees *)
  let m := eval_wire (g_ktab g) (g_stab g) (g_vtab g) (v_root v) (v_wire v) in
  let t' := match v_wire v with
            | Some w => match model_token (g_ktab g) (g_stab g) (g_vtab g) (v_root v) w with
                        | Some (Some t') => Some t'
                        | _ => None
                        end
            | None => None
            end in
  match m with
  | MMiss => Some MMiss
  | _ =>
      if negb (agrees m (v_content v) (v_impl v)) then
        match t' with
        | Some t' => if repaired_behaviour g orig v t' then None else Some m
        | None => Some m
        end
      else match m, orig, t' with
           | MAccept r _, Some t, Some t' =>
               match conclusion mode (g_root g) v t t' with
               | Some c => Some (MProp c r)
               | None => None
               end
           | _, _, _ => None
           end
  end.

Fixpoint scan_variants (mode : N) (g : group) (orig : option token) (base : N) (i : N)
                       (vs : list variant) (bad : list (N * mres)) (skipped : N)
  : list (N * mres) * N :=
  match vs with
  | [] => (bad, skipped)
  | v :: vs' =>
      match eval_variant mode g orig v with
      | None => scan_variants mode g orig base (N.succ i) vs' bad skipped
      | Some MMiss => scan_variants mode g orig base (N.succ i) vs' bad (N.succ skipped)
      | Some r => scan_variants mode g orig base (N.succ i) vs' ((base + i, r) :: bad) skipped
      end
  end.

(* index of a disagreement = 1000 * group index + variant index (999 = operations) *)
Definition scan_group (mode : N) (idx : N) (g : group) (bad : list (N * mres)) (skipped : N)
  : list (N * mres) * N :=
  let orig := match model_token (g_ktab g) (g_stab g) (g_vtab g) (g_root g) (g_orig g) with
              | Some (Some t) => Some t
              | _ => None
              end in
  let '(bad1, sk1) :=
    match orig with
    | None => ((1000 * idx + 998, MReject) :: bad, skipped)    (* the honest token must verify *)
    | Some t =>
        let bad0 := if layout_ok t then bad
                    else (1000 * idx + 997, MProp 0 []) :: bad in   (* outside the theorems' layout premise *)
        match first_bad_op t (g_ops g) with
        | Some (op, e) => ((1000 * idx + 999, MOps op e) :: bad0, skipped)
        | None => (bad0, skipped)
        end
    end in
  scan_variants mode g orig (1000 * idx) 0 (g_variants g) bad1 sk1.

Fixpoint scan_groups (mode : N) (idx : N) (gs : list group) (bad : list (N * mres)) (skipped : N)
  : list (N * mres) * N :=
  match gs with
  | [] => (rev bad, skipped)
  | g :: gs' =>
      let '(bad', sk') := scan_group mode idx g bad skipped in
      scan_groups mode (N.succ idx) gs' bad' sk'
  end.

Definition c01_failures (start : N) (gs : list group) := scan_groups 1 start gs [] 0.
Definition c08_failures (start : N) (gs : list group) := scan_groups 2 start gs [] 0.
Definition c15_failures (start : N) (gs : list group) := scan_groups 3 start gs [] 0.
Definition c15_failures_unknown (start : N) (gs : list group) := scan_groups 4 start gs [] 0.

(* single-variant evaluator for replay texts *)
Definition chain_variant_model (mode : N) (g : group) (i : nat) : option mres :=
  let orig := match model_token (g_ktab g) (g_stab g) (g_vtab g) (g_root g) (g_orig g) with
              | Some (Some t) => Some t
              | _ => None
              end in
  match nth_error (g_variants g) i with
  | Some v => eval_variant 3 g orig v
  | None => None
  end.

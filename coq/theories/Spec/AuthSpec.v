(* Declarative reading of checks and policies over the DERIVABLE facts of a world: no fact
   lists, no evaluation order.  Independent of how the authorizer iterates. *)
From Biscuit Require Export Spec.DatalogSpec Model.Authorizer.

Section AuthSpec.
Variable orc : oracles.
Variable W : world.

(* a fact is visible to a trusted set when it is derivable with an origin inside it *)
Definition Visible (tr : origin) (f : fact) : Prop :=
  exists o, Derivable orc W o f /\ (forall x, In x o -> In x tr).

(* a binding of a rule body: one visible fact per atom, matched from the empty assignment *)
Definition Binding (tr : origin) (q : rule) (s : env) : Prop :=
  exists fs, Forall (Visible tr) fs /\ match_all (rbody q) fs [] = Some s.

(* the query has a match: some binding satisfies the expressions (and instantiates the head) *)
Definition Matches (tr : origin) (q : rule) : Prop :=
  exists s vs, Binding tr q s /\ eval_exprs orc s (rexprs q) = Ok true /\
               inst_terms s (pargs (rhead q)) = Some vs.

(* check all: there is a binding and every binding satisfies the expressions *)
Definition MatchesAll (tr : origin) (q : rule) : Prop :=
  (exists s, Binding tr q s) /\ forall s, Binding tr q s -> eval_exprs orc s (rexprs q) = Ok true.

Definition alt_trust (default : origin) (cur : N) (km : keymap) (q : rule) : origin :=
  from_scopes (rscopes q) default cur km.

(* the property's three kinds *)
Definition CheckHolds (default : origin) (cur : N) (km : keymap) (c : check) : Prop :=
  match ckind c with
  | CkOne => exists q, In q (cqueries c) /\ Matches (alt_trust default cur km q) q
  | CkAll => exists q, In q (cqueries c) /\ MatchesAll (alt_trust default cur km q) q
  | CkReject => cqueries c <> [] /\ forall q, In q (cqueries c) -> ~ Matches (alt_trust default cur km q) q
  end.

Definition PolicyMatches (default : origin) (km : keymap) (p : policy) : Prop :=
  exists q, In q (pqueries p) /\ Matches (alt_trust default auth_id km q) q.

End AuthSpec.

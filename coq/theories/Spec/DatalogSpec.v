(* Declarative semantics of the scoped Datalog engine: which (origin, fact) pairs are
   derivable by finitely many rule applications.  Independent of how the engine iterates. *)
From Biscuit Require Export Model.Datalog.

(* one fact per body atom, matched left to right from the empty assignment *)
Fixpoint match_all (body : list pred) (fs : list fact) (s : env) : option env :=
  match body, fs with
  | [], [] => Some s
  | p :: body', f :: fs' =>
      match match_pred p f s with
      | Some s' => match_all body' fs' s'
      | None => None
      end
  | _, _ => None
  end.

(* union of the origins of the matched facts *)
Definition ounions (o : origin) (picks : list ofact) : origin :=
  fold_left (fun acc of => ounion acc (fst of)) picks o.

Section Spec.
Variable orc : oracles.

(* Premises are function-space ("for every pick ...") so that Coq's induction principle
   carries the induction hypothesis for the picks. *)
Inductive Derivable (W : world) : origin -> fact -> Prop :=
| D_base o f : In (o, f) (w_facts W) -> Derivable W o f
| D_rule re picks s vs :
    In re (w_rules W) ->
    (forall p, In p picks -> Derivable W (fst p) (snd p)) ->
    (* every matched fact is visible to the rule: its origin is inside the trusted set *)
    (forall p, In p picks -> osubset (fst p) (re_trusted re) = true) ->
    match_all (rbody (re_rule re)) (map snd picks) [] = Some s ->
    eval_exprs orc s (rexprs (re_rule re)) = Ok true ->
    inst_terms s (pargs (rhead (re_rule re))) = Some vs ->
    (* origin = union of the premises' origins plus the block owning the rule *)
    Derivable W (oinsert (re_owner re) (ounions [] picks))
                (mkfact (pname (rhead (re_rule re))) vs).

End Spec.

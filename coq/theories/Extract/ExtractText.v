(* Extraction of the text model (C14) to OCaml.  ExtrOcamlBasic only. *)
Require Import ExtrOcamlBasic.
From Biscuit Require Import Model.TextCases.
Extraction Language OCaml.
Extraction "model_text.ml" tcase_failures.

(* Extraction of the C17 key-codec model to OCaml.  ExtrOcamlBasic only. *)
Require Import ExtrOcamlBasic.
From Biscuit Require Import Model.KeyCodecCases.
Extraction Language OCaml.
Extraction "model_keycodec.ml" kc_failures kc_known.

Require Import ExtrOcamlBasic.
From Biscuit Require Import Model.DatalogCases.
Extraction Language OCaml.
Extraction "model_datalog.ml" dcase_failures.

(* Extraction of the executable C16 model to OCaml.  ExtrOcamlBasic only: nat/N/Z/positive
   stay Coq datatypes. *)
Require Import ExtrOcamlBasic.
From Biscuit Require Import Model.SchemaCases.
Extraction Language OCaml.
(* [length] only so that the unit defines [nat], which the shared driver prelude names *)
Extraction "model_schema.ml" scase_failures scase_failures4 length.

(* Extraction of the parameter model (C20, C18) to OCaml.  ExtrOcamlBasic only. *)
Require Import ExtrOcamlBasic.
From Biscuit Require Import Model.ParamsCases.
Extraction Language OCaml.
Extraction "model_params.ml" pcase_failures prelude_needs_nat.

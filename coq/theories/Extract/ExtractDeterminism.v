Require Import ExtrOcamlBasic.
From Biscuit Require Import Model.DeterminismCases.
Extraction Language OCaml.
Extraction "model_determinism.ml" ncase_failures.

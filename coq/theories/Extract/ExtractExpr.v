(* Extraction of the executable model to OCaml.  ExtrOcamlBasic only: nat/N/Z/positive
   stay Coq datatypes. *)
Require Import ExtrOcamlBasic.
From Biscuit Require Import Model.ExprCases.
Extraction Language OCaml.
Extraction "model_expr.ml" ecase_failures.

(* Extraction of the wire / third-party model (C02, C07).  ExtrOcamlBasic only. *)
Require Import ExtrOcamlBasic.
From Biscuit Require Import Model.WireCases.
Extraction Language OCaml.
Extraction "model_wire.ml" c02_failures c07_failures c07_failures_unknown.

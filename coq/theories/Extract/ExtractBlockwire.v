(* Extraction of the block-content wire model to OCaml.  ExtrOcamlBasic only. *)
Require Import ExtrOcamlBasic.
From Biscuit Require Import Model.BlockWireCases.
Extraction Language OCaml.
Extraction "model_blockwire.ml" bw_failures bwcase_model.

(* Extraction of the C09 robustness model to OCaml.  ExtrOcamlBasic only. *)
Require Import ExtrOcamlBasic.
From Biscuit Require Import Model.RobustCases.
Extraction Language OCaml.
Extraction "model_robust.ml" rcase_failures rcase_known.

(* Extraction of the chain model (C01, C08, C15).  ExtrOcamlBasic only. *)
Require Import ExtrOcamlBasic.
From Biscuit Require Import Model.ChainCases.
Extraction Language OCaml.
Extraction "model_chain.ml" c01_failures c08_failures c15_failures c15_failures_unknown.

Require Import ExtrOcamlBasic.
From Biscuit Require Import Model.LimitsCases.
Extraction Language OCaml.
Extraction "model_limits.ml" lcase_failures lcase_failures_legacy.

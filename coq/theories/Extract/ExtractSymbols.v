(* Extraction of the C12 model (symbol and key tables across API histories). *)
Require Import ExtrOcamlBasic.
From Biscuit Require Import Model.SymbolsCases.
Extraction Language OCaml.
Extraction "model_symbols.ml" scase_failures prelude_anchor.

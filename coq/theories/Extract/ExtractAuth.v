Require Import ExtrOcamlBasic.
From Biscuit Require Import Model.AuthorizerCases.
Extraction Language OCaml.
Extraction "model_auth.ml" acase_failures.

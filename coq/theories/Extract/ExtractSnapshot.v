(* Extraction of the C13 model (authorizer snapshots and saved policies). *)
Require Import ExtrOcamlBasic.
From Biscuit Require Import Model.SnapshotCases.
Extraction Language OCaml.
Extraction "model_snapshot.ml" ncase_failures prelude_anchor13.

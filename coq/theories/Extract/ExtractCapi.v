(* Extraction of the C19 C-API model to OCaml.  ExtrOcamlBasic only. *)
Require Import ExtrOcamlBasic.
From Biscuit Require Import Model.CApiCases.
Extraction Language OCaml.
(* Z.of_N and N.to_nat only pull in the number types the shared OCaml prelude names *)
Extraction "model_capi.ml" ccase_failures ccase_known Z.of_N N.to_nat.

(* Extraction of the block-conversion model to OCaml.  ExtrOcamlBasic only. *)
Require Import ExtrOcamlBasic.
From Biscuit Require Import Model.ConvertCases.
Extraction Language OCaml.
Extraction "model_convert.ml" cv_failures cvcase_model sv_failures svcase_model.

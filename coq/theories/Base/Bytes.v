(* Base definitions shared by every model file: bytes, result monad, hex literals.
   No proofs here (proofs live under Proofs/). *)
From Coq Require Export Ascii String.
From Coq Require Export List ZArith NArith Bool Lia.
Export ListNotations.
Open Scope Z_scope.

Definition bytes := list N.

(* ---- error kinds (the small enum every family canonicalises to) ---- *)
Inductive err :=
| EInvalidType | EOverflow | EDivZero | EInvalidStack
| EUnknownVar (x : N) | EUnknownSym (id : N) | EShadowed
| EUndefinedExtern | EExternError
| EOutOfFuel            (* model artefact; theorems show it unreachable *)
| EOracleMiss.          (* correspondence artefact: an oracle table had no entry *)

Inductive res (A : Type) := Ok (a : A) | Err (e : err).
Arguments Ok {A} a.
Arguments Err {A} e.

Definition bind {A B} (r : res A) (f : A -> res B) : res B :=
  match r with Ok a => f a | Err e => Err e end.
Notation "'do' x <- r ; k" := (bind r (fun x => k)) (at level 200, x name, r at level 100, k at level 200).

(* ---- bytes helpers ---- *)
Fixpoint bytes_eqb (a b : bytes) : bool :=
  match a, b with
  | [], [] => true
  | x :: a', y :: b' => N.eqb x y && bytes_eqb a' b'
  | _, _ => false
  end.

(* lexicographic comparison, as Rust's Ord for Vec<u8> / str *)
Fixpoint bytes_cmp (a b : bytes) : comparison :=
  match a, b with
  | [], [] => Eq
  | [], _ => Lt
  | _, [] => Gt
  | x :: a', y :: b' => match N.compare x y with Eq => bytes_cmp a' b' | c => c end
  end.

Fixpoint is_prefix (p s : bytes) : bool :=
  match p, s with
  | [], _ => true
  | x :: p', y :: s' => N.eqb x y && is_prefix p' s'
  | _, [] => false
  end.

Definition is_suffix (p s : bytes) : bool := is_prefix (rev p) (rev s).

Fixpoint is_infix (p s : bytes) : bool :=
  is_prefix p s || match s with [] => false | _ :: s' => is_infix p s' end.

(* ---- hex literals, used by generated case files: hx "616263" = [97;98;99] ---- *)
Definition hexval (c : ascii) : option N :=
  let n := N_of_ascii c in
  if (48 <=? n)%N && (n <=? 57)%N then Some (n - 48)%N
  else if (97 <=? n)%N && (n <=? 102)%N then Some (n - 87)%N
  else if (65 <=? n)%N && (n <=? 70)%N then Some (n - 55)%N
  else None.

Fixpoint hx (s : string) : bytes :=
  match s with
  | String a (String b r) =>
      match hexval a, hexval b with
      | Some x, Some y => (16 * x + y)%N :: hx r
      | _, _ => []
      end
  | _ => []
  end.

(* ascii text to bytes, for readable constants in the model *)
Fixpoint str (s : string) : bytes :=
  match s with EmptyString => [] | String a r => N_of_ascii a :: str r end.

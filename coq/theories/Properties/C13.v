(* C13 -- Authorizer snapshots and saved policies restore the same authorizer.
   Only statements here; proofs are in Proofs/SnapshotProofs.v.

   Model/Snapshot.v: an authorizer state [astate] (token blocks as loaded, authorizer block,
   policies, world facts with origins, world rules with their trusted origins, limits,
   iterations, execution time); [snapshot] interns everything into one table;
   [restore vt vk] reads it back, where the unchanged code is [restore Faithful Faithful]
   (third-party blocks translated with an empty table; key -> blocks map filled while the
   blocks are loaded) and [restore Repaired Repaired] is what the property demands.  The raw
   and base64 forms are encodings of the same message and are tied to the model by the
   correspondence only. *)
From Biscuit Require Import Model.Snapshot Proofs.SymbolsProofs Proofs.SnapshotProofs.

(* Restoring the snapshot of any authorizer the API can hold -- its rules are the ones the
   loading path derives from its blocks, and its world contains at least the facts that
   loading inserts -- succeeds and yields the same authorizer: same blocks, authorizer
   block, policies, facts per origin, rules with their trusted sets, limits, iterations. *)
Theorem C13_snapshot_roundtrip : forall a : astate,
  a_rules a = world_rules Repaired (a_blocks a) (a_auth a) ->
  wf_b a = true ->
  restore Repaired Repaired (snapshot a) = ROk' a.
Proof. exact snapshot_roundtrip. Qed.
Print Assumptions C13_snapshot_roundtrip.

(* the three moments of the property are covered by the hypothesis: before any run ... *)
Theorem C13_before_run : forall bs a ps lim,
  restore Repaired Repaired (snapshot (build_authorizer bs a ps lim)) = ROk' (build_authorizer bs a ps lim).
Proof. intros. destruct (wf_before_run bs a ps lim) as [Hr Hw]. apply snapshot_roundtrip; assumption. Qed.
Print Assumptions C13_before_run.

(* ... after a run (any number of passes), and after a run that a limit stopped part-way:
   whatever facts were added, and whatever the counters say *)
Theorem C13_after_run : forall bs a ps lim fuel it ex,
  let s0 := build_authorizer bs a ps lim in
  let s := with_world s0 (saturate fuel (a_rules s0) (a_facts s0)) it ex in
  restore Repaired Repaired (snapshot s) = ROk' s.
Proof.
  intros bs a ps lim fuel it ex s0 s. destruct (wf_before_run bs a ps lim) as [Hr Hw].
  destruct (wf_after_run s0 fuel it ex Hr Hw) as [Hr' Hw']. apply snapshot_roundtrip; assumption.
Qed.
Print Assumptions C13_after_run.

Theorem C13_after_failed_run : forall bs a ps lim extra it ex,
  let s0 := build_authorizer bs a ps lim in
  let s := with_world s0 (fold_left add_ofact extra (a_facts s0)) it ex in
  restore Repaired Repaired (snapshot s) = ROk' s.
Proof.
  intros bs a ps lim extra it ex s0 s. destruct (wf_before_run bs a ps lim) as [Hr Hw].
  destruct (wf_after_partial_run s0 extra it ex Hr Hw) as [Hr' Hw']. apply snapshot_roundtrip; assumption.
Qed.
Print Assumptions C13_after_failed_run.

(* the restored object authorizes exactly like the original, and its own snapshot is the
   original snapshot *)
Theorem C13_same_behaviour : forall a : astate,
  a_rules a = world_rules Repaired (a_blocks a) (a_auth a) -> wf_b a = true ->
  exists a', restore Repaired Repaired (snapshot a) = ROk' a' /\
             eval_state a' = eval_state a /\ snapshot a' = snapshot a.
Proof. exact same_behaviour. Qed.
Print Assumptions C13_same_behaviour.

(* saved policies (with their public keys carried) load back unchanged *)
Theorem C13_policies_roundtrip : forall p : apolicies,
  load_policies (save_policies Repaired p) = ROk' p.
Proof. exact policies_roundtrip. Qed.
Print Assumptions C13_policies_roundtrip.

(* The unchanged code: a third-party block with a symbol of its own -- restore fails. *)
Theorem C13_third_party_symbols_refuted : exists a : astate,
  a_rules a = world_rules Repaired (a_blocks a) (a_auth a) /\ wf_b a = true /\
  restore Faithful Faithful (snapshot a) = RErr' RUnknownRef.
Proof.
  exists s_a1. destruct (wf_before_run [(s_c0, None); (s_tp, Some (wk "0"))] (YContent [] [] [] [])
                          [(true, YCheck (str "p") (str "file1") [YKey (wk "0")])] lim0) as [Hr Hw].
  split; [exact Hr|]. split; [exact Hw|]. exact (proj1 third_party_symbols_witness).
Qed.
Print Assumptions C13_third_party_symbols_refuted.

(* The unchanged code: a rule of block 0 trusts the key that signs block 1; the restored
   authorizer stores the rule with a trusted set that misses block 1, and a token that was
   authorized is no longer. *)
Theorem C13_forward_key_refuted : exists (a a' : astate),
  a_rules a = world_rules Repaired (a_blocks a) (a_auth a) /\ wf_b a = true /\
  restore Faithful Faithful (snapshot a) = ROk' a' /\
  a_rules a' <> a_rules a /\
  fst (eval_state a) = SDone (Some (true, 0%N)) [] /\
  fst (eval_state a') = SDone None [].
Proof.
  exists s_a2, (restored_or s_a2 (restore Faithful Faithful (snapshot s_a2))).
  destruct (wf_before_run [(s_fwd, None); (s_tp2, Some (wk "1"))] (YContent [] [] [] [])
              [(true, YCheck (str "owner") (str "read") [YAuth; YKey (wk "1")])] lim0) as [Hr Hw].
  destruct forward_key_witness as [H1 [H2 [H3 [H4 [H5 _]]]]].
  split; [exact Hr|]. split; [exact Hw|]. split; [exact H1|]. split; [rewrite H2, H3; discriminate|].
  split; [exact H4 | exact H5].
Qed.
Print Assumptions C13_forward_key_refuted.

(* The unchanged code: the serialized AuthorizerPolicies has no field for public keys; a
   policy or check with a `trusting <key>` scope does not load. *)
Theorem C13_policies_keys_refuted : exists p : apolicies,
  load_policies (save_policies Faithful p) = RErr' RUnknownRef.
Proof. exists s_pol. exact (proj1 policies_keys_witness). Qed.
Print Assumptions C13_policies_keys_refuted.

(* ---- non-vacuity ---- *)
Example C13_example_state :
  a_rules s_a3_ran = world_rules Repaired (a_blocks s_a3_ran) (a_auth s_a3_ran) /\ wf_b s_a3_ran = true /\
  length (a_blocks s_a3_ran) = 3%nat /\ length (a_facts s_a3) = 4%nat /\ length (a_facts s_a3_ran) = 5%nat /\
  fst (eval_state s_a3_ran) = SDone (Some (true, 1%N)) [] /\
  s_strings (snapshot s_a3_ran) = [str "q"; str "zz"; str "file1"; str "x"; str "p"] /\
  s_keys (snapshot s_a3_ran) = [wk "0"] /\
  restore Repaired Repaired (snapshot s_a3_ran) = ROk' s_a3_ran.
Proof.
  destruct example_ran as [A [B [C [D E]]]].
  assert (W : a_rules s_a3_ran = world_rules Repaired (a_blocks s_a3_ran) (a_auth s_a3_ran) /\ wf_b s_a3_ran = true).
  { split; [reflexivity | vm_compute; reflexivity]. }
  destruct W as [W1 W2].
  split; [exact W1|]. split; [exact W2|]. split; [reflexivity|]. split; [exact A|]. split; [exact B|].
  split; [exact C|]. split; [exact D|]. split; [exact E|]. apply snapshot_roundtrip; assumption.
Qed.

Example C13_example_repaired_on_witnesses :
  restore Repaired Repaired (snapshot s_a1) = ROk' s_a1 /\
  restore Repaired Repaired (snapshot s_a2) = ROk' s_a2 /\
  load_policies (save_policies Repaired s_pol) = ROk' s_pol.
Proof.
  split; [exact (proj1 (proj2 third_party_symbols_witness))|].
  split; [exact (proj2 (proj2 (proj2 (proj2 (proj2 forward_key_witness))))) | exact (proj2 policies_keys_witness)].
Qed.

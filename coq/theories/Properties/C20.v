(* C20 -- Parameters are data, never code.
   Statements only; proofs in Proofs/ParamsProofs.v, model in Model/Params.v.

   Spec side: [subst] / [subst_item] (fully recursive substitution), [shape] / [item_shape]
   (the item with its leaves erased).  Exec side: [construct], [run_cmds] (set, set_lenient,
   set_scope, set_macro_param, the code_with_params loop), [state_validate],
   [state_convert] (None = the "Remaining parameter" panic), under a configuration:
   [faithful] = the code at the pinned commit, [repaired] = recursive collection and
   substitution plus the map-key check.  Sets and maps are rebuilt ([canon]) between
   substitution and conversion, as the BTreeSet/BTreeMap collectors do. *)
From Biscuit Require Import Model.Params Proofs.ParamsProofs.

(* ---- the value sits exactly at the parameter's positions, nothing else moves ---- *)
Theorem C20_subst_exact : forall (s : tenv) (t : pterm) (pi : list nat),
  match subterm_at pi t with
  | Some (PParam p) =>
      subterm_at pi (subst s t) = Some (match s p with Some v => v | None => PParam p end)
  | Some (PVar x) => subterm_at pi (subst s t) = Some (PVar x)
  | Some (PLit l) => subterm_at pi (subst s t) = Some (PLit l)
  | Some (PColl k l) =>
      exists l', subterm_at pi (subst s t) = Some (PColl k l') /\ length l' = length l
  | Some (PMap l) =>
      exists l', subterm_at pi (subst s t) = Some (PMap l') /\ length l' = length l
                 /\ forall i kv, nth_error l i = Some kv ->
                                 exists kv', nth_error l' i = Some kv' /\ fst kv' = subst_key s (fst kv)
  | None => True
  end.
Proof. exact subst_exact. Qed.
Print Assumptions C20_subst_exact.

(* a map-key position takes an integer or a string and keeps the placeholder otherwise *)
Theorem C20_subst_key_exact : forall (s : tenv) (k : pkey),
  match k with
  | PKParam p => match s p with
                 | Some (PLit (LInt i)) => subst_key s k = PKInt i
                 | Some (PLit (LStr b)) => subst_key s k = PKStr b
                 | _ => subst_key s k = k
                 end
  | _ => subst_key s k = k
  end.
Proof. exact subst_key_exact. Qed.
Print Assumptions C20_subst_key_exact.

(* item level: every term position (predicates of head and body, expression values,
   closure bodies, every query of a check or policy) holds the substituted term, every
   scope the substituted scope; [subst_item] is a map, so names, arities, operators and
   the order of everything else are untouched by construction *)
Theorem C20_subst_item_exact : forall (s : tenv) (k : senv) (i : iskel),
  item_terms (subst_item s k i) = map (subst s) (item_terms i)
  /\ item_scopes (subst_item s k i) = map (subst_scope k) (item_scopes i).
Proof. exact subst_item_exact. Qed.
Print Assumptions C20_subst_item_exact.

(* ---- binding cannot change the structure ---- *)
(* the shape of the bound item is the shape of the item with the value's shape grafted in
   the holes: predicate names, arities, operator trees, collection nesting, scope kinds
   are those of the item *)
Theorem C20_shape_preserved : forall (s : tenv) (k : senv) (i : iskel),
  item_shape (subst_item s k i) = ishape_graft s k (item_shape i).
Proof. exact shape_preserved. Qed.
Print Assumptions C20_shape_preserved.

(* ... whatever the values contain: two bindings whose values fill holes the same way
   (same term shape, same key kind) give the same structure; any two strings do *)
Theorem C20_shape_independent_of_content : forall (s s' : tenv) (k k' : senv) (i : iskel),
  env_same_fill s s' -> senv_same_dom k k' ->
  item_shape (subst_item s k i) = item_shape (subst_item s' k' i).
Proof. exact shape_independent_of_content. Qed.
Print Assumptions C20_shape_independent_of_content.

Theorem C20_strings_are_data : forall a b : bytes, same_fill (PLit (LStr a)) (PLit (LStr b)).
Proof. exact strings_same_fill. Qed.
Print Assumptions C20_strings_are_data.

(* ---- validation is complete: repaired model ---- *)
(* any item built through the constructors, after any sequence of setter calls whose
   values are data (no Parameter leaf): if validation accepts it, conversion does not
   panic and leaves no parameter *)
Theorem C20_validation_complete : forall (mode : cmode) (i : iskel) (cs : list cmd),
  mode <> MNone -> Forall cmd_closed cs ->
  state_validate repaired (fst (run_cmds (construct repaired mode i) cs)) = None ->
  exists j, state_convert repaired (fst (run_cmds (construct repaired mode i) cs)) = Some j
            /\ iskel_closed j = true.
Proof. exact validation_complete. Qed.
Print Assumptions C20_validation_complete.

(* and what conversion produces is the substituted item (sets and maps rebuilt) *)
Theorem C20_converted_is_substituted_rule : forall (r : prule) (s : rskel),
  convert_rule repaired r = Some s ->
  s = rskel_map canon (fun x => x)
        (rskel_map (subst (tenv_of (rule_pmap r))) (subst_scope (senv_of (rule_smap r))) (rule_skel r)).
Proof. exact exec_is_subst_rule. Qed.
Print Assumptions C20_converted_is_substituted_rule.

Theorem C20_converted_is_substituted_fact : forall (p : ppred) (m : option pmap) (q : ppred),
  convert_fact (Fact p m) = Some q -> q = pred_map canon (pred_map (subst (tenv_of m)) p).
Proof. exact exec_is_subst_fact. Qed.
Print Assumptions C20_converted_is_substituted_fact.

(* ---- strict setters report unknown names (both models: no configuration involved) ---- *)
Theorem C20_strict_reports_unknown : forall (s : istate) (n : name) (v : pterm),
  (state_knows n s = false -> run_cmd s (CmdSet n v) = (s, Some (EUnused n)))
  /\ (state_knows n s = true -> snd (run_cmd s (CmdSet n v)) = None).
Proof. exact strict_reports_unknown. Qed.
Print Assumptions C20_strict_reports_unknown.

(* with the repaired collection a fresh rule knows exactly the parameters it contains *)
Theorem C20_fresh_rule_knows_its_parameters : forall (mode : cmode) (r : rskel) (n : name),
  mode <> MNone ->
  rule_knows n (rule_new repaired mode r) = true <-> In n (rskel_term_params true r).
Proof. exact fresh_rule_knows. Qed.
Print Assumptions C20_fresh_rule_knows_its_parameters.

(* ---- refuted for the unchanged code ---- *)
(* Full statement that fails: C20_validation_complete with [faithful] in place of [repaired]. *)

(* a parameter nested in a collection inside a rule predicate is validated as bound but
   never substituted; conversion panics.  Witness: h($x) <- b($x, [{p}]), p = 1 *)
Theorem C20_nested_refuted :
  exists (i : iskel) (n : name) (v : pterm),
    term_closed v = true
    /\ state_validate faithful (bound_state faithful MNew i n v) = None
    /\ state_convert faithful (bound_state faithful MNew i n v) = None.
Proof.
  exists w_nested_pred, np, (PLit (LInt 1)). split; [reflexivity | exact nested_pred_refuted].
Qed.
Print Assumptions C20_nested_refuted.

(* ... inside an expression: biscuit-auth's Rule::new does not even collect it (the strict
   setter reports it as unknown, the item validates and panics); the parsed item knows it,
   accepts the binding, validates and panics.  Witness: h($x) <- b($x), [{p}].contains($x) *)
Theorem C20_nested_expr_refuted :
  exists (i : iskel) (n : name) (v : pterm),
    term_closed v = true
    /\ snd (run_cmd (construct faithful MNew i) (CmdSet n v)) = Some (EUnused n)
    /\ state_validate faithful (construct faithful MNew i) = None
    /\ state_convert faithful (construct faithful MNew i) = None
    /\ state_validate faithful (bound_state faithful MParsed i n v) = None
    /\ state_convert faithful (bound_state faithful MParsed i n v) = None.
Proof.
  exists w_nested_expr, np, (PLit (LInt 1)). split; [reflexivity | exact nested_expr_refuted].
Qed.
Print Assumptions C20_nested_expr_refuted.

(* a map-key parameter bound to a value that cannot be a key is kept.  Witness:
   f({{p}: 1}), p = true *)
Theorem C20_mapkey_refuted :
  exists (i : iskel) (n : name) (v : pterm),
    term_closed v = true
    /\ state_validate faithful (bound_state faithful MNew i n v) = None
    /\ state_convert faithful (bound_state faithful MNew i n v) = None.
Proof.
  exists w_mapkey, np, (PLit (LBool true)). split; [reflexivity | exact mapkey_refuted].
Qed.
Print Assumptions C20_mapkey_refuted.

(* ---- non-vacuity ---- *)
(* the three witnesses under the repaired model: the nested ones convert to the bound
   item, the map key is refused by validation *)
Example C20_ex_repaired_nested :
  state_validate repaired (bound_state repaired MNew w_nested_pred np (PLit (LInt 1))) = None
  /\ state_convert repaired (bound_state repaired MNew w_nested_pred np (PLit (LInt 1)))
     = Some (IRule ((str "h", [vx]), [(str "b", [vx; PColl CArray [PLit (LInt 1)]])], [], []))
  /\ state_convert repaired (bound_state repaired MNew w_nested_expr np (PLit (LInt 1)))
     = Some (IRule ((str "h", [vx]), [(str "b", [vx])],
                    [[POVal (PColl CArray [PLit (LInt 1)]); POVal vx; POBin BContains]], [])).
Proof. repeat split; vm_compute; reflexivity. Qed.

Example C20_ex_repaired_mapkey :
  state_validate repaired (bound_state repaired MNew w_mapkey np (PLit (LBool true))) = Some (EMissing [np])
  /\ state_convert repaired (bound_state repaired MNew w_mapkey np (PLit (LInt 7)))
     = Some (IFact (str "f", [PMap [(PKInt 7, PLit (LInt 1))]])).
Proof. split; vm_compute; reflexivity. Qed.

(* a string made of Datalog syntax, bound at a nested position and in a scope-carrying
   rule: hypotheses of C20_validation_complete hold, the structure is the item's *)
Definition ex_rule : iskel :=
  IRule ((str "h", [vx; PParam (str "q")]),
         [(str "b", [vx; PMap [(PKParam (str "k"), PColl CSet [PParam np; PLit (LStr (str "a"))])]])],
         [[POVal (PColl CArray [PParam np]); POClo [str "y"] [POVal (PVar (str "y")); POVal (PParam np); POBin BEqual]; POBin BAny]],
         [SAuthority; SParam (str "pk")]).
Definition ex_inject : pterm := PLit (LStr (str "x""); admin(""root"") <- f($x), {p}")).
Definition ex_cmds : list cmd :=
  [CmdSet np ex_inject; CmdSetLenient (str "q") (PLit LNull); CmdIgn (str "k") (PLit (LInt 3));
   CmdSetScope (str "pk") [0; 1; 2]%N; CmdSet (str "nope") (PLit (LInt 0))].

Example C20_ex_validation_complete :
  Forall cmd_closed ex_cmds
  /\ snd (run_cmds (construct repaired MNew ex_rule) ex_cmds)
     = [None; None; None; None; Some (EUnused (str "nope"))]
  /\ state_validate repaired (fst (run_cmds (construct repaired MNew ex_rule) ex_cmds)) = None
  /\ option_map item_shape (state_convert repaired (fst (run_cmds (construct repaired MNew ex_rule) ex_cmds)))
     = Some (ishape_graft (fun n => if bytes_eqb n (str "k") then Some (PLit (LInt 0)) else Some (PLit LNull))
                          (fun _ => Some []) (item_shape ex_rule)).
Proof.
  split; [repeat constructor|]. repeat split; vm_compute; reflexivity.
Qed.

Example C20_ex_subst_exact :
  let t := PColl CArray [PLit (LInt 0); PMap [(PKParam np, PColl CSet [PParam np])]] in
  let s := fun n : name => if bytes_eqb n np then Some ex_inject else None in
  subterm_at [1; 0; 0]%nat t = Some (PParam np)
  /\ subterm_at [1; 0; 0]%nat (subst s t) = Some ex_inject
  /\ subst s t = PColl CArray [PLit (LInt 0); PMap [(PKStr (str "x""); admin(""root"") <- f($x), {p}"), PColl CSet [ex_inject])]].
Proof. repeat split; vm_compute; reflexivity. Qed.

(* C01 -- Forged, tampered, spliced or truncated tokens never verify.
   Only statements here; proofs are in Proofs/ChainLayout.v and Proofs/ChainProofs.v.

   Reading guide.  [verify verify_sig pub root t] is the model of SerializedBiscuit::verify
   after deserialization (Model/Token.v).  The signature primitive [verify_sig] is universally
   quantified; unforgeability is never assumed of it globally: it is the explicit premise
   "what verifies under a key that signed part of the honest token is one of the honest
   token's own triples (key, message, signature)".  [layout_ok tok] is the decidable layout
   premise on the honest token (every signed message has exactly one reading as a block
   message, its seal messages have none, keys are validly encoded): the byte layouts carry no
   length prefixes and version 0 / seal messages no domain tag, so unique decodability is a
   property of the honest token's bytes, evaluated by the correspondence on every honest
   token.  [block_same b b'] = same version, payload, next key, external signature bytes and
   signature bytes; the external *public key* is covered by no chain message (property C07). *)
From Biscuit Require Import Model.Token Model.Readings Proofs.ChainLayout Proofs.ChainProofs Proofs.ChainOps.
From Coq Require Import Permutation.
Local Open Scope N_scope.

Theorem C01_le32_injective : forall n m,
  n < 4294967296 -> m < 4294967296 -> le32 n = le32 m -> n = m.
Proof. exact le32_injective. Qed.
Print Assumptions C01_le32_injective.

(* Each layout is injective on field tuples of the same shape (key length fixed by the
   algorithm, signature lengths given, version below 2^32). *)
Theorem C01_payload_injective_same_shape :
  (forall d d' k k' v v', v < 4294967296 -> v' < 4294967296 ->
     length (pk_bytes k) = length (pk_bytes k') ->
     payload_authority_v1 d k v = payload_authority_v1 d' k' v' -> d = d' /\ k = k' /\ v = v') /\
  (forall d d' k k' e e' p p' v v', v < 4294967296 -> v' < 4294967296 ->
     length (pk_bytes k) = length (pk_bytes k') -> length p = length p' -> olen e = olen e' ->
     payload_block_v1 d k e p v = payload_block_v1 d' k' e' p' v' ->
     d = d' /\ k = k' /\ e = e' /\ p = p' /\ v = v') /\
  (forall d d' p p' v v', v < 4294967296 -> v' < 4294967296 -> length p = length p' ->
     payload_external_v1 d p v = payload_external_v1 d' p' v' -> d = d' /\ p = p' /\ v = v') /\
  (forall d d' k k', length (pk_bytes k) = length (pk_bytes k') ->
     payload_v0 d None k = payload_v0 d' None k' -> d = d' /\ k = k') /\
  (forall d d' e e' k k', length (pk_bytes k) = length (pk_bytes k') -> length e = length e' ->
     payload_v0 d (Some e) k = payload_v0 d' (Some e') k' -> d = d' /\ e = e' /\ k = k') /\
  (forall d d' k k' s s', length (pk_bytes k) = length (pk_bytes k') -> length s = length s' ->
     payload_seal d k s = payload_seal d' k' s' -> d = d' /\ k = k' /\ s = s') /\
  (forall d d' k k', length (pk_bytes k) = length (pk_bytes k') ->
     payload_external_v0 d k = payload_external_v0 d' k' -> d = d' /\ k = k').
Proof.
  split; [exact payload_authority_v1_inj|]. split; [exact payload_block_v1_inj|].
  split; [exact payload_external_v1_inj|]. split; [exact payload_v0_inj|].
  split; [exact payload_v0_ext_inj|]. split; [exact payload_seal_inj | exact payload_external_v0_inj].
Qed.
Print Assumptions C01_payload_injective_same_shape.

(* Across shapes: a block message that has a unique reading is equal to the message of no
   other well-formed block (any version, key algorithm, with or without external signature,
   any lengths); a message without reading (the seal messages of the honest token) is the
   message of no well-formed block; the tagged block and external layouts never coincide.
   The premise [readings_* ... = ...] is decidable and is what [layout_ok] evaluates. *)
Theorem C01_cross_shape_separation :
  (forall prev b b', readings_block prev (msg_block prev b) = [fields_of b] ->
     block_wf b' = true -> msg_block prev b' = msg_block prev b -> fields_of b' = fields_of b) /\
  (forall b b', readings_authority (msg_authority b) = [fields_of b] ->
     block_wf b' = true -> b_ext b' = None ->
     msg_authority b' = msg_authority b -> fields_of b' = fields_of b) /\
  (forall prev b' M, readings_block prev M = [] -> block_wf b' = true -> msg_block prev b' <> M) /\
  (forall d k e p v d' p' v', payload_block_v1 d k e p v <> payload_external_v1 d' p' v').
Proof.
  split; [exact msg_block_inj|]. split; [exact msg_authority_inj|].
  split; [exact msg_block_not_seal | exact block_v1_not_external_v1].
Qed.
Print Assumptions C01_cross_shape_separation.

(* Main theorem.  For every signature scheme, root key, honest token [tok] and presented token
   [tok']: if [tok] verifies, satisfies the layout premise, was signed under pairwise distinct
   keys; if whatever verifies under one of those keys is one of [tok]'s own triples
   (unforgeability); if [tok'] does not exhibit the secret of one of those keys (the holder of
   an unsealed token legitimately has the secret of the *last* next key, which signed nothing)
   and has validly encoded keys: then [tok'] verifies under [root] only if the honest blocks
   are a prefix of its blocks, with the same payloads, next keys, versions, external signatures
   and signatures; and if [tok] is sealed, [tok'] has exactly these blocks and the same proof. *)
Theorem C01_accepted_is_honest_prefix : forall verify_sig pub root tok tok',
  verify verify_sig pub root tok = true ->
  layout_ok tok = true ->
  NoDup (map qkey (queries root tok)) ->
  (forall k m s, In k (map qkey (queries root tok)) -> verify_sig k m s = true ->
                 In (k, m, s) (queries root tok)) ->
  (forall sk k, t_proof tok' = Secret sk ->
     pub (pk_alg (b_next (last_block tok'))) sk = Some k -> ~ In k (map qkey (queries root tok))) ->
  keys_ok tok' = true ->
  verify verify_sig pub root tok' = true ->
  exists l1 l2 : list sblock,
    all_blocks tok' = (l1 ++ l2)%list /\ Forall2 block_same (all_blocks tok) l1 /\
    (sealed tok = true -> l2 = [] /\ t_proof tok' = t_proof tok).
Proof. exact accepted_is_honest_prefix. Qed.
Print Assumptions C01_accepted_is_honest_prefix.

(* Clause by clause (same premises, abbreviated [P]). *)
Definition C01_premises verify_sig pub root tok tok' : Prop :=
  verify verify_sig pub root tok = true /\
  layout_ok tok = true /\
  NoDup (map qkey (queries root tok)) /\
  (forall k m s, In k (map qkey (queries root tok)) -> verify_sig k m s = true ->
                 In (k, m, s) (queries root tok)) /\
  (forall sk k, t_proof tok' = Secret sk ->
     pub (pk_alg (b_next (last_block tok'))) sk = Some k -> ~ In k (map qkey (queries root tok))) /\
  keys_ok tok' = true.

(* any change of the payload, next key, version, external signature or signature of the
   i-th honest block makes verification fail *)
Theorem C01_mutation_rejected : forall verify_sig pub root tok tok' i b b',
  C01_premises verify_sig pub root tok tok' ->
  nth_error (all_blocks tok) i = Some b -> nth_error (all_blocks tok') i = Some b' ->
  ~ block_same b b' -> verify verify_sig pub root tok' = false.
Proof.
  intros vs pub root tok tok' i b b' (H1 & H2 & H3 & H4 & H5 & H6).
  exact (mutation_rejected vs pub root tok tok' H1 H2 H3 H4 H5 H6 i b b').
Qed.
Print Assumptions C01_mutation_rejected.

(* a sealed token accepts no other block list and no other proof *)
Theorem C01_sealed_final : forall verify_sig pub root tok tok',
  C01_premises verify_sig pub root tok tok' -> sealed tok = true ->
  verify verify_sig pub root tok' = true ->
  Forall2 block_same (all_blocks tok) (all_blocks tok') /\ t_proof tok' = t_proof tok.
Proof.
  intros vs pub root tok tok' (H1 & H2 & H3 & H4 & H5 & H6).
  exact (sealed_final vs pub root tok tok' H1 H2 H3 H4 H5 H6).
Qed.
Print Assumptions C01_sealed_final.

Theorem C01_reorder_rejected : forall verify_sig pub root tok tok',
  C01_premises verify_sig pub root tok tok' ->
  Permutation (all_blocks tok) (all_blocks tok') ->
  ~ Forall2 block_same (all_blocks tok) (all_blocks tok') ->
  verify verify_sig pub root tok' = false.
Proof.
  intros vs pub root tok tok' (H1 & H2 & H3 & H4 & H5 & H6).
  exact (reorder_rejected vs pub root tok tok' H1 H2 H3 H4 H5 H6).
Qed.
Print Assumptions C01_reorder_rejected.

(* dropping trailing blocks, with whatever proof the presenter can form *)
Theorem C01_truncation_rejected : forall verify_sig pub root tok tok',
  C01_premises verify_sig pub root tok tok' ->
  (length (all_blocks tok') < length (all_blocks tok))%nat ->
  verify verify_sig pub root tok' = false.
Proof.
  intros vs pub root tok tok' (H1 & H2 & H3 & H4 & H5 & H6).
  exact (truncation_rejected vs pub root tok tok' H1 H2 H3 H4 H5 H6).
Qed.
Print Assumptions C01_truncation_rejected.

(* two honest tokens under the same root, block keys pairwise distinct: whatever verifies
   extends one of them; blocks of the two are never mixed *)
Theorem C01_splice_rejected : forall verify_sig pub root t1 t2 tok',
  verify verify_sig pub root t1 = true -> verify verify_sig pub root t2 = true ->
  layout_ok t1 = true -> layout_ok t2 = true ->
  NoDup (root :: map qkey (tl (queries root t1)) ++ map qkey (tl (queries root t2))) ->
  (forall k m s, In k (map qkey (queries root t1 ++ queries root t2)) -> verify_sig k m s = true ->
                 In (k, m, s) (queries root t1 ++ queries root t2)) ->
  (forall sk k, t_proof tok' = Secret sk ->
     pub (pk_alg (b_next (last_block tok'))) sk = Some k ->
     ~ In k (map qkey (queries root t1 ++ queries root t2))) ->
  keys_ok tok' = true ->
  verify verify_sig pub root tok' = true ->
  prefix_conclusion t1 tok' \/ prefix_conclusion t2 tok'.
Proof. exact splice_rejected. Qed.
Print Assumptions C01_splice_rejected.

(* Full statement wanted for splices: the same conclusion when the two tokens were built with
   *identical* block keys and signature version 1.  Proved here: the part that makes it true,
   namely that a version-1 block message determines the previous signature it was made for
   (for signatures of equal length, which is the case of ed25519); what is missing is the
   chain induction with a key-indexed, previous-signature-indexed family of honest triples.
   (With identical keys and version 0 the splice is *accepted*, by the model and by the
   implementation alike: version 0 messages do not contain the previous signature; fresh
   keys per block are what excludes it, and the correspondence exercises exactly this.) *)
Theorem C01_splice_same_keys_v1_partial : forall p p' b,
  b_version b = 1 -> length p = length p' -> msg_block p b = msg_block p' b -> p = p'.
Proof. exact prevsig_bound_v1. Qed.
Print Assumptions C01_splice_same_keys_v1_partial.

(* a token verifies under a root key only if the holder of that key signed its authority block *)
Theorem C01_wrong_root_rejected : forall verify_sig pub root' (issued : list (bytes * bytes)) t,
  (forall m s, verify_sig root' m s = true -> In (m, s) issued) ->
  ~ In (msg_authority (t_authority t), b_sig (t_authority t)) issued ->
  verify verify_sig pub root' t = false.
Proof. exact wrong_root_rejected. Qed.
Print Assumptions C01_wrong_root_rejected.

(* ------------------------------------------------------------------ non-vacuity *)
(* A 3-block token: authority (version 0, ed25519 keys), a third-party block (version 1,
   secp256r1 next key, secp256r1 external key), a first-party block (version 1); unsealed.
   The scheme accepts exactly the honest triples, and anything under the adversary's key. *)
Definition rep (n : nat) (x : N) : bytes := repeat x n.
Definition ex_root := mkpub Ed25519 (rep 32 1).
Definition ex_k0 := mkpub Ed25519 (rep 32 10).
Definition ex_k1 := mkpub Secp256r1 (2 :: rep 32 11).
Definition ex_k2 := mkpub Ed25519 (rep 32 12).
Definition ex_ext := mkpub Secp256r1 (3 :: rep 32 13).
Definition ex_adv := mkpub Ed25519 (rep 32 99).
Definition ex_tok : token :=
  mktoken (Some 7)
    (mkblock [1; 2; 3] ex_k0 (rep 64 21) None 0)
    [mkblock [4; 5] ex_k1 (rep 64 22) (Some (ex_ext, rep 70 24)) 1;
     mkblock [6] ex_k2 (rep 64 23) None 1]
    (Secret [7]).
Definition ex_pub (a : alg) (sk : bytes) : option pubkey :=
  if bytes_eqb sk [7] then Some ex_k2 else if bytes_eqb sk [9] then Some ex_adv else None.
Definition ex_verify := ideal_verify (queries ex_root ex_tok) [ex_k2; ex_adv].

(* the holder extends the token with its own block; the theorem's conclusion holds with a
   non-empty rest *)
Definition ex_extended : token :=
  mktoken None (t_authority ex_tok)
    (t_blocks ex_tok ++ [mkblock [8] ex_adv (rep 64 25) None 1]) (Secret [9]).
(* the third-party block's payload changed *)
Definition ex_mutated : token :=
  mktoken (Some 7) (t_authority ex_tok)
    [mkblock [4; 6] ex_k1 (rep 64 22) (Some (ex_ext, rep 70 24)) 1;
     mkblock [6] ex_k2 (rep 64 23) None 1]
    (Secret [7]).

Example C01_example_premises_hold :
  C01_premises ex_verify ex_pub ex_root ex_tok ex_extended /\
  C01_premises ex_verify ex_pub ex_root ex_tok ex_mutated /\
  verify ex_verify ex_pub ex_root ex_extended = true /\
  verify ex_verify ex_pub ex_root ex_mutated = false.
Proof.
  assert (Hnd : NoDup (map qkey (queries ex_root ex_tok))).
  { vm_compute. repeat constructor; cbn; intros H; repeat (destruct H as [H | H]; [discriminate H|]); exact H. }
  assert (Heuf : forall k m s, In k (map qkey (queries ex_root ex_tok)) -> ex_verify k m s = true ->
                               In (k, m, s) (queries ex_root ex_tok)).
  { intros k m s Hk Hv. apply (ideal_verify_sound _ [ex_k2; ex_adv]); [|exact Hv].
    intros Hin. vm_compute in Hk.
    repeat (destruct Hk as [Hk | Hk]; [subst k; vm_compute in Hin;
            repeat (destruct Hin as [Hin | Hin]; [discriminate Hin|]); exact Hin|]). exact Hk. }
  assert (Hsec : forall tok', (t_proof tok' = Secret [7] \/ t_proof tok' = Secret [9]) ->
            b_next (last_block tok') = ex_k2 \/ b_next (last_block tok') = ex_adv ->
            forall sk k, t_proof tok' = Secret sk ->
            ex_pub (pk_alg (b_next (last_block tok'))) sk = Some k ->
            ~ In k (map qkey (queries ex_root ex_tok))).
  { intros tok' Hp _ sk k Hsk Hpub Hin. unfold ex_pub in Hpub.
    assert (Hk : k = ex_k2 \/ k = ex_adv).
    { destruct (bytes_eqb sk [7]); [left; congruence|]. destruct (bytes_eqb sk [9]); [right; congruence | discriminate]. }
    vm_compute in Hin. destruct Hk; subst k;
      repeat (destruct Hin as [Hin | Hin]; [discriminate Hin|]); exact Hin. }
  split; [|split; [|split]].
  - repeat split; try assumption; try (vm_compute; reflexivity).
    apply Hsec; [right; reflexivity | right; reflexivity].
  - repeat split; try assumption; try (vm_compute; reflexivity).
    apply Hsec; [left; reflexivity | left; reflexivity].
  - vm_compute. reflexivity.
  - vm_compute. reflexivity.
Qed.

Example C01_example_conclusion :
  exists l2, all_blocks ex_extended = (all_blocks ex_tok ++ l2)%list /\ l2 <> [].
Proof. eexists. split; [reflexivity | discriminate]. Qed.

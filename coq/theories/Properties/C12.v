(* C12 -- A token means the same in memory and after a round trip, on every API path.
   Only statements here; proofs are in Proofs/SymbolsProofs.v.

   Model/Symbols.v carries two variants of the token operations: [Faithful] (the unchanged
   code) and [Repaired] (UnverifiedBiscuit::append_third_party and UnverifiedBiscuit::block
   aligned with their Biscuit counterparts).  A history is an initial content and a list of
   operations, each on the Biscuit side [V] or the UnverifiedBiscuit side [U]; a failing
   operation leaves the token unchanged. *)
From Biscuit Require Import Model.Symbols Proofs.SymbolsProofs.

(* For every history -- any mix of append, append_third_party, seal, reload on both token
   types, and hand-made first-party blocks that were accepted -- the token reached reloads,
   with the same tables, every block reads and prints the same on both token types, exposes
   the same symbols and keys, and every probe authorizer gives the same result. *)
Theorem C12_tables_invariant : forall (c0 : acontent) (ops : list op),
  let t := snd (run Repaired c0 ops) in
  exists t', tok_reload t = TOk t' /\
    t_strings t' = t_strings t /\ t_keys t' = t_keys t /\
    (forall sd i, block_view Repaired sd t' i = block_view Repaired sd t i) /\
    (forall sd i, print_block_source Repaired sd t' i = print_block_source Repaired sd t i) /\
    (forall i, block_symbols t' i = block_symbols t i) /\
    (forall i, block_public_keys t' i = block_public_keys t i) /\
    (forall p, authorize Repaired t' p = authorize Repaired t p).
Proof. exact tables_invariant. Qed.
Print Assumptions C12_tables_invariant.

(* the invariant behind it: the token tables are exactly what loading rebuilds from the
   first-party blocks, in order (third-party blocks contribute nothing) *)
Theorem C12_tables_are_first_party_tables : forall (c0 : acontent) (ops : list op),
  let t := snd (run Repaired c0 ops) in
  tok_reload t = TOk t /\
  t_strings t = fp_strings (t_blocks t) /\ t_keys t = fp_keys (t_blocks t).
Proof.
  intros c0 ops t. pose proof (inv_run c0 ops) as H. split; [apply inv_reload; exact H|].
  apply load_tables_ok in H. apply pair_equal_spec in H. destruct H as [Hs Hk]. split; [exact Hs | exact Hk].
Qed.
Print Assumptions C12_tables_are_first_party_tables.

(* Every string and key reference written by the block builder resolves -- in the token as
   built, and in the token as loaded, through Biscuit and through UnverifiedBiscuit -- to
   what the author of the block supplied; [run_a] returns, next to the state, the contents
   the authors wrote, one per block. *)
Theorem C12_references_resolve : forall (c0 : acontent) (ops : list op),
  forallb is_api ops = true ->
  let t := snd (fst (run_a Repaired c0 ops)) in
  let auth := snd (run_a Repaired c0 ops) in
  length auth = length (t_blocks t) /\
  forall sd i c, nth_error auth i = Some c ->
    block_view Repaired sd t i = TOk (authored c) /\
    exists t', tok_reload t = TOk t' /\ block_view Repaired sd t' i = TOk (authored c).
Proof. exact references_resolve. Qed.
Print Assumptions C12_references_resolve.

(* the block builder alone: whatever the tables it starts from, the block it produces
   declares only new, pairwise different entries and its references resolve against the
   extended tables and every further extension of them *)
Theorem C12_build_block_resolves : forall (t : tables) (ext : option key) (c : acontent),
  let b := build_block t ext c in
  NoDup (b_strings b) /\ NoDup (b_keys b) /\
  (forall x, In x (b_strings b) -> ~ In x default_symbols /\ ~ In x (fst t)) /\
  (forall k, In k (b_keys b) -> ~ In k (snd t)) /\
  (forall ds dk, resolve_content (fst t ++ b_strings b ++ ds, snd t ++ b_keys b ++ dk) (b_content b)
                 = authored c).
Proof.
  intros t ext c b. destruct (build_block_spec t ext c) as [_ [Ns [Nk [Fs [Fk Hr]]]]].
  split; [exact Ns|]. split; [exact Nk|]. split; [exact Fs|]. split; [exact Fk|].
  intros ds dk. apply Hr. split; cbn [fst snd]; [exists ds | exists dk]; apply app_assoc.
Qed.
Print Assumptions C12_build_block_resolves.

(* A first-party block that redeclares a default symbol, a symbol or a key of an earlier
   first-party block (or lists a key twice) makes loading fail, wherever it sits. *)
Theorem C12_overlap_rejected : forall ss ks sl (pre : list block) (b : block) (post : list block),
  b_ext b = None ->
  (exists x, In x (b_strings b) /\ (In x default_symbols \/ In x (fp_strings pre))) \/
  (exists k, In k (b_keys b) /\ In k (fp_keys pre)) \/
  ~ NoDup (b_keys b) ->
  exists e, tok_reload (mktoken ss ks (pre ++ b :: post) sl) = TErr e.
Proof. exact overlap_rejected_token. Qed.
Print Assumptions C12_overlap_rejected.

Theorem C12_hand_made_overlap_rejected : forall (t : token) (b : block),
  b_ext b = None ->
  (exists x, In x (b_strings b) /\ (In x default_symbols \/ In x (fp_strings (t_blocks t)))) \/
  (exists k, In k (b_keys b) /\ In k (fp_keys (t_blocks t))) \/
  ~ NoDup (b_keys b) ->
  exists e, tok_append_raw t b = TErr e.
Proof. exact raw_overlap_rejected. Qed.
Print Assumptions C12_hand_made_overlap_rejected.

(* The unchanged code: after UnverifiedBiscuit::append_third_party of a block declaring a
   key, a later block "trusting k0" is read back with an unknown key: key tables, printed
   source and authorization all differ between the in-memory token and its round trip. *)
Theorem C12_unverified_tp_refuted : exists (c0 : acontent) (ops : list op),
  let t := snd (run Faithful c0 ops) in
  exists t', tok_reload t = TOk t' /\
    t_keys t' <> t_keys t /\
    print_block_source Faithful V t' 2 <> print_block_source Faithful V t 2 /\
    print_block_source Faithful V t' 2 =
      TOk (str "check if p(""file1"") trusting <unknown public key id>;" ++ [10%N]) /\
    authorize Faithful t' None <> authorize Faithful t None.
Proof.
  exists w_c0, w_ops. destruct unverified_tp_witness as [t' [Hr [Hk [Hk' [Hp [Hp' [Ha Ha']]]]]]].
  exists t'. split; [exact Hr|]. split; [rewrite Hk, Hk'; discriminate|].
  split; [rewrite Hp, Hp'; discriminate|]. split; [exact Hp'|]. rewrite Ha, Ha'. discriminate.
Qed.
Print Assumptions C12_unverified_tp_refuted.

(* The unchanged code: UnverifiedBiscuit::print_block_source reads a third-party block with
   the token's key table -- "trusting k1" shows as "trusting k3"; verified operations only. *)
Theorem C12_unverified_block_view_refuted : exists (c0 : acontent) (ops : list op) (c : acontent),
  forallb (fun o => negb (is_unverified_tp o)) ops = true /\
  let t := snd (fst (run_a Faithful c0 ops)) in
  nth_error (snd (run_a Faithful c0 ops)) 1 = Some c /\
  block_view Faithful V t 1 = TOk (authored c) /\
  print_block_source Faithful U t 1 <> print_block_source Faithful V t 1.
Proof.
  exists w2_c0, w2_ops, w_tp. split; [reflexivity|].
  destruct unverified_view_witness as [Hn [Hv [Hp Hu]]]. split; [exact Hn|]. split; [exact Hv|].
  rewrite Hp, Hu. discriminate.
Qed.
Print Assumptions C12_unverified_block_view_refuted.

(* The unchanged code deviates from the repaired model only through unverified third-party
   appends (and the unverified reading of third-party blocks): every other history reaches
   the same state, so the invariant above holds of it for the Biscuit view. *)
Theorem C12_faithful_without_unverified_third_party : forall (c0 : acontent) (ops : list op),
  forallb (fun o => negb (is_unverified_tp o)) ops = true ->
  run Faithful c0 ops = run Repaired c0 ops /\
  let t := snd (run Faithful c0 ops) in
  tok_reload t = TOk t /\ forall i, block_view Faithful V t i = block_view Repaired V t i.
Proof.
  intros c0 ops H. pose proof (faithful_on_verified_path c0 ops H) as E. split; [exact E|].
  cbn zeta. rewrite E. split; [apply run_reload_fixpoint|]. intro i. reflexivity.
Qed.
Print Assumptions C12_faithful_without_unverified_third_party.

(* ---- non-vacuity: the hypotheses are met by concrete, non-trivial instances ---- *)
Example C12_example_history :
  let s := run Repaired w_c0 ex_ops in
  fst s = U /\ length (t_blocks (snd s)) = 3%nat /\ t_sealed (snd s) = true /\
  t_strings (snd s) = [str "p"; str "file1"] /\ t_keys (snd s) = [wk "0"] /\
  snd (run_a Repaired w_c0 ex_ops) = [w_c0; w_tp; w_later] /\
  forallb is_api ex_ops = true.
Proof. destruct ex_run as [A [B [C [D [E F]]]]]. repeat split; assumption || reflexivity. Qed.

Example C12_example_repaired_on_witness :
  let s := snd (run Repaired w_c0 w_ops) in
  tok_reload s = TOk s /\ t_keys s = [wk "0"] /\
  print_block_source Repaired V s 2 = TOk (str "check if p(""file1"") trusting ed25519/k0;" ++ [10%N]) /\
  authorize Repaired s None = ADone true [(1%N, 0%N)].
Proof. exact unverified_tp_repaired. Qed.

Example C12_example_overlap :
  let t := snd (run Repaired w_c0 [OAppend V w_later]) in
  tok_append_raw t (ex_raw [str "read"] []) = TErr ESymbolOverlap /\
  tok_append_raw t (ex_raw [str "zz"; str "file1"] []) = TErr ESymbolOverlap /\
  tok_append_raw t (ex_raw [str "zz"] [wk "0"]) = TErr EKeyOverlap /\
  tok_append_raw t (ex_raw [str "zz"] [wk "1"; wk "1"]) = TErr EKeyOverlap /\
  exists t', tok_append_raw t (ex_raw [str "zz"] [wk "1"]) = TOk t' /\ t_strings t' = [str "p"; str "file1"; str "zz"].
Proof. exact ex_raw_refused. Qed.

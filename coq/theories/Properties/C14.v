(* C14 -- Printed Datalog parses back to the same program.
   Only statements here; proofs are in Proofs/Text*.v.

   [print_* true] is the repaired printer (strings escaped); [print_* false] is the printer
   of the unchanged code (no escaping).  The parser model is fuelled: every theorem states
   the fuel that suffices (a size measure of the item); [PFuel] is never the result then.
   The correspondence ties the model printers to Display / SymbolTable::print_* and the model
   parser to biscuit_parser::parser on every run. *)
From Biscuit Require Import Model.Text Proofs.TextLeaves Proofs.TextDate Proofs.TextTerm Proofs.TextItems
  Proofs.TextExprRules Proofs.TextExprOps Proofs.TextExpr Proofs.TextRules.
Local Open Scope N_scope.

(* ------------------------------------------------------------------ leaves *)

(* every i64, followed by anything that is not a digit *)
Theorem C14_int : forall (i : Z) (rest : text), in_i64 i = true -> no_digit_head rest ->
  parse_integer (print_int i ++ rest) = Some (i, rest).
Proof. exact int_roundtrip. Qed.
Print Assumptions C14_int.

Example C14_int_ex : parse_integer (print_int (-9223372036854775808)%Z ++ str ", 1)")
                     = Some ((-9223372036854775808)%Z, str ", 1)").
Proof. vm_compute. reflexivity. Qed.

(* every non-empty byte string, followed by anything that is not a hex digit *)
Theorem C14_bytes : forall (b : bytes) (rest : text),
  Forall (fun x => x < 256) b -> b <> [] -> no_hex_head rest ->
  parse_bytes (str "hex:" ++ print_hex b ++ rest) = Some (b, rest).
Proof. exact bytes_roundtrip. Qed.
Print Assumptions C14_bytes.

Example C14_bytes_ex : parse_bytes (str "hex:" ++ print_hex [0; 171; 255] ++ str ")") = Some ([0; 171; 255], str ")").
Proof. vm_compute. reflexivity. Qed.

(* the empty byte array prints as `hex:`, which the grammar rejects (parse_hex = take_while1) *)
Theorem C14_bytes_empty_refuted : forall esc,
  exists b, parse_bytes (print_term esc (TBytes b)) <> Some (b, []).
Proof. intro esc. exists []. destruct esc; vm_compute; discriminate. Qed.
Print Assumptions C14_bytes_empty_refuted.

(* repaired printer: every string over the full character set, whatever follows *)
Theorem C14_string : forall (s rest : text),
  parse_string (print_string true s ++ rest) = Some (s, rest).
Proof. exact string_roundtrip. Qed.
Print Assumptions C14_string.

Example C14_string_ex :
  parse_string (print_string true [120; 34; 41; 59; 32; 92; 10; 0; 128512] ++ str ")")
  = Some ([120; 34; 41; 59; 32; 92; 10; 0; 128512], str ")").
Proof. vm_compute. reflexivity. Qed.

(* the unchanged printer does not escape: a string containing a double quote does not come back *)
Theorem C14_string_refuted :
  exists s, parse_string (print_string false s) <> Some (s, []).
Proof. exists [cQuote]. vm_compute. discriminate. Qed.
Print Assumptions C14_string_refuted.

(* ... and is right exactly when there is nothing to escape *)
Theorem C14_string_unchanged_printer_partial : forall (s rest : text), plain s = true ->
  parse_string (print_string false s ++ rest) = Some (s, rest).
Proof. exact string_roundtrip_faithful_plain. Qed.
Print Assumptions C14_string_unchanged_printer_partial.

(* No string value can make printed text parse as different code: in every term context,
   with fuel >= 1, the printed literal is read as exactly one string term and what follows
   it -- anything -- is left untouched. *)
Theorem C14_no_injection : forall (s rest : text) (c : tctx) (f : nat),
  p_term (S f) c (print_string true s ++ rest) = POk (TStr s) rest.
Proof.
  intros s rest c f. unfold p_term. cbn [p_t t_step]. unfold t_term.
  assert (W : ws (print_string true s ++ rest) = print_string true s ++ rest) by reflexivity.
  rewrite W. rewrite (scalar_str true _ s rest) by reflexivity. reflexivity.
Qed.
Print Assumptions C14_no_injection.

(* the unchanged printer: one fact whose string is  x"); admin("root  reads back as two facts *)
Theorem C14_injection_refuted :
  exists s src, parse_block_source (print_pred false (mkpred (str "f") [TStr s]) ++ [cSemi]) = Some src
                /\ length (s_facts src) = 2%nat.
Proof.
  exists (str "x" ++ [cQuote] ++ str "); admin(" ++ [cQuote] ++ str "root").
  eexists. split; [vm_compute; reflexivity|reflexivity].
Qed.
Print Assumptions C14_injection_refuted.

(* ------------------------------------------------------------------ dates *)

(* civil-date arithmetic: every day number, no bound *)
Theorem C14_civil_roundtrip : forall z : Z,
  let '(y, m, d) := civil_from_days z in
  valid_ymd y m d /\ days_from_civil y m d = z.
Proof. exact civil_roundtrip. Qed.
Print Assumptions C14_civil_roundtrip.

(* every second from 1970-01-01T00:00:00Z to 9999-12-31T23:59:59Z *)
Theorem C14_date : forall (d : Z) (rest : text), (0 <= d < 253402300800)%Z -> date_stop rest ->
  parse_date (print_date d ++ rest) = Some (d, rest).
Proof. exact date_roundtrip. Qed.
Print Assumptions C14_date.

Example C14_date_ex : parse_date (print_date 253402300799%Z ++ str ")") = Some (253402300799%Z, str ")").
Proof. vm_compute. reflexivity. Qed.

(* beyond the bound the unchanged code prints `<invalid date>`, and u64::MAX as a 1969 date *)
Theorem C14_date_range_refuted :
  print_date 253402300800%Z = invalid_date /\ parse_date invalid_date = None /\
  print_date 18446744073709551615%Z = str "1969-12-31T23:59:59Z" /\
  parse_date (print_date 18446744073709551615%Z) = None.
Proof. repeat split; vm_compute; reflexivity. Qed.
Print Assumptions C14_date_range_refuted.

(* ------------------------------------------------------------------ terms *)

(* Every well-formed term, nested to any depth, in each of the three term contexts of the
   grammar (term / term_in_fact / term_in_set), followed by a separator, a closing bracket
   or the end of input.  [term_okb esc c t] is the representation invariant of the builder
   types (sets without duplicates and of one kind, distinct map keys, i64, u8) plus what the
   grammar of context [c] can express; with [esc = false] strings must need no escaping. *)
Theorem C14_term : forall (esc : bool) (t : term) (c : tctx) (rest : text) (f : nat),
  term_okb esc c t = true -> tstop rest -> (tsize t <= f)%nat ->
  p_term f c (print_term esc t ++ rest) = POk t rest.
Proof. intros. now apply p_term_ok. Qed.
Print Assumptions C14_term.

Definition C14_term_example : term :=
  TArray [TMap [(MKStr (str "k"), TSet [TInt 1; TInt (-2)]); (MKInt 7, TMap [(MKParam (str "q"), TNull)])];
          TSet [TStr [34; 92; 10]; TStr []]; TDate 1575294593; TBytes [0; 255]; TNull; TBool true; TParam (str "p")].
Example C14_term_ex : term_okb true CFact C14_term_example = true /\
                      p_term 40 CFact (print_term true C14_term_example ++ str ")") = POk C14_term_example (str ")").
Proof. split; vm_compute; reflexivity. Qed.

(* shapes the unchanged grammar does not take back (each reproduced on the implementation) *)
Theorem C14_singleton_set_refuted : forall esc,
  p_term 10 CFact (print_term esc (TSet [TBool true]) ++ [cRPar]) = POk (TParam (str "true")) [cRPar].
Proof. intro esc. destruct esc; vm_compute; reflexivity. Qed.
Print Assumptions C14_singleton_set_refuted.

Theorem C14_empty_map_in_fact_refuted : forall esc,
  p_term 10 CFact (print_term esc (TMap []) ++ [cRPar]) = PFail /\
  p_term 10 CTerm (print_term esc (TMap []) ++ [cRPar]) = POk (TMap []) [cRPar].
Proof. intro esc. destruct esc; split; vm_compute; reflexivity. Qed.
Print Assumptions C14_empty_map_in_fact_refuted.

(* ------------------------------------------------------------------ predicates, facts, scopes *)

Theorem C14_predicate : forall (esc : bool) (p : pred) (c : tctx) (allow_empty : bool) (rest : text) (f : nat),
  pred_okb esc c p = true -> (lsize (pterms p) + 1 <= f)%nat ->
  p_pred_gen f c allow_empty (print_pred esc p ++ rest) = POk p rest.
Proof. intros. now apply pred_roundtrip. Qed.
Print Assumptions C14_predicate.

Theorem C14_fact : forall (esc : bool) (p : pred) (f : nat),
  pred_okb esc CFact p = true -> (lsize (pterms p) + 1 <= f)%nat ->
  at_eof (p_fact_inner f (print_pred esc p)) = Some p.
Proof. intros. now apply fact_roundtrip. Qed.
Print Assumptions C14_fact.

Example C14_fact_ex :
  let p := mkpred (str "right") [TStr (str "file") ; C14_term_example] in
  pred_okb true CFact p = true /\ parse_fact (print_pred true p) = Some p.
Proof. split; vm_compute; reflexivity. Qed.

Theorem C14_scope : forall (s : scope) (rest : text), scope_okb s = true -> no_hex_head rest ->
  p_scope (print_scope s ++ rest) = Some (s, rest).
Proof. exact scope_roundtrip. Qed.
Print Assumptions C14_scope.

Example C14_scope_ex :
  p_scope (print_scope (SKey Secp256r1 [3; 113; 182]) ++ str ", previous") = Some (SKey Secp256r1 [3; 113; 182], str ", previous").
Proof. vm_compute. reflexivity. Qed.

(* a rule whose head has no terms does not parse (separated_list0 over cut(term)) *)
Theorem C14_empty_head_refuted :
  parse_rule (str "h() <- p(1)") = None /\ parse_rule (str "h(0) <- p(1)") <> None.
Proof. split; vm_compute; [reflexivity|discriminate]. Qed.
Print Assumptions C14_empty_head_refuted.

(* ------------------------------------------------------------------ expressions *)

(* The printer inserts no parentheses of its own (Parens is an explicit op), so the statement
   is about the image of the grammar: [wfl esc 0 e] -- operands of a lower precedence level are
   wrapped in Parens, comparisons do not chain, the right operand of && / || is a closure
   without parameters, a tree ending in an unwrapped prefix negation is never the left operand
   of + - * / (the grammar gives `!` an operand of the additive level: a * !b + c is
   a * !(b + c)), a method receiver is a value, a parenthesised expression or another method
   call, but not a bare date literal (2020-..Z.type() is not a token sequence of the grammar),
   .all / .any take a closure with one parameter, values are well-formed terms.
   Covered: values, parentheses, prefix negation, every infix operator of the 8 binary
   precedence levels, the unary methods .length() .type() .extern::f(), the binary methods
   .contains .starts_with .ends_with .matches .intersection .union .get .extern::f(x) and
   .all($p -> ..) / .any($p -> ..), nested to any depth -- the whole image of `expr`. *)
Theorem C14_expr : forall (esc : bool) (e : expr) (r : text),
  wfl esc 0 e = true -> estop r ->
  exists g0, forall g, (g0 <= g)%nat -> p_expr g (print_expr esc e ++ r) = POk e r.
Proof. exact expr_roundtrip. Qed.
Print Assumptions C14_expr.

(* what the builder stores and prints is the op list: printing the post-order of a tree with
   the stack machine gives the text of the tree *)
Theorem C14_print_ops : forall (esc : bool) (e : expr),
  print_ops esc (opcodes e) = Some (print_expr esc e).
Proof. exact print_ops_opcodes. Qed.
Print Assumptions C14_print_ops.

Definition C14_expr_example : expr :=
  (* $a * !($b + 2) - 1 <= 3 && !true || ("x" === "y").length().contains(1) || [1, 2].all($p -> $p > 0) *)
  let v (s : string) := EValue (TVar (str s)) in
  let i z := EValue (TInt z) in
  EBinary BLazyOr
   (EBinary BLazyOr
    (EBinary BLazyAnd
       (EBinary BLessOrEqual
          (EBinary BMul (v "a"%string) (EUnary UNegate (EBinary BSub (EUnary UParens (EBinary BAdd (v "b"%string) (i 2%Z))) (i 1%Z))))
          (i 3%Z))
       (EClosure [] (EUnary UNegate (EValue (TBool true)))))
    (EClosure [] (EBinary BContains
                    (EUnary ULength (EUnary UParens (EBinary BEqual (EValue (TStr (str "x"))) (EValue (TStr (str "y"))))))
                    (i 1%Z))))
   (EClosure [] (EBinary BAll (EValue (TArray [TInt 1; TInt 2]))
                   (EClosure [str "p"] (EBinary BGreaterThan (v "p"%string) (i 0%Z))))).

Example C14_expr_ex :
  wfl true 0 C14_expr_example = true /\
  p_expr 600 (print_expr true C14_expr_example ++ str ", 1") = POk C14_expr_example (str ", 1") /\
  print_expr true C14_expr_example =
    str "$a * !($b + 2) - 1 <= 3 && !true || (""x"" === ""y"").length().contains(1) || [1, 2].all($p -> $p > 0)".
Proof. repeat split; vm_compute; reflexivity. Qed.

(* outside the image the statement is false: (a + b) * c built without the Parens op prints
   as a + b * c, which is another tree; strict And prints as `&&!`, read as `&& !` *)
Theorem C14_expr_outside_image :
  let v (s : string) := EValue (TVar (str s)) in
  let e1 := EBinary BMul (EBinary BAdd (v "a"%string) (v "b"%string)) (v "c"%string) in
  let e2 := EBinary BAnd (v "a"%string) (v "b"%string) in
  wfl true 0 e1 = false /\ wfl true 0 e2 = false /\
  p_expr 100 (print_expr true e1) = POk (EBinary BAdd (v "a"%string) (EBinary BMul (v "b"%string) (v "c"%string))) [] /\
  p_expr 100 (print_expr true e2) = POk (EBinary BLazyAnd (v "a"%string) (EClosure [] (EUnary UNegate (v "b"%string)))) [].
Proof. repeat split; vm_compute; reflexivity. Qed.
Print Assumptions C14_expr_outside_image.

(* a date literal directly before a method call is outside the image too (no text produces
   it, and its printed text does not parse) *)
Theorem C14_date_receiver_outside_image :
  let e := EUnary UTypeOf (EValue (TDate 1575294593)) in
  wfl true 0 e = false /\ print_expr true e = str "2019-12-02T13:49:53Z.type()" /\
  p_expr 100 (print_expr true e) <> POk e [].
Proof. split; [vm_compute; reflexivity|split; [vm_compute; reflexivity|vm_compute; discriminate]]. Qed.
Print Assumptions C14_date_receiver_outside_image.

(* ------------------------------------------------------------------ rules, checks, policies *)

(* A rule  head <- predicates, expressions trusting scopes : head and body predicates
   well-formed (at least one term each), expressions in the image of the grammar, at least
   one body element, scopes well-formed, and the rule passes the parser's own
   validate_variables (head and expression variables bound by body predicates).  The text is
   the one the model printer produces for the rule as the builder stores it (expressions as
   op lists); for every sufficiently large fuel the parser returns exactly that rule. *)
Theorem C14_rule : forall (esc : bool) (h : pred) (ps : list pred) (es : list expr) (ss : list scope),
  pred_okb esc CTerm h = true -> forallb (pred_okb esc CTerm) ps = true ->
  forallb (wfl esc 0) es = true -> items_of ps es <> [] -> forallb scope_okb ss = true ->
  validate_variables (mkrule h ps (map opcodes es) ss) = true ->
  exists t, print_rule esc (mkrule h ps (map opcodes es) ss) = Some t /\
    exists g0, forall g, (g0 <= g)%nat ->
      at_eof (p_rule_inner g t) = Some (mkrule h ps (map opcodes es) ss).
Proof. exact rule_printed_roundtrip. Qed.
Print Assumptions C14_rule.

(* checks of the three kinds and policies: one or more alternatives joined by ` or `, each a
   rule body (alt = body predicates, expression trees, scopes) with the fixed head query() *)
Theorem C14_check : forall (esc : bool) (k : ckind) (a : alt) (l : list alt),
  forallb (alt_ok esc) (a :: l) = true ->
  let c := mkcheck (map alt_rule (a :: l)) k in
  exists t, print_check esc c = Some t /\
    exists g0, forall g, (g0 <= g)%nat -> at_eof (p_check_inner g t) = Some c.
Proof. exact check_printed_roundtrip. Qed.
Print Assumptions C14_check.

Theorem C14_policy : forall (esc : bool) (k : pkind) (a : alt) (l : list alt),
  forallb (alt_ok esc) (a :: l) = true ->
  let p := mkpolicy (map alt_rule (a :: l)) k in
  exists t, print_policy esc p = Some t /\
    exists g0, forall g, (g0 <= g)%nat -> at_eof (p_policy_inner g t) = Some p.
Proof. exact policy_printed_roundtrip. Qed.
Print Assumptions C14_policy.

Definition C14_rule_example : rule :=
  mkrule (mkpred (str "right") [TVar (str "f"); TStr (str "read")])
         [mkpred (str "resource") [TVar (str "f")]; mkpred (str "owner") [TVar (str "u"); TVar (str "f")]]
         (map opcodes [EBinary BLazyAnd
                         (EBinary BPrefix (EValue (TVar (str "f"))) (EValue (TStr [47; 34; 92])))
                         (EClosure [] (EBinary BHeterogeneousNotEqual (EValue (TVar (str "u"))) (EValue TNull)))])
         [SAuthority; SKey Ed25519 [1; 2; 255]].

Example C14_rule_ex :
  validate_variables C14_rule_example = true /\
  option_map parse_rule (print_rule true C14_rule_example) = Some (Some C14_rule_example) /\
  print_rule true C14_rule_example
  = Some (str "right($f, ""read"") <- resource($f), owner($u, $f), $f.starts_with(""/\""\\"") && $u != null trusting authority, ed25519/0102ff").
Proof. repeat split; vm_compute; reflexivity. Qed.

Example C14_check_ex :
  let c := mkcheck (map alt_rule [([mkpred (str "a") [TInt 1]], [], []);
                                  ([], [EBinary BLessThan (EValue (TInt 1)) (EValue (TInt 2))], [SPrevious])]) RejectIf in
  forallb (alt_ok true) [([mkpred (str "a") [TInt 1]], [], []);
                         ([], [EBinary BLessThan (EValue (TInt 1)) (EValue (TInt 2))], [SPrevious])] = true /\
  print_check true c = Some (str "reject if a(1) or 1 < 2 trusting previous") /\
  option_map parse_check (print_check true c) = Some (Some c).
Proof. repeat split; vm_compute; reflexivity. Qed.

(* C15 -- Revocation identifiers are stable, unique and not malleable.
   Only statements here; proofs are in Proofs/ChainOps.v.
   [revocation_ids t] = the signature bytes of each block, in order (Model/Token.v, mirroring
   Biscuit::revocation_identifiers / UnverifiedBiscuit::revocation_identifiers). *)
From Biscuit Require Import Model.Token Model.Readings Proofs.ChainLayout Proofs.ChainProofs Proofs.ChainOps.
Local Open Scope N_scope.

(* attenuating, third-party attenuating, sealing and reloading keep the identifiers of the
   existing blocks, in order *)
Theorem C15_stable : forall verify_sig pub sign key_canon t,
  (forall next data v t', append pub sign t next data v = TOk t' ->
     exists s, revocation_ids t' = revocation_ids t ++ [s]) /\
  (forall expected resp next t', append_third_party verify_sig pub sign t expected resp next = TOk t' ->
     exists s, revocation_ids t' = revocation_ids t ++ [s]) /\
  (forall t', seal sign t = TOk t' -> revocation_ids t' = revocation_ids t) /\
  ((forall b, In b (all_blocks t) -> canon_block key_canon b) ->
   b_ext (t_authority t) = None ->
   (forall sk, t_proof t = Secret sk -> pub (pk_alg (b_next (last_block t))) sk <> None) ->
   exists t', deserialize key_canon pub (to_wire t) = Some t' /\ revocation_ids t' = revocation_ids t).
Proof.
  intros vs pub sign kc t. split; [|split; [|split]].
  - intros next data v t'. apply append_revocation_ids.
  - intros expected resp next t'. apply append_third_party_revocation_ids.
  - intros t' H. now destruct (seal_preserves sign t t' H) as (_ & Hr & _).
  - intros Hc Ha Hp. exists t. split; [now apply reload_ok | reflexivity].
Qed.
Print Assumptions C15_stable.

(* two tokens minted with fresh block keys share no identifier, whatever their contents
   (ideal scheme: a signature value is valid for one key and one message only) *)
Theorem C15_unique : forall verify_sig pub root t1 t2,
  (forall k m s k' m', verify_sig k m s = true -> verify_sig k' m' s = true -> k = k' /\ m = m') ->
  verify verify_sig pub root t1 = true -> verify verify_sig pub root t2 = true ->
  layout_ok t1 = true -> keys_ok t2 = true ->
  (forall k, In k (map b_next (all_blocks t1)) -> ~ In k (map b_next (all_blocks t2))) ->
  ~ In root (map b_next (all_blocks t1)) -> ~ In root (map b_next (all_blocks t2)) ->
  forall s, In s (revocation_ids t1) -> ~ In s (revocation_ids t2).
Proof. exact revocation_ids_unique. Qed.
Print Assumptions C15_unique.

(* under *strong* unforgeability (the premise speaks of triples, signature bytes included) every
   accepted variant presents the honest identifiers, in order, for the honest blocks *)
Theorem C15_not_malleable : forall verify_sig pub root tok tok',
  verify verify_sig pub root tok = true ->
  layout_ok tok = true ->
  NoDup (map qkey (queries root tok)) ->
  (forall k m s, In k (map qkey (queries root tok)) -> verify_sig k m s = true ->
                 In (k, m, s) (queries root tok)) ->
  (forall sk k, t_proof tok' = Secret sk ->
     pub (pk_alg (b_next (last_block tok'))) sk = Some k -> ~ In k (map qkey (queries root tok))) ->
  keys_ok tok' = true ->
  verify verify_sig pub root tok' = true ->
  exists rest, revocation_ids tok' = revocation_ids tok ++ rest /\ (sealed tok = true -> rest = []).
Proof. exact not_malleable. Qed.
Print Assumptions C15_not_malleable.

(* Strong unforgeability is false of ECDSA ((r,s) and (r,n-s) are both valid).  What the chain
   itself binds, whatever the scheme: the previous signature is a field of every version-1 block
   message, the last signature is a field of the seal message ... *)
Theorem C15_inner_signatures_bound :
  (forall p p' b, b_version b = 1 -> length p = length p' -> msg_block p b = msg_block p' b -> p = p') /\
  (forall b s s', length s = length s' -> msg_seal (set_sig b s) = msg_seal (set_sig b s') -> s = s').
Proof. split; [exact prevsig_bound_v1 | exact sealed_sig_bound]. Qed.
Print Assumptions C15_inner_signatures_bound.

(* ... and what it does not bind: the signature bytes of the last block of an unsealed token.
   For every scheme and every unsealed verifying token, any other signature valid for the last
   block's message under the same key gives a verifying token with the same blocks, the same
   earlier identifiers, and that other signature as last identifier. *)
Theorem C15_last_block_malleable : forall verify_sig pub root t s',
  sealed t = false ->
  verify verify_sig pub root t = true ->
  verify_sig (match rev (t_blocks t) with
              | [] => root
              | _ :: r => end_key (b_next (t_authority t)) (rev r)
              end)
             (match rev (t_blocks t) with
              | [] => msg_authority (t_authority t)
              | b :: r => msg_block (end_sig (b_sig (t_authority t)) (rev r)) b
              end) s' = true ->
  verify verify_sig pub root (set_last_sig t s') = true /\
  removelast (revocation_ids (set_last_sig t s')) = removelast (revocation_ids t) /\
  last (revocation_ids (set_last_sig t s')) [] = s'.
Proof. exact last_block_malleable. Qed.
Print Assumptions C15_last_block_malleable.

(* Hence the full statement "no accepted variant presents different identifiers for the same
   blocks" is refuted for the faithful model as soon as the scheme has two signatures for one
   message (the secp256r1 case of the implementation: known finding p256-last-block-s-negation).
   Witness: a scheme where unforgeability holds at the level of *messages* (everything accepted
   under an honest key is an honest message) and one message has a second signature. *)
Definition mal_root := mkpub Secp256r1 (2 :: repeat 1 32).
Definition mal_k0 := mkpub Ed25519 (repeat 10 32).
Definition mal_tok : token :=
  mktoken None (mkblock [1; 2; 3] mal_k0 (repeat 21 70) None 1) [] (Secret [7]).
Definition mal_pub (a : alg) (sk : bytes) : option pubkey :=
  if bytes_eqb sk [7] then Some mal_k0 else None.
Definition mal_verify (k : pubkey) (m s : bytes) : bool :=
  ideal_verify (queries mal_root mal_tok) [] k m s ||
  (pubkey_eqb k mal_root && bytes_eqb m (msg_authority (t_authority mal_tok)) && bytes_eqb s (repeat 22 70)).

Theorem C15_last_block_malleable_refuted :
  exists verify_sig pub root t t',
    (forall k m s, verify_sig k m s = true -> exists s0, In (k, m, s0) (queries root t)) /\
    verify verify_sig pub root t = true /\ verify verify_sig pub root t' = true /\
    map fields_of (all_blocks t') = map fields_of (all_blocks t) /\
    revocation_ids t' <> revocation_ids t.
Proof.
  exists mal_verify, mal_pub, mal_root, mal_tok, (set_last_sig mal_tok (repeat 22 70)).
  split; [|split; [|split; [|split]]].
  - intros k m s H. unfold mal_verify in H. apply orb_true_iff in H as [H | H].
    + exists s. apply (ideal_verify_sound _ [] k m s); [intros [] | exact H].
    + apply andb_true_iff in H as [H _]. apply andb_true_iff in H as [Hk Hm].
      apply pubkey_eqb_eq in Hk. apply bytes_eqb_eq in Hm. subst. eexists. left. reflexivity.
  - vm_compute. reflexivity.
  - vm_compute. reflexivity.
  - reflexivity.
  - vm_compute. discriminate.
Qed.
Print Assumptions C15_last_block_malleable_refuted.

(* ------------------------------------------------------------------ non-vacuity *)
Example C15_example_malleable :
  verify mal_verify mal_pub mal_root mal_tok = true /\
  sealed mal_tok = false /\
  mal_verify mal_root (msg_authority (t_authority mal_tok)) (repeat 22 70) = true /\
  revocation_ids (set_last_sig mal_tok (repeat 22 70)) = [repeat 22 70].
Proof. vm_compute. repeat split. Qed.

(* append and seal through the model's operations (toy correct scheme: signature = key ++ message) *)
Definition st_pub (a : alg) (sk : bytes) : option pubkey := Some (mkpub a sk).
Definition st_sign (a : alg) (sk m : bytes) : bytes := sk ++ m.
Definition st_tok0 : token :=
  match new_token st_pub st_sign None (mkkp Ed25519 [1]) (mkkp Secp256r1 [2]) [5] 3 with
  | TOk t => t
  | TErr _ => mktoken None (mkblock [] (mkpub Ed25519 []) [] None 0) [] (Seal [])
  end.
Example C15_example_stable :
  exists t1 t2, append st_pub st_sign st_tok0 (mkkp Ed25519 [3]) [6] 3 = TOk t1 /\
                seal st_sign t1 = TOk t2 /\
                revocation_ids t1 = revocation_ids st_tok0 ++ [[2; 0; 66; 76; 79; 67; 75; 0; 0; 86; 69; 82; 83; 73; 79; 78; 0; 1; 0; 0; 0; 0; 80; 65; 89; 76; 79; 65; 68; 0; 6; 0; 65; 76; 71; 79; 82; 73; 84; 72; 77; 0; 0; 0; 0; 0; 0; 78; 69; 88; 84; 75; 69; 89; 0; 3; 0; 80; 82; 69; 86; 83; 73; 71; 0] ++ last (revocation_ids st_tok0) []] /\
                revocation_ids t2 = revocation_ids t1.
Proof. eexists. eexists. vm_compute. repeat split. Qed.

(* C06 -- Expression evaluation is total, overflow-checked and type-strict.
   Only statements here; proofs are in Proofs/ExprProofs.v. *)
From Biscuit Require Import Model.Expr Proofs.ExprProofs.

(* add/sub/mul: the exact integer when it fits in i64, Overflow otherwise; never wrapped *)
Theorem C06_arith_checked : forall (O : oracles) (i j : Z) (b : binary) (z : Z),
  In (b, z) [(BAdd, i + j); (BSub, i - j); (BMul, i * j)] ->
  (in_i64 z = true -> eval_binary O b (VInt i) (VInt j) = Ok (VInt z)) /\
  (in_i64 z = false -> eval_binary O b (VInt i) (VInt j) = Err EOverflow).
Proof. exact arith_checked. Qed.
Print Assumptions C06_arith_checked.

Theorem C06_div_checked : forall (O : oracles) (i j : Z),
  (j = 0 -> eval_binary O BDiv (VInt i) (VInt j) = Err EDivZero) /\
  (j <> 0 -> in_i64 (Z.quot i j) = true ->
     eval_binary O BDiv (VInt i) (VInt j) = Ok (VInt (Z.quot i j))) /\
  (j <> 0 -> in_i64 (Z.quot i j) = false ->
     eval_binary O BDiv (VInt i) (VInt j) = Err EDivZero).
Proof. exact div_checked. Qed.
Print Assumptions C06_div_checked.

Theorem C06_arith_never_wraps : forall (O : oracles) b i j k,
  In b [BAdd; BSub; BMul; BDiv] ->
  eval_binary O b (VInt i) (VInt j) = Ok (VInt k) -> in_i64 k = true.
Proof. exact arith_result_in_range. Qed.
Print Assumptions C06_arith_never_wraps.

(* every operand pair outside the operator's type table is InvalidType -- for all values *)
Theorem C06_type_strict : forall (O : oracles) (b : binary) (l r : value),
  type_ok b (tag_of l) (tag_of r) = false -> eval_binary O b l r = Err EInvalidType.
Proof. exact type_strict. Qed.
Print Assumptions C06_type_strict.

(* == and != never fail: different types are simply unequal *)
Theorem C06_heterogeneous_equality : forall (O : oracles) (l r : value),
  (tag_eqb (tag_of l) (tag_of r) = false ->
     eval_binary O BHeterogeneousEqual l r = Ok (VBool false) /\
     eval_binary O BHeterogeneousNotEqual l r = Ok (VBool true)) /\
  (exists x, eval_binary O BHeterogeneousEqual l r = Ok (VBool x) /\
             eval_binary O BHeterogeneousNotEqual l r = Ok (VBool (negb x))).
Proof. exact hetero_total. Qed.
Print Assumptions C06_heterogeneous_equality.

(* && and || evaluate their right side only when needed, whatever it contains *)
Theorem C06_lazy : forall (O : oracles) f e body rest st,
  eval O (S f) e (OBin BLazyOr :: rest) (SClo [] body :: STerm (VBool true) :: st)
    = eval O f e rest (STerm (VBool true) :: st) /\
  eval O (S f) e (OBin BLazyAnd :: rest) (SClo [] body :: STerm (VBool false) :: st)
    = eval O f e rest (STerm (VBool false) :: st) /\
  eval O (S f) e (OBin BLazyOr :: rest) (SClo [] body :: STerm (VBool false) :: st)
    = (do w <- eval O f e body []; eval O f e rest (STerm w :: st)) /\
  eval O (S f) e (OBin BLazyAnd :: rest) (SClo [] body :: STerm (VBool true) :: st)
    = (do w <- eval O f e body []; eval O f e rest (STerm w :: st)).
Proof.
  intros. split; [apply lazy_or_true|]. split; [apply lazy_and_false|].
  split; [apply lazy_or_false | apply lazy_and_true].
Qed.
Print Assumptions C06_lazy.

Theorem C06_lazy_whole_expression : forall (O : oracles) e body,
  evaluate O e [OVal (VBool true); OClo [] body; OBin BLazyOr] = Ok (VBool true) /\
  evaluate O e [OVal (VBool false); OClo [] body; OBin BLazyAnd] = Ok (VBool false).
Proof. exact lazy_whole. Qed.
Print Assumptions C06_lazy_whole_expression.

(* all/any: the body sees exactly its parameter added to the environment, the rest of the
   expression sees the original environment again, shadowing is rejected *)
Theorem C06_closure_binding : forall (O : oracles) f e p body l xs rest st,
  closure_domain l = Some xs -> shadows e [p] = false ->
  eval O (S f) e (OBin BAll :: rest) (SClo [p] body :: STerm l :: st)
    = (do w <- all_fold (fun x => eval O f ((p, x) :: e) body []) xs;
       eval O f e rest (STerm w :: st)) /\
  eval O (S f) e (OBin BAny :: rest) (SClo [p] body :: STerm l :: st)
    = (do w <- any_fold (fun x => eval O f ((p, x) :: e) body []) xs;
       eval O f e rest (STerm w :: st)).
Proof. intros. split; [apply all_spec | apply any_spec]; assumption. Qed.
Print Assumptions C06_closure_binding.

Theorem C06_shadowing_rejected : forall (O : oracles) f e b ps body l rest st,
  (exists p v, In p ps /\ lookup p e = Some v) ->
  eval O (S f) e (OBin b :: rest) (SClo ps body :: STerm l :: st) = Err EShadowed.
Proof. intros. apply shadow_rejected. apply shadows_spec. assumption. Qed.
Print Assumptions C06_shadowing_rejected.

(* any op sequence, well formed or not, evaluates to a value or an error: the fuel the model
   gives itself always suffices *)
Theorem C06_stack_discipline : forall (O : oracles) e ops,
  oracles_no_fuel O -> evaluate O e ops <> Err EOutOfFuel.
Proof. exact evaluate_total. Qed.
Print Assumptions C06_stack_discipline.

Theorem C06_stack_underflow : forall (O : oracles) f e rest,
  (forall u, eval O (S f) e (OUn u :: rest) [] = Err EInvalidStack) /\
  (forall b, eval O (S f) e (OBin b :: rest) [] = Err EInvalidStack) /\
  (forall b x, eval O (S f) e (OBin b :: rest) [x] = Err EInvalidStack) /\
  (forall u ps body st, eval O (S f) e (OUn u :: rest) (SClo ps body :: st) = Err EInvalidStack) /\
  (forall b x ps body st, eval O (S f) e (OBin b :: rest) (x :: SClo ps body :: st) = Err EInvalidStack).
Proof. exact stack_underflow. Qed.
Print Assumptions C06_stack_underflow.

(* non-vacuity: concrete instances of the hypotheses *)
Definition no_oracles : oracles :=
  {| regex_match := fun _ _ => Ok false; extern_call := fun _ _ _ => Err EUndefinedExtern |}.
Example C06_ex_overflow :
  eval_binary no_oracles BAdd (VInt i64_max) (VInt 1) = Err EOverflow /\
  eval_binary no_oracles BMul (VInt 3037000500) (VInt 3037000500) = Err EOverflow /\
  eval_binary no_oracles BSub (VInt 5) (VInt 7) = Ok (VInt (-2)).
Proof. repeat split. Qed.
Example C06_ex_closure :
  evaluate no_oracles [(7%N, VInt 3)]
    [OVal (VSet [VInt 1; VInt 2]); OClo [1%N] [OVar 1%N; OVar 7%N; OBin BLessThan]; OBin BAll]
  = Ok (VBool true) /\
  evaluate no_oracles [(1%N, VInt 3)]
    [OVal (VSet [VInt 1; VInt 2]); OClo [1%N] [OVal (VBool true)]; OBin BAll]
  = Err EShadowed /\
  oracles_no_fuel no_oracles.
Proof. repeat split; intros; discriminate. Qed.

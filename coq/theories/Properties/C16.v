(* C16 -- Blocks declare the language version they need; under-declared blocks are refused.
   Only statements here; proofs are in Proofs/SchemaProofs.v.

   [repaired] is the model with the two repairs of fixes/C16-*.patch applied; [faithful] is
   the code as it stands (DESIGN.md section 8), about which the two ..._refuted theorems
   speak.  The correspondence (./check C16) reports which of the two the tree shows. *)
From Biscuit Require Import Model.Schema Proofs.SchemaProofs.
From Biscuit Require Model.BlockWire Model.Convert Proofs.ConvertProofs.
Local Open Scope N_scope.

(* ---- the builders ------------------------------------------------------------------ *)

(* the declared version of a built block (first-party or third-party) is [required]: the
   maximum over the per-feature table of the specification; third-party blocks: at least 3.2 *)
Theorem C16_builder_declares_required :
  forall (facts : list fact) (rules : list rule) (checks : list check) (scopes : list scope)
         (third : bool),
    let b := build repaired facts rules checks scopes third in
    bversion b = required b.
Proof. exact builder_declares_required. Qed.
Print Assumptions C16_builder_declares_required.

(* ... which is the lowest version that includes every feature the block uses *)
Theorem C16_required_is_lowest :
  forall b : block,
    (forall f, In f (block_features b) -> feature_version f <= required b) /\
    (required b = 3 \/ exists f, In f (block_features b) /\ feature_version f = required b).
Proof. exact required_is_lub. Qed.
Print Assumptions C16_required_is_lowest.

(* the detector as coded under-declares: a([1,2]) is declared 3.0 *)
Theorem C16_detector_refuted :
  exists facts rules checks scopes third,
    let b := build faithful facts rules checks scopes third in
    bversion b < required b.
Proof. exact detector_refuted. Qed.
Print Assumptions C16_detector_refuted.

(* ---- the gate ---------------------------------------------------------------------- *)

(* exact acceptance condition: supported range, well-formed check kinds, no explicit check
   kind below 3.1, and the declared version is at least what the content requires (this
   covers rule/check scopes >= 3.1, `check all` >= 3.1, `reject if` >= 3.3, third-party >= 3.2
   and every detected feature) *)
Theorem C16_gate :
  forall (w : wblock) (ext : bool),
    (exists b, load repaired w ext = LOk b) <->
    (3 <= wversion w <= 6 /\
     exists checks,
       decode_checks (wchecks w) = Some checks /\
       (wversion w < 4 -> Forall (fun c => wkind c = None) (wchecks w)) /\
       required (mkblock (wfacts w) (wrules w) checks (wscopes w) (wversion w) ext) <= wversion w).
Proof. exact gate_iff. Qed.
Print Assumptions C16_gate.

(* whatever is accepted declares a supported version that covers its content *)
Theorem C16_gate_sound :
  forall (w : wblock) (ext : bool) (b : block),
    load repaired w ext = LOk b ->
    3 <= wversion w <= 6 /\ bversion b = wversion w /\ bthird b = ext /\ required b <= wversion w.
Proof. exact gate_sound. Qed.
Print Assumptions C16_gate_sound.

(* out of range or under-declared: refused (before anything is evaluated: [load] returns no block) *)
Theorem C16_underdeclared_rejected :
  forall (w : wblock) (ext : bool) (checks : list check),
    decode_checks (wchecks w) = Some checks ->
    (wversion w < 3 \/ 6 < wversion w \/
     wversion w < required (mkblock (wfacts w) (wrules w) checks (wscopes w) (wversion w) ext)) ->
    exists e, load repaired w ext = LErr e.
Proof. exact underdeclared_rejected. Qed.
Print Assumptions C16_underdeclared_rejected.

(* the range check does not depend on the variant *)
Theorem C16_out_of_range_rejected :
  forall (vr : variant) (w : wblock) (ext : bool),
    (wversion w < 3 \/ 6 < wversion w) -> load vr w ext = LErr LVersion.
Proof. exact out_of_range_version. Qed.
Print Assumptions C16_out_of_range_rejected.

(* the gate as coded accepts under-declared blocks: a([1,2]) declared 3.1 (detector), and
   a(null) declared 3.0 (check_compatibility looks at the 3.3 flag only from 3.1 upwards;
   this one survives the repair of the detector alone) *)
Theorem C16_gate_refuted :
  (exists b, load faithful w_array_v4 false = LOk b /\ bversion b < required b) /\
  (exists b, load (mkvariant true false) w_null_v3 false = LOk b /\ bversion b < required b) /\
  (exists b, load faithful w_null_v3 false = LOk b /\ bversion b < required b).
Proof. exact gate_refuted. Qed.
Print Assumptions C16_gate_refuted.

(* ---- signature versions ------------------------------------------------------------ *)

(* the rule computed from the earlier blocks' numbers is: 1 from the first block that needs
   the chained scheme (third-party, 3.3 content seen by the builder path, signing or next
   key not ed25519) onwards, 0 before *)
Theorem C16_sigversion_spec :
  forall (root : alg) (bs : list sblock),
    token_sigversions root bs = spec_chain root false bs.
Proof. exact sigversion_spec. Qed.
Print Assumptions C16_sigversion_spec.

(* it never decreases along a token *)
Theorem C16_sigversion_monotone :
  forall (root : alg) (bs : list sblock) (i j : nat) (a b : N),
    (i <= j)%nat ->
    nth_error (token_sigversions root bs) i = Some a ->
    nth_error (token_sigversions root bs) j = Some b ->
    a <= b.
Proof. exact sigversion_monotone. Qed.
Print Assumptions C16_sigversion_monotone.

(* a block that needs the chained scheme gets it *)
Theorem C16_sigversion_switches :
  forall (root : alg) (bs : list sblock) (i : nat) (b : sblock) (s : alg),
    nth_error bs i = Some b ->
    nth_error (signers root bs) i = Some s ->
    needs_v1 s b = true ->
    nth_error (token_sigversions root bs) i = Some 1.
Proof. exact sigversion_switches. Qed.
Print Assumptions C16_sigversion_switches.

(* and no block before the first one that needs it *)
Theorem C16_sigversion_stays_zero :
  forall (root : alg) (bs : list sblock) (i : nat),
    (forall k b s, (k <= i)%nat -> nth_error bs k = Some b ->
       nth_error (signers root bs) k = Some s -> needs_v1 s b = false) ->
    (i < length bs)%nat ->
    nth_error (token_sigversions root bs) i = Some 0.
Proof. exact sigversion_stays_zero. Qed.
Print Assumptions C16_sigversion_stays_zero.

(* ---- non-vacuity ------------------------------------------------------------------- *)

Definition ex_rule : rule :=
  mkrule (mkpred (Sym (str "h")) [TVar 0])
         [mkpred (Sym (str "b")) [TVar 0; TVal (VSet [VArray [VNull]])]]
         [[OVal (VInt 1%Z); OVal (VInt 2%Z); OBin BBitwiseOr]] [ScPrevious].

(* a block with a 3.1 operator, a scope and an array nested in a set: 3.3; the same content
   without the nested array: 3.1 first-party, 3.2 third-party *)
Example C16_ex_builder :
  bversion (build repaired [] [ex_rule] [] [] false) = 6 /\
  required (build repaired [] [ex_rule] [] [] false) = 6 /\
  bversion (build repaired [] [mkrule (rhead ex_rule) [] (rexprs ex_rule) [ScPrevious]] [] [] false) = 4 /\
  bversion (build repaired [] [mkrule (rhead ex_rule) [] (rexprs ex_rule) [ScPrevious]] [] [] true) = 5 /\
  bversion (build repaired [witness_fact] [] [] [] false) = 6 /\
  bversion (build faithful [witness_fact] [] [] [] false) = 3.
Proof. vm_compute. repeat split; reflexivity. Qed.

(* the gate accepts a `check all` block declared 3.1 and refuses it declared 3.0; the
   hypotheses of C16_underdeclared_rejected are satisfiable *)
Definition ex_wblock (v : N) : wblock :=
  mkwblock [] [] [mkwcheck [mkrule (mkpred (Sym (str "query")) []) [mkpred (Sym (str "b")) [TVar 0]] [] []] (Some 1)]
           [] v.

Example C16_ex_gate :
  (exists b, load repaired (ex_wblock 4) false = LOk b) /\
  load repaired (ex_wblock 3) false = LErr LDeser /\
  load repaired (ex_wblock 4) true = LErr LDeser /\
  (exists b, load repaired (ex_wblock 5) true = LOk b) /\
  load repaired (ex_wblock 7) false = LErr LVersion /\
  load repaired w_array_v4 false = LErr LDeser /\
  load repaired w_null_v3 false = LErr LDeser /\
  decode_checks (wchecks (ex_wblock 3)) <> None.
Proof.
  vm_compute. repeat split; try reflexivity; try (eexists; reflexivity). discriminate.
Qed.

(* ed25519 root, an ed25519 block, a block whose next key is secp256r1, then ed25519 again
   (signed by the secp256r1 key), then plain ed25519: 0, 0, 1, 1, 1; and 3.3 content added
   through append_serialized is not seen *)
Example C16_ex_sigversion :
  token_sigversions AEd25519
    [mksblock AEd25519 BkBuilder 3; mksblock AEd25519 BkBuilder 4; mksblock ASecp256r1 BkBuilder 3;
     mksblock AEd25519 BkBuilder 3; mksblock AEd25519 BkBuilder 3] = [0; 0; 1; 1; 1] /\
  token_sigversions AEd25519 [mksblock AEd25519 BkBuilder 3; mksblock AEd25519 BkThird 5] = [0; 1] /\
  token_sigversions AEd25519 [mksblock AEd25519 BkBuilder 6; mksblock AEd25519 BkBuilder 3] = [1; 1] /\
  token_sigversions AEd25519 [mksblock AEd25519 BkBuilder 3; mksblock AEd25519 BkRaw 6] = [0; 0] /\
  needs_v1 AEd25519 (mksblock ASecp256r1 BkBuilder 3) = true.
Proof. vm_compute. repeat split; reflexivity. Qed.

(* ---- the gate over the decoded protobuf structure ------------------------------------------
   [Convert.conv_block canon p ext] is proto_block_to_token_block on what prost decodes
   (Model/Convert.v over Model/BlockWire.v): the same gate, but reached through the real shapes
   -- optional version field, check kinds as raw enum numbers, scopes and terms as oneofs --
   and the real order of the refusals.  [ConvertProofs.shape_block b] is the content of the
   accepted block as the feature table reads it (strings are symbol ids at this stage). *)
Theorem C16_wire_gate_sound :
  forall (canon : Z -> Bytes.bytes -> option Bytes.bytes) (p : BlockWire.pblock) (ext : bool) (b : Convert.iblock),
    Convert.conv_block canon p ext = Convert.COk b ->
    3 <= Convert.ib_version b <= 6 /\ Convert.ib_external b = ext /\
    (ext = true -> 5 <= Convert.ib_version b) /\
    required (ConvertProofs.shape_block b) <= Convert.ib_version b.
Proof. exact ConvertProofs.conv_gate_sound. Qed.
Print Assumptions C16_wire_gate_sound.

(* an absent version field reads as 0: out of range like every version below 3 or above 6 *)
Theorem C16_wire_out_of_range :
  forall (canon : Z -> Bytes.bytes -> option Bytes.bytes) (p : BlockWire.pblock) (ext : bool),
    (let v := match BlockWire.pb_version p with Some v => v | None => 0 end in v < 3 \/ 6 < v) ->
    Convert.conv_block canon p ext = Convert.CErr Convert.CVersion.
Proof. exact ConvertProofs.conv_out_of_range. Qed.
Print Assumptions C16_wire_out_of_range.

(* non-vacuity, from bytes: `check all` declared 3.1 is accepted first-party and refused
   third-party; declared 3.0 it is refused; a fact holding an array declared 3.2 is refused *)
Definition ex_pcheck_all (v : N) : BlockWire.pblock :=
  BlockWire.mkpblock [] None (Some v) [] []
    [BlockWire.mkpcheck [BlockWire.mkprule (BlockWire.mkppred 27 []) [BlockWire.mkppred 1024 [BlockWire.PTVariable 0]] [] []] (Some 1%Z)]
    [] [].
Definition ex_parray (v : N) : BlockWire.pblock :=
  BlockWire.mkpblock [] None (Some v) [BlockWire.mkppred 1024 [BlockWire.PTArray [BlockWire.PTInteger 1%Z]]] [] [] [] [].
Definition ex_anykey : Z -> Bytes.bytes -> option Bytes.bytes := fun _ k => Some k.
Definition conv_bytes (p : BlockWire.pblock) (ext : bool) : option Convert.cres :=
  option_map (fun q => Convert.conv_block ex_anykey q ext) (BlockWire.decode_block (BlockWire.encode_block p)).
Definition is_ok (r : option Convert.cres) : bool := match r with Some (Convert.COk _) => true | _ => false end.
Example C16_ex_wire_gate :
  is_ok (conv_bytes (ex_pcheck_all 4) false) = true /\
  conv_bytes (ex_pcheck_all 4) true = Some (Convert.CErr Convert.CDeser) /\
  conv_bytes (ex_pcheck_all 3) false = Some (Convert.CErr Convert.CDeser) /\
  is_ok (conv_bytes (ex_pcheck_all 5) true) = true /\
  conv_bytes (ex_parray 5) false = Some (Convert.CErr Convert.CDeser) /\
  is_ok (conv_bytes (ex_parray 6) false) = true /\
  conv_bytes (ex_parray 7) false = Some (Convert.CErr Convert.CVersion).
Proof. vm_compute. repeat split; reflexivity. Qed.

(* ---- the blocks of an authorizer snapshot ---------------------------------------------------
   proto_snapshot_block_to_token_block is a second gate (snapshots are external data): what it
   accepts declares a supported version that is at least what its content requires.  The 3.2
   floor of third-party blocks is not part of it: a snapshot block carrying an external key may
   declare 3.0 (an observation, shown by the example; the declared version only gates features,
   evaluation does not read it, and the library itself writes snapshot blocks from loaded tokens,
   which went through the first gate). *)
Theorem C16_snapshot_gate_sound :
  forall (canon : Z -> Bytes.bytes -> option Bytes.bytes) (p : Convert.psnap) (b : Convert.iblock) (ext : option Token.wkey),
    Convert.conv_snapshot_block canon p = Convert.SOk b ext ->
    3 <= Convert.ib_version b <= 6 /\
    required (mkblock (map Convert.shape_fact (Convert.ib_facts b)) (map Convert.shape_rule (Convert.ib_rules b))
                      (map Convert.shape_check (Convert.ib_checks b)) (map Convert.shape_scope (Convert.ib_scopes b))
                      (Convert.ib_version b) false) <= Convert.ib_version b.
Proof. exact ConvertProofs.conv_snapshot_gate_sound. Qed.
Print Assumptions C16_snapshot_gate_sound.

Definition ex_snap (v : N) (k : option Token.wkey) (t : BlockWire.pterm) : Convert.psnap :=
  Convert.mkpsnap None (Some v) [BlockWire.mkppred 1024 [t]] [] [] [] k.
Definition is_sok (r : Convert.sres) : bool := match r with Convert.SOk _ _ => true | _ => false end.
Example C16_ex_snapshot_gate :
  is_sok (Convert.conv_snapshot_block ex_anykey (ex_snap 3 None (BlockWire.PTInteger 1%Z))) = true /\
  Convert.conv_snapshot_block ex_anykey (ex_snap 5 None BlockWire.PTNull) = Convert.SErr Convert.CDeser /\
  is_sok (Convert.conv_snapshot_block ex_anykey (ex_snap 6 None BlockWire.PTNull)) = true /\
  Convert.conv_snapshot_block ex_anykey (ex_snap 2 None (BlockWire.PTInteger 1%Z)) = Convert.SErr Convert.CVersion /\
  is_sok (Convert.conv_snapshot_block ex_anykey (ex_snap 3 (Some (Token.mkwkey 1%Z [2; 3])) (BlockWire.PTInteger 1%Z))) = true.
Proof. vm_compute. repeat split; reflexivity. Qed.

(* C07 -- Third-party blocks are bound to one signer and one position in one token.
   Only statements here; proofs are in Proofs/ThirdPartyProofs.v (over Proofs/ChainProofs.v).

   Reading guide.  [append_third_party verify_sig pub sign t K (payload, ek, es) next] is the
   model of Biscuit::append_third_party_with_keypair (Model/Token.v): expected key K, response
   (payload, stated key ek, external signature es).  [append_third_party_checked] is the same
   after parsing the stated key from its wire form; [append_third_party_unverified] is
   UnverifiedBiscuit::append_third_party_with_keypair, which checks neither the key nor the
   signature (Model/ThirdParty.v).  [third_party_blocks t] lists the third-party blocks of a
   token as (external key, payload, signature of the block before it, external signature).
   The signature scheme is universally quantified; unforgeability of the third party's key and
   exclusive ownership are explicit premises of the theorems that need them.
   Clauses of the property proved elsewhere: "its facts are trusted only by scopes naming its
   key" is C04_trusted_origins / C04_key_scope_blocks (restated below as C07_scoping) and the
   non-interference theorem of C03; "it neither sees nor extends the token's symbol and
   public-key tables" is proved over the table-threading model of property C12
   (Model/Symbols.v) and restated below as C07_tables_isolated; the C07 check runs that
   model's correspondence too (histories with third-party appends on both token types). *)
From Biscuit Require Import Model.Token Model.Readings Model.Wire Model.ThirdParty.
From Biscuit Require Import Proofs.ChainLayout Proofs.ChainProofs Proofs.ChainOps Proofs.ThirdPartyProofs.
From Biscuit Require Model.Authorizer Proofs.AuthProofs.
From Biscuit Require Model.Symbols Proofs.SymbolsProofs.
Local Open Scope N_scope.

(* The verified path accepts a response only if the stated key is the expected key and the
   external signature verifies under it over the version-1 external payload of (this payload,
   the signature of the token's last block); the accepted block carries exactly that payload,
   key and signature, with signature version 1. *)
Theorem C07_append_checks : forall verify_sig pub sign t K payload ek es next t',
  append_third_party verify_sig pub sign t K (payload, ek, es) next = TOk t' ->
  ek = K /\
  verify_sig K (payload_external_v1 payload (b_sig (last_block t)) 1) es = true /\
  exists b, t_blocks t' = t_blocks t ++ [b] /\ t_authority t' = t_authority t /\
            b_data b = payload /\ b_ext b = Some (K, es) /\ b_version b = 1.
Proof. exact append_checks. Qed.
Print Assumptions C07_append_checks.

(* the same from the wire form of the response; and whenever the stated key is not the expected
   one or the signature does not verify, the result is an error *)
Theorem C07_append_checks_wire : forall verify_sig pub sign key_canon t K r content_ok next,
  (forall t', append_third_party_checked verify_sig pub sign key_canon t K r content_ok next = TPOk t' ->
     parse_wkey key_canon (r_key r) = Some K /\ content_ok = true /\
     verify_sig K (payload_external_v1 (r_payload r) (b_sig (last_block t)) 1) (r_sig r) = true /\
     exists b, t_blocks t' = t_blocks t ++ [b] /\ b_data b = r_payload r /\ b_ext b = Some (K, r_sig r)) /\
  ((forall ek, parse_wkey key_canon (r_key r) = Some ek ->
      ek <> K \/ verify_sig ek (payload_external_v1 (r_payload r) (b_sig (last_block t)) 1) (r_sig r) = false) ->
   exists e, append_third_party_checked verify_sig pub sign key_canon t K r content_ok next = TPErr e).
Proof.
  intros vs pub sign kc t K r c next. split.
  - intros t'. exact (checked_checks vs pub sign kc t K r c next t').
  - exact (checked_refuses vs pub sign kc t K r c next).
Qed.
Print Assumptions C07_append_checks_wire.

(* UnverifiedBiscuit::append_third_party performs no check (there is no expected key on that
   path); the check happens at verification: if the resulting token verifies, the external
   signature is valid under the stated key for this payload at this position.  More generally
   every third-party block of every accepted token carries a signature valid under its stated
   key over its own payload and the signature of the block before it. *)
Theorem C07_verification_rechecks : forall verify_sig pub sign key_canon,
  (forall root t r content_ok next t',
     append_third_party_unverified pub sign key_canon t r content_ok next = TPOk t' ->
     verify verify_sig pub root t' = true ->
     exists ek, parse_wkey key_canon (r_key r) = Some ek /\
                verify_sig ek (payload_external_v1 (r_payload r) (b_sig (last_block t)) 1) (r_sig r) = true) /\
  (forall root t k d p s,
     verify verify_sig pub root t = true -> In (k, d, p, s) (third_party_blocks t) ->
     verify_sig k (payload_external_v1 d p 1) s = true).
Proof.
  intros vs pub sign kc. split.
  - intros root t r c next t'. exact (unverified_then_verify vs pub sign kc root t r c next t').
  - intros root t k d p s. exact (verified_third_party_blocks vs pub root t k d p s).
Qed.
Print Assumptions C07_verification_rechecks.

(* Position binding.  Premises: unforgeability of the third party's key K in the shape
   "whatever verifies under K is the external-signature message of one of the (payload,
   previous signature) pairs K answered" ([issued]); and, because the external payload has no
   length prefixes, that the previous signature at hand is [comparable] with those K signed
   for: of the same length (always the case between ed25519 carriers), or both free of the
   8-byte tag fragment "PREVSIG\0" (decidable; the correspondence evaluates it on every
   signature that serves as a position).  Then (1) a response is accepted by
   append_third_party only on a token whose last signature is one K signed for, with the
   payload K signed: a response made for another token or another position is refused;
   (2) the same on the unverified path once the result verifies; (3) every block that an
   accepted token attributes to K sits exactly where K signed it: a spliced token (block moved,
   payload altered) fails verification. *)
Theorem C07_position_binding : forall verify_sig pub sign key_canon K (issued : list (bytes * bytes)),
  (forall m s, verify_sig K m s = true -> exists d p, In (d, p) issued /\ m = payload_external_v1 d p 1) ->
  (forall t expected payload es next t',
     (forall d p, In (d, p) issued -> comparable (b_sig (last_block t)) p) ->
     append_third_party verify_sig pub sign t expected (payload, K, es) next = TOk t' ->
     In (payload, b_sig (last_block t)) issued) /\
  (forall root t r content_ok next t',
     (forall d p, In (d, p) issued -> comparable (b_sig (last_block t)) p) ->
     parse_wkey key_canon (r_key r) = Some K ->
     append_third_party_unverified pub sign key_canon t r content_ok next = TPOk t' ->
     verify verify_sig pub root t' = true ->
     In (r_payload r, b_sig (last_block t)) issued) /\
  (forall root t d p s,
     verify verify_sig pub root t = true -> In (K, d, p, s) (third_party_blocks t) ->
     (forall d' p', In (d', p') issued -> comparable p p') ->
     In (d, p) issued).
Proof. exact position_binding. Qed.
Print Assumptions C07_position_binding.

(* the fact the binding rests on: an external payload determines its payload and its position *)
Theorem C07_external_payload_injective : forall d d' p p',
  length p = length p' \/ (frag_free p = true /\ frag_free p' = true) ->
  payload_external_v1 d p 1 = payload_external_v1 d' p' 1 -> d = d' /\ p = p'.
Proof.
  intros d d' p p' [Hl | [Hf Hf']] H.
  - assert (H1 : 1 < 4294967296) by lia.
    destruct (payload_external_v1_inj d d' p p' 1 1 H1 H1 Hl H) as (Hd & Hp & _). now split.
  - exact (payload_external_v1_inj_frag d d' p p' Hf Hf' H).
Qed.
Print Assumptions C07_external_payload_injective.

(* ... and the premise cannot be dropped: a previous signature that contains the fragment makes
   two different (payload, position) pairs one message *)
Theorem C07_external_payload_ambiguous_refuted :
  exists d d' p p', (d, p) <> (d', p') /\ payload_external_v1 d p 1 = payload_external_v1 d' p' 1.
Proof.
  exists [7], ([7] ++ tag_prevsig ++ [1]), ([1] ++ tag_prevsig ++ [2]), [2].
  split; [discriminate | vm_compute; reflexivity].
Qed.
Print Assumptions C07_external_payload_ambiguous_refuted.

(* Attribution.  Under C01's premises on the honest token and the presented token, and if a
   signature value verifies under one key only (exclusive ownership), an accepted token reports
   the honest token's external keys for the honest blocks. *)
Theorem C07_attribution : forall verify_sig pub root tok tok',
  (forall K K' m s, verify_sig K m s = true -> verify_sig K' m s = true -> K = K') ->
  verify verify_sig pub root tok = true ->
  layout_ok tok = true ->
  NoDup (map qkey (queries root tok)) ->
  (forall k m s, In k (map qkey (queries root tok)) -> verify_sig k m s = true ->
                 In (k, m, s) (queries root tok)) ->
  (forall sk k, t_proof tok' = Secret sk ->
     pub (pk_alg (b_next (last_block tok'))) sk = Some k -> ~ In k (map qkey (queries root tok))) ->
  keys_ok tok' = true ->
  verify verify_sig pub root tok' = true ->
  firstn (length (all_blocks tok)) (external_keys tok') = external_keys tok.
Proof. exact attribution. Qed.
Print Assumptions C07_attribution.

(* Without exclusive ownership the attribution clause fails: the chain messages cover the
   external signature bytes but not the external public key.  A correct scheme in which two keys
   accept the same signatures gives two accepted tokens with identical signed blocks, proofs and
   revocation identifiers whose third-party block is attributed to different keys.  ECDSA is
   such a scheme (a second public key is computable from a signature and its message); the
   correspondence performs that re-attribution on secp256r1 external signatures. *)
Theorem C07_attribution_refuted_without_ownership :
  exists verify_sig pub sign root tok tok',
    (forall a sk k m, pub a sk = Some k -> verify_sig k m (sign a sk m) = true) /\
    verify verify_sig pub root tok = true /\
    verify verify_sig pub root tok' = true /\
    Forall2 block_same (all_blocks tok) (all_blocks tok') /\
    t_proof tok' = t_proof tok /\
    revocation_ids tok' = revocation_ids tok /\
    external_keys tok' <> external_keys tok.
Proof.
  exists tw_verify, tw_pub, tw_sign, (mkpub Ed25519 [1; 1]), tw_tok, tw_tok'.
  destruct attribution_refuted as (H1 & H2 & H3 & H4 & H5 & H6 & H7 & H8).
  repeat split; try assumption. rewrite H7, H8. discriminate.
Qed.
Print Assumptions C07_attribution_refuted_without_ownership.

(* Scoping (C04_trusted_origins, C04_default_trust restated for a third-party block): the facts
   of block x (x >= 1, not the block [cur] that asks, not the authorizer) are offered to a
   rule, check or policy only if one of its scopes grants x: `previous` for an earlier block, or
   a key scope whose key block x carries; with no scope at all (default trust) never. *)
Theorem C07_scoping : forall scopes cur km x,
  x <> Datalog.auth_id -> x <> cur -> x <> 0 ->
  In x (Datalog.from_scopes scopes Datalog.default_trust cur km) ->
  exists sc, In sc scopes /\
    ((sc = Datalog.ScPrevious /\ cur <> Datalog.auth_id /\ x <= cur) \/
     (exists k, sc = Datalog.ScKey k /\ In x (Datalog.keymap_get k km))).
Proof.
  intros scopes cur km x H1 H2 H3 H. apply AuthProofs.from_scopes_spec in H.
  destruct H as [H | [H | H]]; [contradiction | contradiction |].
  destruct scopes as [|sc0 scopes].
  - apply AuthProofs.default_trust_In in H. destruct H; contradiction.
  - destruct H as (sc & Hin & Hg). exists sc. split; [exact Hin|].
    destruct sc as [| |k]; cbn [AuthProofs.scope_grants] in Hg.
    + contradiction.
    + left. destruct Hg. repeat split; assumption.
    + right. exists k. split; [reflexivity | exact Hg].
Qed.
Print Assumptions C07_scoping.

(* "It neither sees nor extends the token's symbol and public-key tables."  Over the
   table-threading model (Model/Symbols.v: build, append, append_third_party on both token
   types, seal, reload, hand-made blocks): after every history the token's string and key
   tables are exactly the tables declared by its first-party blocks, in order -- a third-party
   block contributes nothing, wherever it sits --, the token reloads to itself, and every block,
   in particular every first-party block appended after a third-party block, reads back as
   its author wrote it, in memory and after the round trip, on both token types. *)
Theorem C07_tables_isolated : forall (c0 : Symbols.acontent) (ops : list Symbols.op),
  let t := snd (Symbols.run Symbols.Repaired c0 ops) in
  Symbols.tok_reload t = Symbols.TOk t /\
  Symbols.t_strings t = Symbols.fp_strings (Symbols.t_blocks t) /\
  Symbols.t_keys t = Symbols.fp_keys (Symbols.t_blocks t) /\
  (forallb Symbols.is_api ops = true ->
   let ta := snd (fst (Symbols.run_a Symbols.Repaired c0 ops)) in
   let auth := snd (Symbols.run_a Symbols.Repaired c0 ops) in
   length auth = length (Symbols.t_blocks ta) /\
   forall sd i c, nth_error auth i = Some c ->
     Symbols.block_view Symbols.Repaired sd ta i = Symbols.TOk (Symbols.authored c) /\
     exists t', Symbols.tok_reload ta = Symbols.TOk t' /\
                Symbols.block_view Symbols.Repaired sd t' i = Symbols.TOk (Symbols.authored c)).
Proof.
  intros c0 ops t. pose proof (SymbolsProofs.inv_run c0 ops) as H.
  split; [apply SymbolsProofs.inv_reload; exact H|].
  pose proof H as H2. apply SymbolsProofs.load_tables_ok in H2. apply pair_equal_spec in H2. destruct H2 as [Hs Hk].
  split; [exact Hs|]. split; [exact Hk|].
  intro A. exact (SymbolsProofs.references_resolve c0 ops A).
Qed.
Print Assumptions C07_tables_isolated.

(* ------------------------------------------------------------------ non-vacuity *)
(* Two tokens under one root; a third party K answers the request of the first one.  The scheme
   is ideal for K (it accepts exactly what K signed) and the toy correct scheme otherwise. *)
Definition x7_pub (a : alg) (sk : bytes) : option pubkey := Some (mkpub a sk).
Definition x7_sign (a : alg) (sk m : bytes) : bytes := sk ++ m.
Definition x7_K : pubkey := mkpub Ed25519 [9; 9].
Definition x7_build (salt : N) : hbuild := mkbuild None (mkkp Ed25519 [1; 1]) (mkkp Ed25519 [2; salt]) [24; 3; salt] 3.
Definition x7_plain (k : pubkey) (m s : bytes) : bool := bytes_eqb s (pk_bytes k ++ m).
Definition x7_tok (salt : N) : token :=
  match build x7_pub x7_sign (x7_build salt) with
  | TOk t => t
  | TErr _ => mktoken None (mkblock [] (mkpub Ed25519 []) [] None 0) [] (Seal [])
  end.
Definition x7_payload : bytes := [18; 1; 120; 24; 5].
(* what K signed: the payload, for the last signature of token 1 *)
Definition x7_issued : list (bytes * bytes) := [(x7_payload, b_sig (last_block (x7_tok 1)))].
Definition x7_es : bytes := [9; 9] ++ payload_external_v1 x7_payload (b_sig (last_block (x7_tok 1))) 1.
Definition x7_verify (k : pubkey) (m s : bytes) : bool :=
  if pubkey_eqb k x7_K
  then bytes_eqb m (payload_external_v1 x7_payload (b_sig (last_block (x7_tok 1))) 1) && bytes_eqb s x7_es
  else x7_plain k m s.

Example C07_example :
  (* the premises of C07_position_binding hold *)
  (forall m s, x7_verify x7_K m s = true -> exists d p, In (d, p) x7_issued /\ m = payload_external_v1 d p 1) /\
  (forall d p, In (d, p) x7_issued -> comparable (b_sig (last_block (x7_tok 2))) p) /\
  frag_free (b_sig (last_block (x7_tok 1))) = true /\
  (* the response is accepted on the token it was made for, and the result verifies *)
  (exists t', append_third_party x7_verify x7_pub x7_sign (x7_tok 1) x7_K (x7_payload, x7_K, x7_es) (mkkp Ed25519 [4]) = TOk t' /\
              verify x7_verify x7_pub (mkpub Ed25519 [1; 1]) t' = true /\
              third_party_blocks t' = [(x7_K, x7_payload, b_sig (last_block (x7_tok 1)), x7_es)]) /\
  (* replayed on the other token it is refused, by the verified path ... *)
  append_third_party x7_verify x7_pub x7_sign (x7_tok 2) x7_K (x7_payload, x7_K, x7_es) (mkkp Ed25519 [4]) = TErr TSignature /\
  (* ... with another expected key too; and the unverified path accepts it but the result does not verify *)
  append_third_party x7_verify x7_pub x7_sign (x7_tok 1) (mkpub Ed25519 [8]) (x7_payload, x7_K, x7_es) (mkkp Ed25519 [4]) = TErr TUnexpectedKey /\
  (exists t', append_third_party_unverified x7_pub x7_sign (fun _ b => Some b) (x7_tok 2)
                (mkresp x7_payload x7_es (to_wkey x7_K)) true (mkkp Ed25519 [4]) = TPOk t' /\
              verify x7_verify x7_pub (mkpub Ed25519 [1; 1]) t' = false).
Proof.
  split; [|split; [|split; [|split; [|split; [|split]]]]].
  - intros m s H. unfold x7_verify in H. rewrite pubkey_eqb_refl in H. apply andb_true_iff in H as [Hm _].
    apply bytes_eqb_eq in Hm. exists x7_payload, (b_sig (last_block (x7_tok 1))). split; [now left | exact Hm].
  - intros d p [E | []]. inversion E. left. vm_compute. reflexivity.
  - vm_compute. reflexivity.
  - eexists. split; [vm_compute; reflexivity|]. split; vm_compute; reflexivity.
  - vm_compute. reflexivity.
  - vm_compute. reflexivity.
  - eexists. split; vm_compute; reflexivity.
Qed.

(* a scope naming the third party's key grants its block and nothing else of interest *)
Example C07_example_scoping :
  let km := [(0, [2])] in      (* external key 0 is carried by block 2 *)
  In 2 (Datalog.from_scopes [Datalog.ScKey 0] Datalog.default_trust 3 km) /\
  ~ In 1 (Datalog.from_scopes [Datalog.ScKey 0] Datalog.default_trust 3 km) /\
  ~ In 2 (Datalog.from_scopes [] Datalog.default_trust 3 km).
Proof.
  cbv zeta. split; [vm_compute; tauto|]. split; vm_compute; intros H;
    repeat (destruct H as [H | H]; [discriminate H|]); exact H.
Qed.

(* non-vacuity of C07_tables_isolated: a history that appends a third-party block carrying its
   own strings and a key scope, then a first-party block, seals and reloads -- three blocks, the
   token tables hold the first-party entries only, every operation is an API call *)
Example C07_example_tables :
  let s := Symbols.run Symbols.Repaired SymbolsProofs.w_c0 SymbolsProofs.ex_ops in
  length (Symbols.t_blocks (snd s)) = 3%nat /\
  (exists b, nth_error (Symbols.t_blocks (snd s)) 1 = Some b /\ Symbols.b_ext b <> None /\ Symbols.b_strings b <> []) /\
  Symbols.t_strings (snd s) = Symbols.fp_strings (Symbols.t_blocks (snd s)) /\
  forallb Symbols.is_api SymbolsProofs.ex_ops = true.
Proof.
  cbv zeta. split; [vm_compute; reflexivity|]. split.
  - eexists. split; [vm_compute; reflexivity|]. split; discriminate.
  - split; vm_compute; reflexivity.
Qed.

(* C09 -- Untrusted bytes never crash or hang the library.

   What a theorem carries here is the *validation contract*: the checks that gate indexing
   and unwrapping are total functions whose outcome is a value or an error, for every token,
   every index, every op sequence, every symbol table.  Absence of panics, aborts and
   hangs in the Rust code itself is NOT a theorem: it rests on the correspondence (every
   entry point and the full accessor sweep run in child processes, fam_robust.py).

   Full statement wanted: "for every token and every index i, block_at tok i is the
   loader's verdict on block i when i < block_count and an error otherwise; every decoded
   expression prints to text; evaluation returns a value or an error".  The faithful model
   of the unchanged code violates the first two clauses (C09_block_index_refuted,
   C09_display_refuted); they are proved for the repaired gates.
   Only statements here; proofs are in Proofs/RobustProofs.v (and Proofs/ExprProofs.v). *)
From Biscuit Require Import Model.Robust Proofs.ExprProofs Proofs.RobustProofs.

(* ---- block index gate (Biscuit::block, UnverifiedBiscuit::block) ---- *)

(* every index at or past block_count is an error, whatever the token *)
Theorem C09_block_index_checked : forall (B : Type) (t : tok B) (i : N),
  (block_count t <= i)%N -> block_at Repaired t i = AErr EInvalidIndex.
Proof. intros. apply repaired_checked. assumption. Qed.
Print Assumptions C09_block_index_checked.

(* every index below block_count yields the loader's verdict on that block; no index crashes *)
Theorem C09_block_index_total : forall (B : Type) (t : tok B) (i : N),
  block_at Repaired t i <> ACrash /\
  ((i < block_count t)%N ->
     exists b, nthN (fst t :: snd t) i = Some b /\ block_at Repaired t i = load b).
Proof. intros. split; [apply repaired_never_crashes|apply repaired_in_range]. Qed.
Print Assumptions C09_block_index_total.

(* the unchanged test `index > blocks.len() + 1` lets index = block_count through to an
   out-of-bounds `blocks[index - 1]`: print_block_source(block_count), block_version(block_count) *)
Theorem C09_block_index_refuted : exists (t : tok unit) (i : N),
  (block_count t <= i)%N /\ block_at Faithful t i = ACrash.
Proof. exists (Some tt, [Some tt]), 2%N. split; [vm_compute; discriminate|reflexivity]. Qed.
Print Assumptions C09_block_index_refuted.

(* and that index is the only one: the faithful gate crashes exactly at block_count and
   agrees with the repaired one everywhere else *)
Theorem C09_block_index_faithful_class : forall (B : Type) (t : tok B) (i : N),
  (block_at Faithful t i = ACrash <-> i = block_count t) /\
  (i <> block_count t -> block_at Faithful t i = block_at Repaired t i).
Proof. intros. split; [apply faithful_crash_iff|apply faithful_eq_repaired]. Qed.
Print Assumptions C09_block_index_faithful_class.

(* block_symbols / block_public_keys / block_external_key use `.get(index - 1)`: checked *)
Theorem C09_raw_index_checked : forall (B : Type) (t : tok B) (i : N),
  ((block_count t <= i)%N -> raw_at t i = AErr EInvalidIndex) /\
  ((i < block_count t)%N -> exists b, nthN (fst t :: snd t) i = Some b /\ raw_at t i = AOk b).
Proof. intros. apply raw_at_spec. Qed.
Print Assumptions C09_raw_index_checked.

(* ---- symbol gate ---- *)

(* a symbol id has no string exactly when it falls in the hole between the default table
   and the offset, or past the block's table: lookups answer None, they never index *)
Theorem C09_symbol_lookup_checked : forall (tab : list bytes) (i : N),
  get_symbol tab i = None <->
  ((28 <= i)%N /\ (i < OFFSET)%N) \/ (OFFSET + N.of_nat (length tab) <= i)%N.
Proof. exact get_symbol_none_iff. Qed.
Print Assumptions C09_symbol_lookup_checked.

(* ---- printers ---- *)

(* Expression::print answers None exactly when the op sequence breaks the stack discipline
   (underflow, leftover operands, a closure body that does not leave one entry) -- for every
   symbol table: unknown symbol, variable, key and extern ids never make it fail *)
Theorem C09_print_none_iff_malformed : forall (tab : list bytes) (ops : list op),
  (print_expr tab ops = None <-> printable ops = false) /\
  ((exists t, print_expr tab ops = Some t) <-> printable ops = true).
Proof. intros. split; [apply print_none_iff|apply print_some_iff]. Qed.
Print Assumptions C09_print_none_iff_malformed.

(* the repaired Display (fallback text, as SymbolTable::print_expression) is total: text for
   every op sequence, the `<invalid expression>` text exactly for the malformed ones; and a
   dump of any list of expressions never crashes *)
Theorem C09_printers_total : forall (tab : list bytes) (ops : list op),
  (printable ops = true -> exists t, display Repaired tab ops = DText t /\ print_expr tab ops = Some t) /\
  (printable ops = false -> display Repaired tab ops = DInvalid) /\
  display Repaired tab ops <> DCrash /\
  (forall exprs, dump_crashes Repaired tab exprs = false).
Proof.
  intros. destruct (display_repaired_total tab ops) as [H1 [H2 H3]].
  repeat split; try assumption. intro. apply dump_repaired_never_crashes.
Qed.
Print Assumptions C09_printers_total.

(* the unchanged Display unwraps: it crashes exactly on the malformed op sequences, which a
   signed token, a snapshot or a saved policy set can carry (ops are not validated at load),
   and so does every dump that contains one *)
Theorem C09_display_refuted : exists (tab : list bytes) (ops : list op),
  display Faithful tab ops = DCrash /\ dump_crashes Faithful tab [[OVal (VBool true)]; ops] = true.
Proof. exists [], [OBin BEqual]. split; reflexivity. Qed.
Print Assumptions C09_display_refuted.

Theorem C09_display_faithful_class : forall (tab : list bytes) (ops : list op),
  (display Faithful tab ops = DCrash <-> printable ops = false) /\
  (printable ops = true -> display Faithful tab ops = display Repaired tab ops) /\
  (forall exprs, dump_crashes Faithful tab exprs = true <->
                 exists e, In e exprs /\ printable e = false).
Proof.
  intros. split; [apply display_faithful_crash_iff|].
  split; [apply display_agree_on_printable|]. intro. apply dump_faithful_crashes_iff.
Qed.
Print Assumptions C09_display_faithful_class.

(* ---- evaluation (C06's theorem, restated for this property) ---- *)

(* any op sequence -- well formed or not -- evaluates to a value or to one of the error
   kinds; the model's own fuel never runs out *)
Theorem C09_eval_total : forall (O : oracles) (e : env) (ops : list op),
  oracles_no_fuel O -> evaluate O e ops <> Err EOutOfFuel.
Proof. exact evaluate_total. Qed.
Print Assumptions C09_eval_total.

(* ---- non-vacuity ---- *)

Example C09_ex_index :
  let t : tok N := (Some 10%N, [None; Some 12%N]) in
  block_count t = 3%N /\
  block_at Repaired t 0 = AOk 10%N /\ block_at Repaired t 1 = AErr ERefused /\
  block_at Repaired t 2 = AOk 12%N /\ block_at Repaired t 3 = AErr EInvalidIndex /\
  block_at Repaired t 18446744073709551615 = AErr EInvalidIndex /\
  block_at Faithful t 3 = ACrash /\ block_at Faithful t 4 = AErr EInvalidIndex /\
  raw_at t 3 = AErr EInvalidIndex.
Proof. repeat split. Qed.

Example C09_ex_print :
  print_expr [str "f"] [OVal (VInt 1); OVar 1024%N; OBin BLessThan; OUn UParens; OUn UNegate]
    = Some (str "!(1 < $f)") /\
  print_expr [] [OVal (VArray [VInt (-2); VStr (str "a")]); OClo [5000%N] [OVar 5000%N; OVal VNull; OBin BHeterogeneousEqual]; OBin BAll]
    = Some (str "[-2, ""a""].all($<5000?> -> $<5000?> == null)") /\
  printable [OVal (VBool true); OVal (VBool true)] = false /\
  print_expr [] [OVal (VBool true); OVal (VBool true)] = None /\
  display Repaired [] [OVal (VBool true); OVal (VBool true)] = DInvalid /\
  display Faithful [] [OVal (VBool true); OVal (VBool true)] = DCrash /\
  get_symbol [str "f"] 27 = Some (str "query") /\ get_symbol [str "f"] 28 = None /\
  get_symbol [str "f"] 1024 = Some (str "f") /\ get_symbol [str "f"] 1025 = None.
Proof. repeat split. Qed.

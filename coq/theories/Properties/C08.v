(* C08 -- Sealed tokens are final.
   Only statements here; proofs are in Proofs/ChainOps.v and Proofs/ChainProofs.v.
   [seal], [append], [append_third_party], [third_party_request] are the models of
   SerializedBiscuit::seal / append / append_serialized (through Biscuit::append_third_party)
   and ThirdPartyRequest::from_container (Model/Token.v).  The clause "authorizes exactly like
   the unsealed one" follows from [C08_seal_preserves]: the authorizer reads only the blocks and
   the external keys, both unchanged (the authorizer itself is modelled in the C04 family). *)
From Biscuit Require Import Model.Token Model.Readings Proofs.ChainLayout Proofs.ChainProofs Proofs.ChainOps.
Local Open Scope N_scope.

(* sealing a verifying token gives a verifying token, for any correct signature scheme *)
Theorem C08_seal_verifies : forall verify_sig pub sign root t t',
  (forall a sk k m, pub a sk = Some k -> verify_sig k m (sign a sk m) = true) ->
  verify verify_sig pub root t = true -> seal sign t = TOk t' ->
  verify verify_sig pub root t' = true.
Proof. exact seal_verifies. Qed.
Print Assumptions C08_seal_verifies.

Theorem C08_seal_preserves : forall sign t t', seal sign t = TOk t' ->
  all_blocks t' = all_blocks t /\ revocation_ids t' = revocation_ids t /\
  external_keys t' = external_keys t /\ t_root_key_id t' = t_root_key_id t /\ sealed t' = true.
Proof. exact seal_preserves. Qed.
Print Assumptions C08_seal_preserves.

(* every extension attempt on a sealed token is an error, with the error kinds of the code *)
Theorem C08_no_extension : forall verify_sig pub sign t, sealed t = true ->
  (forall next data v, append pub sign t next data v = TErr TAlreadySealed) /\
  seal sign t = TErr TAlreadySealed /\
  third_party_request t = TErr TAppendOnSealed /\
  (forall expected resp next, exists e, append_third_party verify_sig pub sign t expected resp next = TErr e).
Proof. exact no_extension. Qed.
Print Assumptions C08_no_extension.

(* ... before and after a serialization round trip: a token that passes the structural checks,
   with canonically encoded keys, reloads as itself (hence stays sealed) *)
Theorem C08_roundtrip_sealed : forall key_canon pub t,
  (forall b, In b (all_blocks t) -> canon_block key_canon b) ->
  b_ext (t_authority t) = None ->
  (forall sk, t_proof t = Secret sk -> pub (pk_alg (b_next (last_block t))) sk <> None) ->
  deserialize key_canon pub (to_wire t) = Some t.
Proof. exact reload_ok. Qed.
Print Assumptions C08_roundtrip_sealed.

(* C01's theorem on a sealed token: nobody holds a usable secret, so whatever verifies has
   exactly the honest blocks and the honest seal *)
Theorem C08_tamper : forall verify_sig pub root tok tok',
  verify verify_sig pub root tok = true ->
  layout_ok tok = true ->
  NoDup (map qkey (queries root tok)) ->
  (forall k m s, In k (map qkey (queries root tok)) -> verify_sig k m s = true ->
                 In (k, m, s) (queries root tok)) ->
  (forall sk k, t_proof tok' = Secret sk ->
     pub (pk_alg (b_next (last_block tok'))) sk = Some k -> ~ In k (map qkey (queries root tok))) ->
  keys_ok tok' = true ->
  sealed tok = true ->
  verify verify_sig pub root tok' = true ->
  Forall2 block_same (all_blocks tok) (all_blocks tok') /\ t_proof tok' = t_proof tok.
Proof.
  intros vs pub root tok tok' H1 H2 H3 H4 H5 H6.
  exact (sealed_final vs pub root tok tok' H1 H2 H3 H4 H5 H6).
Qed.
Print Assumptions C08_tamper.

(* ------------------------------------------------------------------ non-vacuity *)
(* a toy correct scheme: the signature is key bytes ++ message; secret = public bytes *)
Definition toy_pub (a : alg) (sk : bytes) : option pubkey := Some (mkpub a sk).
Definition toy_sign (a : alg) (sk m : bytes) : bytes := sk ++ m.
Definition toy_verify (k : pubkey) (m s : bytes) : bool := bytes_eqb s (pk_bytes k ++ m).
Definition toy_root := mkkp Ed25519 [1; 1].
Definition toy_tok : token :=
  match new_token toy_pub toy_sign (Some 3) toy_root (mkkp Secp256r1 [2; 9]) [5; 5] 3 with
  | TOk t => match append toy_pub toy_sign t (mkkp Ed25519 [4]) [6] 3 with TOk t' => t' | TErr _ => t end
  | TErr _ => mktoken None (mkblock [] (mkpub Ed25519 []) [] None 0) [] (Seal [])
  end.
Definition toy_sealed : token :=
  match seal toy_sign toy_tok with TOk t => t | TErr _ => toy_tok end.

Example C08_example :
  verify toy_verify toy_pub (mkpub Ed25519 [1; 1]) toy_tok = true /\
  length (t_blocks toy_tok) = 1%nat /\
  seal toy_sign toy_tok = TOk toy_sealed /\
  verify toy_verify toy_pub (mkpub Ed25519 [1; 1]) toy_sealed = true /\
  sealed toy_sealed = true /\
  revocation_ids toy_sealed = revocation_ids toy_tok /\
  append toy_pub toy_sign toy_sealed (mkkp Ed25519 [8]) [7] 3 = TErr TAlreadySealed /\
  deserialize (fun _ b => Some b) toy_pub (to_wire toy_sealed) = Some toy_sealed.
Proof. vm_compute. repeat split. Qed.

(* C19 -- The C API mirrors the Rust API and never aborts.

   What a theorem carries here: the size/announce contract of the serialisation entry
   points over an abstract token codec ([enc] = Biscuit::to_vec, [seal] = Biscuit::seal,
   Section variables: C02's wire model belongs to another family), the fixed-size key
   buffers, the Option discipline of the builder handles and the index checks of the error
   channel.  Everything else in the property -- "returns the same result as the
   corresponding Rust operation", "no call aborts" for the real extern "C" functions -- rests
   on the correspondence (fam_robust.py C19: every entry point called in child processes and
   compared with the Rust API), not on a theorem: partial.

   Full statement wanted: "every entry point called with valid handles and a buffer of the
   announced size writes exactly the announced number of bytes, equal to the Rust API's
   bytes; invalid arguments yield an error; nothing aborts".  The faithful model of the
   unchanged code violates it on four classes (C19_sealed_size_refuted,
   C19_p256_key_refuted, C19_builder_poisoned_refuted, C19_null_builder_refuted); it is proved
   for the repaired model.  Only statements here; proofs are in Proofs/CApiProofs.v. *)
From Biscuit Require Import Model.Token Model.Wire.
From Biscuit Require Import Model.CApi Proofs.RobustProofs Proofs.CApiProofs Proofs.CApiWireProofs.

(* for every codec and every token: the announced size is the number of bytes written, the
   bytes are the Rust API's, sealed or not; an already sealed token is an error; no abort *)
Theorem C19_announced_is_written :
  forall (token : Type) (enc : token -> bytes) (seal : token -> option token) (t : token),
  serialize token enc t = CWritten (serialized_size token enc t) (enc t) /\
  (forall s, seal t = Some s ->
     sealed_size token enc seal Repaired t = blen (enc s) /\
     serialize_sealed token enc seal Repaired t
       = CWritten (sealed_size token enc seal Repaired t) (enc s)) /\
  (seal t = None -> serialize_sealed token enc seal Repaired t = CError) /\
  serialize_sealed token enc seal Repaired t <> CAbort.
Proof.
  intros. split; [apply serialize_writes_announced|].
  split; [intros s H; apply sealed_repaired; assumption|].
  split; [apply sealed_already|apply sealed_repaired_no_abort].
Qed.
Print Assumptions C19_announced_is_written.

(* the unchanged pair: biscuit_sealed_size announces the *unsealed* size, and
   biscuit_serialize_sealed copies the sealed bytes into a slice of that size -- for every
   codec, it aborts exactly when sealing changes the length *)
Theorem C19_sealed_size_faithful_class :
  forall (token : Type) (enc : token -> bytes) (seal : token -> option token) (t s : token),
  seal t = Some s ->
  sealed_size token enc seal Faithful t = blen (enc t) /\
  (length (enc s) <> length (enc t) -> serialize_sealed token enc seal Faithful t = CAbort) /\
  (length (enc s) = length (enc t) ->
     serialize_sealed token enc seal Faithful t = CWritten (blen (enc s)) (enc s)).
Proof. intros. apply sealed_faithful. assumption. Qed.
Print Assumptions C19_sealed_size_faithful_class.

(* ... and in the container format sealing always does: the proof field holds a 32-byte
   next secret before, a signature (64 bytes for ed25519, a DER signature for secp256r1)
   after.  For every unsealed container and every signature of another length than the
   secret: wrong announced size, abort.  (The one-byte length prefixes of the model are the
   real encoding as long as the field is shorter than 126 bytes, which covers both.) *)
Theorem C19_sealed_size_refuted :
  forall (sig : wtoken -> bytes) (body k : bytes),
  length (sig (mkw body (NextSecret k))) <> length k ->
  let t := mkw body (NextSecret k) in
  exists s, wseal sig t = Some s /\
    sealed_size wtoken wenc (wseal sig) Faithful t <> blen (wenc s) /\
    serialize_sealed wtoken wenc (wseal sig) Faithful t = CAbort.
Proof. exact wseal_faithful_aborts. Qed.
Print Assumptions C19_sealed_size_refuted.

(* keys: a 32-byte key is written in full by both variants; the unchanged code aborts on
   every other length -- a compressed secp256r1 public key has 33 bytes --, the repaired one
   reports an error *)
Theorem C19_p256_key_refuted : forall (b : bytes),
  (length b = 33%nat -> key_serialize Faithful b = CAbort) /\
  (length b <> 32%nat -> key_serialize Faithful b = CAbort) /\
  (length b = 32%nat -> forall vr, key_serialize vr b = CWritten 32 b) /\
  key_serialize Repaired b <> CAbort.
Proof.
  intro b. split; [intro H; apply key_faithful_aborts; lia|].
  split; [apply key_faithful_aborts|]. split; [intros H vr; apply key_32; assumption|apply key_repaired_no_abort].
Qed.
Print Assumptions C19_p256_key_refuted.

(* builders: with the repaired wrapper every add_* call returns the inner builder's verdict,
   for every sequence of accepted and refused texts, and never aborts *)
Theorem C19_builder_handles_total : forall (steps : list bool),
  builder_run Repaired true steps = map (fun ok => Some ok) steps /\
  ~ In None (builder_run Repaired true steps).
Proof.
  intro steps. split; [apply builder_repaired|].
  rewrite builder_repaired. intro H. apply in_map_iff in H. destruct H as [x [H _]]. discriminate.
Qed.
Print Assumptions C19_builder_handles_total.

(* the unchanged wrapper loses its inner builder on the first refused text
   (`inner = inner.fact(f)?` inside `take()` ... put-back): the next call on the same handle
   aborts, whatever it is; sequences of accepted texts behave *)
Theorem C19_builder_poisoned_refuted :
  (forall ok rest, builder_run Faithful true (false :: ok :: rest) = [Some false; None]) /\
  (forall steps, forallb (fun b => b) steps = true ->
     builder_run Faithful true steps = map (fun ok => Some ok) steps).
Proof. split; [exact builder_faithful_poisoned|exact builder_faithful_all_ok]. Qed.
Print Assumptions C19_builder_poisoned_refuted.

(* authorizer_builder_build(NULL, ...) notes the invalid argument and then unwraps it *)
Theorem C19_null_builder_refuted :
  build_with_null_builder Faithful = CAbort /\ build_with_null_builder Repaired = CError.
Proof. split; reflexivity. Qed.
Print Assumptions C19_null_builder_refuted.

(* error channel: error_check_id / block_id / rule / is_authorizer answer "none" exactly
   for indices at or past the number of failed checks, and the i-th check otherwise *)
Theorem C19_error_index_checked : forall (A : Type) (checks : list A) (i : N),
  (check_at checks i = None <-> (N.of_nat (length checks) <= i)%N) /\
  ((i < N.of_nat (length checks))%N ->
     exists x, check_at checks i = Some x /\ nth_error checks (N.to_nat i) = Some x).
Proof. intros. split; [apply check_at_none_iff|apply check_at_some]. Qed.
Print Assumptions C19_error_index_checked.

(* ---- the same contract over the concrete container (Model/Token.v, Model/Wire.v) ----
   biscuit_serialized_size / biscuit_sealed_size compute prost's `encoded_len()` of the
   protobuf message -- arithmetic on field lengths, not the length of an encoding.  For every
   container whose scalars fit their Rust types (wtoken_ok) and every signing primitive: that
   number is the number of bytes of `to_vec`, serialize writes exactly those bytes, the
   repaired sealed pair announces and writes the sealed container, a container that cannot
   be sealed is an error with size 0. *)
Theorem C19_wire_announced_is_written :
  forall (sign : alg -> bytes -> bytes -> bytes) (t : token),
  wtoken_ok (to_wire t) = true ->
  encoded_len (to_wire t) = serialized_size token token_bytes t /\
  copy_into (encoded_len (to_wire t)) (token_bytes t)
    = CWritten (encoded_len (to_wire t)) (token_bytes t) /\
  (forall s, Token.seal sign t = TOk s -> wtoken_ok (to_wire s) = true ->
     sealed_size token token_bytes (cseal sign) Repaired t = encoded_len (to_wire s) /\
     serialize_sealed token token_bytes (cseal sign) Repaired t
       = CWritten (encoded_len (to_wire s)) (token_bytes s)) /\
  (forall e, Token.seal sign t = TErr e ->
     serialize_sealed token token_bytes (cseal sign) Repaired t = CError /\
     sealed_size token token_bytes (cseal sign) Repaired t = 0%N).
Proof.
  intros sign t H. split; [apply (wire_size t H)|]. split; [apply (wire_serialize t H)|].
  split; [intros s Hs Hw; apply (wire_sealed sign t s Hs Hw)|intros e He; apply (wire_sealed_error sign t e He)].
Qed.
Print Assumptions C19_wire_announced_is_written.

(* ... and the unchanged pair on that container: sealing a container whose proof is a 32-byte
   next secret with a 64-byte signature (every ed25519 token) makes it exactly 32 bytes
   longer; biscuit_sealed_size is 32 bytes short and biscuit_serialize_sealed aborts *)
Theorem C19_wire_sealed_size_refuted :
  forall (sign : alg -> bytes -> bytes -> bytes) (t s : token) (sk sg : bytes),
  Token.seal sign t = TOk s -> t_proof t = Secret sk -> t_proof s = Seal sg ->
  nlen sk = 32%N -> nlen sg = 64%N ->
  wtoken_ok (to_wire t) = true -> wtoken_ok (to_wire s) = true ->
  encoded_len (to_wire s) = (encoded_len (to_wire t) + 32)%N /\
  (sealed_size token token_bytes (cseal sign) Faithful t + 32 = blen (token_bytes s))%N /\
  serialize_sealed token token_bytes (cseal sign) Faithful t = CAbort.
Proof.
  intros sign t s sk sg Hs Hp Hq Lk Lg Wt Ws.
  split; [apply (wire_seal_grows sign t s sk sg Hs Hp Hq Lk Lg)|].
  apply (wire_faithful_aborts sign t s sk sg Hs Hp Hq Lk Lg Wt Ws).
Qed.
Print Assumptions C19_wire_sealed_size_refuted.

(* ---- non-vacuity ---- *)

(* an ed25519-shaped container: 32-byte secret, 64-byte signature *)
Example C19_ex_sealed :
  let body := [10%N; 2%N; 8%N; 1%N] in
  let k := repeat 7%N 32 in
  let sig := fun _ : wtoken => repeat 9%N 64 in
  let t := mkw body (NextSecret k) in
  serialized_size wtoken wenc t = 40%N /\
  sealed_size wtoken wenc (wseal sig) Faithful t = 40%N /\
  sealed_size wtoken wenc (wseal sig) Repaired t = 72%N /\
  serialize_sealed wtoken wenc (wseal sig) Faithful t = CAbort /\
  (exists b, serialize_sealed wtoken wenc (wseal sig) Repaired t = CWritten 72 b) /\
  serialize_sealed wtoken wenc (wseal sig) Repaired (mkw body (FinalSignature k)) = CError.
Proof. repeat split. eexists. reflexivity. Qed.

Example C19_ex_keys_builders :
  key_serialize Faithful (repeat 2%N 33) = CAbort /\
  key_serialize Repaired (repeat 2%N 33) = CError /\
  key_serialize Faithful (repeat 2%N 32) = CWritten 32 (repeat 2%N 32) /\
  builder_run Faithful true [true; false; true] = [Some true; Some false; None] /\
  builder_run Repaired true [true; false; true] = [Some true; Some false; Some true] /\
  check_at [5%N; 6%N] 1 = Some 6%N /\ check_at [5%N; 6%N] 2 = None /\
  check_at [5%N; 6%N] 18446744073709551615 = None.
Proof. repeat split. Qed.

(* a two-block container with a 32-byte next secret, sealed by a toy primitive whose
   signatures have 64 bytes: it meets every hypothesis of the two wire theorems *)
Definition c19_pub (a : alg) (sk : bytes) : option pubkey := Some (mkpub a sk).
Definition c19_sign (a : alg) (sk m : bytes) : bytes := firstn 64 (sk ++ sk ++ m).
Definition c19_tok : token :=
  match Token.new_token c19_pub c19_sign (Some 3%N) (mkkp Ed25519 (repeat 1%N 32)) (mkkp Ed25519 (repeat 2%N 32)) [5%N; 5%N] 3 with
  | TOk t => match Token.append c19_pub c19_sign t (mkkp Ed25519 (repeat 4%N 32)) [6%N] 3 with TOk t' => t' | TErr _ => t end
  | TErr _ => mktoken None (mkblock [] (mkpub Ed25519 []) [] None 0) [] (Seal [])
  end.
Example C19_ex_wire :
  exists s sk sg, Token.seal c19_sign c19_tok = TOk s /\ t_proof c19_tok = Secret sk /\
    t_proof s = Seal sg /\ nlen sk = 32%N /\ nlen sg = 64%N /\
    wtoken_ok (to_wire c19_tok) = true /\ wtoken_ok (to_wire s) = true /\
    length (t_blocks c19_tok) = 1%nat /\
    encoded_len (to_wire c19_tok) = blen (token_bytes c19_tok) /\
    encoded_len (to_wire s) = (blen (token_bytes c19_tok) + 32)%N.
Proof.
  destruct (Token.seal c19_sign c19_tok) as [s|e] eqn:E; [|vm_compute in E; discriminate].
  exists s. vm_compute in E. inversion E; subst.
  eexists; eexists. vm_compute. repeat split.
Qed.

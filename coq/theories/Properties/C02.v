(* C02 -- Every token the API builds verifies and round-trips byte-exactly.
   Only statements here; proofs are in Proofs/WireProofs.v and Proofs/BuildProofs.v.

   Reading guide.  [encode] / [decode] / [encoded_len] are the model of prost's encoding of the
   container messages schema::{Biscuit, SignedBlock, ExternalSignature, PublicKey, Proof}
   (Model/Wire.v); [wtoken] is the decoded container (Model/Token.v); [wtoken_ok] says what the
   Rust types guarantee of such a value: u32 / i32 scalars and a total size below 2^64.
   [run_history verify_sig pub sign key_canon unverified b ops] runs Build b and then the
   operations [ops] (Append / AppendThirdParty with an honest third party / Seal) as the public
   API does, through Biscuit ([unverified = false]) or UnverifiedBiscuit ([true])
   (Model/ThirdParty.v over Model/Token.v).  The signature scheme is universally quantified;
   what is assumed of it is written in each statement: signing then verifying succeeds
   (correctness), a public key knows its algorithm, and public keys derived from secrets are
   canonically encoded. *)
From Biscuit Require Import Model.Token Model.Readings Model.Wire Model.ThirdParty Model.BlockWire.
From Biscuit Require Import Proofs.ChainLayout Proofs.ChainProofs Proofs.ChainOps Proofs.WireProofs Proofs.BuildProofs Proofs.BlockWireProofs.
From Biscuit Require Model.Schema Proofs.SchemaProofs Model.Convert Proofs.ConvertProofs Proofs.ConvertOrder Proofs.ConvertStable.
Local Open Scope N_scope.

(* the container round-trips: decoding the encoding gives the value back, hence re-encoding
   gives the same bytes *)
Theorem C02_wire_roundtrip : forall t : wtoken,
  wtoken_ok t = true ->
  decode (encode t) = Some t /\
  option_map encode (decode (encode t)) = Some (encode t).
Proof. intros t H. rewrite (decode_encode t H). split; reflexivity. Qed.
Print Assumptions C02_wire_roundtrip.

(* the size announced without serializing is the size of the serialization (reused by C19) *)
Theorem C02_encoded_len : forall t : wtoken,
  wtoken_ok t = true -> N.of_nat (length (encode t)) = encoded_len t.
Proof. exact encoded_len_correct. Qed.
Print Assumptions C02_encoded_len.

(* varints: the building block, for every u64 *)
Theorem C02_varint_roundtrip : forall n rest,
  n < 18446744073709551616 ->
  dec_varint (enc_varint n ++ rest) = Some (n, rest) /\ N.of_nat (length (enc_varint n)) = varint_len n.
Proof. intros n rest H. split; [now apply dec_enc_varint | now apply enc_varint_len]. Qed.
Print Assumptions C02_varint_roundtrip.

(* Completeness: for every correct signature scheme, every history of operations that the
   model executes without error gives a token that verifies under the root public key -- on
   the Biscuit path and on the UnverifiedBiscuit path, for every mix of algorithms, contents,
   root key ids, third-party blocks and a final seal. *)
Theorem C02_built_tokens_verify :
  forall verify_sig pub sign key_canon (unverified : bool) (b : hbuild) (ops : list hop) t rk,
  (forall a sk k m, pub a sk = Some k -> verify_sig k m (sign a sk m) = true) ->
  (forall a sk k, pub a sk = Some k -> pk_alg k = a) ->
  (forall a sk k, pub a sk = Some k -> key_canon (pk_alg k) (pk_bytes k) = Some (pk_bytes k)) ->
  kp_pub pub (hb_root b) = Some rk ->
  run_history verify_sig pub sign key_canon unverified b ops = TOk t ->
  verify verify_sig pub rk t = true.
Proof.
  intros vs pub sign kc unv b ops t rk H1 H2 H3.
  exact (built_tokens_verify vs pub sign kc H1 H2 H3 unv b ops t rk).
Qed.
Print Assumptions C02_built_tokens_verify.

(* each single operation preserves verification, whatever third-party response passes the
   checks of Biscuit::append_third_party (not only honest ones) *)
Theorem C02_operations_preserve_verification : forall verify_sig pub sign root t,
  (forall a sk k m, pub a sk = Some k -> verify_sig k m (sign a sk m) = true) ->
  (forall a sk k, pub a sk = Some k -> pk_alg k = a) ->
  verify verify_sig pub root t = true ->
  (forall next data dv t', append pub sign t next data dv = TOk t' -> verify verify_sig pub root t' = true) /\
  (forall expected resp next t', append_third_party verify_sig pub sign t expected resp next = TOk t' ->
                                 verify verify_sig pub root t' = true) /\
  (forall t', seal sign t = TOk t' -> verify verify_sig pub root t' = true).
Proof.
  intros vs pub sign root t H1 H2 Hv. split; [|split].
  - intros next data dv t'. exact (append_verifies vs pub sign H1 H2 root t next data dv t' Hv).
  - intros expected resp next t'. exact (append_third_party_verifies vs pub sign H1 H2 root t expected resp next t' Hv).
  - intros t'. exact (seal_verifies vs pub sign root t t' H1 Hv).
Qed.
Print Assumptions C02_operations_preserve_verification.

(* ... and round-trips through its serialized bytes, verified directly or unverified first:
   the bytes of a built token decode, deserialize and verify to the very same token (hence
   serialize again to the same bytes) *)
Theorem C02_built_tokens_roundtrip :
  forall verify_sig pub sign key_canon (unverified : bool) (b : hbuild) (ops : list hop) t rk,
  (forall a sk k m, pub a sk = Some k -> verify_sig k m (sign a sk m) = true) ->
  (forall a sk k, pub a sk = Some k -> pk_alg k = a) ->
  (forall a sk k, pub a sk = Some k -> key_canon (pk_alg k) (pk_bytes k) = Some (pk_bytes k)) ->
  kp_pub pub (hb_root b) = Some rk ->
  run_history verify_sig pub sign key_canon unverified b ops = TOk t ->
  wtoken_ok (to_wire t) = true ->
  token_from_bytes verify_sig key_canon pub rk (token_bytes t) = Some t /\
  token_from_bytes_unverified key_canon pub (token_bytes t) = Some t /\
  option_map token_bytes (token_from_bytes verify_sig key_canon pub rk (token_bytes t)) = Some (token_bytes t).
Proof.
  intros vs pub sign kc unv b ops t rk H1 H2 H3 Hr Hh Hw.
  assert (Hv := built_tokens_verify vs pub sign kc H1 H2 H3 unv b ops t rk Hr Hh).
  assert (Hc := built_tokens_canon vs pub sign kc H1 H3 unv b ops t Hh).
  destruct (verified_token_roundtrip vs pub kc rk t Hw Hc Hv) as [E1 E2].
  rewrite E1. repeat split; assumption.
Qed.
Print Assumptions C02_built_tokens_roundtrip.

(* accessors after a reload: whatever the bytes of a verifying token with canonical keys
   reload to has the same blocks, revocation identifiers, external keys, root key id,
   contexts and sealed flag *)
Theorem C02_accessors_preserved : forall verify_sig key_canon pub root t t',
  wtoken_ok (to_wire t) = true ->
  (forall b, In b (all_blocks t) -> canon_block key_canon b) ->
  verify verify_sig pub root t = true ->
  token_from_bytes verify_sig key_canon pub root (token_bytes t) = Some t' ->
  all_blocks t' = all_blocks t /\ length (all_blocks t') = length (all_blocks t) /\
  revocation_ids t' = revocation_ids t /\ external_keys t' = external_keys t /\
  t_root_key_id t' = t_root_key_id t /\ contexts t' = contexts t /\ sealed t' = sealed t.
Proof.
  intros vs kc pub root t t' Hw Hc Hv H.
  destruct (verified_token_roundtrip vs pub kc root t Hw Hc Hv) as [E _].
  rewrite E in H. inversion H. subst t'. repeat split.
Qed.
Print Assumptions C02_accessors_preserved.

(* The signature version.  (1) The rule used by the operations is the model of
   block_signature_version that property C16 is about.  (2) The versions found in a built
   token are that rule chained along the history, which (C16_sigversion_spec) is the
   specification's rule: 1 from the first block that is third-party, or declares Datalog >= 3.3,
   or is signed by / hands over to a non-ed25519 key, onwards; 0 before. *)
Theorem C02_sigversion_spec :
  (forall s n tp dv prev,
     sig_version s n tp dv prev = Schema.block_signature_version (salg s) (salg n) tp dv prev) /\
  (forall verify_sig pub sign key_canon (unverified : bool) b ops t,
     (forall a sk k, pub a sk = Some k -> pk_alg k = a) ->
     run_history verify_sig pub sign key_canon unverified b ops = TOk t ->
     map b_version (all_blocks t) = Schema.token_sigversions (salg (kp_alg (hb_root b))) (history_descr b ops) /\
     map b_version (all_blocks t) = SchemaProofs.spec_chain (salg (kp_alg (hb_root b))) false (history_descr b ops)).
Proof.
  split; [exact sig_version_is_schema|].
  intros vs pub sign kc unv b ops t Hp. exact (history_versions vs pub sign kc Hp unv b ops t).
Qed.
Print Assumptions C02_sigversion_spec.

(* ------------------------------------------------------------------ non-vacuity *)
(* a toy correct scheme: secret = public key bytes, signature = key bytes ++ message *)
Definition c2_pub (a : alg) (sk : bytes) : option pubkey := Some (mkpub a sk).
Definition c2_sign (a : alg) (sk m : bytes) : bytes := sk ++ m.
Definition c2_verify (k : pubkey) (m s : bytes) : bool := bytes_eqb s (pk_bytes k ++ m).
Definition c2_canon (a : alg) (b : bytes) : option bytes := Some b.
Definition c2_build : hbuild := mkbuild (Some 7) (mkkp Ed25519 [1; 1]) (mkkp Ed25519 [2; 2]) [18; 2; 3; 99; 24; 3] 3.
Definition c2_ops : list hop :=
  [HAppend (mkkp Ed25519 [3]) [24; 3] 3;
   HThird (mkkp Secp256r1 [2; 8; 8]) [18; 1; 120; 24; 5] (mkkp Secp256r1 [2; 4]);
   HAppend (mkkp Ed25519 [6]) [24; 3] 3;
   HSeal].
Definition c2_tok (unverified : bool) : token :=
  match run_history c2_verify c2_pub c2_sign c2_canon unverified c2_build c2_ops with
  | TOk t => t
  | TErr _ => mktoken None (mkblock [] (mkpub Ed25519 []) [] None 0) [] (Seal [])
  end.

Example C02_example :
  (* the premises of the completeness theorems hold for the toy scheme *)
  (forall a sk k m, c2_pub a sk = Some k -> c2_verify k m (c2_sign a sk m) = true) /\
  (forall a sk k, c2_pub a sk = Some k -> pk_alg k = a) /\
  (forall a sk k, c2_pub a sk = Some k -> c2_canon (pk_alg k) (pk_bytes k) = Some (pk_bytes k)) /\
  (* a five-operation history with a third-party block and a seal runs on both paths *)
  run_history c2_verify c2_pub c2_sign c2_canon false c2_build c2_ops = TOk (c2_tok false) /\
  run_history c2_verify c2_pub c2_sign c2_canon true c2_build c2_ops = TOk (c2_tok true) /\
  length (t_blocks (c2_tok false)) = 3%nat /\ sealed (c2_tok false) = true /\
  (* versions 0, 0, then 1 from the third-party block on *)
  map b_version (all_blocks (c2_tok false)) = [0; 0; 1; 1] /\
  wtoken_ok (to_wire (c2_tok false)) = true /\
  verify c2_verify c2_pub (mkpub Ed25519 [1; 1]) (c2_tok false) = true /\
  token_from_bytes c2_verify c2_canon c2_pub (mkpub Ed25519 [1; 1]) (token_bytes (c2_tok false)) = Some (c2_tok false) /\
  N.of_nat (length (token_bytes (c2_tok false))) = encoded_len (to_wire (c2_tok false)) /\
  contexts (c2_tok false) = [Some (Some [3; 99]); Some None; Some (Some [120]); Some None].
Proof.
  split; [|split; [|split]].
  - intros a sk k m H. unfold c2_pub in H. inversion H. unfold c2_verify, c2_sign. cbn [pk_bytes]. apply bytes_eqb_refl.
  - intros a sk k H. unfold c2_pub in H. now inversion H.
  - reflexivity.
  - vm_compute. repeat split.
Qed.

(* ---- the contents of a block (Model/BlockWire.v): the Block message and everything nested in
   it -- symbols, context, version, facts, rules, checks, predicates, terms (sets, arrays and maps
   at any nesting), expressions, ops, closures, scopes, public keys -- as prost's generated
   structures hold them.  [pblock_ok] says what the Rust types guarantee (u32 / u64 / i32 / i64
   scalars, UTF-8 strings) and that terms and ops nest at most 90 budget units deep (a set or
   array level costs 2, a map level 3, a closure level 2; prost's budget is 100 and a block's
   terms start at 96 or 97).  Every such value reads back as itself, so "exposes the same
   blocks" and "serializing it again yields identical bytes" hold of the block contents too. *)
Theorem C02_block_content_roundtrip : forall k : pblock,
  pblock_ok k = true ->
  N.of_nat (length (encode_block k)) < 18446744073709551616 ->
  decode_block (encode_block k) = Some k /\
  option_map encode_block (decode_block (encode_block k)) = Some (encode_block k).
Proof. intros k H Hs. rewrite (decode_encode_block k H Hs). split; reflexivity. Qed.
Print Assumptions C02_block_content_roundtrip.

(* a term of any shape inside its budget, read back by the recursive decoder *)
Theorem C02_term_roundtrip : forall (t : pterm) (budget : nat),
  term_ok t = true -> (term_depth t <= budget)%nat ->
  N.of_nat (length (enc_fields (term_fields t))) < 18446744073709551616 ->
  fold_opt (step_term budget) (term_fields t) PTNone = Some t.
Proof. intros t c. exact (term_roundtrip t c). Qed.
Print Assumptions C02_term_roundtrip.

(* an expression op (closures at any nesting) inside its budget *)
Theorem C02_op_roundtrip : forall (o : pop) (budget : nat),
  op_ok o = true -> (op_depth o <= budget)%nat ->
  N.of_nat (length (enc_fields (op_fields o))) < 18446744073709551616 ->
  fold_opt (step_op budget) (op_fields o) PONone = Some o.
Proof. intros o c. exact (op_roundtrip o c). Qed.
Print Assumptions C02_op_roundtrip.

(* the nesting premise is needed: prost writes a fact whose term nests 49 arrays and refuses
   to read it back (recursion budget); the builders refuse such a block at build time, which
   the correspondence run checks on every run (evidence keys builder_nesting_depths_checked, builder_nesting_first_unreadable_depth) *)
Fixpoint c2_nest (n : nat) (t : pterm) : pterm :=
  match n with O => t | S n' => PTArray [c2_nest n' t] end.
Definition c2_deep (n : nat) : pblock :=
  mkpblock [] None (Some 6) [mkppred 1 [c2_nest n (PTInteger 1%Z)]] [] [] [] [].
Theorem C02_block_nesting_premise_needed :
  decode_block (encode_block (c2_deep 48)) = Some (c2_deep 48) /\
  decode_block (encode_block (c2_deep 49)) = None.
Proof. split; vm_compute; reflexivity. Qed.
Print Assumptions C02_block_nesting_premise_needed.

(* non-vacuity: a block with every kind of content meets the premises *)
Definition c2_block : pblock :=
  mkpblock [[104; 105]; [195; 169]] (Some [99]) (Some 6)
    [mkppred 1024 [PTString 1025; PTSet [PTInteger (-1)%Z; PTInteger 2%Z];
                   PTMap [(PKInt 3%Z, PTArray [PTNull; PTBool true]); (PKStr 1024, PTBytes [0; 255])]];
     mkppred 2 [PTDate 1700000000; PTVariable 0]]
    [mkprule (mkppred 3 [PTVariable 0]) [mkppred 1024 [PTVariable 0; PTVariable 1; PTVariable 2]]
       [[POValue (PTVariable 0); POValue (PTInteger 9223372036854775807%Z); POBinary 0%Z None;
         POClosure [] [POValue (PTVariable 1); POClosure [4] [POValue (PTVariable 4); POUnary 4%Z (Some 1025)]; POBinary 26%Z None];
         POBinary 23%Z None]]
       [PSType 0%Z; PSKey 0%Z]]
    [mkpcheck [mkprule (mkppred 4 []) [] [[POValue (PTBool true)]] [PSType 1%Z]] (Some 2%Z)]
    [PSType 1%Z] [mkwkey 1%Z [2; 3; 4]].
Example C02_example_block :
  pblock_ok c2_block = true /\
  N.of_nat (length (encode_block c2_block)) < 18446744073709551616 /\
  decode_block (encode_block c2_block) = Some c2_block.
Proof. vm_compute. repeat split. Qed.

(* ---- from the decoded structure to the token block, and back ------------------------------
   [conv_block canon p ext] is format::convert::proto_block_to_token_block on the decoded
   structure [p] (Model/Convert.v): terms with sets rebuilt as BTreeSet and maps as BTreeMap
   (lists in the order of Rust's derived Ord, [Convert.icmp]), operator numbers, scopes, check
   kinds, key table (curve validity and canonical encoding are the oracle [canon]), symbol
   table, the version gates and the feature detector; [unconv_block] is
   token_block_to_proto_block.  [iblock_wf] says what a token block is: every set is what
   BTreeSet construction yields from its own elements, of one kind, without variables or sets;
   every map is what BTreeMap construction yields from its own entries; operators are the
   index-level ones; key indices fit u64; the key table is canonical, valid and duplicate-free;
   and the block passes the version gates it is loaded through ([iblock_gates], decidable). *)
Theorem C02_term_convert_roundtrip : forall t : Convert.iterm,
  Convert.iterm_wf t -> Convert.conv_term (Convert.unconv_term t) = Some t.
Proof. exact ConvertProofs.conv_unconv_term. Qed.
Print Assumptions C02_term_convert_roundtrip.

Theorem C02_block_convert_roundtrip : forall (canon : Z -> bytes -> option bytes) (b : Convert.iblock),
  Convert.iblock_wf canon b ->
  Convert.conv_block canon (Convert.unconv_block b) (Convert.ib_external b) = Convert.COk b.
Proof. exact ConvertProofs.conv_unconv_block. Qed.
Print Assumptions C02_block_convert_roundtrip.

(* bytes -> prost structure -> token block: the serialized contents of a block give back the
   block ("exposes the same blocks"), composed from the two layers *)
Theorem C02_block_bytes_to_block : forall (canon : Z -> bytes -> option bytes) (b : Convert.iblock),
  Convert.iblock_wf canon b ->
  pblock_ok (Convert.unconv_block b) = true ->
  N.of_nat (length (encode_block (Convert.unconv_block b))) < 18446744073709551616 ->
  exists p, decode_block (encode_block (Convert.unconv_block b)) = Some p
            /\ Convert.conv_block canon p (Convert.ib_external b) = Convert.COk b.
Proof. exact ConvertProofs.block_bytes_roundtrip. Qed.
Print Assumptions C02_block_bytes_to_block.

(* non-vacuity: a third-party 3.3 block with a set, a map, a closure, scopes and a key meets
   the premises; and a wire form that is *not* canonical (set elements out of order and
   repeated, a map key given twice) converts to the canonical block, which reads back as itself *)
Definition c2_anykey : Z -> bytes -> option bytes := fun _ k => Some k.
Definition c2_key : wkey := mkwkey 0%Z (repeat 7 32).
Definition c2_iblock : Convert.iblock :=
  Convert.mkiblock [[104; 105]] (Some [99]) 6
    [Convert.mkipred 1024 [Convert.ITSet [Convert.ITInt (-1)%Z; Convert.ITInt 2%Z];
                           Convert.ITMap [(Convert.IKInt 3%Z, Convert.ITArray [Convert.ITNull; Convert.ITVar 1]);
                                          (Convert.IKStr 1024, Convert.ITBytes [0; 255])]]]
    [Convert.mkirule (Convert.mkipred 3 [Convert.ITVar 0]) [Convert.mkipred 1024 [Convert.ITVar 0]]
       [[Convert.IOVal (Convert.ITVar 0); Convert.IOClo [4] [Convert.IOVal (Convert.ITVar 4); Convert.IOUn (Expr.UFfiUnk 1024)];
         Convert.IOBin Expr.BAny]]
       [Convert.ISAuthority; Convert.ISKey 0]]
    [Convert.mkicheck [Convert.mkirule (Convert.mkipred 4 []) [] [[Convert.IOVal (Convert.ITBool true)]] [Convert.ISPrevious]]
                      Convert.ICReject]
    [Convert.ISPrevious] [c2_key] true.
Definition c2_unsorted : pblock :=
  mkpblock [] None (Some 6)
    [mkppred 1 [PTSet [PTInteger 2%Z; PTInteger (-1)%Z; PTInteger 2%Z];
                PTMap [(PKStr 5, PTInteger 1%Z); (PKInt 3%Z, PTInteger 2%Z); (PKStr 5, PTInteger 3%Z)]]]
    [] [] [] [].
Definition c2_sorted : Convert.iblock :=
  Convert.mkiblock [] None 6
    [Convert.mkipred 1 [Convert.ITSet [Convert.ITInt (-1)%Z; Convert.ITInt 2%Z];
                        Convert.ITMap [(Convert.IKInt 3%Z, Convert.ITInt 2%Z); (Convert.IKStr 5, Convert.ITInt 3%Z)]]]
    [] [] [] [] false.
Example C02_example_convert :
  Convert.iblock_gates c2_iblock = true /\
  Convert.conv_keys c2_anykey [c2_key] [] = inr [c2_key] /\
  Convert.conv_block c2_anykey (Convert.unconv_block c2_iblock) true = Convert.COk c2_iblock /\
  pblock_ok (Convert.unconv_block c2_iblock) = true /\
  Convert.conv_block c2_anykey c2_unsorted false = Convert.COk c2_sorted /\
  Convert.conv_block c2_anykey (Convert.unconv_block c2_sorted) false = Convert.COk c2_sorted.
Proof. vm_compute. repeat split; reflexivity. Qed.

(* ---- every loaded block is such a block ----------------------------------------------------
   [Convert.icmp] (Rust's derived Ord on datalog::Term, by which BTreeSet keeps its elements) is a
   strict total order; therefore the set and map loops of the conversion produce sorted,
   duplicate-free lists, which are fixed points of the construction; therefore whatever the
   conversion returns is well formed, and a block that was loaded, written back and loaded again
   is the same block.  [canon_ok] is what is assumed of the key oracle: a canonical encoding is
   itself valid and canonical, and a canonical ed25519 key is 32 bytes long. *)
Theorem C02_term_order_strict_total :
  (forall a b, Convert.icmp a b = Eq -> a = b) /\
  (forall a, Convert.icmp a a = Eq) /\
  (forall a b, Convert.icmp b a = CompOpp (Convert.icmp a b)) /\
  (forall a b c, Convert.icmp a b = Lt -> Convert.icmp b c = Lt -> Convert.icmp a c = Lt).
Proof.
  exact (conj ConvertOrder.icmp_eq (conj ConvertOrder.icmp_refl (conj ConvertOrder.icmp_anti ConvertOrder.icmp_trans))).
Qed.
Print Assumptions C02_term_order_strict_total.

Theorem C02_converted_terms_wellformed : forall (t : pterm) (i : Convert.iterm),
  Convert.conv_term t = Some i -> Convert.iterm_wf i.
Proof. exact ConvertOrder.conv_term_wf. Qed.
Print Assumptions C02_converted_terms_wellformed.

Theorem C02_loaded_block_stable :
  forall (canon : Z -> bytes -> option bytes) (p : pblock) (ext : bool) (b : Convert.iblock),
    ConvertStable.canon_ok canon ->
    pblock_ok p = true ->
    Convert.conv_block canon p ext = Convert.COk b ->
    Convert.iblock_wf canon b /\
    Convert.conv_block canon (Convert.unconv_block b) ext = Convert.COk b.
Proof.
  intros canon p ext b Hc Hok H. pose proof (ConvertStable.pblock_ok_scopes p Hok) as Hr. split.
  - exact (ConvertStable.conv_block_wf canon p ext b Hc Hr H).
  - exact (ConvertStable.conv_block_stable canon p ext b Hc Hr H).
Qed.
Print Assumptions C02_loaded_block_stable.

(* non-vacuity: an oracle that meets [canon_ok] (every key of the right size is its own canonical
   form), under which the unsorted wire form above -- a [pblock_ok] value -- loads *)
Definition c2_canon32 : Z -> bytes -> option bytes :=
  fun a k => if (a =? 0)%Z && negb (Nat.eqb (length k) 32) then None else Some k.
Example C02_example_canon_ok : ConvertStable.canon_ok c2_canon32.
Proof.
  unfold ConvertStable.canon_ok, c2_canon32. split.
  - intros a k c H. destruct ((a =? 0)%Z && negb (Nat.eqb (length k) 32)) eqn:E; [discriminate|].
    injection H as <-. now rewrite E.
  - intros k c H. cbn [Z.eqb andb] in H. destruct (Nat.eqb (length k) 32) eqn:E; cbn [negb] in H; [|discriminate].
    injection H as <-. now apply PeanoNat.Nat.eqb_eq.
Qed.
Example C02_example_stable :
  pblock_ok c2_unsorted = true /\
  Convert.conv_block c2_canon32 c2_unsorted false = Convert.COk c2_sorted /\
  Convert.conv_block c2_canon32 (Convert.unconv_block c2_iblock) true = Convert.COk c2_iblock /\
  Convert.icmp (Convert.ITSet [Convert.ITInt 1%Z]) (Convert.ITSet [Convert.ITInt 1%Z; Convert.ITInt 0%Z]) = Lt /\
  Convert.icmp (Convert.ITStr 5) (Convert.ITInt 7%Z) = Gt.
Proof. vm_compute. repeat split; reflexivity. Qed.

(* ---- the layers composed --------------------------------------------------------------------
   What a built token's bytes reload to carries, for every block whose contents were written
   from a token block [ib] (as the builders do: token_block_to_proto_block, then prost), bytes
   that decode and convert to [ib] again: "exposes the same blocks", from the container down to
   the terms of the Datalog. *)
Theorem C02_built_tokens_expose_their_blocks :
  forall verify_sig pub sign key_canon (unverified : bool) (b : hbuild) (ops : list hop) t rk
         (canon : Z -> bytes -> option bytes),
  (forall a sk k m, pub a sk = Some k -> verify_sig k m (sign a sk m) = true) ->
  (forall a sk k, pub a sk = Some k -> pk_alg k = a) ->
  (forall a sk k, pub a sk = Some k -> key_canon (pk_alg k) (pk_bytes k) = Some (pk_bytes k)) ->
  kp_pub pub (hb_root b) = Some rk ->
  run_history verify_sig pub sign key_canon unverified b ops = TOk t ->
  wtoken_ok (to_wire t) = true ->
  exists t', token_from_bytes verify_sig key_canon pub rk (token_bytes t) = Some t' /\
    forall (sb : sblock) (ib : Convert.iblock),
      In sb (t_authority t :: t_blocks t) ->
      b_data sb = encode_block (Convert.unconv_block ib) ->
      Convert.iblock_wf canon ib ->
      pblock_ok (Convert.unconv_block ib) = true ->
      N.of_nat (length (encode_block (Convert.unconv_block ib))) < 18446744073709551616 ->
      In sb (t_authority t' :: t_blocks t') /\
      exists p, decode_block (b_data sb) = Some p /\
                Convert.conv_block canon p (Convert.ib_external ib) = Convert.COk ib.
Proof.
  intros vs pub sign kc unv b ops t rk canon H1 H2 H3 Hr Hh Hw.
  destruct (C02_built_tokens_roundtrip vs pub sign kc unv b ops t rk H1 H2 H3 Hr Hh Hw) as [E _].
  exists t. split; [exact E|].
  intros sb ib Hin Hd Hwf Hok Hlen. split; [exact Hin|]. rewrite Hd.
  exact (ConvertProofs.block_bytes_roundtrip canon ib Hwf Hok Hlen).
Qed.
Print Assumptions C02_built_tokens_expose_their_blocks.

(* C17 -- Key and signature encodings round-trip and reject malformed material.
   Only statements here; proofs are in Proofs/KeyCodecProofs.v.  The model is
   Model/KeyCodec.v; curve-point validity, scalar validity, DER signature parsing and the
   signature primitives are the record [oracles] (library behaviour, not modelled), and
   every theorem holds for every such record.  PKCS8 DER / PEM are outside the model. *)
From Biscuit Require Import Model.KeyCodec Proofs.KeyCodecProofs.
Local Open Scope N_scope.

(* ---------------------------------------------------------------- hex *)

(* hex::decode (hex::encode b) = b, for every byte string *)
Theorem C17_hex_roundtrip : forall b : bytes,
  Forall (fun x => x < 256) b -> hex_decode (hex_encode b) = HOk b.
Proof. exact hex_roundtrip. Qed.
Print Assumptions C17_hex_roundtrip.

Example C17_hex_roundtrip_ex :
  hex_encode [0; 9; 10; 171; 255] = str "00090aabff" /\
  hex_decode (str "00090aABfF") = HOk [0; 9; 10; 171; 255].
Proof. split; vm_compute; reflexivity. Qed.

Theorem C17_hex_decode_rejects_odd : forall s : bytes,
  Nat.odd (length s) = true -> hex_decode s = HErr HexOdd.
Proof. exact hex_decode_odd. Qed.
Print Assumptions C17_hex_decode_rejects_odd.

Theorem C17_hex_decode_rejects_non_hex : forall (s : bytes) (c : N),
  In c s -> is_hex_char c = false -> exists e, hex_decode s = HErr e.
Proof. exact hex_decode_nonhex. Qed.
Print Assumptions C17_hex_decode_rejects_non_hex.

Example C17_hex_decode_rejects_ex :
  hex_decode (str "123") = HErr HexOdd /\ hex_decode (str "12z4") = HErr (HexChar 122 2) /\
  hex_decode (str "z23") = HErr HexOdd.
Proof. repeat split; vm_compute; reflexivity. Qed.

(* exactly the even-length strings over [0-9a-fA-F] decode; the result has half the length,
   consists of bytes, and re-encodes to the lower-cased input (so decoding is injective up
   to the case of the letters) *)
Theorem C17_hex_decode_accepts_exactly : forall s : bytes,
  (forall b, hex_decode s = HOk b ->
     length s = (2 * length b)%nat /\ forallb is_hex_char s = true /\
     Forall (fun x => x < 256) b /\ hex_encode b = map hex_lower s) /\
  (Nat.odd (length s) = false -> forallb is_hex_char s = true -> exists b, hex_decode s = HOk b).
Proof.
  intro s. split; [apply hex_decode_ok|].
  intros Ho Hf. unfold hex_decode. rewrite Ho. apply hex_decode_from_total; assumption.
Qed.
Print Assumptions C17_hex_decode_accepts_exactly.

(* hex::encode produces an even number of characters, all in [0-9a-f] *)
Theorem C17_hex_encode_lower_even : forall b : bytes,
  Forall (fun x => x < 256) b ->
  length (hex_encode b) = (2 * length b)%nat /\
  Forall (fun c => is_lower_hex c = true) (hex_encode b).
Proof. intros b H. split; [apply hex_encode_length | apply hex_encode_lower, H]. Qed.
Print Assumptions C17_hex_encode_lower_even.

(* ---------------------------------------------------------------- "<algorithm>/<hex>" public keys *)

(* [parse_prefixed] is PublicKey::from_str as C17 demands it (no unparsed remainder);
   [pub_from_str_impl] is the unchanged code.  [wf_pub O k]: k is a key the byte decoder
   itself produces (decoding its bytes yields k). *)
Theorem C17_prefixed_roundtrip : forall (O : oracles) (k : pubkey),
  wf_pub O k -> parse_prefixed O (print_prefixed k) = KOk k.
Proof. intros O k. apply prefixed_roundtrip_gen. Qed.
Print Assumptions C17_prefixed_roundtrip.

Example C17_prefixed_roundtrip_ex :
  wf_pub demo_oracles demo_ed /\ wf_pub demo_oracles demo_p256 /\
  print_prefixed demo_ed = str "ed25519/eb396fa7a681c614fefc5bd8d1fa0383f30a8c562a99d8e8a830286e844be074" /\
  parse_prefixed demo_oracles
    (str "secp256r1/03B6D94743381D3452F11A1AEC8D73B0A899827D48BE2E4387112E4D2FAACFCC29") = KOk demo_p256.
Proof.
  split; [exact demo_ed_wf|]. split; [exact demo_p256_wf|]. split; vm_compute; reflexivity.
Qed.

Theorem C17_prefixed_rejects_other_prefix : forall (O : oracles) (s : bytes),
  is_prefix (str "ed25519/") s = false -> is_prefix (str "secp256r1/") s = false ->
  parse_prefixed O s = KErr KInvalidKey /\ pub_from_str_impl O s = KErr KInvalidKey.
Proof. intros O s H1 H2. split; apply prefixed_other_prefix; assumption. Qed.
Print Assumptions C17_prefixed_rejects_other_prefix.

(* wrong key lengths: anything but 32 bytes for ed25519, anything but 33 or 65 for secp256r1 *)
Theorem C17_prefixed_rejects_wrong_length : forall (O : oracles) (s : bytes) a kb rest,
  parse_public_key s = Some (a, kb, rest) ->
  match a with
  | Ed25519 => length kb <> 32%nat
  | Secp256r1 => length kb <> 33%nat /\ length kb <> 65%nat
  end ->
  (exists e, parse_prefixed O s = KErr e) /\ (exists e, pub_from_str_impl O s = KErr e).
Proof. intros O s a kb rest P L. split; eapply prefixed_wrong_length; eassumption. Qed.
Print Assumptions C17_prefixed_rejects_wrong_length.

Theorem C17_raw_rejects_wrong_length : forall (O : oracles) (b : bytes),
  (length b <> 32%nat -> pub_from_bytes O Ed25519 b = KErr (KInvalidKeySize (N.of_nat (length b)))) /\
  (length b <> 33%nat -> length b <> 65%nat -> pub_from_bytes O Secp256r1 b = KErr KInvalidKey) /\
  (forall a, length b <> 32%nat -> priv_from_bytes O a b = KErr (KInvalidKeySize (N.of_nat (length b)))).
Proof.
  intros O b. split; [apply pub_from_bytes_ed_wrong_length|].
  split; [apply pub_from_bytes_secp_wrong_length | intros a; apply priv_from_bytes_wrong_length].
Qed.
Print Assumptions C17_raw_rejects_wrong_length.

(* trailing input: no accepted string has an accepted proper extension *)
Theorem C17_prefixed_rejects_trailing : forall (O : oracles) (s t : bytes) (k : pubkey),
  parse_prefixed O s = KOk k -> t <> [] -> exists e, parse_prefixed O (s ++ t) = KErr e.
Proof. intros O s t k. apply prefixed_trailing. Qed.
Print Assumptions C17_prefixed_rejects_trailing.

Example C17_prefixed_rejects_ex :
  parse_prefixed demo_oracles (print_prefixed demo_ed ++ str "zz") = KErr KInvalidKey /\
  parse_prefixed demo_oracles (print_prefixed demo_ed ++ str "ab") = KErr (KInvalidKeySize 33) /\
  parse_prefixed demo_oracles (print_prefixed demo_ed ++ str " ") = KErr KInvalidKey /\
  parse_prefixed demo_oracles (str "xx/" ++ pub_to_hex demo_ed) = KErr KInvalidKey /\
  parse_prefixed demo_oracles (str "secp256r1/" ++ pub_to_hex demo_ed) = KErr KInvalidKey /\
  parse_prefixed demo_oracles (str "ed25519/" ++ pub_to_hex demo_p256) = KErr (KInvalidKeySize 33).
Proof. repeat split; vm_compute; reflexivity. Qed.

(* accepted strings are exactly "<name of the key's algorithm>/<hex of bytes the byte decoder accepts>" *)
Theorem C17_prefixed_accepts_exactly : forall (O : oracles) (s : bytes) (k : pubkey),
  parse_prefixed O s = KOk k ->
  exists h kb, s = alg_name (pub_alg k) ++ slash :: h /\ hex_decode h = HOk kb /\
               pub_from_bytes O (pub_alg k) kb = KOk k.
Proof. exact prefixed_accepts. Qed.
Print Assumptions C17_prefixed_accepts_exactly.

(* The unchanged PublicKey::from_str violates the trailing-input clause: the faithful model
   accepts a printed key followed by "zz" (known finding C17-from-str-trailing; replayed on
   the implementation by the harness corpus, case 0). *)
Theorem C17_trailing_refuted :
  exists (O : oracles) (k : pubkey) (t : bytes),
    wf_pub O k /\ t <> [] /\ pub_from_str_impl O (print_prefixed k ++ t) = KOk k.
Proof. exact trailing_refuted. Qed.
Print Assumptions C17_trailing_refuted.

(* ... and that is the only difference: the unchanged decoder round-trips, refuses whatever
   the demanded decoder refuses for a reason other than the remainder, and everything it
   accepts is an accepted string followed by input starting with a non-hex character. *)
Theorem C17_from_str_partial : forall (O : oracles),
  (forall k, wf_pub O k -> pub_from_str_impl O (print_prefixed k) = KOk k) /\
  (forall s k, parse_prefixed O s = KOk k -> pub_from_str_impl O s = KOk k) /\
  (forall s e, pub_from_str_impl O s = KErr e -> exists e', parse_prefixed O s = KErr e') /\
  (forall s k, pub_from_str_impl O s = KOk k ->
     exists s' t, s = s' ++ t /\ parse_prefixed O s' = KOk k /\
                  (t = [] \/ exists c r, t = c :: r /\ is_hex_char c = false)).
Proof.
  intro O. split; [intros k; apply prefixed_roundtrip_gen|].
  split; [apply strict_implies_impl|]. split; [apply impl_error_implies_strict | apply impl_accepts_prefix].
Qed.
Print Assumptions C17_from_str_partial.

(* ---------------------------------------------------------------- protobuf PublicKey *)

Theorem C17_proto_roundtrip : forall (O : oracles) (k : pubkey),
  wf_pub O k ->
  pub_from_proto O (fst (pub_to_proto k)) (snd (pub_to_proto k)) = KOk k /\
  proto_wire (pub_to_proto k) =
    [8; Z.to_N (alg_num (pub_alg k)); 18; N.of_nat (length (pub_to_bytes k))] ++ pub_to_bytes k.
Proof. intros O k W. split; [apply proto_roundtrip, W | apply (proto_wire_shape O), W]. Qed.
Print Assumptions C17_proto_roundtrip.

(* unknown algorithm numbers are refused; an accepted message names the key's algorithm *)
Theorem C17_proto_dispatch : forall (O : oracles) (n : Z) (key : bytes),
  (n <> 0%Z -> n <> 1%Z -> pub_from_proto O n key = KErr KDeserialization) /\
  (forall k, pub_from_proto O n key = KOk k ->
     n = alg_num (pub_alg k) /\ pub_from_bytes O (pub_alg k) key = KOk k).
Proof. intros O n key. split; [apply proto_unknown_algorithm | apply proto_dispatch]. Qed.
Print Assumptions C17_proto_dispatch.

Example C17_proto_ex :
  pub_to_proto demo_p256 = (1%Z, pub_to_bytes demo_p256) /\
  pub_from_proto demo_oracles 1 (pub_to_bytes demo_p256) = KOk demo_p256 /\
  pub_from_proto demo_oracles 0 (pub_to_bytes demo_p256) = KErr (KInvalidKeySize 33) /\
  pub_from_proto demo_oracles 2 (pub_to_bytes demo_p256) = KErr KDeserialization /\
  pub_from_proto demo_oracles (-1) (pub_to_bytes demo_ed) = KErr KDeserialization.
Proof. repeat split; vm_compute; reflexivity. Qed.

(* ---------------------------------------------------------------- cross-algorithm decoding *)

(* bytes, prefixed strings and protobuf messages accepted for one algorithm are refused
   for the other, whatever the curve libraries answer *)
Theorem C17_cross_algorithm : forall (O : oracles) (a a' : alg), a' <> a ->
  (forall b k, pub_from_bytes O a b = KOk k -> exists e, pub_from_bytes O a' b = KErr e) /\
  (forall k, wf_pub O k -> pub_alg k = a ->
     exists e, parse_prefixed O (alg_name a' ++ slash :: pub_to_hex k) = KErr e) /\
  (forall k, wf_pub O k -> pub_alg k = a ->
     exists e, pub_from_proto O (alg_num a') (pub_to_bytes k) = KErr e) /\
  (forall s k, parse_prefixed O s = KOk k -> pub_alg k = a ->
     is_prefix (alg_name a ++ [slash]) s = true /\ is_prefix (alg_name a' ++ [slash]) s = false).
Proof. exact cross_algorithm. Qed.
Print Assumptions C17_cross_algorithm.

(* ---------------------------------------------------------------- private keys *)

Theorem C17_private_prefixed_roundtrip : forall (O : oracles) (k : privkey),
  wf_priv O k -> priv_from_str O (priv_print k) = KOk k.
Proof. exact priv_roundtrip. Qed.
Print Assumptions C17_private_prefixed_roundtrip.

(* accepted private-key strings are exactly "<algorithm>/<64 hex digits>"; trailing input,
   unknown or missing algorithm names are refused *)
Theorem C17_private_rejects_malformed : forall (O : oracles) (s : bytes),
  (forall k, priv_from_str O s = KOk k ->
     exists h, s = alg_name (priv_alg k) ++ slash :: h /\ hex_decode h = HOk (priv_to_bytes k) /\
               length (priv_to_bytes k) = 32%nat /\
               priv_from_bytes O (priv_alg k) (priv_to_bytes k) = KOk k) /\
  (forall k t, priv_from_str O s = KOk k -> t <> [] -> exists e, priv_from_str O (s ++ t) = KErr e) /\
  ((forall a x, s <> alg_name a ++ slash :: x) -> priv_from_str O s = KErr KInvalidKey).
Proof.
  intros O s. split; [intros k; apply priv_accepts|].
  split; [intros k t; apply priv_trailing | apply priv_unknown_prefix].
Qed.
Print Assumptions C17_private_rejects_malformed.

Example C17_private_ex :
  wf_priv demo_oracles demo_priv /\
  priv_print demo_priv = str "secp256r1/4e85237ab258ca7d53051073dd6c1e501ea4699f2fed6b0f5d399dc2a5f7d38f" /\
  priv_from_str demo_oracles (priv_print demo_priv ++ str "zz") = KErr KInvalidKey /\
  priv_from_str demo_oracles (str "xx/" ++ hex_encode (priv_to_bytes demo_priv)) = KErr KInvalidKey /\
  priv_from_str demo_oracles (hex_encode (priv_to_bytes demo_priv)) = KErr KInvalidKey /\
  priv_from_str demo_oracles (str "ed25519/aabb") = KErr (KInvalidKeySize 2).
Proof. split; [exact demo_priv_wf|]. repeat split; vm_compute; reflexivity. Qed.

(* ---------------------------------------------------------------- signatures: shape before primitive *)

(* a signature is accepted only if the primitive accepts it under that very key and
   message, and only with the shape of the key's algorithm (ed25519: exactly 64 bytes;
   secp256r1: ASN.1 DER); everything else is an error value *)
Theorem C17_signature_shape : forall (O : oracles) (k : pubkey) (msg sg : bytes),
  (verify_signature O k msg sg = KOk tt ->
     sig_valid O (pub_alg k) (pub_to_bytes k) msg sg = true /\
     match pub_alg k with Ed25519 => length sg = 64%nat | Secp256r1 => der_sig_ok O sg = true end) /\
  (pub_alg k = Ed25519 -> length sg <> 64%nat -> verify_signature O k msg sg = KErr KSigDeserialization) /\
  (pub_alg k = Secp256r1 -> der_sig_ok O sg = false -> verify_signature O k msg sg = KErr KSigDeserialization).
Proof.
  intros O k msg sg. split; [apply verify_ok_inv|].
  destruct k as [a kb]; cbn [pub_alg]; split; intros ->;
    [apply verify_ed_wrong_length | apply verify_secp_not_der].
Qed.
Print Assumptions C17_signature_shape.

Example C17_signature_shape_ex :
  verify_signature demo_oracles demo_ed (str "m") (repeat 1 64) = KOk tt /\
  verify_signature demo_oracles demo_ed (str "m") (repeat 1 63) = KErr KSigDeserialization /\
  verify_signature (mk_oracles (fun _ b => Some b) (fun _ => true) (fun _ b => b) (fun _ => false)
                               (fun _ _ _ _ => true)) demo_p256 (str "m") (repeat 1 64)
    = KErr KSigDeserialization.
Proof. repeat split; vm_compute; reflexivity. Qed.

(* C03 -- Attenuation can only restrict: appended blocks never grant access.
   Statements only; proofs in Proofs/AuthProofs.v.
   Setting: token [t] (authority first, non-empty), authorizer [a], appended block [b] (first-
   or third-party) at index n = length t; [untrusted_ext t a b]: if b carries an external key,
   no scope of the authorizer or of the blocks of t names that key. *)
From Biscuit Require Import Model.Authorizer Spec.DatalogSpec Proofs.ValueProofs
     Proofs.DatalogProofs Proofs.AuthProofs.

(* what the authority block, earlier blocks and the authorizer can derive does not change:
   a pair derivable in the extended world whose origin does not involve the new block was
   already derivable, and nothing derivable is lost *)
Theorem C03_noninterference : forall (orc : oracles) (t : token) (a : authorizer) (b : block),
  untrusted_ext t a b ->
  forall o f,
    Derivable orc (load (t ++ [b]) a) o f -> ~ In (N.of_nat (length t)) o ->
    exists o0, Derivable orc (load t a) o0 f /\ oeq o0 o.
Proof. exact noninterference. Qed.
Print Assumptions C03_noninterference.

Theorem C03_nothing_lost : forall (orc : oracles) (t : token) (a : authorizer) (b : block),
  untrusted_ext t a b ->
  forall o f,
    Derivable orc (load t a) o f ->
    exists o', Derivable orc (load (t ++ [b]) a) o' f /\ oeq o' o.
Proof. exact extension_monotone. Qed.
Print Assumptions C03_nothing_lost.

(* no trusted set computed for the authorizer or for a block of t contains the new block *)
Theorem C03_new_block_never_trusted : forall (t : token) scopes default cur,
  (N.of_nat (length t) < auth_id)%N ->
  (cur = auth_id \/ (cur < N.of_nat (length t))%N) ->
  (forall x, In x default -> x = auth_id \/ (x < N.of_nat (length t))%N) ->
  t <> [] ->
  ~ In (N.of_nat (length t)) (from_scopes scopes default cur (token_keymap t)).
Proof. exact trust_excludes_new. Qed.
Print Assumptions C03_new_block_never_trusted.

(* what every rule, check and policy of t and a sees is the same before and after *)
Theorem C03_same_view : forall (orc : oracles) (t : token) (a : authorizer) (b : block),
  t <> [] -> untrusted_ext t a b ->
  forall m m' fs fs',
    saturate orc m (w_rules (load t a)) (w_facts (load t a)) = Ok (Some fs) ->
    saturate orc m' (w_rules (load (t ++ [b]) a)) (w_facts (load (t ++ [b]) a)) = Ok (Some fs') ->
    same_view fs fs' (fun tr => ~ In (N.of_nat (length t)) tr).
Proof. intros orc t a b _ Hu m m' fs fs' H H'. exact (same_view_sat orc t a b Hu m m' fs fs' H H'). Qed.
Print Assumptions C03_same_view.

(* the decision can only get stricter: if the extended token is authorized then the original
   token is authorized by the same policy, and every check that failed on the original still
   fails (all three check kinds, several alternatives, ordered policies); evaluation is
   assumed error-free on both (error-coexistence is C11) *)
Theorem C03_decision_monotone : forall (orc : oracles) (t : token) (a : authorizer) (b : block),
  t <> [] -> (N.of_nat (length t) < auth_id)%N -> untrusted_ext t a b ->
  forall m m' fs fs',
    saturate orc m (w_rules (load t a)) (w_facts (load t a)) = Ok (Some fs) ->
    saturate orc m' (w_rules (load (t ++ [b]) a)) (w_facts (load (t ++ [b]) a)) = Ok (Some fs') ->
    no_exec (decide orc true fs t a) -> no_exec (decide orc true fs' (t ++ [b]) a) ->
    (forall i, decide orc true fs' (t ++ [b]) a = OAllow i -> decide orc true fs t a = OAllow i) /\
    incl (fails_of (decide orc true fs t a)) (fails_of (decide orc true fs' (t ++ [b]) a)).
Proof. exact decision_monotone. Qed.
Print Assumptions C03_decision_monotone.

(* non-vacuity: a token whose block-1 check-all / reject-if would flip if block 2 were
   visible; block 2 is third-party by a key nobody trusts *)
Definition ex3_orc : oracles := rj_orc.
Definition ex3_q (body : list pred) (exprs : list (list op)) : rule :=
  mkrule (mkpred (Sym (str "query")) []) body exprs [].
Definition ex3_t : token :=
  [ mkblock [mkfact (Sym (str "p")) [VInt 1]] [] [] [] None;
    mkblock [] []
      [ mkcheck CkAll [ex3_q [mkpred (Sym (str "p")) [TVar 0]] [[OVar 0; OVal (VInt 1); OBin BLessOrEqual]]];
        mkcheck CkReject [ex3_q [mkpred (Sym (str "evil")) [TVar 0]] []] ] [] None ].
Definition ex3_b : block :=
  mkblock [mkfact (Sym (str "p")) [VInt 5]; mkfact (Sym (str "evil")) [VInt 1]] [] [] [] (Some 3%N).
Definition ex3_a : authorizer :=
  mkauth [] [] [] [mkpolicy PAllow [ex3_q [] [[OVal (VBool true)]]]] [].
Example C03_ex_premises :
  ex3_t <> [] /\ untrusted_ext ex3_t ex3_a ex3_b /\
  fst (authorize_world ex3_orc true 10 1000 100 ex3_t ex3_a) = OAllow 0 /\
  fst (authorize_world ex3_orc true 10 1000 100 (ex3_t ++ [ex3_b]) ex3_a) = OAllow 0.
Proof.
  split; [discriminate|]. split.
  - unfold untrusted_ext. cbn. tauto.
  - split; vm_compute; reflexivity.
Qed.

(* C11 -- Authorization is deterministic.
   Statements only; proofs in Proofs/DeterminismProofs.v.
   The engine stores facts and rules in hash maps; the model makes the order explicit (lists)
   and the theorems quantify over it. *)
From Biscuit Require Import Model.Determinism Spec.DatalogSpec Proofs.ValueProofs Proofs.DatalogProofs
     Proofs.AuthProofs Proofs.DeterminismProofs Proofs.DeterminismSetProofs.
From Coq Require Import Permutation.

(* runs started from permuted facts and rules end in the same fact set (origins as sets) *)
Theorem C11_runs_equivalent : forall (orc : oracles) facts facts' rules rules' n m fs fs',
  Permutation facts facts' -> Permutation rules rules' ->
  saturate orc n rules facts = Ok (Some fs) ->
  saturate orc m rules' facts' = Ok (Some fs') ->
  facts_equiv fs fs'.
Proof. exact facts_equiv_runs. Qed.
Print Assumptions C11_runs_equivalent.

(* for error-free evaluation the decision (acceptance, policy index, failed-check list) is a
   function of the fact SET: any reordering, or any other list holding the same facts, gives
   the same result *)
Theorem C11_permutation_invariant : forall (orc : oracles) fs fs' t a,
  facts_equiv fs fs' ->
  no_exec (decide orc true fs t a) -> no_exec (decide orc true fs' t a) ->
  decide orc true fs' t a = decide orc true fs t a.
Proof. exact decide_invariant. Qed.
Print Assumptions C11_permutation_invariant.

Theorem C11_permutation_is_equiv : forall fs fs', Permutation fs fs' -> facts_equiv fs fs'.
Proof. exact facts_equiv_perm. Qed.
Print Assumptions C11_permutation_is_equiv.

(* with erroring bindings: whatever the order in which the bindings of a query are met, the
   result of find_match / check_match_all lies in the set the model computes (true iff some
   binding matches, an error iff some binding errors, false iff neither; dually for check all) *)
Theorem C11_find_match_outcome_set : forall (orc : oracles) r (ms ms' : list (origin * env)),
  Permutation ms ms' ->
  In (qout_of (first_produced orc r ms'))
     (find_set_of (map (fun os => binding_find orc r (snd os)) ms)).
Proof. exact find_match_any_order. Qed.
Print Assumptions C11_find_match_outcome_set.

Theorem C11_check_all_outcome_set : forall (orc : oracles) r (ms ms' : list (origin * env)),
  Permutation ms ms' ->
  In (qout_of (all_match orc (rexprs r) ms' false))
     (all_set_of (map (fun os => binding_all orc r (snd os)) ms)).
Proof. exact check_all_any_order. Qed.
Print Assumptions C11_check_all_outcome_set.

(* the whole decision procedure: in whatever order the fact store hands out its facts (one
   permutation of the saturated fact list, the same for all the queries of the authorization),
   the outcome -- acceptance, policy index, list of failed checks, or "execution error" -- is one
   of those the set-valued evaluator lists (errors compared up to their kind: [oclass]).  This is
   the inclusion the correspondence check tests on every case. *)
Theorem C11_outcome_in_set : forall (orc : oracles) fs fs' t a,
  Permutation fs fs' ->
  exists y, In y (decide_set orc fs t a) /\ oclass y = oclass (decide orc true fs' t a).
Proof. exact decide_in_set. Qed.
Print Assumptions C11_outcome_in_set.

(* hence, outside the known class -- whenever the evaluator finds a single outcome, which is the
   case for every error-free program and for every program whose erroring bindings cannot
   coexist with a deciding one -- the outcome is a function of the fact SET: every order gives
   it, and any two orders agree *)
Theorem C11_deterministic_outside_known_class : forall (orc : oracles) fs fs' fs'' t a o,
  decide_set orc fs t a = [o] ->
  Permutation fs fs' -> Permutation fs fs'' ->
  oclass (decide orc true fs' t a) = oclass o /\
  oclass (decide orc true fs' t a) = oclass (decide orc true fs'' t a).
Proof.
  intros orc fs fs' fs'' t a o S P1 P2. split.
  - apply (decide_unique orc fs fs' t a o P1 S).
  - apply (decide_two_orders orc fs fs' fs'' t a o P1 P2 S).
Qed.
Print Assumptions C11_deterministic_outside_known_class.

(* the same through evaluation: two authorizations whose worlds hold the same facts and rules
   inserted in different orders.  When both fixpoint computations end, the second outcome is
   in the set computed from the first one's facts; and when that set is a singleton both
   authorizations answer it.  (The set-valued evaluator cannot tell apart two fact lists that
   hold the same facts: decide_set_equiv.) *)
Theorem C11_authorize_outcome_in_set :
  forall (orc : oracles) facts facts' rules rules' n m fs fs' t a,
  Permutation facts facts' -> Permutation rules rules' ->
  saturate orc n rules facts = Ok (Some fs) ->
  saturate orc m rules' facts' = Ok (Some fs') ->
  (exists y, In y (decide_set orc fs t a) /\ oclass y = oclass (decide orc true fs' t a)) /\
  decide_set orc fs' t a = decide_set orc fs t a /\
  (forall o, decide_set orc fs t a = [o] ->
     oclass (decide orc true fs' t a) = oclass o /\ oclass (decide orc true fs t a) = oclass o).
Proof.
  intros orc facts facts' rules rules' n m fs fs' t a P1 P2 S1 S2.
  split; [apply (authorize_in_set orc facts facts' rules rules' n m fs fs' t a P1 P2 S1 S2)|].
  split; [apply decide_set_equiv; apply (C11_runs_equivalent orc facts facts' rules rules' n m fs fs' P1 P2 S1 S2)|].
  intros o S. apply (authorize_unique orc facts facts' rules rules' n m fs fs' t a o P1 P2 S1 S2 S).
Qed.
Print Assumptions C11_authorize_outcome_in_set.

(* the full statement (the outcome is a function of token, authorizer and limits only) is
   FALSE of the faithful model: a check that sees one matching and one erroring binding has
   two outcomes depending on which binding is met first.  Known finding
   first-match-vs-error-order; replayed on the implementation by the correspondence. *)
Theorem C11_first_match_refuted :
  Permutation [nd_f 1; nd_f 0] [nd_f 0; nd_f 1] /\
  decide nd_orc true [nd_f 1; nd_f 0] nd_token nd_auth = OAllow 0 /\
  decide nd_orc true [nd_f 0; nd_f 1] nd_token nd_auth = OExec EDivZero /\
  decide_set nd_orc [nd_f 1; nd_f 0] nd_token nd_auth = [OAllow 0; OExec EInvalidType].
Proof. exact first_match_refuted. Qed.
Print Assumptions C11_first_match_refuted.

(* non-vacuity of the invariance theorem: an error-free program, two orders *)
Example C11_ex_invariant :
  let fs := [nd_f 1; nd_f 2] in
  let fs' := [nd_f 2; nd_f 1] in
  facts_equiv fs fs' /\ no_exec (decide nd_orc true fs nd_token nd_auth) /\
  decide nd_orc true fs' nd_token nd_auth = OAllow 0.
Proof.
  cbv zeta. split; [apply facts_equiv_perm; apply perm_swap|]. split; [vm_compute; exact I|vm_compute; reflexivity].
Qed.

(* non-vacuity of the set theorems: a single-outcome program (with a partial operation in its
   check), and the known-class witness with its two outcomes, both reached *)
Example C11_ex_single_outcome :
  decide_set nd_orc [nd_f 1; nd_f 2] nd_token nd_auth = [OAllow 0] /\
  decide nd_orc true [nd_f 2; nd_f 1] nd_token nd_auth = OAllow 0 /\
  length (decide_set nd_orc [nd_f 1; nd_f 0] nd_token nd_auth) = 2%nat.
Proof. vm_compute. repeat split. Qed.

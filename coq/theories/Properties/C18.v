(* C18 -- Compile-time Datalog macros equal runtime parsing.
   Statements only; proofs in Proofs/ParamsBindProofs.v, model in Model/Params.v.

   [macro_bind]: what the macros expand to -- the item is rebuilt with biscuit-auth's own
   constructors (Fact::new / Rule::new: construction mode MNew), then set_macro_param
   (lenient; a term goes to the term parameters, a public key to the scope parameters) is
   emitted for the supplied parameters the item names according to the parser crate.
   [runtime_bind]: code_with_params -- the parsed item (mode MParsed), then a strict set /
   set_scope for every supplied parameter, "unused" errors swallowed.
   The translation of the syntax tree itself by the macro expansion (ToTokens) is validated
   per node kind by the generated crate harness/macrogen, not proved. *)
From Biscuit Require Import Model.Params Proofs.ParamsProofs Proofs.ParamsBindProofs.

(* The two strategies produce the same item -- same skeleton, same parameter maps, hence
   the same validation outcome and the same converted item -- for every item, every
   binding list (any order, any names, repeated or unknown names included), provided the
   two parameter collections agree on the item: either biscuit-auth's collection is
   recursive (the repaired code), or no expression value of the item holds a parameter
   inside a collection. *)
Theorem C18_binding_strategies_agree : forall (c : cfg) (i : iskel) (bs : list (name * anyparam)),
  collect_same c i -> fst (macro_bind c i bs) = fst (runtime_bind c i bs).
Proof. exact binding_strategies_agree. Qed.
Print Assumptions C18_binding_strategies_agree.

(* equal items give equal validation results, equal converted items (conversion is a
   function of the item), hence equal blocks and decisions *)
Theorem C18_equal_items_equal_results : forall (c : cfg) (i : iskel) (bs : list (name * anyparam)),
  collect_same c i ->
  state_validate c (fst (macro_bind c i bs)) = state_validate c (fst (runtime_bind c i bs))
  /\ state_convert c (fst (macro_bind c i bs)) = state_convert c (fst (runtime_bind c i bs)).
Proof. intros c i bs H. now rewrite (binding_strategies_agree c i bs H). Qed.
Print Assumptions C18_equal_items_equal_results.

(* with the repaired collection the premise always holds *)
Theorem C18_repaired_always_agree : forall (i : iskel) (bs : list (name * anyparam)),
  fst (macro_bind repaired i bs) = fst (runtime_bind repaired i bs).
Proof. intros i bs. apply binding_strategies_agree. now left. Qed.
Print Assumptions C18_repaired_always_agree.

(* Refuted without the premise, for the unchanged code: on h($x) <- b($x), [{p}].contains($x)
   the two constructors collect different parameter sets, the two strategies end with
   different items (the macro-built one has no entry for p), and both panic in conversion. *)
Theorem C18_param_collection_refuted :
  exists (i : iskel) (bs : list (name * anyparam)),
    construct faithful MNew i <> construct faithful MParsed i
    /\ fst (macro_bind faithful i bs) <> fst (runtime_bind faithful i bs)
    /\ state_convert faithful (fst (macro_bind faithful i bs)) = None
    /\ state_convert faithful (fst (runtime_bind faithful i bs)) = None.
Proof.
  exists w_nested_expr, [(np, APTerm (PLit (LInt 1)))]. exact param_collection_refuted.
Qed.
Print Assumptions C18_param_collection_refuted.

(* ---- non-vacuity ---- *)
Definition ex18_check : iskel :=
  ICheck KAll
    [((str "query", []), [(str "b", [PVar (str "x"); PColl CArray [PParam (str "p")]])],
      [[POVal (PParam (str "q")); POVal (PLit (LInt 1)); POBin BEqual]], [SParam (str "pk")]);
     ((str "query", []), [(str "c", [PParam (str "q")])], [], [SAuthority])].
Definition ex18_bindings : list (name * anyparam) :=
  [(str "unused", APTerm (PLit LNull)); (str "q", APTerm (PLit (LStr (str "v"""))));
   (str "pk", APKey [0; 7]%N); (str "p", APTerm (PLit (LInt 2))); (str "pk", APTerm (PLit (LInt 3)))].

Example C18_ex_agree :
  collect_same faithful ex18_check
  /\ state_validate faithful (fst (macro_bind faithful ex18_check ex18_bindings)) = None
  /\ snd (macro_bind faithful ex18_check ex18_bindings) = [None; None; None; None]
  /\ snd (runtime_bind faithful ex18_check ex18_bindings) = [None; None; None; None; None].
Proof. split; [right; reflexivity|]. repeat split; vm_compute; reflexivity. Qed.

(* C10 -- Evaluation budgets are enforced.
   Statements only; proofs in Proofs/LimitsProofs.v.  The machine (Model/Limits.v) is the
   authorizer over histories of run / authorize / query calls with an explicit clock stream;
   [legacy = false] is biscuit-rust after the budget fixes, [legacy = true] before. *)
From Biscuit Require Import Model.Limits Proofs.LimitsProofs.

(* every call of every history reports at most max_iterations iterations -- budgets are
   cumulative across run, authorize and query, including after failed runs -- and every
   successful call at most max_facts facts *)
Theorem C10_success_within_budget : forall (orc : oracles) (oc : bool) rules l t a ops st c,
  (max_iter l < two64)%N -> st_ok l st ->
  Forall (obs_ok l) (run_history orc false oc l t a rules ops st c).
Proof. exact history_within_budget. Qed.
Print Assumptions C10_success_within_budget.

(* the engine loop never counts more passes than the budget it was handed *)
Theorem C10_loop_bound : forall (orc : oracles) rules fuel mf mi tl index facts c r facts' idx c',
  (index < mi)%N ->
  rwl orc rules fuel mf mi tl index facts c = (r, facts', idx, c') -> (idx <= mi)%N.
Proof. exact rwl_index_bound. Qed.
Print Assumptions C10_loop_bound.

(* one call: state invariant kept (iterations within budget; a cached success holds at most
   max_facts facts), observation within budget *)
Theorem C10_cumulative_step : forall (orc : oracles) (oc : bool) rules l t a op st c o st' c',
  (max_iter l < two64)%N -> st_ok l st ->
  step orc false oc l t a rules op st c = (o, st', c') ->
  obs_ok l o /\ st_ok l st'.
Proof. exact step_ok. Qed.
Print Assumptions C10_cumulative_step.

(* the remaining-budget subtraction cannot fail any more *)
Theorem C10_no_underflow : forall (oc : bool) mi it, sub_iterations false oc mi it <> None.
Proof. exact sub_iterations_total. Qed.
Print Assumptions C10_no_underflow.

(* time: the alternatives of a check or policy are only all evaluated while every clock
   reading stayed below the limit; the reading that reaches the limit ends the evaluation *)
Theorem C10_time_checked_after_every_query : forall (orc : oracles) k facts default cur km tl qs c b c',
  t_any_query orc k facts default cur km tl qs c = TOk b c' -> last_reading_ok tl c c'.
Proof. exact t_any_query_time. Qed.
Print Assumptions C10_time_checked_after_every_query.

(* the pre-fix machine breaks the clauses, on concrete histories replayed on the code *)
Theorem C10_zero_iterations_refuted :
  history lx_orc true false (mklimits 1000 0 lx_big false) lx_token lx_auth [LRun] lx_clock
    = [(BRunOk, 3%N, 7%N, Some 50%N)] /\
  history lx_orc false false (mklimits 1000 0 lx_big false) lx_token lx_auth [LRun] lx_clock
    = [(BErr (LLimit TooManyIterations), 0%N, 4%N, None)].
Proof. exact zero_iterations_refuted. Qed.
Print Assumptions C10_zero_iterations_refuted.

Theorem C10_retry_refuted :
  history lx_orc true false (mklimits 1000 2 lx_big false) lx_token lx_auth [LRun; LRun] lx_clock
    = [(BErr (LLimit TooManyIterations), 2%N, 6%N, None); (BRunOk, 3%N, 7%N, Some 30%N)] /\
  history lx_orc true true (mklimits 1000 2 lx_big false) lx_token lx_auth [LRun; LRun; LAuthorize] lx_clock
    = [(BErr (LLimit TooManyIterations), 2%N, 6%N, None); (BRunOk, 3%N, 7%N, Some 30%N);
       (BErr LPanic, 3%N, 7%N, Some 30%N)] /\
  history lx_orc false true (mklimits 1000 2 lx_big false) lx_token lx_auth [LRun; LRun; LAuthorize] lx_clock
    = [(BErr (LLimit TooManyIterations), 2%N, 6%N, None);
       (BErr (LLimit TooManyIterations), 2%N, 6%N, None);
       (BErr (LLimit TooManyIterations), 2%N, 6%N, None)].
Proof. exact retry_refuted. Qed.
Print Assumptions C10_retry_refuted.

Theorem C10_initial_facts_refuted :
  history lx_orc true false (mklimits 2 1000 lx_big false)
          [mkblock (bfacts (hd (mkblock [] [] [] [] None) lx_token)) [] [] [] None] lx_auth [LRun] lx_clock
    = [(BRunOk, 0%N, 4%N, Some 20%N)] /\
  history lx_orc false false (mklimits 2 1000 lx_big false)
          [mkblock (bfacts (hd (mkblock [] [] [] [] None) lx_token)) [] [] [] None] lx_auth [LRun] lx_clock
    = [(BErr (LLimit TooManyFacts), 0%N, 4%N, None)].
Proof. exact initial_facts_refuted. Qed.
Print Assumptions C10_initial_facts_refuted.

Theorem C10_duration_max_refuted :
  history lx_orc true false (mklimits 1000 1000 0 true) lx_token lx_auth [LAuthorize] lx_clock
    = [(BErr LPanic, 0%N, 4%N, None)] /\
  history lx_orc false false (mklimits 1000 1000 0 true) lx_token lx_auth [LAuthorize] lx_clock
    = [(BAuth (OAllow 0), 3%N, 7%N, Some 80%N)].
Proof. exact duration_max_refuted. Qed.
Print Assumptions C10_duration_max_refuted.

(* STILL TRUE OF THE CODE (known finding time-budget-restarts-after-failed-run, not repaired:
   `execution_time` doubles as the "already evaluated" marker, so recording the time of a failed
   run needs a new state field): the cumulative-time clause of the property is false of the
   faithful machine.  The program needs 50 clock units; with max_time = 25 the first call ends in
   Timeout and the retry succeeds reporting 20 units.  The same history is case 0 of every
   correspondence run (h_limits witness_time_restart) and the direct oracle on cumulative
   scripted-clock time reports it. *)
Theorem C10_time_restart_refuted :
  history lx_orc false false (mklimits 1000 1000 1000 false) lx_token lx_auth [LRun] lx_clock
    = [(BRunOk, 3%N, 7%N, Some 50%N)] /\
  history lx_orc false false (mklimits 1000 1000 25 false) lx_token lx_auth [LRun; LRun] lx_clock
    = [(BErr (LLimit Timeout), 3%N, 7%N, None); (BRunOk, 3%N, 7%N, Some 20%N)].
Proof. exact time_restart_refuted. Qed.
Print Assumptions C10_time_restart_refuted.

(* non-vacuity: the initial state of any loaded authorizer satisfies the invariant, and a
   budget that is hit in the middle of a history *)
Example C10_ex_initial : forall l t a,
  st_ok l (mkastate (w_facts (load t a)) 0 None).
Proof. intros. split; cbn; [lia|discriminate]. Qed.
Example C10_ex_history :
  history lx_orc false false (mklimits 6 1000 lx_big false) lx_token lx_auth [LAuthorize; LRun; LQuery] lx_clock
    = [(BErr (LLimit TooManyFacts), 2%N, 6%N, None);
       (BErr (LLimit TooManyFacts), 3%N, 7%N, None);
       (BErr (LLimit TooManyFacts), 3%N, 7%N, None)].
Proof. vm_compute. reflexivity. Qed.

(* C04 -- Authorization decisions follow the scoped-Datalog semantics.
   Statements only; proofs in Proofs/AuthProofs.v and Proofs/DatalogProofs.v.
   [decide] runs on the saturated world, whose content is characterised by C05. *)
From Biscuit Require Import Model.Authorizer Spec.DatalogSpec Spec.AuthSpec Proofs.ValueProofs
     Proofs.DatalogProofs Proofs.AuthProofs Proofs.AuthSpecProofs.

(* a fact is offered to a rule/check/policy iff every block that contributed to it is trusted *)
Theorem C04_visible_iff : forall tr facts p,
  In p (visible tr facts) <-> In p facts /\ (forall x, In x (fst p) -> In x tr).
Proof. intros. rewrite visible_In, osubset_spec. reflexivity. Qed.
Print Assumptions C04_visible_iff.

(* ... where "a fact" of the saturated world means a derivable (origin, fact) pair *)
Theorem C04_visible_derivable : forall (orc : oracles) W m fs tr f,
  saturate orc m (w_rules W) (w_facts W) = Ok (Some fs) ->
  ((exists o, In (o, f) fs /\ osubset o tr = true) <->
   (exists o, Derivable orc W o f /\ osubset o tr = true)).
Proof. exact visible_derivable. Qed.
Print Assumptions C04_visible_derivable.

(* the trusted set is the specification's table: authorizer and own block always; without
   scopes the default (authority for blocks and the authorizer); otherwise what the scopes
   grant: `authority` -> block 0, `previous` -> blocks 0..own (nothing for the authorizer),
   a public key -> the blocks carrying an external signature by that key *)
Theorem C04_trusted_origins : forall scopes default cur km x,
  In x (from_scopes scopes default cur km) <->
  x = auth_id \/ x = cur \/
  match scopes with
  | [] => In x default
  | _ => exists sc, In sc scopes /\ scope_grants km cur sc x
  end.
Proof. exact from_scopes_spec. Qed.
Print Assumptions C04_trusted_origins.

Theorem C04_default_trust : forall x, In x default_trust <-> x = auth_id \/ x = 0%N.
Proof. exact default_trust_In. Qed.
Print Assumptions C04_default_trust.

(* key scopes only ever name blocks of the token, and never the authority block's position
   beyond the token's length *)
Theorem C04_key_scope_blocks : forall t k x,
  In x (keymap_get k (token_keymap t)) -> (x < N.of_nat (length t))%N.
Proof. exact token_keymap_bound. Qed.
Print Assumptions C04_key_scope_blocks.

(* check if / check all: some alternative holds.  Alternatives are evaluated in order under
   their own trusted set *)
Theorem C04_check_if_all : forall (orc : oracles) facts default cur km c b,
  ckind c <> CkReject ->
  check_passes orc true facts default cur km c = Ok b ->
  (b = true <-> exists q, In q (cqueries c) /\
                 query_holds orc (ckind c) facts (from_scopes (rscopes q) default cur km) q = Ok true).
Proof. exact check_one_all_spec. Qed.
Print Assumptions C04_check_if_all.

(* reject if: passes only when none of its alternatives matches *)
Theorem C04_reject_if : forall (orc : oracles) facts default cur km c b,
  ckind c = CkReject ->
  check_passes orc true facts default cur km c = Ok b ->
  (b = true <-> cqueries c <> [] /\
                forall q, In q (cqueries c) ->
                  find_match orc facts (from_scopes (rscopes q) default cur km) q = Ok false).
Proof. exact reject_spec. Qed.
Print Assumptions C04_reject_if.

(* the reading biscuit-rust had before the fix (first unmatched alternative passes) accepts a
   request the property refuses; kept as the replayable witness of the repaired defect *)
Theorem C04_reject_multi_refuted :
  fst (authorize_world rj_orc false 10 1000 100 rj_token rj_auth) = OAllow 0 /\
  fst (authorize_world rj_orc true 10 1000 100 rj_token rj_auth) = ORefused true 0 [FAuth 0].
Proof. exact reject_multi_refuted. Qed.
Print Assumptions C04_reject_multi_refuted.

(* one alternative: a match exists iff some binding of the body over the visible facts
   satisfies the expressions (check if, policies); check all: a binding exists and every
   binding satisfies them *)
Theorem C04_match_exists : forall (orc : oracles) facts tr r b,
  find_match orc facts tr r = Ok b ->
  (b = true <-> exists s vs, holds_binding facts tr r s /\ eval_exprs orc s (rexprs r) = Ok true /\
                             inst_terms s (pargs (rhead r)) = Some vs).
Proof. exact find_match_spec. Qed.
Print Assumptions C04_match_exists.

Theorem C04_match_all : forall (orc : oracles) facts tr r b,
  check_match_all orc facts tr r = Ok b ->
  (b = true <-> (exists s, holds_binding facts tr r s) /\
                forall s, holds_binding facts tr r s -> eval_exprs orc s (rexprs r) = Ok true).
Proof. exact check_match_all_spec. Qed.
Print Assumptions C04_match_all.

(* failed checks are reported exactly, by origin and index, in the documented order *)
Theorem C04_failed_checks : forall (orc : oracles) ra facts default cur km mk cs j l,
  run_checks orc ra facts default cur km mk j cs = Ok l ->
  l = flat_map (fun jc => match check_passes orc ra facts default cur km (snd jc) with
                          | Ok false => [mk (fst jc)]
                          | _ => []
                          end)
               (combine (map (fun i => (j + N.of_nat i)%N) (seq 0 (length cs))) cs)
  /\ forall c, In c cs -> exists b, check_passes orc ra facts default cur km c = Ok b.
Proof. exact run_checks_spec. Qed.
Print Assumptions C04_failed_checks.

(* policies are tried in order; the first one with a matching alternative decides *)
Theorem C04_first_policy : forall (orc : oracles) facts default km ps i r,
  run_policies orc facts default km i ps = Ok r ->
  match r with
  | None => forall p, In p ps -> any_query orc CkOne facts default auth_id km (pqueries p) = Ok false
  | Some (k, j) =>
      exists pre p post, ps = pre ++ p :: post /\ j = (i + N.of_nat (length pre))%N /\ k = pkind p /\
        any_query orc CkOne facts default auth_id km (pqueries p) = Ok true /\
        forall p', In p' pre -> any_query orc CkOne facts default auth_id km (pqueries p') = Ok false
  end.
Proof. exact run_policies_spec. Qed.
Print Assumptions C04_first_policy.

(* the decision: accepted with allow policy i iff no check fails and i is the first matching
   policy and it is an allow policy; otherwise the error carries the failed checks of the
   authorizer, the authority block and blocks 1..n in that order, and the matched policy *)
Theorem C04_decision_allow : forall (orc : oracles) ra fs t a i,
  let km := token_keymap t in
  decide orc ra fs t a = OAllow i <->
  run_checks orc ra fs (auth_trust km a) auth_id km FAuth 0 (achecks a) = Ok [] /\
  run_block_checks orc ra fs km 0 (firstn 1 t) = Ok [] /\
  run_policies orc fs (auth_trust km a) km 0 (apolicies a) = Ok (Some (PAllow, i)) /\
  run_block_checks orc ra fs km 1 (skipn 1 t) = Ok [].
Proof. exact decide_allow_iff. Qed.
Print Assumptions C04_decision_allow.

Theorem C04_decision_shape : forall (orc : oracles) ra fs t a f1 f2 pol f3,
  let km := token_keymap t in
  run_checks orc ra fs (auth_trust km a) auth_id km FAuth 0 (achecks a) = Ok f1 ->
  run_block_checks orc ra fs km 0 (firstn 1 t) = Ok f2 ->
  run_policies orc fs (auth_trust km a) km 0 (apolicies a) = Ok pol ->
  run_block_checks orc ra fs km 1 (skipn 1 t) = Ok f3 ->
  decide orc ra fs t a = outcome_of pol (f1 ++ f2 ++ f3).
Proof. exact decide_shape. Qed.
Print Assumptions C04_decision_shape.

(* queries observe the same scoped world: authority + authorizer for query, every block for
   query_all, the scopes' grant otherwise *)
Theorem C04_query_trust : forall km q x,
  rscopes q = [] -> (In x (query_trust km q) <-> x = auth_id \/ x = 0%N).
Proof. exact query_trust_default. Qed.
Print Assumptions C04_query_trust.

Theorem C04_query_all_trust : forall km nb q x,
  rscopes q = [] -> N.of_nat nb <> auth_id ->
  (In x (query_all_trust km nb q) <-> x = auth_id \/ (x <= N.of_nat nb)%N).
Proof. exact query_all_trust_default. Qed.
Print Assumptions C04_query_all_trust.

(* EXEC REFINES SPEC.  Spec/AuthSpec.v reads checks and policies declaratively over the
   DERIVABLE facts of the world (no lists, no order): [Matches] = some binding of visible
   derivable facts satisfies the expressions; [CheckHolds] = the property's three kinds.  On a
   saturated world every error-free evaluation of the list-based, first-match code returns that
   truth value, whatever the order of facts and alternatives. *)
Theorem C04_exec_refines_spec : forall (orc : oracles) (W : world) m fs,
  saturate orc m (w_rules W) (w_facts W) = Ok (Some fs) ->
  forall default cur km c b,
    check_passes orc true fs default cur km c = Ok b ->
    (b = true <-> CheckHolds orc W default cur km c).
Proof. exact check_refines. Qed.
Print Assumptions C04_exec_refines_spec.

Theorem C04_policy_refines_spec : forall (orc : oracles) (W : world) m fs,
  saturate orc m (w_rules W) (w_facts W) = Ok (Some fs) ->
  forall default km p b,
    any_query orc CkOne fs default auth_id km (pqueries p) = Ok b ->
    (b = true <-> PolicyMatches orc W default km p).
Proof. exact policy_refines. Qed.
Print Assumptions C04_policy_refines_spec.

Theorem C04_match_refines_spec : forall (orc : oracles) (W : world) m fs,
  saturate orc m (w_rules W) (w_facts W) = Ok (Some fs) ->
  forall tr q b, find_match orc fs tr q = Ok b -> (b = true <-> Matches orc W tr q).
Proof. exact find_match_refines. Qed.
Print Assumptions C04_match_refines_spec.

(* non-vacuity: a two-block token with a third-party block, a check trusting its key *)
Definition ex4_orc := rj_orc.
Definition ex4_token : token :=
  [ mkblock [mkfact (Sym (str "p")) [VInt 1]] [] [] [] None;
    mkblock [mkfact (Sym (str "p")) [VInt 2]] [] [] [] (Some 7%N) ].
Definition ex4_check (scopes : list scope) : check :=
  mkcheck CkOne [mkrule (mkpred (Sym (str "query")) []) [mkpred (Sym (str "p")) [TVal (VInt 2)]] [] scopes].
Definition ex4_auth (scopes : list scope) : authorizer :=
  mkauth [] [] [ex4_check scopes]
         [mkpolicy PAllow [mkrule (mkpred (Sym (str "query")) []) [] [[OVal (VBool true)]] []]] [].
Example C04_ex_key_scope :
  fst (authorize_world ex4_orc true 10 1000 100 ex4_token (ex4_auth [])) = ORefused true 0 [FAuth 0] /\
  fst (authorize_world ex4_orc true 10 1000 100 ex4_token (ex4_auth [ScKey 7%N])) = OAllow 0.
Proof. split; vm_compute; reflexivity. Qed.

(* C05 -- Datalog evaluation computes exactly the least fixpoint with exact provenance.
   Statements only; proofs in Proofs/DatalogProofs.v.  [Derivable] (Spec/DatalogSpec.v) is the
   declarative meaning: finitely many rule applications, each over visible premises, with
   origin = union of the premises' origins plus the rule's owner. *)
From Biscuit Require Import Spec.DatalogSpec Proofs.ValueProofs Proofs.DatalogProofs.
From Coq Require Import Permutation.

(* the join enumerates exactly the choices of one visible fact per body atom *)
Theorem C05_join_spec : forall facts body s o o' s',
  In (o', s') (join facts body s o) <->
  exists picks, (forall p, In p picks -> In p facts) /\
                match_all body (map snd picks) s = Some s' /\ o' = ounions o picks.
Proof. exact join_spec. Qed.
Print Assumptions C05_join_spec.

(* ... and the assignment it finds instantiates every body atom to the chosen fact *)
Theorem C05_match_instantiates : forall body fs s s',
  match_all body fs s = Some s' -> extends s s' /\ Forall2 (inst_pred s') body fs.
Proof. exact match_all_inst. Qed.
Print Assumptions C05_match_instantiates.

(* nothing extra, nothing missing: a successful run (any number of passes) holds exactly the
   derivable pairs; origins are compared as sets *)
Theorem C05_sound_and_complete : forall (orc : oracles) (W : world) n fs,
  saturate orc n (w_rules W) (w_facts W) = Ok (Some fs) ->
  (forall o f, In (o, f) fs -> Derivable orc W o f) /\
  (forall o f, Derivable orc W o f -> exists o', In (o', f) fs /\ oeq o o').
Proof. exact saturate_exact. Qed.
Print Assumptions C05_sound_and_complete.

(* the engine's limited loop, when it succeeds, is that saturation *)
Theorem C05_run_is_saturation : forall (orc : oracles) rules fuel mi mf idx facts fs k k',
  run_loop orc fuel mi mf idx rules facts = (ROk (fs, k), k') ->
  saturate orc fuel rules facts = Ok (Some fs).
Proof. exact run_loop_saturate. Qed.
Print Assumptions C05_run_is_saturation.

Theorem C05_order_independent : forall (orc : oracles) facts facts' rules rules' n m fs fs',
  Permutation facts facts' -> Permutation rules rules' ->
  saturate orc n rules facts = Ok (Some fs) ->
  saturate orc m rules' facts' = Ok (Some fs') ->
  forall o f, In (o, f) fs -> exists o', In (o', f) fs' /\ oeq o o'.
Proof. exact order_independent. Qed.
Print Assumptions C05_order_independent.

Theorem C05_unbound_head : forall (orc : oracles) facts re x l,
  In (TVar x) (pargs (rhead (re_rule re))) ->
  ~ In x (body_vars (rbody (re_rule re))) ->
  apply_rule orc facts re = Ok l -> l = [].
Proof. exact unbound_head_produces_nothing. Qed.
Print Assumptions C05_unbound_head.

(* queries on the final world: find_match (check if, policies, reject if) and
   check_match_all (check all) against their declarative readings *)
Theorem C05_find_match : forall (orc : oracles) facts tr r b,
  find_match orc facts tr r = Ok b ->
  (b = true <-> exists s vs, holds_binding facts tr r s /\ eval_exprs orc s (rexprs r) = Ok true /\
                             inst_terms s (pargs (rhead r)) = Some vs).
Proof. exact find_match_spec. Qed.
Print Assumptions C05_find_match.

Theorem C05_check_match_all : forall (orc : oracles) facts tr r b,
  check_match_all orc facts tr r = Ok b ->
  (b = true <-> (exists s, holds_binding facts tr r s) /\
                forall s, holds_binding facts tr r s -> eval_exprs orc s (rexprs r) = Ok true).
Proof. exact check_match_all_spec. Qed.
Print Assumptions C05_check_match_all.

(* non-vacuity: a recursive program with provenance reaches its fixpoint, and the derived
   origins are the unions the statement talks about *)
Definition ex_orc : oracles :=
  {| regex_match := fun _ _ => Ok false; extern_call := fun _ _ _ => Err EUndefinedExtern |}.
Definition ex_q (a b : Z) (o : origin) : ofact := (o, mkfact (Sym (str "q")) [VInt a; VInt b]).
Definition ex_rules : list rule_entry :=
  [ mkentry [0; 1; 2; auth_id]%N 2%N
      (mkrule (mkpred (Sym (str "r")) [TVar 0; TVar 1]) [mkpred (Sym (str "q")) [TVar 0; TVar 1]] [] []);
    mkentry [0; 1; 2; auth_id]%N auth_id
      (mkrule (mkpred (Sym (str "r")) [TVar 0; TVar 2])
              [mkpred (Sym (str "r")) [TVar 0; TVar 1]; mkpred (Sym (str "q")) [TVar 1; TVar 2]] [] []) ].
Definition ex_world : world := mkworld [ex_q 0 1 [0%N]; ex_q 1 2 [1%N]] ex_rules.
Example C05_ex_fixpoint :
  exists fs, saturate ex_orc 10 (w_rules ex_world) (w_facts ex_world) = Ok (Some fs) /\
             In ([0; 1; 2; auth_id]%N, mkfact (Sym (str "r")) [VInt 0; VInt 2]) fs /\
             length fs = 5%nat.
Proof. eexists. split; [vm_compute; reflexivity|]. split; [vm_compute; tauto|reflexivity]. Qed.

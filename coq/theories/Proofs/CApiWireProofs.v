(* C19 over the concrete container: the abstract codec of Model/CApi.v instantiated with
   Model/Token.v (SerializedBiscuit, seal) and Model/Wire.v (the protobuf encoding and
   prost's encoded_len).  biscuit_serialized_size computes `to_proto().encoded_len()`, an
   arithmetic function of the message, not the length of an encoding: the tie between the
   two is WireProofs.encoded_len_correct. *)
From Biscuit Require Import Model.CApi Model.Token Model.Wire Proofs.CApiProofs Proofs.WireProofs.
Require Import Lia.

Section Concrete.
Variable sign : alg -> bytes -> bytes -> bytes.

Definition cseal (t : token) : option token :=
  match Token.seal sign t with TOk s => Some s | TErr _ => None end.

Lemma blen_nlen : forall b, blen b = nlen b.
Proof. reflexivity. Qed.

Lemma wire_size : forall t, wtoken_ok (to_wire t) = true ->
  encoded_len (to_wire t) = serialized_size token token_bytes t.
Proof.
  intros t H. unfold serialized_size, token_bytes. rewrite blen_nlen.
  symmetry. apply encoded_len_correct. exact H.
Qed.

Lemma wire_serialize : forall t, wtoken_ok (to_wire t) = true ->
  copy_into (encoded_len (to_wire t)) (token_bytes t)
    = CWritten (encoded_len (to_wire t)) (token_bytes t).
Proof.
  intros t H. rewrite (wire_size t H). apply (serialize_writes_announced token token_bytes).
Qed.

Lemma wire_sealed : forall t s, Token.seal sign t = TOk s -> wtoken_ok (to_wire s) = true ->
  sealed_size token token_bytes cseal Repaired t = encoded_len (to_wire s) /\
  serialize_sealed token token_bytes cseal Repaired t
    = CWritten (encoded_len (to_wire s)) (token_bytes s).
Proof.
  intros t s Hs Hw.
  assert (Hc : cseal t = Some s) by (unfold cseal; rewrite Hs; reflexivity).
  destruct (sealed_repaired token token_bytes cseal t s Hc) as [A B].
  rewrite (wire_size s Hw). unfold serialized_size. rewrite <- A. split; [reflexivity|].
  rewrite B. rewrite A. reflexivity.
Qed.

Lemma wire_sealed_error : forall t e, Token.seal sign t = TErr e ->
  serialize_sealed token token_bytes cseal Repaired t = CError /\
  sealed_size token token_bytes cseal Repaired t = 0%N.
Proof.
  intros t e H. unfold serialize_sealed, sealed_size, cseal. rewrite H. split; reflexivity.
Qed.

(* sealing replaces the proof field only *)
Lemma seal_shape : forall t s, Token.seal sign t = TOk s ->
  t_root_key_id s = t_root_key_id t /\ t_authority s = t_authority t /\ t_blocks s = t_blocks t /\
  exists sg, t_proof s = Seal sg.
Proof.
  intros t s H. unfold Token.seal in H. destruct (proof_keypair t) as [kp|e]; [|discriminate].
  inversion H; subst; cbn. repeat split; eauto.
Qed.

(* ed25519 shape: a 32-byte next secret is replaced by a 64-byte signature: the sealed
   container is exactly 32 bytes longer, so the unchanged pair announces a size 32 bytes
   short and aborts in copy_from_slice -- for every such token *)
Lemma wire_seal_grows : forall t s sk sg, Token.seal sign t = TOk s ->
  t_proof t = Secret sk -> t_proof s = Seal sg -> nlen sk = 32%N -> nlen sg = 64%N ->
  encoded_len (to_wire s) = (encoded_len (to_wire t) + 32)%N.
Proof.
  intros t s sk sg Hs Hp Hq Lk Lg.
  destruct (seal_shape t s Hs) as [R [A [B _]]].
  unfold encoded_len, to_wire; cbn [w_root_key_id w_authority w_blocks w_proof].
  rewrite R, A, B, Hp, Hq. cbn [len_proof]. unfold len_bytes_field. rewrite Lk, Lg.
  change (len_msg_field (1 + varint_len 32 + 32)) with 36%N.
  change (len_msg_field (1 + varint_len 64 + 64)) with 68%N. lia.
Qed.

Lemma wire_faithful_aborts : forall t s sk sg, Token.seal sign t = TOk s ->
  t_proof t = Secret sk -> t_proof s = Seal sg -> nlen sk = 32%N -> nlen sg = 64%N ->
  wtoken_ok (to_wire t) = true -> wtoken_ok (to_wire s) = true ->
  (sealed_size token token_bytes cseal Faithful t + 32 = blen (token_bytes s))%N /\
  serialize_sealed token token_bytes cseal Faithful t = CAbort.
Proof.
  intros t s sk sg Hs Hp Hq Lk Lg Wt Ws.
  assert (Hc : cseal t = Some s) by (unfold cseal; rewrite Hs; reflexivity).
  pose proof (wire_seal_grows t s sk sg Hs Hp Hq Lk Lg) as G.
  pose proof (wire_size t Wt) as St. pose proof (wire_size s Ws) as Ss.
  unfold serialized_size in St, Ss.
  destruct (sealed_faithful token token_bytes cseal t s Hc) as [A [B _]].
  split.
  - rewrite A. lia.
  - apply B. intro E.
    assert (blen (token_bytes s) = blen (token_bytes t)) by (unfold blen; rewrite E; reflexivity).
    lia.
Qed.

End Concrete.

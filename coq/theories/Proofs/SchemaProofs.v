(* Proofs about Model/Schema.v (property C16). *)
From Biscuit Require Import Model.Schema.
Local Open Scope N_scope.

(* ------------------------------------------------------------------------------------
   Induction principle for [value] with hypotheses for the elements of nested lists
   ------------------------------------------------------------------------------------ *)
Section ValueInd.
  Variable P : value -> Prop.
  Hypothesis HInt : forall i, P (VInt i).
  Hypothesis HStr : forall s, P (VStr s).
  Hypothesis HUnk : forall i, P (VUnk i).
  Hypothesis HDate : forall d, P (VDate d).
  Hypothesis HBytes : forall b, P (VBytes b).
  Hypothesis HBool : forall b, P (VBool b).
  Hypothesis HSet : forall l, Forall P l -> P (VSet l).
  Hypothesis HNull : P VNull.
  Hypothesis HArray : forall l, Forall P l -> P (VArray l).
  Hypothesis HMap : forall l, Forall (fun kv => P (snd kv)) l -> P (VMap l).

  Fixpoint value_ind' (v : value) : P v :=
    match v with
    | VInt i => HInt i
    | VStr s => HStr s
    | VUnk i => HUnk i
    | VDate d => HDate d
    | VBytes b => HBytes b
    | VBool b => HBool b
    | VSet l =>
        HSet l ((fix go (l : list value) : Forall P l :=
                   match l with
                   | [] => Forall_nil _
                   | x :: l' => Forall_cons _ (value_ind' x) (go l')
                   end) l)
    | VNull => HNull
    | VArray l =>
        HArray l ((fix go (l : list value) : Forall P l :=
                     match l with
                     | [] => Forall_nil _
                     | x :: l' => Forall_cons _ (value_ind' x) (go l')
                     end) l)
    | VMap l =>
        HMap l ((fix go (l : list (mapkey * value)) : Forall (fun kv => P (snd kv)) l :=
                   match l with
                   | [] => Forall_nil _
                   | kv :: l' => Forall_cons _ (value_ind' (snd kv)) (go l')
                   end) l)
    end.
End ValueInd.

(* ------------------------------------------------------------------------------------
   Levels: the maximum of the feature table over a list of features
   ------------------------------------------------------------------------------------ *)
Definition lvl (l : list feature) : N := fold_right N.max 3 (map feature_version l).

(* the level of a piece of syntax that has a 3.3 feature / only a 3.1 feature / neither *)
Definition lv3 (b33 b31 : bool) : N := if b33 then 6 else if b31 then 4 else 3.

Lemma feature_version_bounds f : 4 <= feature_version f <= 6.
Proof. destruct f; cbn; lia. Qed.

Lemma lvl_bounds l : 3 <= lvl l <= 6.
Proof.
  unfold lvl. induction l as [|f l IH]; cbn [map fold_right]; [lia|].
  pose proof (feature_version_bounds f). lia.
Qed.

Lemma lvl_nil : lvl [] = 3.
Proof. reflexivity. Qed.

Lemma lvl_cons f l : lvl (f :: l) = N.max (feature_version f) (lvl l).
Proof. reflexivity. Qed.

Lemma lvl_app a b : lvl (a ++ b) = N.max (lvl a) (lvl b).
Proof.
  unfold lvl. induction a as [|f a IH]; cbn [app map fold_right].
  - pose proof (lvl_bounds b) as Hb. unfold lvl in Hb. lia.
  - rewrite IH. lia.
Qed.

Lemma lv3_max a b c d : N.max (lv3 a b) (lv3 c d) = lv3 (a || c) (b || d).
Proof. destruct a, b, c, d; reflexivity. Qed.

Lemma lv3_bounds a b : 3 <= lv3 a b <= 6.
Proof. destruct a, b; cbn; lia. Qed.

Lemma lvl_flat_map {A} (F : A -> list feature) (p33 p31 : A -> bool) (l : list A) :
  (forall x, In x l -> lvl (F x) = lv3 (p33 x) (p31 x)) ->
  lvl (flat_map F l) = lv3 (existsb p33 l) (existsb p31 l).
Proof.
  induction l as [|x l IH]; intros H; cbn [flat_map existsb]; [reflexivity|].
  rewrite lvl_app, H by (left; reflexivity).
  rewrite IH by (intros y Hy; apply H; right; exact Hy).
  apply lv3_max.
Qed.

Lemma existsb_false {A} (l : list A) : existsb (fun _ => false) l = false.
Proof. induction l; cbn; auto. Qed.

Lemma existsb_orb {A} (f g : A -> bool) l :
  existsb (fun x => f x || g x) l = existsb f l || existsb g l.
Proof.
  induction l as [|x l IH]; cbn [existsb]; [reflexivity|]. rewrite IH.
  destruct (f x), (g x), (existsb f l), (existsb g l); reflexivity.
Qed.

Lemma existsb_ext_in {A} (f g : A -> bool) l :
  (forall x, In x l -> f x = g x) -> existsb f l = existsb g l.
Proof.
  induction l as [|x l IH]; intros H; cbn [existsb]; [reflexivity|].
  rewrite H by (left; reflexivity). rewrite IH; [reflexivity|].
  intros y Hy. apply H. right. exact Hy.
Qed.

(* ------------------------------------------------------------------------------------
   Level of every syntactic class = what the repaired detector computes
   ------------------------------------------------------------------------------------ *)
Lemma value_level v : lvl (value_features v) = lv3 (term33_fixed v) false.
Proof.
  induction v as [i|s|i|d|b|b|l IH| |l IH|l IH] using value_ind'; try reflexivity.
  - (* set *)
    cbn [value_features term33_fixed].
    rewrite (lvl_flat_map value_features term33_fixed (fun _ => false)).
    + rewrite existsb_false. reflexivity.
    + intros x Hx. rewrite Forall_forall in IH. apply IH. exact Hx.
  - (* array *)
    cbn [value_features term33_fixed]. rewrite lvl_cons. cbn [feature_version lv3].
    pose proof (lvl_bounds (flat_map value_features l)). lia.
  - (* map *)
    cbn [value_features term33_fixed]. rewrite lvl_cons. cbn [feature_version lv3].
    pose proof (lvl_bounds (flat_map (fun kv => value_features (snd kv)) l)). lia.
Qed.

Lemma term_level t : lvl (term_features t) = lv3 (tterm33 repaired t) false.
Proof. destruct t as [x|v]; [reflexivity|]. apply value_level. Qed.

Lemma pred_level p : lvl (pred_features p) = lv3 (pred33 repaired p) false.
Proof.
  unfold pred_features, pred33.
  rewrite (lvl_flat_map term_features (tterm33 repaired) (fun _ => false)).
  - rewrite existsb_false. reflexivity.
  - intros t _. apply term_level.
Qed.

Lemma fact_level f : lvl (fact_features f) = lv3 (fact33 repaired f) false.
Proof.
  unfold fact_features, fact33.
  rewrite (lvl_flat_map value_features (term33 repaired) (fun _ => false)).
  - rewrite existsb_false. reflexivity.
  - intros v _. apply value_level.
Qed.

Lemma op_level o : lvl (op_features o) = lv3 (op33 repaired o) (op31 o).
Proof.
  destruct o as [v|x|u|b|ps body].
  - cbn [op_features op33 op31]. rewrite value_level.
    unfold term33. cbn [v_detect repaired]. destruct (term33_fixed v); reflexivity.
  - reflexivity.
  - destruct u; reflexivity.
  - destruct b; reflexivity.
  - cbn [op_features op33 op31]. rewrite lvl_cons. cbn [feature_version lv3].
    pose proof (lvl_bounds (flat_map op_features body)). lia.
Qed.

Lemma expr_level (e : list op) :
  lvl (flat_map op_features e) = lv3 (existsb (op33 repaired) e) (existsb op31 e).
Proof. apply lvl_flat_map. intros o _. apply op_level. Qed.

Lemma exprs_level (es : list (list op)) :
  lvl (flat_map (flat_map op_features) es) = lv3 (exprs33 repaired es) (exprs31 es).
Proof. unfold exprs33, exprs31. apply lvl_flat_map. intros e _. apply expr_level. Qed.

Lemma scopes_level (s : list scope) : lvl (scopes_features s) = lv3 false (nonempty s).
Proof. destruct s; reflexivity. Qed.

Lemma preds_level (ps : list pred) :
  lvl (flat_map pred_features ps) = lv3 (existsb (pred33 repaired) ps) false.
Proof.
  rewrite (lvl_flat_map pred_features (pred33 repaired) (fun _ => false)).
  - rewrite existsb_false. reflexivity.
  - intros p _. apply pred_level.
Qed.

Definition rule33 (r : rule) : bool :=
  pred33 repaired (rhead r) || existsb (pred33 repaired) (rbody r) || exprs33 repaired (rexprs r).
Definition rule31 (r : rule) : bool := exprs31 (rexprs r) || nonempty (rscopes r).

Lemma rule_level r : lvl (rule_features r) = lv3 (rule33 r) (rule31 r).
Proof.
  unfold rule_features, rule33, rule31.
  rewrite !lvl_app, pred_level, preds_level, exprs_level, scopes_level, !lv3_max.
  destruct (pred33 repaired (rhead r)), (existsb (pred33 repaired) (rbody r)),
    (exprs33 repaired (rexprs r)), (exprs31 (rexprs r)), (nonempty (rscopes r)); reflexivity.
Qed.

(* a check query: body, expressions, scopes (its head is not Datalog content) *)
Definition query33 (q : rule) : bool :=
  existsb (pred33 repaired) (rbody q) || exprs33 repaired (rexprs q).

Lemma query_level q : lvl (query_features q) = lv3 (query33 q) (rule31 q).
Proof.
  unfold query_features, query33, rule31.
  rewrite !lvl_app, preds_level, exprs_level, scopes_level, !lv3_max.
  destruct (existsb (pred33 repaired) (rbody q)), (exprs33 repaired (rexprs q)),
    (exprs31 (rexprs q)), (nonempty (rscopes q)); reflexivity.
Qed.

Definition check33 (c : check) : bool := is_reject (ckind c) || existsb query33 (cqueries c).
Definition check31 (c : check) : bool := is_all (ckind c) || existsb rule31 (cqueries c).

Lemma check_level c : lvl (check_features c) = lv3 (check33 c) (check31 c).
Proof.
  unfold check_features, check33, check31. rewrite lvl_app.
  rewrite (lvl_flat_map query_features query33 rule31) by (intros q _; apply query_level).
  assert (Hk : lvl (kind_features (ckind c)) = lv3 (is_reject (ckind c)) (is_all (ckind c)))
    by (destruct (ckind c); reflexivity).
  rewrite Hk. apply lv3_max.
Qed.

Definition block33 (b : block) : bool :=
  existsb (fact33 repaired) (bfacts b) || existsb rule33 (brules b) || existsb check33 (bchecks b).
Definition block31 (b : block) : bool :=
  existsb rule31 (brules b) || existsb check31 (bchecks b) || nonempty (bscopes b).

Lemma required_level b :
  required b = N.max (lv3 (block33 b) (block31 b)) (if bthird b then 5 else 3).
Proof.
  unfold required. fold (lvl (block_features b)). unfold block_features.
  rewrite !lvl_app.
  rewrite (lvl_flat_map fact_features (fact33 repaired) (fun _ => false))
    by (intros f _; apply fact_level).
  rewrite (lvl_flat_map rule_features rule33 rule31) by (intros r _; apply rule_level).
  rewrite (lvl_flat_map check_features check33 check31) by (intros c _; apply check_level).
  rewrite scopes_level, existsb_false.
  assert (Ht : lvl (if bthird b then [FThirdParty] else []) = (if bthird b then 5 else 3))
    by (destruct (bthird b); reflexivity).
  rewrite Ht. unfold block33, block31.
  destruct (existsb (fact33 repaired) (bfacts b)), (existsb rule33 (brules b)),
    (existsb check33 (bchecks b)), (existsb rule31 (brules b)), (existsb check31 (bchecks b)),
    (nonempty (bscopes b)), (bthird b); reflexivity.
Qed.

(* ------------------------------------------------------------------------------------
   The repaired detector computes exactly these flags
   ------------------------------------------------------------------------------------ *)
Lemma detect_33 facts rules checks scopes :
  contains_v3_3 (get_schema_version repaired facts rules checks scopes)
  = existsb (fact33 repaired) facts || existsb rule33 rules || existsb check33 checks.
Proof.
  cbn [get_schema_version contains_v3_3].
  unfold check33, rule33, query33.
  rewrite (existsb_orb (fun c => is_reject (ckind c))
                       (fun c => existsb (fun q => existsb (pred33 repaired) (rbody q)
                                                   || exprs33 repaired (rexprs q)) (cqueries c))).
  set (a := existsb (fun c => is_reject (ckind c)) checks).
  set (b := existsb _ rules).
  set (c := existsb (fun c => existsb _ (cqueries c)) checks).
  set (d := existsb (fact33 repaired) facts).
  destruct a, b, c, d; reflexivity.
Qed.

Lemma detect_31 facts rules checks scopes :
  let sv := get_schema_version repaired facts rules checks scopes in
  contains_scopes sv || contains_v3_1 sv || contains_check_all sv
  = existsb rule31 rules || existsb check31 checks || nonempty scopes.
Proof.
  cbn [get_schema_version contains_scopes contains_v3_1 contains_check_all].
  unfold check31, rule31.
  rewrite (existsb_orb (fun r => exprs31 (rexprs r)) (fun r => nonempty (rscopes r)) rules).
  rewrite (existsb_orb (fun c => is_all (ckind c))
                       (fun c => existsb (fun q => exprs31 (rexprs q) || nonempty (rscopes q)) (cqueries c))).
  assert (Hq : existsb (fun c => existsb (fun q => exprs31 (rexprs q) || nonempty (rscopes q)) (cqueries c)) checks
               = existsb (fun c => existsb (fun q => exprs31 (rexprs q)) (cqueries c)) checks
                 || existsb (fun c => existsb (fun q => nonempty (rscopes q)) (cqueries c)) checks).
  { rewrite <- existsb_orb. apply existsb_ext_in. intros c _. apply existsb_orb. }
  rewrite Hq.
  set (a := nonempty scopes).
  set (b := existsb (fun r => nonempty (rscopes r)) rules).
  set (c := existsb (fun c => existsb (fun q => nonempty (rscopes q)) (cqueries c)) checks).
  set (d := existsb (fun r => exprs31 (rexprs r)) rules).
  set (e := existsb (fun c => existsb (fun q => exprs31 (rexprs q)) (cqueries c)) checks).
  set (f := existsb (fun c => is_all (ckind c)) checks).
  destruct a, b, c, d, e, f; reflexivity.
Qed.

Lemma sv_version_lv3 sv :
  sv_version sv = lv3 (contains_v3_3 sv) (contains_scopes sv || contains_v3_1 sv || contains_check_all sv).
Proof. unfold sv_version, lv3. reflexivity. Qed.

Lemma detected_level b :
  sv_version (detect repaired b) = lv3 (block33 b) (block31 b).
Proof.
  rewrite sv_version_lv3. unfold detect. rewrite detect_33.
  pose proof (detect_31 (bfacts b) (brules b) (bchecks b) (bscopes b)) as H. cbv zeta in H.
  rewrite H. reflexivity.
Qed.

(* C16_builder_declares_required *)
Theorem builder_declares_required facts rules checks scopes third :
  let b := build repaired facts rules checks scopes third in
  bversion b = required b.
Proof.
  cbv zeta. rewrite required_level.
  pose proof (detected_level (build repaired facts rules checks scopes third)) as Hd.
  unfold detect in Hd. cbn [build bfacts brules bchecks bscopes] in Hd.
  cbn [build bversion bthird]. rewrite Hd.
  set (x := lv3 _ _). pose proof (lv3_bounds (block33 (build repaired facts rules checks scopes third))
                                    (block31 (build repaired facts rules checks scopes third))) as Hx.
  fold x in Hx. unfold DATALOG_3_2. destruct third; lia.
Qed.

(* what the statement means version by version *)
Corollary builder_version_cases facts rules checks scopes third :
  let b := build repaired facts rules checks scopes third in
  (bversion b = 6 <-> exists f, In f (block_features b) /\ feature_version f = 6) /\
  In (bversion b) [3; 4; 5; 6].
Proof.
  cbv zeta. rewrite builder_declares_required.
  set (b := build repaired facts rules checks scopes third).
  unfold required. generalize (block_features b). intros l. split.
  - induction l as [|f l IH]; cbn [map fold_right].
    + split; [intros H; discriminate H | intros [f [[] _]]].
    + split.
      * intros H. destruct (N.eq_dec (feature_version f) 6) as [E|E].
        -- exists f. split; [left; reflexivity | exact E].
        -- assert (Hl : fold_right N.max 3 (map feature_version l) = 6).
           { pose proof (feature_version_bounds f). lia. }
           apply IH in Hl. destruct Hl as [g [Hg Hv]]. exists g. split; [right; exact Hg | exact Hv].
      * intros [g [[->|Hg] Hv]].
        -- pose proof (lvl_bounds l) as Hb. unfold lvl in Hb. lia.
        -- assert (Hl : fold_right N.max 3 (map feature_version l) = 6)
             by (apply IH; exists g; split; assumption).
           pose proof (feature_version_bounds f). lia.
  - induction l as [|f l IH]; cbn [map fold_right]; [left; reflexivity|].
    assert (Hf : In (feature_version f) [4; 5; 6]) by (destruct f; cbn; auto).
    cbn [In] in *.
    destruct Hf as [Hf|[Hf|[Hf|[]]]]; destruct IH as [Hl|[Hl|[Hl|[Hl|[]]]]];
      rewrite <- Hf, <- Hl; cbn; auto.
Qed.

(* [required] is the least version that includes every feature of the block *)
Lemma required_is_lub b :
  (forall f, In f (block_features b) -> feature_version f <= required b) /\
  (required b = 3 \/ exists f, In f (block_features b) /\ feature_version f = required b).
Proof.
  unfold required. generalize (block_features b). intros l.
  induction l as [|g l [IH1 IH2]]; cbn [map fold_right].
  - split; [intros f []|left; reflexivity].
  - split.
    + intros f [->|Hf]; [lia|]. specialize (IH1 f Hf). lia.
    + right. destruct (N.max_spec (feature_version g) (fold_right N.max 3 (map feature_version l)))
        as [[Hlt ->]|[Hle ->]].
      * destruct IH2 as [E|[f [Hf E]]].
        -- pose proof (feature_version_bounds g). lia.
        -- exists f. split; [right; exact Hf|exact E].
      * exists g. split; [left; reflexivity|reflexivity].
Qed.

(* the detector as coded misses arrays: a([1,2]) *)
Definition witness_fact : fact := mkfact (Sym (str "a")) [VArray [VInt 1%Z; VInt 2%Z]].

Lemma detector_refuted :
  exists facts rules checks scopes third,
    let b := build faithful facts rules checks scopes third in
    bversion b < required b.
Proof. exists [witness_fact], [], [], [], false. vm_compute. reflexivity. Qed.

(* ------------------------------------------------------------------------------------
   The gate
   ------------------------------------------------------------------------------------ *)

(* decoding the wire kinds alone (no version-dependent refusals) *)
Fixpoint decode_checks (cs : list wcheck) : option (list check) :=
  match cs with
  | [] => Some []
  | c :: cs' =>
      match kind_of_wire (wkind c), decode_checks cs' with
      | Some k, Some l => Some (mkcheck (wqueries c) k :: l)
      | _, _ => None
      end
  end.

Lemma convert_checks_spec version cs l :
  convert_checks version cs = Some l <->
  decode_checks cs = Some l /\
  forallb (fun c => forallb (rule_gate version) (wqueries c)) cs = true.
Proof.
  revert l. induction cs as [|c cs IH]; intros l; cbn [convert_checks decode_checks forallb].
  - split; [intros H; split; [exact H|reflexivity] | intros [H _]; exact H].
  - destruct (forallb (rule_gate version) (wqueries c)) eqn:Hg; cbn [andb].
    2:{ split; [discriminate | intros [_ H]; discriminate H]. }
    destruct (kind_of_wire (wkind c)) as [k|].
    2:{ split; [discriminate | intros [H _]; discriminate H]. }
    destruct (convert_checks version cs) as [l1|] eqn:Hc;
      destruct (decode_checks cs) as [l2|] eqn:Hd.
    + destruct (proj1 (IH l1) eq_refl) as [E Hf]. injection E as ->. rewrite Hf.
      split; [intros H; split; [exact H|reflexivity] | intros [H _]; exact H].
    + destruct (proj1 (IH l1) eq_refl) as [E _]. discriminate E.
    + split; [discriminate|]. intros [_ Hf].
      assert (E : None = Some l2) by (apply IH; split; [reflexivity|exact Hf]). discriminate E.
    + split; [discriminate | intros [H _]; discriminate H].
Qed.

(* the gate succeeds exactly when every coded condition holds *)
Lemma load_ok_iff vr w ext b :
  load vr w ext = LOk b <->
  exists checks,
    (MIN_SCHEMA_VERSION <=? wversion w) && (wversion w <=? MAX_SCHEMA_VERSION) = true /\
    forallb (rule_gate (wversion w)) (wrules w) = true /\
    ((wversion w <? MAX_SCHEMA_VERSION) && negb (forallb (kind_gate (wversion w)) (wchecks w)) = false) /\
    ((wversion w <? DATALOG_3_2) && ext = false) /\
    convert_checks (wversion w) (wchecks w) = Some checks /\
    check_compatibility vr (get_schema_version vr (wfacts w) (wrules w) checks (wscopes w)) (wversion w) = true /\
    b = mkblock (wfacts w) (wrules w) checks (wscopes w) (wversion w) ext.
Proof.
  unfold load.
  destruct ((MIN_SCHEMA_VERSION <=? wversion w) && (wversion w <=? MAX_SCHEMA_VERSION)) eqn:H1; cbn [negb].
  2:{ split; [discriminate|]. intros [c [H _]]. discriminate H. }
  destruct (forallb (rule_gate (wversion w)) (wrules w)) eqn:H2; cbn [negb].
  2:{ split; [discriminate|]. intros [c [_ [H _]]]. discriminate H. }
  destruct ((wversion w <? MAX_SCHEMA_VERSION) && negb (forallb (kind_gate (wversion w)) (wchecks w))) eqn:H3.
  { split; [discriminate|]. intros [c [_ [_ [H _]]]]. discriminate H. }
  destruct ((wversion w <? DATALOG_3_2) && ext) eqn:H4.
  { split; [discriminate|]. intros [c [_ [_ [_ [H _]]]]]. discriminate H. }
  destruct (convert_checks (wversion w) (wchecks w)) as [checks|] eqn:H5.
  2:{ split; [discriminate|]. intros [c [_ [_ [_ [_ [H _]]]]]]. discriminate H. }
  destruct (check_compatibility vr _ (wversion w)) eqn:H6.
  - split.
    + intros H. injection H as <-. exists checks. repeat split; try reflexivity. exact H6.
    + intros [c [_ [_ [_ [_ [Hc [_ ->]]]]]]]. injection Hc as <-. reflexivity.
  - split; [discriminate|].
    intros [c [_ [_ [_ [_ [Hc [Hk _]]]]]]]. injection Hc as <-. rewrite H6 in Hk. discriminate Hk.
Qed.

(* the repaired comparison is "detected version <= declared version" *)
Lemma compat_repaired_iff sv v :
  3 <= v -> (check_compatibility repaired sv v = true <-> sv_version sv <= v).
Proof.
  intros Hv. unfold check_compatibility, sv_version, DATALOG_3_1, DATALOG_3_3, MIN_SCHEMA_VERSION.
  cbn [v_compat repaired].
  destruct (v <? 4) eqn:H4; [apply N.ltb_lt in H4 | apply N.ltb_ge in H4].
  - destruct (contains_scopes sv), (contains_v3_1 sv), (contains_check_all sv), (contains_v3_3 sv);
      cbn; split; intros H; try discriminate H; try reflexivity; try lia.
  - destruct (v <? 6) eqn:H6; [apply N.ltb_lt in H6 | apply N.ltb_ge in H6];
      destruct (contains_v3_3 sv); cbn [andb];
      destruct (contains_scopes sv || contains_v3_1 sv || contains_check_all sv);
      split; intros H; try discriminate H; try reflexivity; try lia.
Qed.

Lemma decode_checks_kinds cs l :
  decode_checks cs = Some l ->
  Forall2 (fun c k => wqueries c = cqueries k /\ kind_of_wire (wkind c) = Some (ckind k)) cs l.
Proof.
  revert l. induction cs as [|c cs IH]; intros l; cbn [decode_checks].
  - intros H. injection H as <-. constructor.
  - destruct (kind_of_wire (wkind c)) as [k|] eqn:Hk; [|discriminate].
    destruct (decode_checks cs) as [l'|]; [|discriminate].
    intros H. injection H as <-. constructor; [split; [reflexivity|exact Hk] | apply IH; reflexivity].
Qed.

(* a block accepted by the repaired gate declares a supported version that is at least
   what its content requires *)
Theorem gate_sound w ext b :
  load repaired w ext = LOk b ->
  3 <= wversion w <= 6 /\ bversion b = wversion w /\ bthird b = ext /\ required b <= wversion w.
Proof.
  intros H. apply load_ok_iff in H.
  destruct H as [checks [H1 [_ [_ [H4 [_ [H6 ->]]]]]]].
  apply andb_true_iff in H1. destruct H1 as [Ha Hb].
  apply N.leb_le in Ha. apply N.leb_le in Hb. unfold MIN_SCHEMA_VERSION in Ha. unfold MAX_SCHEMA_VERSION in Hb.
  split; [lia|]. split; [reflexivity|]. split; [reflexivity|].
  rewrite required_level. cbn [bthird].
  apply compat_repaired_iff in H6; [|exact Ha].
  set (b := mkblock (wfacts w) (wrules w) checks (wscopes w) (wversion w) ext).
  pose proof (detected_level b) as Hd. unfold detect in Hd. cbn [b bfacts brules bchecks bscopes] in Hd.
  rewrite Hd in H6.
  destruct ext; [|lia].
  rewrite andb_true_r in H4. apply N.ltb_ge in H4. unfold DATALOG_3_2 in H4. lia.
Qed.

(* ... and conversely: the exact acceptance condition of the repaired gate *)
Lemma existsb_true_in {A} (f : A -> bool) l : existsb f l = true -> exists x, In x l /\ f x = true.
Proof. apply existsb_exists. Qed.

Lemma in_existsb {A} (f : A -> bool) l x : In x l -> f x = true -> existsb f l = true.
Proof. intros Hi Hf. apply existsb_exists. exists x. split; assumption. Qed.

Theorem gate_iff w ext :
  (exists b, load repaired w ext = LOk b) <->
  (3 <= wversion w <= 6 /\
   exists checks,
     decode_checks (wchecks w) = Some checks /\
     (wversion w < 4 -> Forall (fun c => wkind c = None) (wchecks w)) /\
     required (mkblock (wfacts w) (wrules w) checks (wscopes w) (wversion w) ext) <= wversion w).
Proof.
  split.
  - intros [b H]. pose proof (gate_sound _ _ _ H) as [Hr [_ [_ Hq]]].
    apply load_ok_iff in H. destruct H as [checks [_ [_ [H3 [_ [H5 [_ ->]]]]]]].
    split; [exact Hr|]. exists checks.
    apply convert_checks_spec in H5. destruct H5 as [H5 _].
    split; [exact H5|]. split; [|exact Hq].
    intros Hlt. apply Forall_forall. intros c Hc.
    assert (Hm : (wversion w <? MAX_SCHEMA_VERSION) = true) by (apply N.ltb_lt; unfold MAX_SCHEMA_VERSION; lia).
    rewrite Hm in H3. cbn [andb] in H3. apply negb_false_iff in H3.
    rewrite forallb_forall in H3. specialize (H3 c Hc). unfold kind_gate in H3.
    assert (H31 : (wversion w <? DATALOG_3_1) = true) by (apply N.ltb_lt; exact Hlt).
    rewrite H31 in H3. cbn [andb] in H3. destruct (wkind c); [discriminate H3 | reflexivity].
  - intros [Hr [checks [Hd [Hk Hq]]]].
    set (b := mkblock (wfacts w) (wrules w) checks (wscopes w) (wversion w) ext) in *.
    exists b. apply load_ok_iff. exists checks.
    rewrite required_level in Hq. cbn [b bthird] in Hq.
    assert (H33 : block33 b = true -> 6 <= wversion w).
    { intros E. rewrite E in Hq. cbn [lv3] in Hq. lia. }
    assert (H31 : block31 b = true -> 4 <= wversion w).
    { intros E. rewrite E in Hq. destruct (block33 b); cbn [lv3] in Hq; lia. }
    assert (Hext : ext = true -> 5 <= wversion w).
    { intros E. rewrite E in Hq. lia. }
    pose proof (decode_checks_kinds _ _ Hd) as HF.
    (* a query of a wire check is a query of the decoded check *)
    assert (Hq_in : forall c, In c (wchecks w) ->
                     exists k, In k checks /\ wqueries c = cqueries k /\ kind_of_wire (wkind c) = Some (ckind k)).
    { clear - HF. induction HF as [|c k cs l [H1 H2] HF IH]; intros c0 Hc0; [destruct Hc0|].
      destruct Hc0 as [<-|Hc0].
      - exists k. split; [left; reflexivity|]. split; assumption.
      - destruct (IH c0 Hc0) as [k0 [Hk0 Hr]]. exists k0. split; [right; exact Hk0 | exact Hr]. }
    assert (Hscope_rule : forall r, In r (wrules w) -> rule_gate (wversion w) r = true).
    { intros r Hr0. unfold rule_gate. apply negb_true_iff. apply andb_false_iff.
      destruct (nonempty (rscopes r)) eqn:En; [left|right; reflexivity].
      apply N.ltb_ge. unfold DATALOG_3_1. apply H31. unfold block31. cbn [b brules].
      rewrite (in_existsb rule31 (wrules w) r Hr0); [reflexivity|].
      unfold rule31. rewrite En. apply orb_true_r. }
    assert (Hscope_query : forall c q, In c (wchecks w) -> In q (wqueries c) -> rule_gate (wversion w) q = true).
    { intros c q Hc Hq0. unfold rule_gate. apply negb_true_iff. apply andb_false_iff.
      destruct (nonempty (rscopes q)) eqn:En; [left|right; reflexivity].
      apply N.ltb_ge. unfold DATALOG_3_1. apply H31. unfold block31. cbn [b brules bchecks].
      destruct (Hq_in c Hc) as [k [Hkin [Hqs _]]].
      assert (E : existsb check31 checks = true).
      { apply (in_existsb check31 checks k Hkin). unfold check31.
        rewrite <- Hqs. rewrite (in_existsb rule31 (wqueries c) q Hq0); [apply orb_true_r|].
        unfold rule31. rewrite En. apply orb_true_r. }
      rewrite E. destruct (existsb rule31 (wrules w)); reflexivity. }
    repeat split.
    + apply andb_true_iff. split; apply N.leb_le; unfold MIN_SCHEMA_VERSION, MAX_SCHEMA_VERSION; lia.
    + apply forallb_forall. exact Hscope_rule.
    + destruct (wversion w <? MAX_SCHEMA_VERSION) eqn:Em; [|reflexivity]. cbn [andb].
      apply negb_false_iff. apply forallb_forall. intros c Hc. unfold kind_gate.
      destruct (wversion w <? DATALOG_3_1) eqn:E1; cbn [andb].
      * apply N.ltb_lt in E1. unfold DATALOG_3_1 in E1. specialize (Hk E1).
        rewrite Forall_forall in Hk. rewrite (Hk c Hc).
        destruct (wversion w <? DATALOG_3_3); reflexivity.
      * destruct (wkind c) as [n|] eqn:Ek; [|destruct (wversion w <? DATALOG_3_3); reflexivity].
        destruct (wversion w <? DATALOG_3_3) eqn:E3; [|reflexivity]. cbn [andb].
        destruct (N.eq_dec n 2) as [->|Hn].
        -- exfalso. apply N.ltb_lt in E3. unfold DATALOG_3_3 in E3.
           destruct (Hq_in c Hc) as [k [Hk0 [_ Hkk]]]. rewrite Ek in Hkk. cbn in Hkk.
           injection Hkk as Hkk.
           assert (E : block33 b = true).
           { unfold block33. cbn [b bchecks].
             rewrite (in_existsb check33 checks k Hk0); [apply orb_true_r|].
             unfold check33. rewrite <- Hkk. reflexivity. }
           specialize (H33 E). lia.
        -- destruct n as [|p]; [reflexivity|].
           destruct p as [p|p|]; try reflexivity; destruct p; try reflexivity.
           exfalso. apply Hn. reflexivity.
    + destruct ext; [|apply andb_false_r]. rewrite andb_true_r. apply N.ltb_ge.
      unfold DATALOG_3_2. apply Hext. reflexivity.
    + apply convert_checks_spec. split; [exact Hd|].
      apply forallb_forall. intros c Hc. apply forallb_forall. intros q Hq0.
      exact (Hscope_query c q Hc Hq0).
    + apply compat_repaired_iff; [lia|].
      pose proof (detected_level b) as Hdl. unfold detect in Hdl. cbn [b bfacts brules bchecks bscopes] in Hdl.
      rewrite Hdl. destruct (block33 b); [cbn [lv3]; apply H33; reflexivity|].
      destruct (block31 b); cbn [lv3]; [apply H31; reflexivity | lia].
Qed.

(* under-declared or out-of-range blocks are refused *)
Corollary underdeclared_rejected w ext checks :
  decode_checks (wchecks w) = Some checks ->
  (wversion w < 3 \/ 6 < wversion w \/
   wversion w < required (mkblock (wfacts w) (wrules w) checks (wscopes w) (wversion w) ext)) ->
  exists e, load repaired w ext = LErr e.
Proof.
  intros Hd Hbad.
  destruct (load repaired w ext) as [b|e] eqn:Hl; [|exists e; reflexivity].
  exfalso.
  assert (Hex : exists b, load repaired w ext = LOk b) by (exists b; exact Hl).
  apply gate_iff in Hex. destruct Hex as [Hr [checks' [Hd' [_ Hq]]]].
  rewrite Hd in Hd'. injection Hd' as <-. lia.
Qed.

(* out of range is reported as a Version error, whatever the variant *)
Lemma out_of_range_version vr w ext :
  (wversion w < 3 \/ 6 < wversion w) -> load vr w ext = LErr LVersion.
Proof.
  intros H. unfold load, MIN_SCHEMA_VERSION, MAX_SCHEMA_VERSION.
  assert (E : (3 <=? wversion w) && (wversion w <=? 6) = false).
  { apply andb_false_iff. destruct H as [H|H]; [left; apply N.leb_gt|right; apply N.leb_gt]; exact H. }
  rewrite E. reflexivity.
Qed.

(* the gate as coded accepts under-declared blocks: an array declared 3.1, a null declared 3.0 *)
Definition w_array_v4 : wblock := mkwblock [witness_fact] [] [] [] 4.
Definition w_null_v3 : wblock := mkwblock [mkfact (Sym (str "a")) [VNull]] [] [] [] 3.

Lemma gate_refuted :
  (exists b, load faithful w_array_v4 false = LOk b /\ bversion b < required b) /\
  (exists b, load (mkvariant true false) w_null_v3 false = LOk b /\ bversion b < required b) /\
  (exists b, load faithful w_null_v3 false = LOk b /\ bversion b < required b).
Proof.
  split; [|split]; eexists; (split; [vm_compute; reflexivity | vm_compute; reflexivity]).
Qed.

(* ------------------------------------------------------------------------------------
   Signature versions
   ------------------------------------------------------------------------------------ *)

(* does this block, signed by [signer], need the chained scheme? *)
Definition needs_v1 (signer : alg) (b : sblock) : bool :=
  match sb_kind b with
  | BkThird => true
  | BkBuilder => (6 <=? sb_dver b) || negb (is_ed signer && is_ed (sb_next b))
  | BkRaw => negb (is_ed signer && is_ed (sb_next b))
  end.

(* the rule, stated without reference to earlier blocks' numbers: 1 from the first block that
   needs it onwards, 0 before *)
Fixpoint spec_chain (signer : alg) (switched : bool) (bs : list sblock) : list N :=
  match bs with
  | [] => []
  | b :: bs' =>
      let s := switched || needs_v1 signer b in
      (if s then 1 else 0) :: spec_chain (sb_next b) s bs'
  end.

Lemma list_max_app l x : list_max (l ++ [x]) = N.max (list_max l) x.
Proof. induction l as [|y l IH]; cbn [app list_max]; [lia|]. rewrite IH. lia. Qed.

Lemma sb_sigversion_spec signer prev b (sw : bool) :
  list_max prev = (if sw then 1 else 0) ->
  sb_sigversion signer prev b = if sw || needs_v1 signer b then 1 else 0.
Proof.
  intros Hp. unfold sb_sigversion, block_signature_version, needs_v1, DATALOG_3_3.
  destruct (sb_kind b).
  - destruct (6 <=? sb_dver b); [rewrite orb_true_r; reflexivity|]. cbn [orb].
    destruct (is_ed signer && is_ed (sb_next b)); cbn [negb].
    + rewrite Hp, orb_false_r. reflexivity.
    + rewrite orb_true_r. reflexivity.
  - rewrite orb_true_r. reflexivity.
  - destruct (is_ed signer && is_ed (sb_next b)); cbn [negb].
    + rewrite Hp, orb_false_r. reflexivity.
    + rewrite orb_true_r. reflexivity.
Qed.

Lemma sign_chain_spec bs : forall signer prev (sw : bool),
  list_max prev = (if sw then 1 else 0) ->
  sign_chain signer prev bs = spec_chain signer sw bs.
Proof.
  induction bs as [|b bs IH]; intros signer prev sw Hp; cbn [sign_chain spec_chain]; [reflexivity|].
  rewrite (sb_sigversion_spec signer prev b sw Hp). f_equal.
  apply IH. rewrite list_max_app, Hp. destruct sw, (needs_v1 signer b); reflexivity.
Qed.

Theorem sigversion_spec root bs : token_sigversions root bs = spec_chain root false bs.
Proof. unfold token_sigversions. apply sign_chain_spec. reflexivity. Qed.

Lemma spec_chain_switched bs : forall signer, Forall (fun v => v = 1) (spec_chain signer true bs).
Proof. induction bs as [|b bs IH]; intros signer; cbn [spec_chain orb]; constructor; [reflexivity|apply IH]. Qed.

Lemma spec_chain_values bs : forall signer sw, Forall (fun v => v = 0 \/ v = 1) (spec_chain signer sw bs).
Proof.
  induction bs as [|b bs IH]; intros signer sw; cbn [spec_chain]; constructor; [|apply IH].
  destruct (sw || needs_v1 signer b); [right|left]; reflexivity.
Qed.

Lemma spec_chain_monotone bs : forall signer sw i j a b,
  (i <= j)%nat ->
  nth_error (spec_chain signer sw bs) i = Some a ->
  nth_error (spec_chain signer sw bs) j = Some b ->
  a <= b.
Proof.
  induction bs as [|x bs IH]; intros signer sw i j a b Hij Hi Hj.
  - destruct i; discriminate Hi.
  - cbn [spec_chain] in Hi, Hj. destruct j as [|j].
    + assert (i = 0)%nat by lia. subst i. cbn in Hi, Hj. rewrite Hi in Hj. injection Hj as ->. lia.
    + destruct i as [|i].
      * cbn [nth_error] in Hi, Hj. injection Hi as <-.
        destruct (sw || needs_v1 signer x) eqn:E.
        -- pose proof (spec_chain_switched bs (sb_next x)) as Hall.
           rewrite Forall_forall in Hall. apply nth_error_In in Hj. rewrite (Hall b Hj). lia.
        -- lia.
      * cbn [nth_error] in Hi, Hj. eapply IH; [|exact Hi|exact Hj]. lia.
Qed.

Theorem sigversion_monotone root bs i j a b :
  (i <= j)%nat ->
  nth_error (token_sigversions root bs) i = Some a ->
  nth_error (token_sigversions root bs) j = Some b ->
  a <= b.
Proof. rewrite sigversion_spec. apply spec_chain_monotone. Qed.

(* the keys that sign the blocks, in order: the root key, then every block's next key *)
Definition signers (root : alg) (bs : list sblock) : list alg := root :: map sb_next bs.

Lemma spec_chain_switch bs : forall signer sw i b s,
  nth_error bs i = Some b ->
  nth_error (signers signer bs) i = Some s ->
  needs_v1 s b = true ->
  nth_error (spec_chain signer sw bs) i = Some 1.
Proof.
  induction bs as [|x bs IH]; intros signer sw i b s Hb Hs Hn.
  - destruct i; discriminate Hb.
  - destruct i as [|i].
    + cbn in Hb, Hs. injection Hb as ->. injection Hs as ->.
      cbn [spec_chain nth_error]. rewrite Hn, orb_true_r. reflexivity.
    + cbn [nth_error] in Hb. cbn [signers map nth_error] in Hs. cbn [spec_chain nth_error].
      exact (IH (sb_next x) (sw || needs_v1 signer x) i b s Hb Hs Hn).
Qed.

(* a block that needs the chained scheme gets it *)
Theorem sigversion_switches root bs i b s :
  nth_error bs i = Some b ->
  nth_error (signers root bs) i = Some s ->
  needs_v1 s b = true ->
  nth_error (token_sigversions root bs) i = Some 1.
Proof. intros Hb Hs Hn. rewrite sigversion_spec. exact (spec_chain_switch bs root false i b s Hb Hs Hn). Qed.

(* before any block needs it, the version stays 0 *)
Lemma spec_chain_zero bs : forall signer i,
  (forall k b s, (k <= i)%nat -> nth_error bs k = Some b ->
     nth_error (signers signer bs) k = Some s -> needs_v1 s b = false) ->
  (i < length bs)%nat ->
  nth_error (spec_chain signer false bs) i = Some 0.
Proof.
  induction bs as [|x bs IH]; intros signer i Hall Hlen; [cbn in Hlen; lia|].
  assert (Hx : needs_v1 signer x = false) by (apply (Hall 0%nat x signer); [lia|reflexivity|reflexivity]).
  destruct i as [|i]; cbn [spec_chain nth_error orb]; rewrite Hx; [reflexivity|].
  apply IH; [|cbn in Hlen; lia].
  intros k b s Hk Hb Hs. apply (Hall (S k) b s); [lia|exact Hb|exact Hs].
Qed.

Theorem sigversion_stays_zero root bs i :
  (forall k b s, (k <= i)%nat -> nth_error bs k = Some b ->
     nth_error (signers root bs) k = Some s -> needs_v1 s b = false) ->
  (i < length bs)%nat ->
  nth_error (token_sigversions root bs) i = Some 0.
Proof. intros Hall Hlen. rewrite sigversion_spec. apply spec_chain_zero; assumption. Qed.

(* Proofs about Model/CApi.v: announced sizes are written sizes for the repaired entry
   points; the faithful ones abort on the stated classes. *)
From Biscuit Require Import Model.CApi Proofs.RobustProofs.

Lemma copy_into_exact v : copy_into (blen v) v = CWritten (blen v) v.
Proof. unfold copy_into. rewrite N.eqb_refl. reflexivity. Qed.

Lemma copy_into_abort_iff n v : copy_into n v = CAbort <-> n <> blen v.
Proof.
  unfold copy_into. destruct (N.eqb_spec n (blen v)) as [E|E]; split; intro H;
    try discriminate; try congruence; reflexivity.
Qed.

Lemma blen_inj_length a b : blen a = blen b <-> length a = length b.
Proof. unfold blen. split; intro H; [apply Nat2N.inj in H; assumption|rewrite H; reflexivity]. Qed.

Section Ser.
  Variable token : Type.
  Variable enc : token -> bytes.
  Variable seal : token -> option token.

  Lemma serialize_writes_announced t :
    serialize token enc t = CWritten (serialized_size token enc t) (enc t).
  Proof. unfold serialize, serialized_size. apply copy_into_exact. Qed.

  Lemma sealed_repaired t s : seal t = Some s ->
    sealed_size token enc seal Repaired t = blen (enc s) /\
    serialize_sealed token enc seal Repaired t = CWritten (sealed_size token enc seal Repaired t) (enc s).
  Proof.
    intro H. unfold sealed_size, serialize_sealed, serialized_size. rewrite H.
    split; [reflexivity|apply copy_into_exact].
  Qed.

  Lemma sealed_already vr t : seal t = None -> serialize_sealed token enc seal vr t = CError.
  Proof. intro H. unfold serialize_sealed. rewrite H. reflexivity. Qed.

  Lemma sealed_repaired_no_abort t : serialize_sealed token enc seal Repaired t <> CAbort.
  Proof.
    unfold serialize_sealed, serialized_size. destruct (seal t) as [s|]; [|discriminate].
    rewrite copy_into_exact. discriminate.
  Qed.

  (* the faithful pair: announces the unsealed size, and aborts whenever the sealed token
     has another length *)
  Lemma sealed_faithful t s : seal t = Some s ->
    sealed_size token enc seal Faithful t = blen (enc t) /\
    (length (enc s) <> length (enc t) -> serialize_sealed token enc seal Faithful t = CAbort) /\
    (length (enc s) = length (enc t) ->
       serialize_sealed token enc seal Faithful t = CWritten (blen (enc s)) (enc s)).
  Proof.
    intro H. unfold sealed_size, serialize_sealed, serialized_size. rewrite H.
    split; [reflexivity|]. split; intro L.
    - apply copy_into_abort_iff. intro E. apply blen_inj_length in E. congruence.
    - apply blen_inj_length in L. rewrite <- L. apply copy_into_exact.
  Qed.
End Ser.

(* the container: sealing replaces the next secret by a signature of another length *)
Lemma proof_field_length p :
  length (proof_field p) =
  (4 + match p with NextSecret k => length k | FinalSignature s => length s end)%nat.
Proof. destruct p; reflexivity. Qed.

Lemma wenc_length t :
  length (wenc t) =
  (length (w_body t) + 4 + match w_proof t with NextSecret k => length k | FinalSignature s => length s end)%nat.
Proof. unfold wenc. rewrite app_length, proof_field_length. lia. Qed.

Lemma wseal_faithful_aborts (sig : wtoken -> bytes) body k :
  length (sig (mkw body (NextSecret k))) <> length k ->
  let t := mkw body (NextSecret k) in
  exists s, wseal sig t = Some s /\
    sealed_size wtoken wenc (wseal sig) Faithful t <> blen (wenc s) /\
    serialize_sealed wtoken wenc (wseal sig) Faithful t = CAbort.
Proof.
  intros L t. exists (mkw body (FinalSignature (sig t))). split; [reflexivity|].
  assert (D : length (wenc (mkw body (FinalSignature (sig t)))) <> length (wenc t)).
  { subst t. rewrite !wenc_length. cbn [w_body w_proof]. lia. }
  split.
  - unfold sealed_size, serialized_size. intro E. apply blen_inj_length in E. congruence.
  - apply (sealed_faithful wtoken wenc (wseal sig) t (mkw body (FinalSignature (sig t))) eq_refl). exact D.
Qed.

(* keys *)
Lemma key_faithful_aborts b : length b <> 32%nat -> key_serialize Faithful b = CAbort.
Proof.
  intro H. unfold key_serialize. apply copy_into_abort_iff. unfold blen. intro E.
  apply H. apply Nat2N.inj. rewrite <- E. reflexivity.
Qed.

Lemma key_32 vr b : length b = 32%nat -> key_serialize vr b = CWritten 32 b.
Proof.
  intro H. assert (E : blen b = 32%N) by (unfold blen; rewrite H; reflexivity).
  destruct vr; unfold key_serialize.
  - unfold copy_into. rewrite E. reflexivity.
  - rewrite E. reflexivity.
Qed.

Lemma key_repaired_no_abort b : key_serialize Repaired b <> CAbort.
Proof. unfold key_serialize. destruct (blen b =? 32)%N; discriminate. Qed.

(* builders *)
Lemma builder_repaired steps :
  builder_run Repaired true steps = map (fun ok => Some ok) steps.
Proof.
  induction steps as [|ok r IH]; [reflexivity|].
  cbn [builder_run builder_step negb map]. destruct ok; cbn; rewrite IH; reflexivity.
Qed.

Lemma builder_faithful_poisoned ok rest :
  builder_run Faithful true (false :: ok :: rest) = [Some false; None].
Proof. reflexivity. Qed.

Lemma builder_faithful_all_ok steps :
  forallb (fun b => b) steps = true ->
  builder_run Faithful true steps = map (fun ok => Some ok) steps.
Proof.
  induction steps as [|ok r IH]; [reflexivity|].
  cbn [forallb]. intro H. apply andb_prop in H. destruct H as [H1 H2]. subst ok.
  cbn [builder_run builder_step negb map]. rewrite (IH H2). reflexivity.
Qed.

(* error channel *)
Lemma check_at_none_iff {A} (checks : list A) i :
  check_at checks i = None <-> (N.of_nat (length checks) <= i)%N.
Proof.
  unfold check_at. destruct (N.leb_spec (N.of_nat (length checks)) i) as [L|L].
  - split; [intros _; assumption|reflexivity].
  - rewrite nthN_none_iff. split; intro; lia.
Qed.

Lemma check_at_some {A} (checks : list A) i :
  (i < N.of_nat (length checks))%N -> exists x, check_at checks i = Some x /\ nth_error checks (N.to_nat i) = Some x.
Proof.
  intro H. unfold check_at. destruct (N.leb_spec (N.of_nat (length checks)) i) as [L|L]; [lia|].
  destruct (nthN_lt checks i H) as [x Hx]. exists x. split; [assumption|].
  rewrite <- nthN_nth_error. assumption.
Qed.

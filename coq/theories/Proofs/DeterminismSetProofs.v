(* C11: soundness of the set-valued evaluator of Model/Determinism.v.
   For every order in which the fact store hands out its facts (a permutation of the fact
   list, the same for every query of one authorization), the outcome [decide] computes lies
   in [decide_set] (errors up to their kind).  Consequently, whenever [decide_set] is a
   singleton the outcome is the same in every order: the known class of C11 is exactly
   "decide_set has more than one element". *)
From Biscuit Require Import Model.Determinism Spec.DatalogSpec Proofs.ValueProofs Proofs.DatalogProofs
     Proofs.AuthProofs Proofs.DeterminismProofs.
From Coq Require Import Permutation Lia.

(* ------------------------------------------------------------------ permutations and join *)
Lemma perm_flat_map_ext {A B} (f g : A -> list B) l l' :
  (forall x, Permutation (f x) (g x)) -> Permutation l l' ->
  Permutation (flat_map f l) (flat_map g l').
Proof.
  intros H P. transitivity (flat_map g l).
  - clear P. induction l as [|x l IH]; cbn [flat_map]; [constructor|].
    apply Permutation_app; [apply H|apply IH].
  - apply Permutation_flat_map. exact P.
Qed.

Lemma perm_filter {A} (p : A -> bool) l l' :
  Permutation l l' -> Permutation (filter p l) (filter p l').
Proof.
  induction 1 as [|x l l' P IH|x y l|l l' l'' P1 IH1 P2 IH2]; cbn [filter].
  - constructor.
  - destruct (p x); [constructor|]; assumption.
  - destruct (p x), (p y); try reflexivity. apply perm_swap.
  - etransitivity; eassumption.
Qed.

Lemma join_perm facts facts' : Permutation facts facts' ->
  forall body s o, Permutation (join facts body s o) (join facts' body s o).
Proof.
  intros P body. induction body as [|p rest IH]; intros s o; cbn [join]; [reflexivity|].
  apply perm_flat_map_ext; [|exact P].
  intros [o1 f]. cbn [fst snd]. destruct (match_pred p f s); [apply IH|reflexivity].
Qed.

Lemma bindings_perm fs fs' tr q : Permutation fs fs' ->
  Permutation (join (visible tr fs) (rbody q) [] []) (join (visible tr fs') (rbody q) [] []).
Proof. intro P. apply join_perm. unfold visible. apply perm_filter. exact P. Qed.

Section SetSound.
Variable orc : oracles.

(* ------------------------------------------------------------------ one query *)
Lemma qout_of_neg r : qout_of (match r with Ok b => Ok (negb b) | Err e => Err e end) = qneg (qout_of r).
Proof. destruct r as [[|]|e]; reflexivity. Qed.

Lemma query_in_set k fs fs' tr q : Permutation fs fs' ->
  In (qout_of (query_holds orc k fs' tr q)) (query_set orc k fs tr q).
Proof.
  intro P. pose proof (bindings_perm fs fs' tr q P) as PB.
  destruct k; cbn [query_holds query_set]; unfold bindings; rewrite map_map.
  - apply (find_match_any_order orc q _ _ PB).
  - apply (check_all_any_order orc q _ _ PB).
  - unfold find_match. rewrite qout_of_neg. apply in_map.
    apply (find_match_any_order orc q _ _ PB).
Qed.

(* ------------------------------------------------------------------ alternatives *)
Lemma any_in_set k fs fs' default cur km qs : Permutation fs fs' ->
  In (qout_of (any_query orc k fs' default cur km qs)) (any_set orc k fs default cur km qs).
Proof.
  intro P. induction qs as [|q qs IH]; cbn [any_query any_set]; [left; reflexivity|].
  pose proof (query_in_set k fs fs' (from_scopes (rscopes q) default cur km) q P) as H.
  set (here := query_set orc k fs (from_scopes (rscopes q) default cur km) q) in *.
  destruct (query_holds orc k fs' (from_scopes (rscopes q) default cur km) q) as [[|]|e]; cbn [qout_of] in *.
  - apply in_or_app. left. apply (proj2 (qmem_In QTrue here)) in H. rewrite H. left. reflexivity.
  - apply in_or_app. right. apply in_or_app. right.
    apply (proj2 (qmem_In QFalse here)) in H. rewrite H. exact IH.
  - apply in_or_app. right. apply in_or_app. left.
    apply (proj2 (qmem_In QErr here)) in H. rewrite H. left. reflexivity.
Qed.

Lemma all_in_set k fs fs' default cur km qs : Permutation fs fs' ->
  In (qout_of (all_queries orc k fs' default cur km qs)) (all_set orc k fs default cur km qs).
Proof.
  intro P. induction qs as [|q qs IH]; cbn [all_queries all_set]; [left; reflexivity|].
  pose proof (query_in_set k fs fs' (from_scopes (rscopes q) default cur km) q P) as H.
  set (here := query_set orc k fs (from_scopes (rscopes q) default cur km) q) in *.
  destruct (query_holds orc k fs' (from_scopes (rscopes q) default cur km) q) as [[|]|e]; cbn [qout_of] in *.
  - apply in_or_app. right. apply in_or_app. right.
    apply (proj2 (qmem_In QTrue here)) in H. rewrite H. exact IH.
  - apply in_or_app. left. apply (proj2 (qmem_In QFalse here)) in H. rewrite H. left. reflexivity.
  - apply in_or_app. right. apply in_or_app. left.
    apply (proj2 (qmem_In QErr here)) in H. rewrite H. left. reflexivity.
Qed.

(* ------------------------------------------------------------------ de-duplicating unions *)
Lemma qadd_In x y l : In x (qadd y l) <-> In x l \/ x = y.
Proof.
  unfold qadd. destruct (qmem y l) eqn:M.
  - apply qmem_In in M. split; [intro H; left; exact H|intros [H|H]; [exact H|subst; exact M]].
  - rewrite in_app_iff. cbn [In]. intuition.
Qed.

Lemma qunion_In x a b : In x (qunion a b) <-> In x a \/ In x b.
Proof.
  unfold qunion. revert a. induction b as [|y b IH]; intro a; cbn [fold_left In]; [tauto|].
  rewrite IH, qadd_In. intuition.
Qed.

Lemma dedup_In x l : In x (dedup l) <-> In x l.
Proof. unfold dedup. rewrite qunion_In. cbn [In]. tauto. Qed.

Lemma check_in_set fs fs' default cur km c : Permutation fs fs' ->
  In (qout_of (check_passes orc true fs' default cur km c)) (check_set orc fs default cur km c).
Proof.
  intro P. unfold check_passes, check_set. apply dedup_In.
  destruct (ckind c); try apply (any_in_set _ fs fs' default cur km _ P).
  destruct (cqueries c) as [|q qs] eqn:Q; [left; reflexivity|].
  apply (all_in_set _ fs fs' default cur km _ P).
Qed.

(* generic: folding a monotone "add the contributions of o" step over a list *)
Lemma fold_union_spec {A B} (H : B -> list A -> list A) (Pc : B -> A -> Prop) :
  (forall o acc x, In x (H o acc) <-> In x acc \/ Pc o x) ->
  forall here acc x,
  In x (fold_left (fun acc o => H o acc) here acc) <-> In x acc \/ exists o, In o here /\ Pc o x.
Proof.
  intros HS here. induction here as [|o here IH]; intros acc x; cbn [fold_left In].
  - split; [intro I; left; exact I|intros [I|[o [[] _]]]; exact I].
  - rewrite IH, HS. split.
    + intros [[I|I]|[o' [I C]]]; [left; exact I|right; exists o; split; [left; reflexivity|exact I]|
                                   right; exists o'; split; [right; exact I|exact C]].
    + intros [I|[o' [[E|I] C]]]; [left; left; exact I|subst; left; right; exact C|right; exists o'; split; assumption].
Qed.

(* ---- failed-check lists ---- *)
Lemma fres_eqb_eq a b : fres_eqb a b = true <-> a = b.
Proof.
  destruct a as [x|], b as [y|]; cbn [fres_eqb]; try (split; [discriminate|discriminate]);
    [|split; reflexivity].
  revert y. induction x as [|[i|b i] x IH]; intros [|[j|b' j] y]; try (split; [discriminate|discriminate]).
  - split; reflexivity.
  - rewrite Bool.andb_true_iff, N.eqb_eq, IH. split; [intros [E1 E2]; inversion E2; subst; reflexivity|
      intro E; inversion E; subst; split; reflexivity].
  - rewrite !Bool.andb_true_iff, !N.eqb_eq, IH. split; [intros [[E0 E1] E2]; inversion E2; subst; reflexivity|
      intro E; inversion E; subst; repeat split; reflexivity].
Qed.

Lemma fadd_In x y l : In x (fadd y l) <-> In x l \/ x = y.
Proof.
  unfold fadd. destruct (existsb (fres_eqb y) l) eqn:M.
  - apply existsb_exists in M. destruct M as [z [I E]]. apply fres_eqb_eq in E. subst z.
    split; [intro H; left; exact H|intros [H|H]; [exact H|subst; exact I]].
  - rewrite in_app_iff. cbn [In]. intuition.
Qed.

Lemma fold_fadd_In (g : fres -> fres) rest acc x :
  In x (fold_left (fun a r => fadd (g r) a) rest acc) <-> In x acc \/ exists r, In r rest /\ x = g r.
Proof.
  apply (fold_union_spec (fun r a => fadd (g r) a) (fun r x => x = g r)).
  intros o a y. apply fadd_In.
Qed.

Definition fcons (f : failed) (r : fres) : fres := match r with Some l => Some (f :: l) | None => None end.
Definition fapp (l : list failed) (r : fres) : fres := match r with Some l' => Some (l ++ l') | None => None end.

Definition fres_of (r : res (list failed)) : fres := match r with Ok l => Some l | Err _ => None end.

Lemma checks_set_spec fs default cur km mk j c cs x :
  In x (checks_set orc fs default cur km mk j (c :: cs)) <->
  exists o, In o (check_set orc fs default cur km c) /\
    match o with
    | QErr => x = None
    | QTrue => In x (checks_set orc fs default cur km mk (N.succ j) cs)
    | QFalse => exists r, In r (checks_set orc fs default cur km mk (N.succ j) cs) /\ x = fcons (mk j) r
    end.
Proof.
  cbn [checks_set].
  set (rest := checks_set orc fs default cur km mk (N.succ j) cs).
  rewrite (fold_union_spec
             (fun o acc => match o with
                           | QErr => fadd None acc
                           | QTrue => fold_left (fun a r => fadd r a) rest acc
                           | QFalse => fold_left (fun a r => fadd (fcons (mk j) r) a) rest acc
                           end)
             (fun o x => match o with
                         | QErr => x = None
                         | QTrue => In x rest
                         | QFalse => exists r, In r rest /\ x = fcons (mk j) r
                         end)).
  - cbn [In]. split; [intros [[]|H]; exact H|intro H; right; exact H].
  - intros o acc y. destruct o.
    + rewrite (fold_fadd_In (fun r => r)). split; [intros [I|[r [I E]]]; [left; exact I|subst; right; exact I]|
        intros [I|I]; [left; exact I|right; exists y; split; [exact I|reflexivity]]].
    + apply (fold_fadd_In (fcons (mk j))).
    + apply fadd_In.
Qed.

Lemma run_checks_in_set fs fs' default cur km mk cs : Permutation fs fs' -> forall j,
  In (fres_of (run_checks orc true fs' default cur km mk j cs)) (checks_set orc fs default cur km mk j cs).
Proof.
  intro P. induction cs as [|c cs IH]; intro j; [left; reflexivity|].
  apply checks_set_spec. cbn [run_checks].
  pose proof (check_in_set fs fs' default cur km c P) as H.
  destruct (check_passes orc true fs' default cur km c) as [ok|e]; cbn [qout_of] in H.
  - specialize (IH (N.succ j)).
    destruct (run_checks orc true fs' default cur km mk (N.succ j) cs) as [l|e]; cbn [fres_of] in *.
    + destruct ok.
      * exists QTrue. split; [exact H|exact IH].
      * exists QFalse. split; [exact H|]. exists (Some l). split; [exact IH|reflexivity].
    + destruct ok.
      * exists QTrue. split; [exact H|exact IH].
      * exists QFalse. split; [exact H|]. exists None. split; [exact IH|reflexivity].
  - exists QErr. split; [exact H|reflexivity].
Qed.

Lemma block_checks_set_spec fs km i b bs x :
  In x (block_checks_set orc fs km i (b :: bs)) <->
  exists h, In h (checks_set orc fs (block_trust km i b) i km (FBlock i) 0 (bchecks b)) /\
    match h with
    | None => x = None
    | Some l => exists r, In r (block_checks_set orc fs km (N.succ i) bs) /\ x = fapp l r
    end.
Proof.
  cbn [block_checks_set].
  set (rest := block_checks_set orc fs km (N.succ i) bs).
  rewrite (fold_union_spec
             (fun h acc => match h with
                           | None => fadd None acc
                           | Some l => fold_left (fun a r => fadd (fapp l r) a) rest acc
                           end)
             (fun h x => match h with
                         | None => x = None
                         | Some l => exists r, In r rest /\ x = fapp l r
                         end)).
  - cbn [In]. split; [intros [[]|H]; exact H|intro H; right; exact H].
  - intros h acc y. destruct h as [l|]; [apply (fold_fadd_In (fapp l))|apply fadd_In].
Qed.

Lemma run_block_checks_in_set fs fs' km bs : Permutation fs fs' -> forall i,
  In (fres_of (run_block_checks orc true fs' km i bs)) (block_checks_set orc fs km i bs).
Proof.
  intro P. induction bs as [|b bs IH]; intro i; [left; reflexivity|].
  apply block_checks_set_spec. cbn [run_block_checks].
  pose proof (run_checks_in_set fs fs' (block_trust km i b) i km (FBlock i) (bchecks b) P 0) as H.
  destruct (run_checks orc true fs' (block_trust km i b) i km (FBlock i) 0 (bchecks b)) as [l|e]; cbn [fres_of] in H.
  - exists (Some l). split; [exact H|]. specialize (IH (N.succ i)).
    destruct (run_block_checks orc true fs' km (N.succ i) bs) as [l'|e]; cbn [fres_of] in *.
    + exists (Some l'). split; [exact IH|reflexivity].
    + exists None. split; [exact IH|reflexivity].
  - exists None. split; [exact H|reflexivity].
Qed.

(* ---- policies ---- *)
Lemma pres_eqb_eq a b : pres_eqb a b = true <-> a = b.
Proof.
  destruct a as [[[[|] i]|]|], b as [[[[|] j]|]|]; cbn [pres_eqb];
    try (split; [discriminate|discriminate]); try (split; reflexivity);
    rewrite N.eqb_eq; (split; [intro E; subst; reflexivity|intro E; inversion E; reflexivity]).
Qed.

Lemma padd_In x y l : In x (padd y l) <-> In x l \/ x = y.
Proof.
  unfold padd. destruct (existsb (pres_eqb y) l) eqn:M.
  - apply existsb_exists in M. destruct M as [z [I E]]. apply pres_eqb_eq in E. subst z.
    split; [intro H; left; exact H|intros [H|H]; [exact H|subst; exact I]].
  - rewrite in_app_iff. cbn [In]. intuition.
Qed.

Definition pres_of (r : res (option (policy_kind * N))) : pres :=
  match r with Ok p => Some p | Err _ => None end.

Lemma policies_set_spec fs default km i p ps x :
  In x (policies_set orc fs default km i (p :: ps)) <->
  exists o, In o (any_set orc CkOne fs default auth_id km (pqueries p)) /\
    match o with
    | QErr => x = None
    | QTrue => x = Some (Some (pkind p, i))
    | QFalse => In x (policies_set orc fs default km (N.succ i) ps)
    end.
Proof.
  cbn [policies_set].
  set (rest := policies_set orc fs default km (N.succ i) ps).
  rewrite (fold_union_spec
             (fun o acc => match o with
                           | QErr => padd None acc
                           | QTrue => padd (Some (Some (pkind p, i))) acc
                           | QFalse => fold_left (fun a r => padd r a) rest acc
                           end)
             (fun o x => match o with
                         | QErr => x = None
                         | QTrue => x = Some (Some (pkind p, i))
                         | QFalse => In x rest
                         end)).
  - cbn [In]. split.
    + intros [[]|[o [I C]]]. exists o. split; [apply dedup_In; exact I|exact C].
    + intros [o [I C]]. right. exists o. split; [apply dedup_In; exact I|exact C].
  - intros o acc y. destruct o.
    + apply padd_In.
    + rewrite (fold_union_spec (fun r a => padd r a) (fun r x => x = r)); [|intros r a z; apply padd_In].
      split; [intros [I|[r [I E]]]; [left; exact I|subst; right; exact I]|
              intros [I|I]; [left; exact I|right; exists y; split; [exact I|reflexivity]]].
    + apply padd_In.
Qed.

Lemma run_policies_in_set fs fs' default km ps : Permutation fs fs' -> forall i,
  In (pres_of (run_policies orc fs' default km i ps)) (policies_set orc fs default km i ps).
Proof.
  intro P. induction ps as [|p ps IH]; intro i; [left; reflexivity|].
  apply policies_set_spec. cbn [run_policies].
  pose proof (any_in_set CkOne fs fs' default auth_id km (pqueries p) P) as H.
  destruct (any_query orc CkOne fs' default auth_id km (pqueries p)) as [[|]|e]; cbn [qout_of] in H.
  - exists QTrue. split; [exact H|reflexivity].
  - exists QFalse. split; [exact H|apply IH].
  - exists QErr. split; [exact H|reflexivity].
Qed.

(* ------------------------------------------------------------------ outcomes *)
(* outcomes up to the kind of error: what outcome_class_eqb compares *)
Definition oclass (o : outcome) : outcome :=
  match o with
  | OExec _ => OExec EInvalidType
  | OLimit _ => OLimit TooManyFacts
  | o => o
  end.

Lemma fres_eqb_some f g : fres_eqb (Some f) (Some g) = true <-> f = g.
Proof. rewrite fres_eqb_eq. split; [intro E; inversion E; reflexivity|intro E; subst; reflexivity]. Qed.

Lemma outcome_class_eqb_spec a b : outcome_class_eqb a b = true <-> oclass a = oclass b.
Proof.
  destruct a as [i|f|x i f|e|e], b as [j|g|y j g|e'|e']; cbn [outcome_class_eqb oclass];
    try (split; [discriminate|discriminate]); try (split; reflexivity).
  - rewrite N.eqb_eq. split; [intro E; subst; reflexivity|intro E; inversion E; reflexivity].
  - rewrite fres_eqb_some. split; [intro E; subst; reflexivity|intro E; inversion E; reflexivity].
  - rewrite !Bool.andb_true_iff, Bool.eqb_true_iff, N.eqb_eq, fres_eqb_some.
    split; [intros [[E1 E2] E3]; subst; reflexivity|intro E; inversion E; repeat split; reflexivity].
Qed.

Definition omem (x : outcome) (l : list outcome) : Prop := exists y, In y l /\ oclass y = oclass x.

Lemma oadd_mem x y l : omem x (oadd y l) <-> omem x l \/ oclass y = oclass x.
Proof.
  unfold oadd, omem. destruct (existsb (outcome_class_eqb y) l) eqn:M.
  - apply existsb_exists in M. destruct M as [z [I E]]. apply outcome_class_eqb_spec in E.
    split; [intro H; left; exact H|intros [H|H]; [exact H|exists z; split; [exact I|congruence]]].
  - split.
    + intros [z [I E]]. apply in_app_iff in I. destruct I as [I|[I|[]]]; [left; exists z; split; assumption|subst; right; exact E].
    + intros [[z [I E]]|E]; [exists z; split; [apply in_app_iff; left; exact I|exact E]|
                             exists y; split; [apply in_app_iff; right; left; reflexivity|exact E]].
Qed.

(* folding a step whose contribution is described modulo oclass *)
Lemma fold_omem_spec {B} (H : B -> list outcome -> list outcome) (Pc : B -> outcome -> Prop) :
  (forall o acc x, omem x (H o acc) <-> omem x acc \/ Pc o x) ->
  forall here acc x,
  omem x (fold_left (fun acc o => H o acc) here acc) <-> omem x acc \/ exists o, In o here /\ Pc o x.
Proof.
  intros HS here. induction here as [|o here IH]; intros acc x; cbn [fold_left In].
  - split; [intro I; left; exact I|intros [I|[o [[] _]]]; exact I].
  - rewrite IH, HS. split.
    + intros [[I|I]|[o' [I C]]]; [left; exact I|right; exists o; split; [left; reflexivity|exact I]|
                                   right; exists o'; split; [right; exact I|exact C]].
    + intros [I|[o' [[E|I] C]]]; [left; left; exact I|subst; left; right; exact C|right; exists o'; split; assumption].
Qed.

Lemma omem_nil x : ~ omem x [].
Proof. intros [y [[] _]]. Qed.

Definition exec_class (x : outcome) : Prop := oclass (OExec EInvalidType) = oclass x.

Lemma decide_set_spec fs t a x :
  omem x (decide_set orc fs t a) <->
  let km := token_keymap t in
  let atr := auth_trust km a in
  exists r1, In r1 (checks_set orc fs atr auth_id km FAuth 0 (achecks a)) /\
  match r1 with
  | None => exec_class x
  | Some f1 =>
    exists r2, In r2 (block_checks_set orc fs km 0 (firstn 1 t)) /\
    match r2 with
    | None => exec_class x
    | Some f2 =>
      exists r3, In r3 (policies_set orc fs atr km 0 (apolicies a)) /\
      match r3 with
      | None => exec_class x
      | Some pol =>
        exists r4, In r4 (block_checks_set orc fs km 1 (skipn 1 t)) /\
        match r4 with
        | None => exec_class x
        | Some f3 => oclass (mk_outcome pol (f1 ++ f2 ++ f3)) = oclass x
        end
      end
    end
  end.
Proof.
  unfold decide_set. cbv zeta.
  set (km := token_keymap t). set (atr := auth_trust km a).
  set (s1 := checks_set orc fs atr auth_id km FAuth 0 (achecks a)).
  set (s2 := block_checks_set orc fs km 0 (firstn 1 t)).
  set (s3 := policies_set orc fs atr km 0 (apolicies a)).
  set (s4 := block_checks_set orc fs km 1 (skipn 1 t)).
  (* innermost fold, for fixed f1 f2 pol *)
  assert (L4 : forall f1 f2 pol acc y,
    omem y (fold_left (fun acc4 r4 => match r4 with
                                      | None => oadd (OExec EInvalidType) acc4
                                      | Some f3 => oadd (mk_outcome pol (f1 ++ f2 ++ f3)) acc4
                                      end) s4 acc) <->
    omem y acc \/ exists r4, In r4 s4 /\ match r4 with
                                         | None => exec_class y
                                         | Some f3 => oclass (mk_outcome pol (f1 ++ f2 ++ f3)) = oclass y
                                         end).
  { intros f1 f2 pol. apply (fold_omem_spec
      (fun r4 acc4 => match r4 with
                      | None => oadd (OExec EInvalidType) acc4
                      | Some f3 => oadd (mk_outcome pol (f1 ++ f2 ++ f3)) acc4
                      end)).
    intros [f3|] acc y; apply oadd_mem. }
  assert (L3 : forall f1 f2 acc y,
    omem y (fold_left (fun acc3 r3 => match r3 with
                                      | None => oadd (OExec EInvalidType) acc3
                                      | Some pol => fold_left (fun acc4 r4 => match r4 with
                                            | None => oadd (OExec EInvalidType) acc4
                                            | Some f3 => oadd (mk_outcome pol (f1 ++ f2 ++ f3)) acc4
                                            end) s4 acc3
                                      end) s3 acc) <->
    omem y acc \/ exists r3, In r3 s3 /\ match r3 with
        | None => exec_class y
        | Some pol => exists r4, In r4 s4 /\ match r4 with
                                             | None => exec_class y
                                             | Some f3 => oclass (mk_outcome pol (f1 ++ f2 ++ f3)) = oclass y
                                             end
        end).
  { intros f1 f2. apply (fold_omem_spec
      (fun r3 acc3 => match r3 with
                      | None => oadd (OExec EInvalidType) acc3
                      | Some pol => fold_left (fun acc4 r4 => match r4 with
                            | None => oadd (OExec EInvalidType) acc4
                            | Some f3 => oadd (mk_outcome pol (f1 ++ f2 ++ f3)) acc4
                            end) s4 acc3
                      end)).
    intros [pol|] acc y; [apply L4|apply oadd_mem]. }
  assert (L2 : forall f1 acc y,
    omem y (fold_left (fun acc2 r2 => match r2 with
        | None => oadd (OExec EInvalidType) acc2
        | Some f2 => fold_left (fun acc3 r3 => match r3 with
              | None => oadd (OExec EInvalidType) acc3
              | Some pol => fold_left (fun acc4 r4 => match r4 with
                    | None => oadd (OExec EInvalidType) acc4
                    | Some f3 => oadd (mk_outcome pol (f1 ++ f2 ++ f3)) acc4
                    end) s4 acc3
              end) s3 acc2
        end) s2 acc) <->
    omem y acc \/ exists r2, In r2 s2 /\ match r2 with
        | None => exec_class y
        | Some f2 => exists r3, In r3 s3 /\ match r3 with
            | None => exec_class y
            | Some pol => exists r4, In r4 s4 /\ match r4 with
                                                 | None => exec_class y
                                                 | Some f3 => oclass (mk_outcome pol (f1 ++ f2 ++ f3)) = oclass y
                                                 end
            end
        end).
  { intros f1. apply (fold_omem_spec
      (fun r2 acc2 => match r2 with
        | None => oadd (OExec EInvalidType) acc2
        | Some f2 => fold_left (fun acc3 r3 => match r3 with
              | None => oadd (OExec EInvalidType) acc3
              | Some pol => fold_left (fun acc4 r4 => match r4 with
                    | None => oadd (OExec EInvalidType) acc4
                    | Some f3 => oadd (mk_outcome pol (f1 ++ f2 ++ f3)) acc4
                    end) s4 acc3
              end) s3 acc2
        end)).
    intros [f2|] acc y; [apply L3|apply oadd_mem]. }
  rewrite (fold_omem_spec
      (fun r1 acc1 => match r1 with
        | None => oadd (OExec EInvalidType) acc1
        | Some f1 => fold_left (fun acc2 r2 => match r2 with
            | None => oadd (OExec EInvalidType) acc2
            | Some f2 => fold_left (fun acc3 r3 => match r3 with
                  | None => oadd (OExec EInvalidType) acc3
                  | Some pol => fold_left (fun acc4 r4 => match r4 with
                        | None => oadd (OExec EInvalidType) acc4
                        | Some f3 => oadd (mk_outcome pol (f1 ++ f2 ++ f3)) acc4
                        end) s4 acc3
                  end) s3 acc2
            end) s2 acc1
        end)
      (fun r1 y => match r1 with
        | None => exec_class y
        | Some f1 => exists r2, In r2 s2 /\ match r2 with
            | None => exec_class y
            | Some f2 => exists r3, In r3 s3 /\ match r3 with
                | None => exec_class y
                | Some pol => exists r4, In r4 s4 /\ match r4 with
                                                     | None => exec_class y
                                                     | Some f3 => oclass (mk_outcome pol (f1 ++ f2 ++ f3)) = oclass y
                                                     end
                end
            end
        end)).
  - split; [intros [H|H]; [destruct (omem_nil _ H)|exact H]|intro H; right; exact H].
  - intros [f1|] acc y; [apply L2|apply oadd_mem].
Qed.

(* ------------------------------------------------------------------ the theorem *)
Theorem decide_in_set fs fs' t a : Permutation fs fs' ->
  omem (decide orc true fs' t a) (decide_set orc fs t a).
Proof.
  intro P. apply decide_set_spec. cbv zeta. unfold decide.
  set (km := token_keymap t). set (atr := auth_trust km a).
  pose proof (run_checks_in_set fs fs' atr auth_id km FAuth (achecks a) P 0) as H1.
  destruct (run_checks orc true fs' atr auth_id km FAuth 0 (achecks a)) as [f1|e1]; cbn [fres_of] in H1;
    [|exists None; split; [exact H1|reflexivity]].
  exists (Some f1). split; [exact H1|].
  pose proof (run_block_checks_in_set fs fs' km (firstn 1 t) P 0) as H2.
  destruct (run_block_checks orc true fs' km 0 (firstn 1 t)) as [f2|e2]; cbn [fres_of] in H2;
    [|exists None; split; [exact H2|reflexivity]].
  exists (Some f2). split; [exact H2|].
  pose proof (run_policies_in_set fs fs' atr km (apolicies a) P 0) as H3.
  destruct (run_policies orc fs' atr km 0 (apolicies a)) as [pol|e3]; cbn [pres_of] in H3;
    [|exists None; split; [exact H3|reflexivity]].
  exists (Some pol). split; [exact H3|].
  pose proof (run_block_checks_in_set fs fs' km (skipn 1 t) P 1) as H4.
  destruct (run_block_checks orc true fs' km 1 (skipn 1 t)) as [f3|e4]; cbn [fres_of] in H4;
    [|exists None; split; [exact H4|reflexivity]].
  exists (Some f3). split; [exact H4|].
  unfold mk_outcome. destruct pol as [[[|] i]|]; destruct (f1 ++ f2 ++ f3); reflexivity.
Qed.

(* outside the known class -- the set-valued evaluator finds one outcome -- every order of
   the fact store gives that outcome *)
Corollary decide_unique fs fs' t a o : Permutation fs fs' ->
  decide_set orc fs t a = [o] -> oclass (decide orc true fs' t a) = oclass o.
Proof.
  intros P S. destruct (decide_in_set fs fs' t a P) as [y [I E]]. rewrite S in I.
  destruct I as [I|[]]. subst y. symmetry. exact E.
Qed.

Corollary decide_two_orders fs fs' fs'' t a o : Permutation fs fs' -> Permutation fs fs'' ->
  decide_set orc fs t a = [o] ->
  oclass (decide orc true fs' t a) = oclass (decide orc true fs'' t a).
Proof.
  intros P1 P2 S. rewrite (decide_unique fs fs' t a o P1 S), (decide_unique fs fs'' t a o P2 S). reflexivity.
Qed.
End SetSound.

(* ------------------------------------------------------------------ fact lists that hold the same facts *)
(* [facts_equiv]: same facts, origins equal as sets, duplicates and order free -- what two runs
   started from permuted inputs end in (facts_equiv_runs).  The set-valued evaluator cannot
   tell such lists apart. *)
Lemma bindings_equiv fs fs' tr q s : facts_equiv fs fs' ->
  (In s (bindings fs' tr q) <-> In s (bindings fs tr q)).
Proof.
  intro E. pose proof (same_view_of_equiv fs fs' E) as SV.
  pose proof (holds_binding_agree fs fs' any_tr SV tr tr q s (oeq_refl tr) I) as HB.
  unfold bindings. rewrite !in_map_iff. split; intros [[o s0] [E0 I0]]; cbn [snd] in E0; subst s0.
  - apply join_holds in I0. apply HB in I0. destruct (holds_join _ _ _ _ I0) as [o' I']. exists (o', s). split; [reflexivity|exact I'].
  - apply join_holds in I0. apply HB in I0. destruct (holds_join _ _ _ _ I0) as [o' I']. exists (o', s). split; [reflexivity|exact I'].
Qed.

Lemma qmem_ext l l' : (forall x : qout, In x l <-> In x l') -> forall x, qmem x l = qmem x l'.
Proof.
  intros H x. destruct (qmem x l) eqn:A, (qmem x l') eqn:B; try reflexivity.
  - apply qmem_In, H, qmem_In in A. congruence.
  - apply qmem_In, H, qmem_In in B. congruence.
Qed.

Lemma find_set_ext l l' : (forall x : qout, In x l <-> In x l') -> find_set_of l = find_set_of l'.
Proof. intro H. unfold find_set_of. rewrite !(qmem_ext l l' H). reflexivity. Qed.

Lemma all_set_ext l l' : (forall x : qout, In x l <-> In x l') -> all_set_of l = all_set_of l'.
Proof.
  intro H. unfold all_set_of. rewrite !(qmem_ext l l' H).
  destruct l as [|a l], l' as [|b l']; try reflexivity.
  - destruct (proj2 (H b) (or_introl eq_refl)).
  - destruct (proj1 (H a) (or_introl eq_refl)).
Qed.

Lemma outs_equiv {B} (g : env -> B) fs fs' tr q : facts_equiv fs fs' ->
  forall x, In x (map g (bindings fs' tr q)) <-> In x (map g (bindings fs tr q)).
Proof.
  intros E x. rewrite !in_map_iff. split; intros [s [A I0]]; exists s; (split; [exact A|]);
    apply (bindings_equiv fs fs' tr q s E); exact I0.
Qed.

Section Equiv.
Variable orc : oracles.
Variables fs fs' : list ofact.
Hypothesis E : facts_equiv fs fs'.

Lemma query_set_equiv k tr q : query_set orc k fs' tr q = query_set orc k fs tr q.
Proof.
  destruct k; cbn [query_set].
  - apply find_set_ext. apply outs_equiv. exact E.
  - apply all_set_ext. apply outs_equiv. exact E.
  - f_equal. apply find_set_ext. apply outs_equiv. exact E.
Qed.

Lemma any_set_equiv k default cur km qs : any_set orc k fs' default cur km qs = any_set orc k fs default cur km qs.
Proof. induction qs as [|q qs IH]; cbn [any_set]; [reflexivity|]. rewrite query_set_equiv, IH. reflexivity. Qed.

Lemma all_set_equiv k default cur km qs : all_set orc k fs' default cur km qs = all_set orc k fs default cur km qs.
Proof. induction qs as [|q qs IH]; cbn [all_set]; [reflexivity|]. rewrite query_set_equiv, IH. reflexivity. Qed.

Lemma check_set_equiv default cur km c : check_set orc fs' default cur km c = check_set orc fs default cur km c.
Proof. unfold check_set. rewrite all_set_equiv. rewrite !any_set_equiv. reflexivity. Qed.

Lemma checks_set_equiv default cur km mk cs : forall j,
  checks_set orc fs' default cur km mk j cs = checks_set orc fs default cur km mk j cs.
Proof. induction cs as [|c cs IH]; intro j; cbn [checks_set]; [reflexivity|]. rewrite check_set_equiv, IH. reflexivity. Qed.

Lemma block_checks_set_equiv km bs : forall i,
  block_checks_set orc fs' km i bs = block_checks_set orc fs km i bs.
Proof. induction bs as [|b bs IH]; intro i; cbn [block_checks_set]; [reflexivity|]. rewrite checks_set_equiv, IH. reflexivity. Qed.

Lemma policies_set_equiv default km ps : forall i,
  policies_set orc fs' default km i ps = policies_set orc fs default km i ps.
Proof. induction ps as [|p ps IH]; intro i; cbn [policies_set]; [reflexivity|]. rewrite any_set_equiv, IH. reflexivity. Qed.

Lemma decide_set_equiv t a : decide_set orc fs' t a = decide_set orc fs t a.
Proof.
  unfold decide_set. cbv zeta.
  rewrite checks_set_equiv, !block_checks_set_equiv, policies_set_equiv. reflexivity.
Qed.

(* every list holding the same facts: the outcome lies in the set computed from [fs] *)
Theorem decide_in_set_equiv t a : omem (decide orc true fs' t a) (decide_set orc fs t a).
Proof. rewrite <- decide_set_equiv. apply decide_in_set. apply Permutation_refl. Qed.

End Equiv.

(* two authorizations of the same token by the same authorizer whose facts and rules were
   inserted in different orders: when both saturations end, the outcome of the second lies
   in the outcome set computed from the first one's facts, and is the same outcome whenever
   that set is a singleton *)
Theorem authorize_in_set (orc : oracles) facts facts' rules rules' n m fs fs' t a :
  Permutation facts facts' -> Permutation rules rules' ->
  saturate orc n rules facts = Ok (Some fs) ->
  saturate orc m rules' facts' = Ok (Some fs') ->
  omem (decide orc true fs' t a) (decide_set orc fs t a).
Proof.
  intros P1 P2 S1 S2. apply decide_in_set_equiv.
  apply (facts_equiv_runs orc facts facts' rules rules' n m fs fs' P1 P2 S1 S2).
Qed.

Corollary authorize_unique (orc : oracles) facts facts' rules rules' n m fs fs' t a o :
  Permutation facts facts' -> Permutation rules rules' ->
  saturate orc n rules facts = Ok (Some fs) ->
  saturate orc m rules' facts' = Ok (Some fs') ->
  decide_set orc fs t a = [o] ->
  oclass (decide orc true fs' t a) = oclass o /\ oclass (decide orc true fs t a) = oclass o.
Proof.
  intros P1 P2 S1 S2 S. split.
  - destruct (authorize_in_set orc facts facts' rules rules' n m fs fs' t a P1 P2 S1 S2) as [y [I0 E0]].
    rewrite S in I0. destruct I0 as [I0|[]]. subst y. symmetry. exact E0.
  - apply (decide_unique orc fs fs t a o (Permutation_refl fs) S).
Qed.

(* Proofs about Model/Symbols.v: interning and resolution, the table invariant over API
   histories, rejection of redeclarations, and the refutation witnesses for the unchanged
   unverified third-party path. *)
From Biscuit Require Import Model.Symbols.

(* ------------------------------------------------------------------ bytes, membership *)
Lemma bytes_eqb_refl : forall a, bytes_eqb a a = true.
Proof. induction a as [|x a IH]; cbn; [reflexivity|]. rewrite N.eqb_refl, IH. reflexivity. Qed.

Lemma bytes_eqb_eq : forall a b, bytes_eqb a b = true <-> a = b.
Proof.
  induction a as [|x a IH]; intros [|y b]; cbn; split; intro H; try reflexivity; try discriminate.
  - apply andb_true_iff in H. destruct H as [H1 H2]. apply N.eqb_eq in H1. apply IH in H2. subst. reflexivity.
  - injection H as -> ->. rewrite N.eqb_refl, bytes_eqb_refl. reflexivity.
Qed.

Lemma bytes_eqb_neq : forall a b, bytes_eqb a b = false <-> a <> b.
Proof.
  intros a b. split.
  - intros H E. apply bytes_eqb_eq in E. congruence.
  - intro H. destruct (bytes_eqb a b) eqn:E; [apply bytes_eqb_eq in E; contradiction | reflexivity].
Qed.

Lemma mem_In : forall x l, mem x l = true <-> In x l.
Proof.
  intros x l. unfold mem. rewrite existsb_exists. split.
  - intros [y [Hy E]]. apply bytes_eqb_eq in E. subst. assumption.
  - intro H. exists x. split; [assumption | apply bytes_eqb_refl].
Qed.

Lemma mem_false : forall x l, mem x l = false <-> ~ In x l.
Proof.
  intros x l. split.
  - intros H Hin. apply mem_In in Hin. congruence.
  - intro H. destruct (mem x l) eqn:E; [|reflexivity]. apply mem_In in E. contradiction.
Qed.

Lemma has_common_true : forall a b, has_common a b = true <-> exists x, In x a /\ In x b.
Proof.
  intros a b. unfold has_common. rewrite existsb_exists. split.
  - intros [x [Ha Hb]]. exists x. split; [assumption | apply mem_In; assumption].
  - intros [x [Ha Hb]]. exists x. split; [assumption | apply mem_In; assumption].
Qed.

Lemma has_common_false : forall a b, has_common a b = false <-> forall x, In x a -> ~ In x b.
Proof.
  intros a b. split.
  - intros H x Ha Hb. assert (has_common a b = true) by (apply has_common_true; exists x; auto). congruence.
  - intro H. destruct (has_common a b) eqn:E; [|reflexivity].
    apply has_common_true in E. destruct E as [x [Ha Hb]]. exfalso. exact (H x Ha Hb).
Qed.

(* ------------------------------------------------------------------ nth_N, index_of *)
Lemma nth_N_app_l : forall {A} (l l' : list A) i x, nth_N l i = Some x -> nth_N (l ++ l') i = Some x.
Proof.
  intros A l. induction l as [|y l IH]; intros l' i x H; cbn in *; [discriminate|].
  destruct (N.eqb i 0); [assumption | apply IH; assumption].
Qed.

Lemma len_N_cons : forall {A} (x : A) l, len_N (x :: l) = N.succ (len_N l).
Proof. intros. unfold len_N. cbn [length]. apply Nat2N.inj_succ. Qed.

Lemma nth_N_len : forall {A} (l l' : list A) x, nth_N (l ++ x :: l') (len_N l) = Some x.
Proof.
  intros A l. induction l as [|y l IH]; intros l' x; [reflexivity|].
  rewrite len_N_cons. cbn [app nth_N].
  destruct (N.eqb (N.succ (len_N l)) 0) eqn:E.
  - apply N.eqb_eq in E. lia.
  - rewrite N.pred_succ. apply IH.
Qed.

Lemma index_of_nth : forall x l i, index_of x l = Some i -> nth_N l i = Some x.
Proof.
  intros x l. induction l as [|y l IH]; intros i H; cbn in *; [discriminate|].
  destruct (bytes_eqb x y) eqn:E.
  - injection H as <-. apply bytes_eqb_eq in E. subst. reflexivity.
  - destruct (index_of x l) as [j|]; [|discriminate]. injection H as <-.
    destruct (N.eqb (N.succ j) 0) eqn:E0; [apply N.eqb_eq in E0; lia|].
    rewrite N.pred_succ. apply IH. reflexivity.
Qed.

Lemma index_of_None : forall x l, index_of x l = None -> ~ In x l.
Proof.
  intros x l. induction l as [|y l IH]; intros H; cbn in *; [tauto|].
  destruct (bytes_eqb x y) eqn:E; [discriminate|].
  destruct (index_of x l); [discriminate|].
  intros [H1|H1]; [subst; rewrite bytes_eqb_refl in E; discriminate | exact (IH eq_refl H1)].
Qed.

Lemma index_of_lt : forall x l i, index_of x l = Some i -> (i < len_N l)%N.
Proof.
  intros x l. induction l as [|y l IH]; intros i H; [discriminate|].
  rewrite len_N_cons. cbn [index_of] in H.
  destruct (bytes_eqb x y); [injection H as <-; lia|].
  destruct (index_of x l) as [j|]; [|discriminate]. injection H as <-.
  specialize (IH j eq_refl). lia.
Qed.

(* ------------------------------------------------------------------ fresh extensions *)
(* t' extends t with new, pairwise different entries that are neither in F nor in t *)
Definition fresh_ext (F t t' : list bytes) : Prop :=
  exists d, t' = t ++ d /\ NoDup d /\ forall x, In x d -> ~ In x F /\ ~ In x t.

Lemma fresh_ext_refl : forall F t, fresh_ext F t t.
Proof. intros. exists []. rewrite app_nil_r. split; [reflexivity|]. split; [constructor | intros x []]. Qed.

Lemma fresh_ext_trans : forall F t1 t2 t3, fresh_ext F t1 t2 -> fresh_ext F t2 t3 -> fresh_ext F t1 t3.
Proof.
  intros F t1 t2 t3 [d1 [E1 [N1 H1]]] [d2 [E2 [N2 H2]]]. subst.
  exists (d1 ++ d2). split; [apply app_assoc_reverse|]. split.
  - clear H1. induction d1 as [|x d1 IH]; [assumption|]. cbn. inversion N1; subst. constructor.
    + intro Hin. apply in_app_or in Hin. destruct Hin as [Hin|Hin]; [contradiction|].
      destruct (H2 x Hin) as [_ Hn]. apply Hn. apply in_or_app. right. left. reflexivity.
    + apply IH; [assumption|]. intros y Hy. destruct (H2 y Hy) as [Ha Hb]. split; [assumption|].
      intro Hc. apply Hb. apply in_app_or in Hc. apply in_or_app. destruct Hc as [Hc|Hc]; [left; assumption|].
      right. right. assumption.
  - intros x Hin. apply in_app_or in Hin. destruct Hin as [Hin|Hin].
    + apply H1. assumption.
    + destruct (H2 x Hin) as [Ha Hb]. split; [assumption|]. intro Hc. apply Hb. apply in_or_app. left. assumption.
Qed.

Lemma fresh_ext_one : forall F t x, ~ In x F -> ~ In x t -> fresh_ext F t (t ++ [x]).
Proof.
  intros F t x HF Ht. exists [x]. split; [reflexivity|]. split.
  - constructor; [intros [] | constructor].
  - intros y [<-|[]]. split; assumption.
Qed.

Lemma fresh_ext_skipn : forall F t t', fresh_ext F t t' -> t' = t ++ skipn (length t) t'.
Proof.
  intros F t t' [d [E _]]. subst.
  assert (H : skipn (length t) (t ++ d) = d).
  { clear. induction t as [|x t IH]; [reflexivity | exact IH]. }
  rewrite H. reflexivity.
Qed.

Lemma fresh_ext_facts : forall F t t', fresh_ext F t t' ->
  NoDup (skipn (length t) t') /\ forall x, In x (skipn (length t) t') -> ~ In x F /\ ~ In x t.
Proof.
  intros F t t' [d [E [Hn H]]]. subst.
  assert (Hs : skipn (length t) (t ++ d) = d).
  { clear. induction t as [|x t IH]; [reflexivity | exact IH]. }
  rewrite Hs. split; assumption.
Qed.

(* ------------------------------------------------------------------ tables *)
Definition text (t t' : tables) : Prop :=
  fresh_ext default_symbols (fst t) (fst t') /\ fresh_ext [] (snd t) (snd t').
(* prefix extension: what resolution is stable under *)
Definition pext (t t' : tables) : Prop :=
  (exists d, fst t' = fst t ++ d) /\ (exists d, snd t' = snd t ++ d).

Lemma text_refl : forall t, text t t.
Proof. intro t. split; apply fresh_ext_refl. Qed.
Lemma text_trans : forall a b c, text a b -> text b c -> text a c.
Proof. intros a b c [H1 H2] [H3 H4]. split; eapply fresh_ext_trans; eassumption. Qed.
Lemma text_pext : forall a b, text a b -> pext a b.
Proof. intros a b [[d [E _]] [d' [E' _]]]. split; [exists d | exists d']; assumption. Qed.
Lemma pext_refl : forall t, pext t t.
Proof. intro t. split; exists []; rewrite app_nil_r; reflexivity. Qed.
Lemma pext_trans : forall a b c, pext a b -> pext b c -> pext a c.
Proof.
  intros a b c [[d1 E1] [k1 F1]] [[d2 E2] [k2 F2]]. split.
  - exists (d1 ++ d2). rewrite E2, E1. apply app_assoc_reverse.
  - exists (k1 ++ k2). rewrite F2, F1. apply app_assoc_reverse.
Qed.

Lemma get_symbol_app : forall t d i s, get_symbol t i = Some s -> get_symbol (t ++ d) i = Some s.
Proof.
  intros t d i s. unfold get_symbol. destruct (offset <=? i)%N; [|tauto]. apply nth_N_app_l.
Qed.

Lemma res_str_stable : forall t t' i s, (exists d, t' = t ++ d) -> res_str t i = RStr s -> res_str t' i = RStr s.
Proof.
  intros t t' i s [d ->]. unfold res_str. destruct (get_symbol t i) eqn:E; [|discriminate].
  intro H. injection H as ->. rewrite (get_symbol_app _ d _ _ E). reflexivity.
Qed.

Lemma res_key_stable : forall t t' i k, (exists d, t' = t ++ d) -> res_key t i = RKey k -> res_key t' i = RKey k.
Proof.
  intros t t' i k [d ->]. unfold res_key, get_key. destruct (nth_N t i) eqn:E; [|discriminate].
  intro H. injection H as ->. rewrite (nth_N_app_l _ d _ _ E). reflexivity.
Qed.

(* ------------------------------------------------------------------ interning one string / key *)
Lemma default_index_small : forall s i, index_of s default_symbols = Some i -> (i < offset)%N.
Proof.
  intros s i H. apply index_of_lt in H. unfold len_N in H.
  change (N.of_nat (length default_symbols)) with 28%N in H. unfold offset. lia.
Qed.

Lemma sym_insert_spec : forall t s t' i, sym_insert t s = (t', i) ->
  fresh_ext default_symbols t t' /\ res_str t' i = RStr s.
Proof.
  intros t s t' i. unfold sym_insert.
  destruct (index_of s default_symbols) as [j|] eqn:Ed.
  - intro H. apply pair_equal_spec in H. destruct H as [<- <-]. split; [apply fresh_ext_refl|].
    unfold res_str, get_symbol. pose proof (default_index_small _ _ Ed) as Hlt.
    destruct (offset <=? j)%N eqn:El; [apply N.leb_le in El; lia|].
    rewrite (index_of_nth _ _ _ Ed). reflexivity.
  - destruct (index_of s t) as [j|] eqn:Et.
    + intro H. apply pair_equal_spec in H. destruct H as [<- <-]. split; [apply fresh_ext_refl|].
      unfold res_str, get_symbol. destruct (offset <=? offset + j)%N eqn:El; [|apply N.leb_gt in El; lia].
      assert (Hj : (offset + j - offset = j)%N) by lia. rewrite Hj, (index_of_nth _ _ _ Et). reflexivity.
    + intro H. apply pair_equal_spec in H. destruct H as [<- <-]. split.
      * apply fresh_ext_one; apply index_of_None; assumption.
      * unfold res_str, get_symbol. destruct (offset <=? offset + len_N t)%N eqn:El; [|apply N.leb_gt in El; lia].
        assert (Hj : (offset + len_N t - offset = len_N t)%N) by lia. rewrite Hj, nth_N_len. reflexivity.
Qed.

Lemma key_insert_spec : forall t k t' i, key_insert t k = (t', i) ->
  fresh_ext [] t t' /\ res_key t' i = RKey k.
Proof.
  unfold key. intros t k t' i. unfold key_insert. destruct (index_of k t) as [j|] eqn:Et.
  - intro H. apply pair_equal_spec in H. destruct H as [<- <-]. split; [apply fresh_ext_refl|].
    unfold res_key, get_key, key. rewrite (index_of_nth _ _ _ Et). reflexivity.
  - intro H. apply pair_equal_spec in H. destruct H as [<- <-]. split.
    + apply fresh_ext_one; [intros [] | apply index_of_None; assumption].
    + unfold res_key, get_key, key. rewrite nth_N_len. reflexivity.
Qed.

(* the shape every interning function has: the tables only grow by fresh entries, and the
   reference written resolves to what was given, now and after any further growth *)
Definition interns {A B C} (f : tables -> A -> tables * B) (r : tables -> B -> C) (e : A -> C) : Prop :=
  forall t x t' y, f t x = (t', y) -> text t t' /\ forall t'', pext t' t'' -> r t'' y = e x.

Lemma intern_str_ok : interns intern_str (fun t => res_str (fst t)) RStr.
Proof.
  intros t s t' i. unfold intern_str. destruct (sym_insert (fst t) s) as [st j] eqn:E.
  intro H. injection H as <- <-. destruct (sym_insert_spec _ _ _ _ E) as [Hf Hr]. split.
  - split; [exact Hf | apply fresh_ext_refl].
  - intros t'' [Hs _]. cbn in Hs. eapply res_str_stable; eassumption.
Qed.

Lemma intern_key_ok : interns intern_key (fun t => res_key (snd t)) RKey.
Proof.
  intros t k t' i. unfold intern_key. destruct (key_insert (snd t) k) as [kt j] eqn:E.
  intro H. injection H as <- <-. destruct (key_insert_spec _ _ _ _ E) as [Hf Hr]. split.
  - split; [apply fresh_ext_refl | exact Hf].
  - intros t'' [_ Hk]. cbn in Hk. eapply res_key_stable; eassumption.
Qed.

Lemma intern_scope_ok :
  interns intern_scope (fun t => map_scope (res_key (snd t))) (map_scope RKey).
Proof.
  intros t s t' y. destruct s as [| |k]; cbn.
  - intro H. injection H as <- <-. split; [apply text_refl | reflexivity].
  - intro H. injection H as <- <-. split; [apply text_refl | reflexivity].
  - destruct (intern_key t k) as [t1 i] eqn:E. intro H. injection H as <- <-.
    destruct (intern_key_ok _ _ _ _ E) as [Ht Hr]. split; [exact Ht|].
    intros t'' Hp. cbn. rewrite (Hr t'' Hp). reflexivity.
Qed.

Lemma intern_list_ok : forall {A B C} (f : tables -> A -> tables * B) r (e : A -> C),
  interns f r e -> interns (intern_list f) (fun t => map (r t)) (map e).
Proof.
  intros A B C f r e Hf t l. revert t. induction l as [|x l IH]; intros t t' ys; cbn.
  - intro H. injection H as <- <-. split; [apply text_refl | reflexivity].
  - destruct (f t x) as [t1 y] eqn:E1. destruct (intern_list f t1 l) as [t2 ys'] eqn:E2.
    intro H. injection H as <- <-.
    destruct (Hf _ _ _ _ E1) as [Ht1 Hr1]. destruct (IH _ _ _ E2) as [Ht2 Hr2]. split.
    + eapply text_trans; eassumption.
    + intros t'' Hp. cbn. rewrite (Hr2 t'' Hp).
      rewrite (Hr1 t''); [reflexivity|]. eapply pext_trans; [apply text_pext; eassumption | assumption].
Qed.

Ltac step_intern H E :=
  match type of H with
  | context [intern_str ?t ?s] => destruct (intern_str t s) as [? ?] eqn:E
  end.

Lemma intern_fact_ok :
  interns intern_fact (fun t => map_fact (res_str (fst t))) (map_fact RStr).
Proof.
  intros t [n a] t' y. cbn.
  destruct (intern_str t n) as [t1 n'] eqn:E1. destruct (intern_str t1 a) as [t2 a'] eqn:E2.
  intro H. injection H as <- <-.
  destruct (intern_str_ok _ _ _ _ E1) as [T1 R1]. destruct (intern_str_ok _ _ _ _ E2) as [T2 R2]. split.
  - eapply text_trans; eassumption.
  - intros t'' Hp. cbn. rewrite (R2 t'' Hp).
    rewrite (R1 t''); [reflexivity|]. eapply pext_trans; [apply text_pext; eassumption | assumption].
Qed.

Lemma intern_rule_ok :
  interns intern_rule (fun t => map_rule (res_str (fst t)) (res_key (snd t))) (map_rule RStr RKey).
Proof.
  intros t [h b v sc] t' y. cbn.
  destruct (intern_str t h) as [t1 h'] eqn:E1. destruct (intern_str t1 v) as [t2 v'] eqn:E2.
  destruct (intern_str t2 b) as [t3 b'] eqn:E3. destruct (intern_str t3 v) as [t4 v2] eqn:E4.
  destruct (intern_list intern_scope t4 sc) as [t5 sc'] eqn:E5.
  intro H. injection H as <- <-.
  destruct (intern_str_ok _ _ _ _ E1) as [T1 R1]. destruct (intern_str_ok _ _ _ _ E2) as [T2 R2].
  destruct (intern_str_ok _ _ _ _ E3) as [T3 R3]. destruct (intern_str_ok _ _ _ _ E4) as [T4 R4].
  destruct (intern_list_ok _ _ _ intern_scope_ok _ _ _ _ E5) as [T5 R5].
  pose proof (text_pext _ _ T2) as P2. pose proof (text_pext _ _ T3) as P3.
  pose proof (text_pext _ _ T4) as P4. pose proof (text_pext _ _ T5) as P5.
  split.
  - eapply text_trans; [exact T1|]. eapply text_trans; [exact T2|]. eapply text_trans; [exact T3|].
    eapply text_trans; [exact T4 | exact T5].
  - intros t'' Hp. cbn.
    assert (Q4 : pext t4 t'') by (eapply pext_trans; eassumption).
    assert (Q3 : pext t3 t'') by (eapply pext_trans; eassumption).
    assert (Q2 : pext t2 t'') by (eapply pext_trans; eassumption).
    assert (Q1 : pext t1 t'') by (eapply pext_trans; eassumption).
    rewrite (R1 t'' Q1), (R2 t'' Q2), (R3 t'' Q3). cbn in R5. rewrite (R5 t'' Hp). reflexivity.
Qed.

Lemma intern_check_ok :
  interns intern_check (fun t => map_check (res_str (fst t)) (res_key (snd t))) (map_check RStr RKey).
Proof.
  intros t [b a sc] t' y. cbn [intern_check].
  destruct (intern_str t (str "query")) as [t0 q] eqn:E0.
  destruct (intern_str t0 b) as [t1 b'] eqn:E1. destruct (intern_str t1 a) as [t2 a'] eqn:E2.
  destruct (intern_list intern_scope t2 sc) as [t3 sc'] eqn:E3.
  intro H. injection H as <- <-.
  destruct (intern_str_ok _ _ _ _ E0) as [T0 R0].
  destruct (intern_str_ok _ _ _ _ E1) as [T1 R1]. destruct (intern_str_ok _ _ _ _ E2) as [T2 R2].
  destruct (intern_list_ok _ _ _ intern_scope_ok _ _ _ _ E3) as [T3 R3].
  pose proof (text_pext _ _ T2) as P2. pose proof (text_pext _ _ T3) as P3.
  split.
  - eapply text_trans; [exact T0|]. eapply text_trans; [exact T1|]. eapply text_trans; [exact T2 | exact T3].
  - intros t'' Hp. cbn.
    assert (Q2 : pext t2 t'') by (eapply pext_trans; eassumption).
    assert (Q1 : pext t1 t'') by (eapply pext_trans; eassumption).
    rewrite (R1 t'' Q1), (R2 t'' Q2). cbn in R3. rewrite (R3 t'' Hp). reflexivity.
Qed.

Lemma intern_content_ok : interns intern_content resolve_content authored.
Proof.
  intros t [fs rs cs ss] t' y. cbn [intern_content].
  destruct (intern_list intern_fact t fs) as [t1 fs'] eqn:E1.
  destruct (intern_list intern_rule t1 rs) as [t2 rs'] eqn:E2.
  destruct (intern_list intern_check t2 cs) as [t3 cs'] eqn:E3.
  destruct (intern_list intern_scope t3 ss) as [t4 ss'] eqn:E4.
  intro H. injection H as <- <-.
  destruct (intern_list_ok _ _ _ intern_fact_ok _ _ _ _ E1) as [T1 R1].
  destruct (intern_list_ok _ _ _ intern_rule_ok _ _ _ _ E2) as [T2 R2].
  destruct (intern_list_ok _ _ _ intern_check_ok _ _ _ _ E3) as [T3 R3].
  destruct (intern_list_ok _ _ _ intern_scope_ok _ _ _ _ E4) as [T4 R4].
  pose proof (text_pext _ _ T2) as P2. pose proof (text_pext _ _ T3) as P3. pose proof (text_pext _ _ T4) as P4.
  split.
  - eapply text_trans; [exact T1|]. eapply text_trans; [exact T2|]. eapply text_trans; [exact T3 | exact T4].
  - intros t'' Hp. unfold resolve_content, authored. cbn.
    assert (Q3 : pext t3 t'') by (eapply pext_trans; eassumption).
    assert (Q2 : pext t2 t'') by (eapply pext_trans; eassumption).
    assert (Q1 : pext t1 t'') by (eapply pext_trans; eassumption).
    cbn in R1, R2, R3, R4. rewrite (R1 t'' Q1), (R2 t'' Q2), (R3 t'' Q3), (R4 t'' Hp). reflexivity.
Qed.

(* ------------------------------------------------------------------ build_block *)
Lemma build_block_spec : forall t ext c,
  let b := build_block t ext c in
  b_ext b = ext /\
  NoDup (b_strings b) /\ NoDup (b_keys b) /\
  (forall x, In x (b_strings b) -> ~ In x default_symbols /\ ~ In x (fst t)) /\
  (forall k, In k (b_keys b) -> ~ In k (snd t)) /\
  (forall t'', pext (fst t ++ b_strings b, snd t ++ b_keys b) t'' ->
     resolve_content t'' (b_content b) = authored c).
Proof.
  intros t ext c. unfold build_block. destruct (intern_content t c) as [t' w] eqn:E. cbn.
  destruct (intern_content_ok _ _ _ _ E) as [[Hs Hk] Hr].
  destruct (fresh_ext_facts _ _ _ Hs) as [Ns Fs]. destruct (fresh_ext_facts _ _ _ Hk) as [Nk Fk].
  split; [reflexivity|]. split; [exact Ns|]. split; [exact Nk|]. split; [exact Fs|].
  split; [intros k Hin; apply (Fk k Hin)|].
  intros t'' Hp. apply Hr.
  pose proof (fresh_ext_skipn _ _ _ Hs) as Es. pose proof (fresh_ext_skipn _ _ _ Hk) as Ek.
  assert (Et' : t' = (fst t ++ skipn (length (fst t)) (fst t'), snd t ++ skipn (length (snd t)) (snd t'))).
  { destruct t' as [a b]. cbn [fst snd] in *. f_equal; [exact Es | exact Ek]. }
  rewrite Et'. exact Hp.
Qed.

(* ------------------------------------------------------------------ loading *)
Lemma keys_insert_fallible_fresh : forall ks t,
  NoDup ks -> (forall k, In k ks -> ~ In k t) -> keys_insert_fallible t ks = Some (t ++ ks).
Proof.
  induction ks as [|k ks IH]; intros t Hn Hf; cbn.
  - rewrite app_nil_r. reflexivity.
  - assert (Hm : mem k t = false) by (apply mem_false; apply Hf; left; reflexivity).
    rewrite Hm. inversion Hn; subst. rewrite IH.
    + rewrite <- app_assoc. reflexivity.
    + assumption.
    + intros k' Hin Hc. apply in_app_or in Hc. destruct Hc as [Hc|[<-|[]]].
      * exact (Hf k' (or_intror Hin) Hc).
      * contradiction.
Qed.

Lemma keys_insert_fallible_some : forall ks t r,
  keys_insert_fallible t ks = Some r -> r = t ++ ks /\ NoDup ks /\ forall k, In k ks -> ~ In k t.
Proof.
  induction ks as [|k ks IH]; intros t r; cbn.
  - intro H. injection H as <-. rewrite app_nil_r. split; [reflexivity|]. split; [constructor | intros k []].
  - destruct (mem k t) eqn:Hm; [discriminate|]. intro H. apply IH in H. destruct H as [-> [Hn Hf]].
    apply mem_false in Hm. split; [rewrite <- app_assoc; reflexivity|]. split.
    + constructor; [|assumption]. intro Hin. apply (Hf k Hin). apply in_or_app. right. left. reflexivity.
    + intros k' [<-|Hin]; [assumption|]. intro Hc. apply (Hf k' Hin). apply in_or_app. left. assumption.
Qed.

Lemma load_tables_app : forall bs b, load_tables (bs ++ [b]) = load_step (load_tables bs) b.
Proof. intros. unfold load_tables. rewrite fold_left_app. reflexivity. Qed.

Lemma load_block_fresh : forall acc b,
  b_ext b = None -> NoDup (b_keys b) ->
  (forall x, In x (b_strings b) -> ~ In x default_symbols /\ ~ In x (fst acc)) ->
  (forall k, In k (b_keys b) -> ~ In k (snd acc)) ->
  load_block acc b = TOk (fst acc ++ b_strings b, snd acc ++ b_keys b).
Proof.
  intros acc b He Hn Hs Hk. unfold load_block. rewrite He.
  assert (H1 : has_common (b_strings b) default_symbols = false).
  { apply has_common_false. intros x Hx. apply (Hs x Hx). }
  assert (H2 : has_common (fst acc) (b_strings b) = false).
  { apply has_common_false. intros x Hx Hb. destruct (Hs x Hb) as [_ Hc]. contradiction. }
  rewrite H1, H2, (keys_insert_fallible_fresh _ _ Hn Hk). reflexivity.
Qed.

Lemma fold_load_err : forall bs e, fold_left load_step bs (TErr e) = TErr e.
Proof. induction bs as [|b bs IH]; intro e; [reflexivity | exact (IH e)]. Qed.

(* ------------------------------------------------------------------ the invariant *)
(* the token tables are what loading the blocks rebuilds *)
Definition inv (t : token) : Prop := load_tables (t_blocks t) = TOk (t_strings t, t_keys t).

Lemma inv_reload : forall t, inv t -> tok_reload t = TOk t.
Proof. intros [ss ks bs sl] H. unfold inv in H. unfold tok_reload. cbn in *. rewrite H. reflexivity. Qed.

Lemma reload_inv : forall t t', tok_reload t = TOk t' -> inv t' /\ t_blocks t' = t_blocks t /\ t_sealed t' = t_sealed t.
Proof.
  intros t t'. unfold tok_reload. destruct (load_tables (t_blocks t)) as [[ss ks]|e] eqn:E; [|discriminate].
  intro H. injection H as <-. unfold inv. cbn. auto.
Qed.

Lemma inv_build : forall c, inv (tok_build c).
Proof.
  intro c. unfold tok_build, inv. cbn [t_blocks t_strings t_keys].
  destruct (build_block_spec ([], []) None c) as [He [Ns [Nk [Fs [Fk _]]]]].
  unfold load_tables. cbn [fold_left load_step].
  rewrite (load_block_fresh ([], []) _ He Nk Fs Fk). reflexivity.
Qed.

Lemma append_ok : forall t c, t_sealed t = false ->
  let b := build_block (t_tables t) None c in
  tok_append t c = TOk (mktoken (t_strings t ++ b_strings b) (t_keys t ++ b_keys b) (t_blocks t ++ [b]) false).
Proof.
  intros t c Hs b. unfold tok_append. fold b.
  destruct (build_block_spec (t_tables t) None c) as [He [Ns [Nk [Fs [Fk _]]]]]. fold b in He, Ns, Nk, Fs, Fk.
  assert (H1 : has_common (t_strings t) (b_strings b) = false).
  { apply has_common_false. intros x Hx Hb. destruct (Fs x Hb) as [_ Hc]. exact (Hc Hx). }
  assert (H2 : has_common (t_keys t) (b_keys b) = false).
  { apply has_common_false. intros x Hx Hb. exact (Fk x Hb Hx). }
  rewrite H1, Hs, H2. reflexivity.
Qed.

Lemma inv_append : forall t c t', inv t -> tok_append t c = TOk t' -> inv t'.
Proof.
  intros t c t' Hi H. destruct (t_sealed t) eqn:Hs.
  - unfold tok_append in H. rewrite Hs in H.
    destruct (has_common (t_strings t) (b_strings (build_block (t_tables t) None c))); discriminate.
  - rewrite (append_ok t c Hs) in H. injection H as <-. unfold inv. cbn [t_blocks t_strings t_keys].
    rewrite load_tables_app, Hi. cbn [load_step].
    destruct (build_block_spec (t_tables t) None c) as [He [Ns [Nk [Fs [Fk _]]]]].
    rewrite (load_block_fresh (t_strings t, t_keys t) _ He Nk Fs Fk). reflexivity.
Qed.

Lemma inv_append_tp : forall sd t ext c t', inv t -> tok_append_tp Repaired sd t ext c = TOk t' -> inv t'.
Proof.
  intros sd t ext c t' Hi. unfold tok_append_tp. destruct (t_sealed t); [discriminate|].
  assert (E : (match sd, Repaired with
               | U, Faithful => match keys_insert_fallible (t_keys t) (b_keys (build_block ([], []) (Some ext) c)) with
                                | None => TErr EKeyOverlap
                                | Some ks => TOk (mktoken (t_strings t) ks (t_blocks t ++ [build_block ([], []) (Some ext) c]) false)
                                end
               | _, _ => TOk (mktoken (t_strings t) (t_keys t) (t_blocks t ++ [build_block ([], []) (Some ext) c]) false)
               end) = TOk (mktoken (t_strings t) (t_keys t) (t_blocks t ++ [build_block ([], []) (Some ext) c]) false))
    by (destruct sd; reflexivity).
  rewrite E. intro H. injection H as <-. unfold inv. cbn [t_blocks t_strings t_keys].
  rewrite load_tables_app, Hi. cbn [load_step]. unfold load_block.
  destruct (build_block_spec ([], []) (Some ext) c) as [He _]. rewrite He. reflexivity.
Qed.

Lemma inv_seal : forall t t', inv t -> tok_seal t = TOk t' -> inv t'.
Proof.
  intros t t' Hi. unfold tok_seal. destruct (t_sealed t); [discriminate|]. intro H. injection H as <-. exact Hi.
Qed.

Lemma inv_append_raw : forall t b t', tok_append_raw t b = TOk t' -> inv t'.
Proof.
  intros t b t'. unfold tok_append_raw. destruct (t_sealed t); [discriminate|].
  intro H. apply reload_inv in H. tauto.
Qed.

Lemma inv_to_side : forall sd s s', inv (snd s) -> to_side sd s = TOk s' -> inv (snd s').
Proof.
  intros sd [cur t] s' Hi. unfold to_side. cbn [fst snd].
  destruct cur, sd; try (intro H; injection H as <-; exact Hi).
  destruct (tok_reload t) as [t1|e] eqn:E; [|discriminate]. intro H. injection H as <-.
  apply reload_inv in E. cbn. tauto.
Qed.

Lemma inv_exec : forall s o s', inv (snd s) -> exec_op Repaired s o = TOk s' -> inv (snd s').
Proof.
  intros s o s' Hi. unfold exec_op. destruct (to_side (op_side o) s) as [[sd t]|e] eqn:E; [|discriminate].
  pose proof (inv_to_side _ _ _ Hi E) as Hi'. cbn in Hi'.
  destruct o as [sd0 c|sd0 ext c|sd0|sd0|b].
  - destruct (tok_append t c) as [t1|e] eqn:E1; [|discriminate]. intro H. injection H as <-. cbn.
    eapply inv_append; eassumption.
  - destruct (tok_append_tp Repaired sd t ext c) as [t1|e] eqn:E1; [|discriminate]. intro H. injection H as <-. cbn.
    eapply inv_append_tp; eassumption.
  - destruct (tok_seal t) as [t1|e] eqn:E1; [|discriminate]. intro H. injection H as <-. cbn.
    eapply inv_seal; eassumption.
  - destruct (tok_reload t) as [t1|e] eqn:E1; [|discriminate]. intro H. injection H as <-. cbn.
    apply reload_inv in E1. tauto.
  - destruct (tok_append_raw t b) as [t1|e] eqn:E1; [|discriminate]. intro H. injection H as <-. cbn.
    eapply inv_append_raw; eassumption.
Qed.

Lemma inv_step : forall s o, inv (snd s) -> inv (snd (step Repaired s o)).
Proof.
  intros s o Hi. unfold step. destruct (exec_op Repaired s o) as [s'|e] eqn:E; [|exact Hi].
  eapply inv_exec; eassumption.
Qed.

Lemma inv_fold : forall ops s, inv (snd s) -> inv (snd (fold_left (step Repaired) ops s)).
Proof. induction ops as [|o ops IH]; intros s Hi; [exact Hi|]. cbn. apply IH. apply inv_step. exact Hi. Qed.

Theorem inv_run : forall c0 ops, inv (snd (run Repaired c0 ops)).
Proof. intros. unfold run. apply inv_fold. cbn. apply inv_build. Qed.

(* every reachable token of the repaired model is a fixed point of serialise-then-load *)
Theorem run_reload_fixpoint : forall c0 ops,
  tok_reload (snd (run Repaired c0 ops)) = TOk (snd (run Repaired c0 ops)).
Proof. intros. apply inv_reload. apply inv_run. Qed.

Theorem tables_invariant : forall c0 ops,
  let t := snd (run Repaired c0 ops) in
  exists t', tok_reload t = TOk t' /\
    t_strings t' = t_strings t /\ t_keys t' = t_keys t /\
    (forall sd i, block_view Repaired sd t' i = block_view Repaired sd t i) /\
    (forall sd i, print_block_source Repaired sd t' i = print_block_source Repaired sd t i) /\
    (forall i, block_symbols t' i = block_symbols t i) /\
    (forall i, block_public_keys t' i = block_public_keys t i) /\
    (forall p, authorize Repaired t' p = authorize Repaired t p).
Proof.
  intros c0 ops t. exists t. split; [apply run_reload_fixpoint|]. repeat split; reflexivity.
Qed.

(* ------------------------------------------------------------------ references resolve *)
Lemma run_a_fst : forall vr ops sa, fst (fold_left (step_a vr) ops sa) = fold_left (step vr) ops (fst sa).
Proof.
  intros vr. induction ops as [|o ops IH]; intros sa; [reflexivity|]. cbn [fold_left]. rewrite IH. f_equal.
  unfold step_a, step. destruct (exec_op vr (fst sa) o); reflexivity.
Qed.

Lemma run_a_run : forall vr c0 ops, fst (run_a vr c0 ops) = run vr c0 ops.
Proof. intros. unfold run_a, run. apply run_a_fst. Qed.

Lemma nodup_b_true : forall l, NoDup l -> nodup_b l = true.
Proof.
  induction l as [|x l IH]; intro H; [reflexivity|]. inversion H; subst. cbn.
  rewrite (proj2 (mem_false x l)); [|assumption]. cbn. apply IH. assumption.
Qed.

(* what a block is read with resolves to what its author wrote *)
Definition reads_as (T : tables) (b : block) (c : acontent) : Prop :=
  convert_block b = TOk tt /\
  match b_ext b with
  | None => forall t'', pext T t'' -> resolve_content t'' (b_content b) = authored c
  | Some _ => resolve_content (b_strings b, b_keys b) (b_content b) = authored c
  end.

Lemma reads_as_mono : forall T T' b c, pext T T' -> reads_as T b c -> reads_as T' b c.
Proof.
  intros T T' b c Hp [Hc H]. split; [exact Hc|]. destruct (b_ext b); [exact H|].
  intros t'' Hp'. apply H. eapply pext_trans; eassumption.
Qed.

Lemma build_block_reads : forall t ext c,
  let b := build_block t ext c in
  convert_block b = TOk tt /\
  forall t'', pext (fst t ++ b_strings b, snd t ++ b_keys b) t'' -> resolve_content t'' (b_content b) = authored c.
Proof.
  intros t ext c b. destruct (build_block_spec t ext c) as [He [Ns [Nk [Fs [Fk Hr]]]]]. fold b in He, Ns, Nk, Fs, Fk, Hr.
  split; [|exact Hr]. unfold convert_block. rewrite (nodup_b_true _ Nk). cbn [negb].
  assert (H : has_common (b_strings b) default_symbols = false).
  { apply has_common_false. intros x Hx. apply (Fs x Hx). }
  rewrite H. reflexivity.
Qed.

Definition good (t : token) (auth : list acontent) : Prop :=
  inv t /\ Forall2 (reads_as (t_tables t)) (t_blocks t) auth.

Lemma good_build : forall c, good (tok_build c) [c].
Proof.
  intro c. split; [apply inv_build|]. unfold tok_build. cbn [t_blocks t_tables t_strings t_keys].
  constructor; [|constructor].
  destruct (build_block_reads ([], []) None c) as [Hc Hr]. split; [exact Hc|].
  destruct (build_block_spec ([], []) None c) as [He _]. rewrite He. exact Hr.
Qed.

Lemma Forall2_mono : forall {A B} (R R' : A -> B -> Prop) l l',
  (forall a b, R a b -> R' a b) -> Forall2 R l l' -> Forall2 R' l l'.
Proof. intros A B R R' l l' H F. induction F; constructor; auto. Qed.

Lemma good_append : forall t auth c t', good t auth -> tok_append t c = TOk t' -> good t' (auth ++ [c]).
Proof.
  intros t auth c t' [Hi Hf] H. split; [eapply inv_append; eassumption|].
  destruct (t_sealed t) eqn:Hs.
  - unfold tok_append in H. rewrite Hs in H.
    destruct (has_common (t_strings t) (b_strings (build_block (t_tables t) None c))); discriminate.
  - rewrite (append_ok t c Hs) in H. injection H as <-. cbn [t_blocks t_tables t_strings t_keys].
    set (b := build_block (t_tables t) None c).
    assert (Hp : pext (t_tables t) (t_strings t ++ b_strings b, t_keys t ++ b_keys b)).
    { split; cbn; eexists; reflexivity. }
    apply Forall2_app.
    + eapply Forall2_mono; [|exact Hf]. intros a b0 Hr. eapply reads_as_mono; eassumption.
    + constructor; [|constructor]. destruct (build_block_reads (t_tables t) None c) as [Hc Hr]. fold b in Hc, Hr.
      split; [exact Hc|]. destruct (build_block_spec (t_tables t) None c) as [He _]. fold b in He. rewrite He. exact Hr.
Qed.

Lemma good_append_tp : forall sd t auth ext c t',
  good t auth -> tok_append_tp Repaired sd t ext c = TOk t' -> good t' (auth ++ [c]).
Proof.
  intros sd t auth ext c t' [Hi Hf] H. split; [eapply inv_append_tp; eassumption|].
  unfold tok_append_tp in H. destruct (t_sealed t); [discriminate|].
  assert (E : t' = mktoken (t_strings t) (t_keys t) (t_blocks t ++ [build_block ([], []) (Some ext) c]) false)
    by (destruct sd; injection H as <-; reflexivity).
  subst t'. cbn [t_blocks t_tables t_strings t_keys]. apply Forall2_app; [exact Hf|].
  constructor; [|constructor]. set (b := build_block ([], []) (Some ext) c).
  destruct (build_block_reads ([], []) (Some ext) c) as [Hc Hr]. fold b in Hc, Hr. split; [exact Hc|].
  destruct (build_block_spec ([], []) (Some ext) c) as [He _]. fold b in He. rewrite He.
  apply Hr. apply pext_refl.
Qed.

Lemma good_reload : forall t auth t', good t auth -> tok_reload t = TOk t' -> good t' auth.
Proof. intros t auth t' Hg H. destruct Hg as [Hi Hf]. rewrite (inv_reload _ Hi) in H. injection H as <-. split; assumption. Qed.

Lemma good_seal : forall t auth t', good t auth -> tok_seal t = TOk t' -> good t' auth.
Proof.
  intros t auth t' [Hi Hf]. unfold tok_seal. destruct (t_sealed t); [discriminate|].
  intro H. injection H as <-. split; [exact Hi | exact Hf].
Qed.

Lemma good_to_side : forall sd s s' auth, good (snd s) auth -> to_side sd s = TOk s' -> good (snd s') auth.
Proof.
  intros sd [cur t] s' auth Hg. unfold to_side. cbn [fst snd].
  destruct cur, sd; try (intro H; injection H as <-; exact Hg).
  destruct (tok_reload t) as [t1|e] eqn:E; [|discriminate]. intro H. injection H as <-.
  cbn. eapply good_reload; eassumption.
Qed.

Lemma good_step : forall sa o, is_api o = true -> good (snd (fst sa)) (snd sa) ->
  good (snd (fst (step_a Repaired sa o))) (snd (step_a Repaired sa o)).
Proof.
  intros [s auth] o Ha Hg. unfold step_a. cbn [fst snd] in *.
  destruct (exec_op Repaired s o) as [s'|e] eqn:E; [|exact Hg]. cbn [fst snd].
  unfold exec_op in E. destruct (to_side (op_side o) s) as [[sd t]|e] eqn:Es; [|discriminate].
  pose proof (good_to_side _ _ _ _ Hg Es) as Hg'. cbn [snd] in Hg'.
  destruct o as [sd0 c|sd0 ext c|sd0|sd0|b]; cbn [op_content].
  - destruct (tok_append t c) as [t1|e] eqn:E1; [|discriminate]. injection E as <-. cbn.
    eapply good_append; eassumption.
  - destruct (tok_append_tp Repaired sd t ext c) as [t1|e] eqn:E1; [|discriminate]. injection E as <-. cbn.
    eapply good_append_tp; eassumption.
  - destruct (tok_seal t) as [t1|e] eqn:E1; [|discriminate]. injection E as <-. cbn.
    rewrite app_nil_r. eapply good_seal; eassumption.
  - destruct (tok_reload t) as [t1|e] eqn:E1; [|discriminate]. injection E as <-. cbn.
    rewrite app_nil_r. eapply good_reload; eassumption.
  - discriminate.
Qed.

Lemma good_fold : forall ops sa, forallb is_api ops = true -> good (snd (fst sa)) (snd sa) ->
  good (snd (fst (fold_left (step_a Repaired) ops sa))) (snd (fold_left (step_a Repaired) ops sa)).
Proof.
  induction ops as [|o ops IH]; intros sa Ha Hg; [exact Hg|]. cbn in Ha. apply andb_true_iff in Ha.
  destruct Ha as [Ho Ha]. cbn [fold_left]. apply IH; [exact Ha|]. apply good_step; assumption.
Qed.

Lemma Forall2_nth : forall {A B} (R : A -> B -> Prop) l l' i c,
  Forall2 R l l' -> nth_error l' i = Some c -> exists b, nth_error l i = Some b /\ R b c.
Proof.
  intros A B R l l' i c F. revert i. induction F as [|a b l l' Hab F IH]; intros i H.
  - destruct i; discriminate.
  - destruct i as [|i]; cbn in *.
    + injection H as <-. exists a. split; [reflexivity | exact Hab].
    + apply IH. exact H.
Qed.

Lemma Forall2_len : forall {A B} (R : A -> B -> Prop) l l', Forall2 R l l' -> length l = length l'.
Proof. intros A B R l l' F. induction F; cbn; congruence. Qed.

Theorem references_resolve : forall c0 ops,
  forallb is_api ops = true ->
  let t := snd (fst (run_a Repaired c0 ops)) in
  let auth := snd (run_a Repaired c0 ops) in
  length auth = length (t_blocks t) /\
  forall sd i c, nth_error auth i = Some c ->
    block_view Repaired sd t i = TOk (authored c) /\
    exists t', tok_reload t = TOk t' /\ block_view Repaired sd t' i = TOk (authored c).
Proof.
  intros c0 ops Ha t auth.
  assert (Hg : good t auth).
  { unfold t, auth, run_a. apply good_fold; [exact Ha|]. cbn [fst snd]. apply good_build. }
  destruct Hg as [Hi Hf]. split; [symmetry; eapply Forall2_len; eassumption|].
  intros sd i c Hn.
  assert (Hv : block_view Repaired sd t i = TOk (authored c)).
  { destruct (Forall2_nth _ _ _ _ _ Hf Hn) as [b [Hb [Hc Hr]]].
    unfold block_view. rewrite Hb, Hc. f_equal. unfold view_tables.
    destruct (b_ext b).
    - destruct sd; exact Hr.
    - apply Hr. apply pext_refl. }
  split; [exact Hv|]. exists t. split; [apply inv_reload; exact Hi | exact Hv].
Qed.

(* ------------------------------------------------------------------ redeclarations are refused *)
Lemma load_tables_ok : forall bs acc, load_tables bs = TOk acc -> acc = (fp_strings bs, fp_keys bs).
Proof.
  intro bs. induction bs as [|b bs IH] using rev_ind; intros acc H.
  - unfold load_tables in H. cbn in H. injection H as <-. reflexivity.
  - rewrite load_tables_app in H. destruct (load_tables bs) as [a|e] eqn:E; [|discriminate].
    specialize (IH a eq_refl). subst a. cbn [load_step] in H. unfold load_block in H.
    unfold fp_strings, fp_keys. rewrite !flat_map_app. cbn [flat_map]. rewrite !app_nil_r.
    destruct (b_ext b).
    + injection H as <-. rewrite !app_nil_r. reflexivity.
    + destruct (has_common (b_strings b) default_symbols); [discriminate|].
      cbn [fst snd] in H. destruct (has_common (fp_strings bs) (b_strings b)); [discriminate|].
      destruct (keys_insert_fallible (fp_keys bs) (b_keys b)) as [ks|] eqn:Ek; [|discriminate].
      injection H as <-. apply keys_insert_fallible_some in Ek. destruct Ek as [-> _]. reflexivity.
Qed.

Theorem overlap_rejected : forall pre b post,
  b_ext b = None ->
  (exists x, In x (b_strings b) /\ (In x default_symbols \/ In x (fp_strings pre))) \/
  (exists k, In k (b_keys b) /\ In k (fp_keys pre)) \/
  ~ NoDup (b_keys b) ->
  exists e, load_tables (pre ++ b :: post) = TErr e.
Proof.
  intros pre b post He Hov. unfold load_tables. rewrite fold_left_app. cbn [fold_left].
  change (fold_left load_step pre (TOk ([], []))) with (load_tables pre).
  destruct (load_tables pre) as [acc|e] eqn:E.
  - pose proof (load_tables_ok _ _ E) as ->. cbn [load_step].
    assert (Hb : exists e, load_block (fp_strings pre, fp_keys pre) b = TErr e).
    { unfold load_block. rewrite He. cbn [fst snd].
      destruct (has_common (b_strings b) default_symbols) eqn:H1; [eexists; reflexivity|].
      destruct (has_common (fp_strings pre) (b_strings b)) eqn:H2; [eexists; reflexivity|].
      destruct (keys_insert_fallible (fp_keys pre) (b_keys b)) as [ks|] eqn:H3; [|eexists; reflexivity].
      exfalso. apply keys_insert_fallible_some in H3. destruct H3 as [_ [Hn Hf]].
      destruct Hov as [[x [Hx [Hd|Hp]]]|[[k [Hk Hp]]|Hnd]].
      - pose proof (proj1 (has_common_false _ _) H1 x Hx). contradiction.
      - pose proof (proj1 (has_common_false _ _) H2 x Hp). contradiction.
      - exact (Hf k Hk Hp).
      - contradiction. }
    destruct Hb as [e Hb]. rewrite Hb. exists e. apply fold_load_err.
  - cbn [load_step]. exists e. apply fold_load_err.
Qed.

Theorem overlap_rejected_token : forall ss ks sl pre b post,
  b_ext b = None ->
  (exists x, In x (b_strings b) /\ (In x default_symbols \/ In x (fp_strings pre))) \/
  (exists k, In k (b_keys b) /\ In k (fp_keys pre)) \/
  ~ NoDup (b_keys b) ->
  exists e, tok_reload (mktoken ss ks (pre ++ b :: post) sl) = TErr e.
Proof.
  intros ss ks sl pre b post He Hov. destruct (overlap_rejected pre b post He Hov) as [e H].
  exists e. unfold tok_reload. cbn [t_blocks]. rewrite H. reflexivity.
Qed.

(* a hand-made redeclaring block appended to a token is refused, whatever the token *)
Theorem raw_overlap_rejected : forall t b,
  b_ext b = None ->
  (exists x, In x (b_strings b) /\ (In x default_symbols \/ In x (fp_strings (t_blocks t)))) \/
  (exists k, In k (b_keys b) /\ In k (fp_keys (t_blocks t))) \/
  ~ NoDup (b_keys b) ->
  exists e, tok_append_raw t b = TErr e.
Proof.
  intros t b He Hov. unfold tok_append_raw. destruct (t_sealed t); [eexists; reflexivity|].
  change (t_blocks t ++ [b]) with (t_blocks t ++ b :: []). apply overlap_rejected_token; assumption.
Qed.

(* ------------------------------------------------------------------ the unchanged code deviates only on the unverified third-party path *)
Lemma exec_same : forall s o, is_unverified_tp o = false -> exec_op Faithful s o = exec_op Repaired s o.
Proof.
  intros s o H. unfold exec_op. destruct (to_side (op_side o) s) as [[sd t]|e] eqn:E; [|reflexivity].
  destruct o as [sd0 c|sd0 ext c|sd0|sd0|b]; try reflexivity.
  assert (Hsd : sd = sd0).
  { unfold to_side in E. cbn [op_side] in E. destruct (fst s), sd0; try (injection E as <- _; reflexivity).
    destruct (tok_reload (snd s)); [injection E as <- _; reflexivity | discriminate]. }
  subst sd0. destruct sd; [reflexivity | discriminate].
Qed.

Theorem faithful_on_verified_path : forall c0 ops,
  forallb (fun o => negb (is_unverified_tp o)) ops = true -> run Faithful c0 ops = run Repaired c0 ops.
Proof.
  intros c0 ops. unfold run. generalize (V, tok_build c0). induction ops as [|o ops IH]; intros s H; [reflexivity|].
  cbn in H. apply andb_true_iff in H. destruct H as [Ho H]. cbn [fold_left].
  assert (E : step Faithful s o = step Repaired s o).
  { unfold step. rewrite exec_same; [reflexivity|]. destruct (is_unverified_tp o); [discriminate | reflexivity]. }
  rewrite E. apply IH. exact H.
Qed.

(* ------------------------------------------------------------------ witnesses against the unchanged code *)
Definition wk (i : string) : key := str "ed25519/k" ++ str i.
Definition w_c0 : acontent := YContent [YFact (str "right") (str "read")] [] [] [].
(* the third-party block, signed by k0, declares k1 *)
Definition w_tp : acontent :=
  YContent [YFact (str "p") (str "file1")] [] [YCheck (str "right") (str "read") [YKey (wk "1")]] [].
(* a later first-party block trusts the signer of the third-party block *)
Definition w_later : acontent := YContent [] [] [YCheck (str "p") (str "file1") [YKey (wk "0")]] [].
Definition w_ops : list op := [OAppendTP U (wk "0") w_tp; OAppend U w_later].

Definition nl10 : bytes := [10%N].

Lemma unverified_tp_witness :
  let s := snd (run Faithful w_c0 w_ops) in
  exists s', tok_reload s = TOk s' /\
    t_keys s = [wk "1"; wk "0"] /\ t_keys s' = [wk "0"] /\
    print_block_source Faithful V s 2 = TOk (str "check if p(""file1"") trusting ed25519/k0;" ++ nl10) /\
    print_block_source Faithful V s' 2 = TOk (str "check if p(""file1"") trusting <unknown public key id>;" ++ nl10) /\
    authorize Faithful s None = ADone true [(1%N, 0%N)] /\
    authorize Faithful s' None = ABuildErr.
Proof.
  intro s. exists (match tok_reload s with TOk x => x | TErr _ => s end).
  repeat split; vm_compute; reflexivity.
Qed.

(* the same history on the repaired model: nothing moves *)
Lemma unverified_tp_repaired :
  let s := snd (run Repaired w_c0 w_ops) in
  tok_reload s = TOk s /\ t_keys s = [wk "0"] /\
  print_block_source Repaired V s 2 = TOk (str "check if p(""file1"") trusting ed25519/k0;" ++ nl10) /\
  authorize Repaired s None = ADone true [(1%N, 0%N)].
Proof. intro s. repeat split; vm_compute; reflexivity. Qed.

(* UnverifiedBiscuit::block reads a third-party block with the token's key table: verified
   operations only, the third-party block says "trusting k1", the unverified view shows k3 *)
Definition w2_c0 : acontent :=
  YContent [YFact (str "right") (str "read")] [] [YCheck (str "right") (str "read") [YKey (wk "3")]] [].
Definition w2_ops : list op := [OAppendTP V (wk "0") w_tp; OReload U].

Lemma unverified_view_witness :
  let t := snd (fst (run_a Faithful w2_c0 w2_ops)) in
  nth_error (snd (run_a Faithful w2_c0 w2_ops)) 1 = Some w_tp /\
  block_view Faithful V t 1 = TOk (authored w_tp) /\
  print_block_source Faithful V t 1 =
    TOk (str "p(""file1"");" ++ nl10 ++ str "check if right(""read"") trusting ed25519/k1;" ++ nl10) /\
  print_block_source Faithful U t 1 =
    TOk (str "p(""file1"");" ++ nl10 ++ str "check if right(""read"") trusting ed25519/k3;" ++ nl10).
Proof. intro t. repeat split; vm_compute; reflexivity. Qed.

(* non-vacuity instances for the positive theorems *)
Definition ex_ops : list op :=
  [OAppendTP U (wk "0") w_tp; OAppend U w_later; OSeal V; OReload U;
   OAppend V (YContent [YFact (str "q") (str "x")] [YRule (str "q") (str "p") (str "read") [YPrev; YKey (wk "2")]] [] [YAuth])].

Lemma ex_run :
  let s := run Repaired w_c0 ex_ops in
  fst s = U /\ length (t_blocks (snd s)) = 3%nat /\ t_sealed (snd s) = true /\
  t_strings (snd s) = [str "p"; str "file1"] /\ t_keys (snd s) = [wk "0"] /\
  snd (run_a Repaired w_c0 ex_ops) = [w_c0; w_tp; w_later].
Proof. intro s. repeat split; vm_compute; reflexivity. Qed.

Definition ex_raw (strings : list bytes) (keys : list key) : block :=
  mkblock strings keys None (YContent [YFact 1024%N 0%N] [] [] []).

Lemma ex_raw_refused :
  let t := snd (run Repaired w_c0 [OAppend V w_later]) in
  tok_append_raw t (ex_raw [str "read"] []) = TErr ESymbolOverlap /\
  tok_append_raw t (ex_raw [str "zz"; str "file1"] []) = TErr ESymbolOverlap /\
  tok_append_raw t (ex_raw [str "zz"] [wk "0"]) = TErr EKeyOverlap /\
  tok_append_raw t (ex_raw [str "zz"] [wk "1"; wk "1"]) = TErr EKeyOverlap /\
  exists t', tok_append_raw t (ex_raw [str "zz"] [wk "1"]) = TOk t' /\ t_strings t' = [str "p"; str "file1"; str "zz"].
Proof.
  intro t. repeat split; try (vm_compute; reflexivity).
  exists (match tok_append_raw t (ex_raw [str "zz"] [wk "1"]) with TOk x => x | TErr _ => t end).
  split; vm_compute; reflexivity.
Qed.

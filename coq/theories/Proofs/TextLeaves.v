(* Proofs about the leaves of the text layer (C14): integers, bytes, strings. *)
From Biscuit Require Import Model.Text.
Local Open Scope N_scope.

(* ------------------------------------------------------------------ generic list lemmas *)
Lemma span_app_stop : forall p (a rest : text),
  forallb p a = true ->
  (match rest with [] => True | c :: _ => p c = false end) ->
  span p (a ++ rest) = (a, rest).
Proof.
  induction a as [|x a IH]; cbn [app span forallb]; intros rest Ha Hr.
  - destruct rest as [|c r]; [reflexivity|]. cbn [span]. now rewrite Hr.
  - apply andb_true_iff in Ha as [Hx Ha]. rewrite Hx. now rewrite (IH rest Ha Hr).
Qed.

Lemma tag_app : forall t i, tag t (t ++ i) = Some i.
Proof.
  induction t as [|x t IH]; cbn [tag app]; intro i; [reflexivity|].
  now rewrite N.eqb_refl.
Qed.

(* ------------------------------------------------------------------ integers *)
Definition no_digit_head (rest : text) : Prop :=
  match rest with [] => True | c :: _ => is_digit c = false end.

Lemma is_digit_dig : forall n, (0 <= n < 10)%Z -> is_digit (48 + Z.to_N n) = true.
Proof.
  intros n Hn. unfold is_digit. apply andb_true_iff. split; apply N.leb_le; lia.
Qed.

Lemma digit_sub : forall n, (0 <= n < 10)%Z -> Z.of_N (48 + Z.to_N n - 48) = n.
Proof. intros; lia. Qed.

(* digits_val distributes over an appended suffix *)
Lemma digits_val_app : forall a b acc,
  digits_val (a ++ b) acc = digits_val b (digits_val a acc).
Proof. induction a as [|x a IH]; cbn [app digits_val]; intros; [reflexivity|apply IH]. Qed.

Lemma digits_of_spec : forall fuel n acc,
  (0 <= n < 10 ^ Z.of_nat fuel)%Z -> (0 < fuel)%nat ->
  exists ds, digits_of fuel n acc = ds ++ acc /\ forallb is_digit ds = true /\ ds <> [] /\
             forall a, digits_val ds a = (a * 10 ^ Z.of_nat (length ds) + n)%Z.
Proof.
  induction fuel as [|f IH]; intros n acc Hn Hf; [lia|].
  cbn [digits_of].
  assert (Hm : (0 <= n mod 10 < 10)%Z) by (apply Z.mod_pos_bound; lia).
  destruct (n <? 10)%Z eqn:E.
  - apply Z.ltb_lt in E. exists [48 + Z.to_N (n mod 10)%Z]. split; [reflexivity|].
    split; [cbn [forallb]; now rewrite is_digit_dig|]. split; [discriminate|].
    intro a. cbn [digits_val length]. rewrite digit_sub by exact Hm.
    rewrite Z.mod_small by lia. change (Z.of_nat 1) with 1%Z. lia.
  - apply Z.ltb_ge in E.
    destruct f as [|f']. { change (10 ^ Z.of_nat 1)%Z with 10%Z in Hn. lia. }
    assert (Hq : (0 <= n / 10 < 10 ^ Z.of_nat (S f'))%Z).
    { split; [apply Z.div_pos; lia|]. apply Z.div_lt_upper_bound; [lia|].
      replace (Z.of_nat (S (S f'))) with (Z.succ (Z.of_nat (S f'))) in Hn by lia.
      rewrite Z.pow_succ_r in Hn by lia. lia. }
    destruct (IH (n / 10)%Z ((48 + Z.to_N (n mod 10)%Z) :: acc) Hq ltac:(lia))
      as (ds & Hds & Hdig & Hne & Hval).
    exists (ds ++ [48 + Z.to_N (n mod 10)%Z]). split.
    { rewrite Hds. now rewrite <- app_assoc. }
    split. { rewrite forallb_app, Hdig. cbn [forallb]. now rewrite is_digit_dig. }
    split. { destruct ds; discriminate. }
    intro a. rewrite digits_val_app, Hval. cbn [digits_val]. rewrite digit_sub by exact Hm.
    rewrite app_length. cbn [length]. rewrite Nat.add_1_r, Nat2Z.inj_succ, Z.pow_succ_r by lia.
    pose proof (Z.div_mod n 10 ltac:(lia)). lia.
Qed.

Lemma pow2_le_pow10 : forall k, (0 <= k)%Z -> (2 ^ k <= 10 ^ k)%Z.
Proof. intros. apply Z.pow_le_mono_l. lia. Qed.

Lemma print_natz_spec : forall n, (0 <= n)%Z ->
  exists ds, print_natz n = ds /\ forallb is_digit ds = true /\ ds <> [] /\
             forall a, digits_val ds a = (a * 10 ^ Z.of_nat (length ds) + n)%Z.
Proof.
  intros n Hn. unfold print_natz.
  destruct (digits_of_spec (S (Z.to_nat (Z.log2 n))) n []) as (ds & H1 & H2 & H3 & H4).
  - split; [exact Hn|].
    destruct (Z.eq_dec n 0) as [->|Hz]. { cbn. lia. }
    assert (Hl : (n < 2 ^ Z.succ (Z.log2 n))%Z) by (apply Z.log2_spec; lia).
    pose proof (Z.log2_nonneg n).
    replace (Z.of_nat (S (Z.to_nat (Z.log2 n)))) with (Z.succ (Z.log2 n)) by lia.
    pose proof (pow2_le_pow10 (Z.succ (Z.log2 n)) ltac:(lia)). lia.
  - lia.
  - exists ds. rewrite app_nil_r in H1. auto.
Qed.

Lemma head_digit_not_minus : forall ds, forallb is_digit ds = true -> ds <> [] ->
  exists d r, ds = d :: r /\ (d =? cMinus) = false.
Proof.
  intros [|d r] H Hne; [congruence|]. exists d, r. split; [reflexivity|].
  cbn [forallb] in H. apply andb_true_iff in H as [H _].
  unfold is_digit in H. apply andb_true_iff in H as [H1 H2].
  apply N.leb_le in H1. apply N.eqb_neq. unfold cMinus. lia.
Qed.

Theorem int_roundtrip : forall i rest, in_i64 i = true -> no_digit_head rest ->
  parse_integer (print_int i ++ rest) = Some (i, rest).
Proof.
  intros i rest Hr Hs. unfold print_int.
  destruct (i <? 0)%Z eqn:E.
  - apply Z.ltb_lt in E.
    destruct (print_natz_spec (- i)%Z ltac:(lia)) as (ds & -> & Hd & Hne & Hv).
    unfold parse_integer. cbn [app]. rewrite N.eqb_refl.
    rewrite (span_app_stop is_digit ds rest Hd Hs).
    destruct ds as [|d r]; [congruence|].
    rewrite Hv. replace (- (0 * 10 ^ Z.of_nat (length (d :: r)) + - i))%Z with i by lia.
    now rewrite Hr.
  - apply Z.ltb_ge in E.
    destruct (print_natz_spec i E) as (ds & -> & Hd & Hne & Hv).
    destruct (head_digit_not_minus ds Hd Hne) as (d & r & -> & Hm).
    unfold parse_integer. cbn [app]. rewrite Hm.
    change (d :: r ++ rest) with ((d :: r) ++ rest).
    rewrite (span_app_stop is_digit (d :: r) rest Hd Hs).
    rewrite Hv. replace (0 * 10 ^ Z.of_nat (length (d :: r)) + i)%Z with i by lia.
    now rewrite Hr.
Qed.

(* ------------------------------------------------------------------ bytes *)
Definition no_hex_head (rest : text) : Prop :=
  match rest with [] => True | c :: _ => is_hex_trunc c = false end.

Lemma hexdigit_cases : forall n, n < 16 ->
  is_hex_trunc (hexdigit n) = true /\ hexv (hexdigit n) = Some n.
Proof.
  intros n Hn.
  assert (H : n = 0 \/ n = 1 \/ n = 2 \/ n = 3 \/ n = 4 \/ n = 5 \/ n = 6 \/ n = 7 \/ n = 8 \/ n = 9
              \/ n = 10 \/ n = 11 \/ n = 12 \/ n = 13 \/ n = 14 \/ n = 15) by lia.
  repeat (destruct H as [-> | H]; [split; reflexivity|]). subst; split; reflexivity.
Qed.

Lemma print_hex_spec : forall b, Forall (fun x => x < 256) b ->
  forallb is_hex_trunc (print_hex b) = true /\ hex_decode (print_hex b) = Some b.
Proof.
  induction b as [|x b IH]; intro Hb; [split; reflexivity|].
  inversion Hb as [|? ? Hx Hb']; subst. destruct (IH Hb') as [IH1 IH2].
  assert (H1 : x / 16 < 16) by (apply N.div_lt_upper_bound; lia).
  assert (H2 : x mod 16 < 16) by (apply N.mod_lt; lia).
  destruct (hexdigit_cases _ H1) as [A1 A2]. destruct (hexdigit_cases _ H2) as [B1 B2].
  cbn [print_hex forallb hex_decode]. rewrite A1, B1, IH1, A2, B2, IH2. split; [reflexivity|].
  f_equal. f_equal. pose proof (N.div_mod x 16 ltac:(lia)). lia.
Qed.

Theorem bytes_roundtrip : forall b rest, Forall (fun x => x < 256) b -> b <> [] -> no_hex_head rest ->
  parse_bytes (str "hex:" ++ print_hex b ++ rest) = Some (b, rest).
Proof.
  intros b rest Hb Hne Hs. unfold parse_bytes. rewrite tag_app.
  destruct (print_hex_spec b Hb) as [H1 H2].
  unfold parse_hex, take_while1. rewrite (span_app_stop is_hex_trunc _ rest H1 Hs).
  destruct b as [|x b']; [congruence|]. cbn [print_hex] in *. now rewrite H2.
Qed.

(* ------------------------------------------------------------------ strings *)
Lemma str_body_esc : forall s rest,
  str_body (esc_chars s ++ cQuote :: rest) = Some (s, cQuote :: rest).
Proof.
  induction s as [|c s IH]; intro rest.
  - cbn [esc_chars app str_body]. now rewrite N.eqb_refl.
  - cbn [esc_chars].
    destruct (c =? cBackslash) eqn:E1.
    + apply N.eqb_eq in E1. subst c. cbn [app str_body]. change (cBackslash =? cQuote) with false.
      cbv iota. rewrite N.eqb_refl. cbv iota. unfold unescape. rewrite N.eqb_refl. now rewrite IH.
    + destruct (c =? cQuote) eqn:E2.
      * apply N.eqb_eq in E2. subst c. cbn [app str_body]. change (cBackslash =? cQuote) with false.
        cbv iota. rewrite N.eqb_refl. cbv iota. unfold unescape.
        change (cQuote =? cBackslash) with false. cbv iota. rewrite N.eqb_refl. now rewrite IH.
      * destruct (c =? cLF) eqn:E3.
        -- apply N.eqb_eq in E3. subst c. cbn [app str_body]. change (cBackslash =? cQuote) with false.
           cbv iota. rewrite N.eqb_refl. cbv iota. unfold unescape.
           change (c_n =? cBackslash) with false. change (c_n =? cQuote) with false.
           cbv iota. rewrite N.eqb_refl. now rewrite IH.
        -- cbn [app str_body]. rewrite E2, E1. now rewrite IH.
Qed.

Lemma esc_head : forall c s, exists d r, esc_chars (c :: s) = d :: r /\ (d =? cQuote) = false.
Proof.
  intros c s. cbn [esc_chars].
  destruct (c =? cBackslash) eqn:E1; [eexists _, _; split; [reflexivity|reflexivity]|].
  destruct (c =? cQuote) eqn:E2; [eexists _, _; split; [reflexivity|reflexivity]|].
  destruct (c =? cLF) eqn:E3; [eexists _, _; split; [reflexivity|reflexivity]|].
  eexists _, _; split; [reflexivity|exact E2].
Qed.

(* the repaired printer: every string, whatever it contains, followed by anything *)
Theorem string_roundtrip : forall s rest,
  parse_string (print_string true s ++ rest) = Some (s, rest).
Proof.
  intros s rest. unfold print_string. destruct s as [|c s].
  - cbn. reflexivity.
  - destruct (esc_head c s) as (d & r & Hd & Hq).
    pose proof (str_body_esc (c :: s) rest) as Hb. rewrite Hd in *.
    cbn [app parse_string]. rewrite N.eqb_refl. cbn [app] in Hb |- *. rewrite Hq.
    rewrite <- app_assoc. cbn [app]. rewrite Hb. cbn [chr]. now rewrite N.eqb_refl.
Qed.

(* the unchanged printer is right exactly on strings without quote and backslash *)
Fixpoint plain (s : text) : bool :=
  match s with [] => true | c :: r => negb (c =? cQuote) && negb (c =? cBackslash) && plain r end.

Lemma esc_plain : forall s, plain s = true -> forallb (fun c => negb (c =? cLF)) s = true -> esc_chars s = s.
Proof.
  induction s as [|c s IH]; cbn [plain forallb esc_chars]; intros H1 H2; [reflexivity|].
  apply andb_true_iff in H1 as [H1 H1']. apply andb_true_iff in H1 as [Ha Hb].
  apply andb_true_iff in H2 as [Hc H2].
  apply negb_true_iff in Ha, Hb, Hc. rewrite Hb, Ha, Hc. now rewrite IH.
Qed.

Lemma str_body_plain : forall s rest, plain s = true ->
  str_body (s ++ cQuote :: rest) = Some (s, cQuote :: rest).
Proof.
  induction s as [|c s IH]; intros rest H.
  - cbn [app str_body]. now rewrite N.eqb_refl.
  - cbn [plain] in H. apply andb_true_iff in H as [H H']. apply andb_true_iff in H as [Ha Hb].
    apply negb_true_iff in Ha, Hb. cbn [app str_body]. rewrite Ha, Hb. now rewrite IH.
Qed.

Theorem string_roundtrip_faithful_plain : forall s rest, plain s = true ->
  parse_string (print_string false s ++ rest) = Some (s, rest).
Proof.
  intros s rest H. unfold print_string. destruct s as [|c s]; [reflexivity|].
  pose proof (str_body_plain (c :: s) rest H) as Hb.
  cbn [plain] in H. apply andb_true_iff in H as [H _]. apply andb_true_iff in H as [Ha _].
  apply negb_true_iff in Ha.
  cbn [app parse_string]. rewrite N.eqb_refl. rewrite Ha.
  rewrite <- app_assoc. cbn [app] in *. rewrite Hb. cbn [chr]. now rewrite N.eqb_refl.
Qed.

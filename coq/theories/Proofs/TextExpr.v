(* C14, expressions: every tree in the image of the precedence grammar (infix operators of
   the 8 binary levels, prefix negation, parentheses, values) prints and parses back. *)
From Biscuit Require Import Model.Text Proofs.TextLeaves Proofs.TextDate Proofs.TextTerm Proofs.TextItems
  Proofs.TextExprRules Proofs.TextExprOps.
Local Open Scope N_scope.

Definition is_lazy (b : binop) : bool := match b with BLazyAnd | BLazyOr => true | _ => false end.

(* a tree that ends in an unwrapped prefix negation: `!` takes its operand at the additive
   level, so such a tree swallows a following + - * / chain *)
Fixpoint open (e : expr) : bool :=
  match e with
  | EUnary UNegate _ => true
  | EBinary BAdd _ r | EBinary BSub _ r | EBinary BMul _ r | EBinary BDiv _ r => open r
  | _ => false
  end.

Fixpoint esize (e : expr) : nat :=
  match e with
  | EValue _ => 1
  | EUnary _ a => S (esize a)
  | EBinary _ l r => S (esize l + esize r)
  | EClosure _ b => S (esize b)
  end.

(* the methods of level expr9 *)
Definition is_method (b : binop) : bool :=
  match b with
  | BContains | BPrefix | BSuffix | BRegex | BIntersection | BUnion | BAll | BAny | BGet | BFfi _ => true
  | _ => false
  end.
Definition method_name (b : binop) : text :=
  match b with
  | BContains => str "contains" | BPrefix => str "starts_with" | BSuffix => str "ends_with"
  | BRegex => str "matches" | BIntersection => str "intersection" | BUnion => str "union"
  | BAll => str "all" | BAny => str "any" | BGet => str "get" | BFfi n => str "extern::" ++ n
  | _ => []
  end.
Definition bname_ok (b : binop) : bool := match b with BFfi n => name_okb n | _ => true end.
Definition is_umethod (u : unop) : bool := match u with ULength | UTypeOf | UFfi _ => true | _ => false end.
Definition uname_ok (u : unop) : bool := match u with UFfi n => name_okb n | _ => true end.
Definition umethod_text (u : unop) : text :=
  match u with
  | ULength => str "length()" | UTypeOf => str "type()" | UFfi n => str "extern::" ++ n ++ str "()"
  | _ => []
  end.

(* the trees of level expr9: a value, a parenthesised expression, or a method call on one *)
Definition is9 (e : expr) : bool :=
  match e with
  | EValue _ => true
  | EUnary UNegate _ => false
  | EUnary _ _ => true
  | EBinary b _ _ => is_method b
  | EClosure _ _ => false
  end.

(* a date literal directly before '.' is not a token of the grammar: 2020-..Z.type() *)
Definition recv_dot (e : expr) : bool := match e with EValue (TDate _) => false | _ => true end.

Section Esc.
Variable esc : bool.

(* [wfl k e]: the parser of level k (expr = 0 .. expr7, expr8) can produce e.
   Operands of a lower level must be wrapped in Parens (an explicit op of the builder);
   comparisons do not chain; the right operand of && and || is a parameterless closure;
   an open tree is never the left operand of + - * /. *)
Fixpoint wfl (k : nat) (e : expr) {struct e} : bool :=
  match e with
  | EValue t => term_okb esc CTerm t
  | EUnary UParens a => wfl 0 a
  | EUnary UNegate a => (k <=? 8)%nat && wfl 6 a
  | EUnary u a => uname_ok u && is9 a && recv_dot a && wfl 9 a
  | EBinary b l r =>
      match infix_op b with
      | Some (j, _) =>
          (k <=? j)%nat &&
          (if (j =? 2)%nat then wfl 3 l && wfl 3 r
           else wfl j l && (if (6 <=? j)%nat then negb (open l) else true) &&
                (if is_lazy b then match r with EClosure [] r0 => wfl (S j) r0 | _ => false end
                 else wfl (S j) r))
      | None =>
          is_method b && bname_ok b && is9 l && recv_dot l && wfl 9 l &&
          (if takes_closure b
           then match r with EClosure [p] body => name_okb p && wfl 0 body | _ => false end
           else wfl 0 r)
      end
  | _ => false
  end.

(* ------------------------------------------------------------------ texts *)
Lemma print_head3 : forall c t, term_okb esc c t = true ->
  exists ch r, print_term esc t = ch :: r /\ is_ws ch = false /\ (cBang =? ch) = false /\ (cLPar =? ch) = false.
Proof.
  intros c t H.
  assert (D : forall ch, is_digit ch = true -> is_ws ch = false /\ (cBang =? ch) = false /\ (cLPar =? ch) = false).
  { intros ch Hd. unfold is_digit in Hd. apply andb_true_iff in Hd as [H1 H2]. apply N.leb_le in H1, H2.
    unfold is_ws, cSp, cTab, cCR, cLF, cBang, cLPar.
    repeat split; repeat (apply orb_false_iff; split); apply N.eqb_neq; lia. }
  destruct t; cbn [print_term].
  - eexists _, _; repeat split; reflexivity.
  - destruct (print_int_shape i) as (ch & r & -> & [Hd| ->] & _).
    + eexists _, _; split; [reflexivity|]. now apply D.
    + eexists _, _; repeat split; reflexivity.
  - destruct (print_string_head esc s) as [r ->]. eexists _, _; repeat split; reflexivity.
  - cbn [term_okb] in H. apply andb_true_iff in H as [H1 H2].
    apply Z.leb_le in H1. apply Z.ltb_lt in H2.
    destruct (print_date_head d (conj H1 H2)) as (ch & r & -> & Hd).
    eexists _, _; split; [reflexivity|]. now apply D.
  - eexists _, _; repeat split; reflexivity.
  - destruct b; eexists _, _; repeat split; reflexivity.
  - destruct l; eexists _, _; repeat split; reflexivity.
  - eexists _, _; repeat split; reflexivity.
  - eexists _, _; repeat split; reflexivity.
  - eexists _, _; repeat split; reflexivity.
  - eexists _, _; repeat split; reflexivity.
Qed.

Lemma print_method : forall b l r, is_method b = true ->
  print_binary b l r = l ++ cDot :: method_name b ++ cLPar :: r ++ [cRPar].
Proof.
  intros b l r H. destruct b; try discriminate; unfold print_binary, method, method_name; cbn [app];
    rewrite <- ?app_assoc; reflexivity.
Qed.

Lemma print_umethod : forall u v, is_umethod u = true ->
  print_unary u v = v ++ cDot :: umethod_text u.
Proof.
  intros u v H. destruct u; try discriminate; unfold print_unary, umethod_text; cbn [app str];
    rewrite <- ?app_assoc; reflexivity.
Qed.

Lemma method_text : forall b l r0 r, is_method b = true ->
  print_expr esc (EBinary b l r0) ++ r
  = print_expr esc l ++ cDot :: method_name b ++ cLPar :: print_expr esc r0 ++ cRPar :: r.
Proof.
  intros b l r0 r Hm. cbn [print_expr]. rewrite (print_method b _ _ Hm).
  rewrite <- app_assoc. cbn [app]. rewrite <- app_assoc. cbn [app]. rewrite <- app_assoc. reflexivity.
Qed.

Lemma closure_text : forall p body x,
  print_expr esc (EClosure [p] body) ++ x = cDollar :: p ++ str " -> " ++ print_expr esc body ++ x.
Proof.
  intros. cbn [print_expr]. unfold print_closure. cbn [map join app]. rewrite <- !app_assoc. reflexivity.
Qed.

(* the first character of a printed tree; trees of level 9 do not start with '!' *)
Lemma expr_head : forall e k, wfl k e = true ->
  exists c x, print_expr esc e = c :: x /\ is_ws c = false /\ (is9 e = true -> (cBang =? c) = false).
Proof.
  induction e as [t|u a IH|b l IHl r IHr|ps body IH]; intros k H; cbn [wfl] in H; try discriminate.
  - destruct (print_head3 CTerm t H) as (ch & r & E & Hw & Hb & _). cbn [print_expr]. eauto 6.
  - destruct u; cbn [print_expr print_unary].
    + eexists _, _; repeat split; try reflexivity. discriminate.
    + eexists _, _; repeat split; reflexivity.
    + apply andb_true_iff in H as [H Hw]. apply andb_true_iff in H as [H _]. apply andb_true_iff in H as [_ H9].
      destruct (IH _ Hw) as (c & x & E & Hws & Hb). rewrite E. cbn [app]. eauto 6.
    + apply andb_true_iff in H as [H Hw]. apply andb_true_iff in H as [H _]. apply andb_true_iff in H as [_ H9].
      destruct (IH _ Hw) as (c & x & E & Hws & Hb). rewrite E. cbn [app]. eauto 6.
    + apply andb_true_iff in H as [H Hw]. apply andb_true_iff in H as [H _]. apply andb_true_iff in H as [_ H9].
      destruct (IH _ Hw) as (c & x & E & Hws & Hb). rewrite E. cbn [app]. eauto 6.
  - destruct (infix_op b) as [[j nm]|] eqn:Ei.
    + apply andb_true_iff in H as [_ H].
      assert (Hl : exists k', wfl k' l = true).
      { destruct (j =? 2)%nat.
        - apply andb_true_iff in H as [H _]. eauto.
        - apply andb_true_iff in H as [H _]. apply andb_true_iff in H as [H _]. eauto. }
      destruct Hl as [k' Hl]. destruct (IHl k' Hl) as (c & x & E & Hw & _).
      cbn [print_expr]. rewrite (print_infix b j nm _ _ Ei). rewrite E. cbn [app].
      eexists _, _; repeat split; try eassumption. cbn [is9].
      intro Hm. destruct b; cbn in Ei, Hm; discriminate.
    + apply andb_true_iff in H as [H _]. apply andb_true_iff in H as [H Hw].
      apply andb_true_iff in H as [H _]. apply andb_true_iff in H as [H H9].
      apply andb_true_iff in H as [Hm _].
      destruct (IHl _ Hw) as (c & x & E & Hws & Hb).
      cbn [print_expr]. rewrite (print_method b _ _ Hm). rewrite E. cbn [app]. eauto 6.
Qed.

Lemma p_term_blank : forall g c pre x, blank pre -> p_term g c (pre ++ x) = p_term g c x.
Proof.
  intros [|g] c pre x H; [reflexivity|]. unfold p_term. cbn [p_t t_step]. unfold t_term.
  now rewrite (ws_blank pre x H).
Qed.

Lemma ws_blank_head : forall pre c x, blank pre -> is_ws c = false -> ws (pre ++ c :: x) = c :: x.
Proof. intros. rewrite ws_blank by assumption. now apply ws_nonws. Qed.

(* ------------------------------------------------------------------ what may follow *)
Definition Follow (k : nat) (e : expr) (r : text) : Prop :=
  tstop r /\ chr cDot r = None /\ StopFrom k r /\ (open e = true -> StopL 6 r /\ StopL 7 r).

Definition Down (e : expr) : Prop :=
  forall k pre r, (k <= 8)%nat -> wfl k e = true -> blank pre -> Follow k e r ->
    Ev (NLk k) (pre ++ print_expr esc e ++ r) (POk e r).

(* continuation form for a left-associative level j: parsing the text of e then running the
   loop of level j on what follows is the same as running that loop with e accumulated *)
Definition Own (j : nat) (e : expr) : Prop :=
  forall pre r res, wfl j e = true -> blank pre -> tstop r -> chr cDot r = None -> StopFrom (S j) r ->
    (open e = true -> StopL 6 r /\ StopL 7 r) ->
    Ev (NLoop j e) r res -> Ev (NL j) (pre ++ print_expr esc e ++ r) res.

(* the same for the method loop of level 9; a value may be followed by '.' unless it is a date *)
Definition recv_ok (e : expr) (r : text) : Prop :=
  match e with EValue t => vstop t r | _ => True end.

Definition Own9 (e : expr) : Prop :=
  forall pre r res, is9 e = true -> wfl 9 e = true -> blank pre -> recv_ok e r ->
    Ev (NMeth e) r res -> Ev N9 (pre ++ print_expr esc e ++ r) res.

Lemma StopFrom_weaken : forall k k' r, (k <= k')%nat -> StopFrom k r -> StopFrom k' r.
Proof. intros k k' r H S m Hm. apply S. lia. Qed.

Lemma stop_text : forall b j nm x, infix_op b = Some (j, nm) ->
  tstop (cSp :: str nm ++ cSp :: x) /\ chr cDot (cSp :: str nm ++ cSp :: x) = None /\
  StopFrom (S j) (cSp :: str nm ++ cSp :: x) /\
  ws (cSp :: str nm ++ cSp :: x) = str nm ++ cSp :: x.
Proof.
  intros b j nm x H. repeat split.
  - intros m Hm. apply (stop_after_op b j nm x m H). lia.
  - destruct b; inversion H; reflexivity.
Qed.

Lemma infix_assoc : forall (l nm r0 r : text),
  (l ++ cSp :: nm ++ cSp :: r0) ++ r = l ++ cSp :: nm ++ cSp :: r0 ++ r.
Proof. intros. rewrite <- app_assoc. cbn [app]. rewrite <- app_assoc. reflexivity. Qed.

(* a tree whose top operator is below the additive level is never open *)
Lemma open_low : forall b l r j nm, infix_op b = Some (j, nm) -> (j < 6)%nat -> open (EBinary b l r) = false.
Proof. intros b l r j nm H Hj. destruct b; inversion H; subst; try reflexivity; lia. Qed.

Lemma open_high : forall b l r j nm, infix_op b = Some (j, nm) -> (6 <= j)%nat ->
  open (EBinary b l r) = open r.
Proof. intros b l r j nm H Hj. destruct b; inversion H; subst; try reflexivity; lia. Qed.

Lemma open_9 : forall e, is9 e = true -> open e = false.
Proof.
  intros e H. destruct e as [t|u a|b l r|ps body]; try reflexivity; try discriminate.
  - destruct u; try reflexivity; discriminate.
  - destruct b; try reflexivity; discriminate.
Qed.

(* level-9 trees belong to every level *)
Lemma wfl_9_any : forall e k k', is9 e = true -> wfl k e = true -> wfl k' e = true.
Proof.
  intros e k k' H9 H. destruct e as [t|u a|b l r|ps body]; cbn [wfl is9] in *; try discriminate; try exact H.
  - destruct u; try discriminate; exact H.
  - destruct (infix_op b) as [[j nm]|] eqn:Ei; [|exact H]. destruct b; cbn in Ei, H9; discriminate.
Qed.

(* either the top operator of l is at level j, or l belongs to the next level *)
Lemma wfl_cases : forall j l, (j <= 7)%nat -> j <> 2%nat -> wfl j l = true ->
  (exists b l' r' nm, l = EBinary b l' r' /\ infix_op b = Some (j, nm)) \/ wfl (S j) l = true.
Proof.
  intros j l Hj H2 H. destruct l as [t|u a|b l' r'|ps body]; cbn [wfl] in *; try discriminate.
  - now right.
  - right. destruct u; try discriminate; try exact H.
    apply andb_true_iff in H as [_ H]. apply andb_true_iff. split; [apply Nat.leb_le; lia|exact H].
  - destruct (infix_op b) as [[j' nm]|] eqn:Ei; [|now right].
    apply andb_true_iff in H as [Hk H]. apply Nat.leb_le in Hk.
    destruct (Nat.eq_dec j' j) as [->|Hne].
    + left. eauto 6.
    + right. rewrite H. rewrite andb_true_r. apply Nat.leb_le. lia.
Qed.

Lemma NLk_low : forall k, (k <= 7)%nat -> NLk k = NL k.
Proof. intros k H. do 8 (destruct k as [|k]; [reflexivity|]). lia. Qed.

Lemma vstop_dot : forall e x, recv_dot e = true -> recv_ok e (cDot :: x).
Proof.
  intros e x H. destruct e as [t| | |]; try exact I. destruct t; try exact I; try discriminate.
  - reflexivity.
  - split; reflexivity.
  - reflexivity.
Qed.

(* ------------------------------------------------------------------ method names *)
Lemma method_op_self : forall b x, is_method b = true -> bname_ok b = true ->
  method_op (method_name b ++ cLPar :: x) = Some (b, cLPar :: x).
Proof.
  intros b x Hm Hn. destruct b; try discriminate; try reflexivity.
  (* extern::name *)
  cbn [method_name bname_ok] in *. unfold method_op.
  assert (T0 : try_tags [("contains"%string, BContains); ("starts_with"%string, BPrefix);
                         ("ends_with"%string, BSuffix); ("matches"%string, BRegex);
                         ("intersection"%string, BIntersection); ("union"%string, BUnion);
                         ("all"%string, BAll); ("any"%string, BAny); ("get"%string, BGet)]
                        ((str "extern::" ++ name) ++ cLPar :: x) = None) by reflexivity.
  rewrite T0. rewrite <- app_assoc. rewrite tag_app.
  rewrite (p_name_ok name (cLPar :: x) Hn) by reflexivity. reflexivity.
Qed.

Lemma unary_method_self : forall u r, is_umethod u = true -> uname_ok u = true ->
  unary_method (umethod_text u ++ r) = Some (u, r).
Proof.
  intros u r Hm Hn. destruct u; try discriminate; try reflexivity.
  cbn [umethod_text uname_ok] in *. unfold unary_method.
  assert (T1 : tag (str "length") ((str "extern::" ++ name ++ str "()") ++ r) = None) by reflexivity.
  assert (T2 : tag (str "type") ((str "extern::" ++ name ++ str "()") ++ r) = None) by reflexivity.
  rewrite T1, T2. rewrite <- !app_assoc. rewrite tag_app.
  rewrite (p_name_ok name (str "()" ++ r) Hn) by reflexivity. reflexivity.
Qed.

Lemma umethod_not_binary : forall acc u r, is_umethod u = true -> uname_ok u = true ->
  EvBM acc (umethod_text u ++ r) PErr.
Proof.
  intros acc u r Hm Hn. destruct u; try discriminate.
  - apply BM_none. reflexivity.
  - apply BM_none. reflexivity.
  - cbn [umethod_text uname_ok] in *.
    assert (E : (str "extern::" ++ name ++ str "()") ++ r = method_name (BFfi name) ++ cLPar :: cRPar :: r).
    { cbn [method_name]. rewrite <- !app_assoc. reflexivity. }
    rewrite E.
    apply (BM_arg_fails acc _ (BFfi name) (cLPar :: cRPar :: r) (cRPar :: r)).
    + now apply method_op_self.
    + reflexivity.
    + reflexivity.
    + apply (levels_fail_on cRPar r eq_refl eq_refl eq_refl 0). lia.
Qed.

Lemma estop_rpar : forall k e r, Follow k e (cRPar :: r).
Proof.
  intros k e r. destruct (estop_char cRPar r (or_introl eq_refl)) as (T & D & B).
  split; [exact T|]. split; [exact D|]. split.
  - intros m Hm. apply stop_none. apply B. lia.
  - intros _. split; apply stop_none; apply B; lia.
Qed.

(* ------------------------------------------------------------------ the induction *)
Definition Main (e : expr) : Prop :=
  Down e /\
  (forall b l r0 j nm, e = EBinary b l r0 -> infix_op b = Some (j, nm) -> j <> 2%nat -> Own j e) /\
  Own9 e.

(* a level-9 tree at any level: through expr8 (no '!') and the loops above, which stop *)
Lemma down_of_own9 : forall e, Own9 e -> is9 e = true ->
  forall k pre r, (k <= 8)%nat -> wfl k e = true -> blank pre -> Follow k e r ->
    Ev (NLk k) (pre ++ print_expr esc e ++ r) (POk e r).
Proof.
  intros e HO H9 k pre r Hk Hw Hb (T & D & SF & _).
  destruct (expr_head e k Hw) as (c & x & E & Hws & Hbang).
  apply (pass_down (8 - k) 8 k); [lia|lia| |intros m Hm; apply SF; lia].
  cbn [NLk]. apply R_N8_other.
  - rewrite E. cbn [app]. rewrite (ws_blank_head pre c _ Hb Hws). cbn [chr]. now rewrite (Hbang H9).
  - apply HO; try assumption.
    + now apply (wfl_9_any e k 9).
    + destruct e; try exact I. cbn [recv_ok]. now apply tstop_vstop.
    + now apply R_Meth_stop.
Qed.

Theorem expr_main : forall n e, (esize e <= n)%nat -> Main e.
Proof.
  induction n as [|n IH]; intros e Hn; [destruct e; cbn in Hn; lia|].
  assert (IHD : forall e', (esize e' <= n)%nat -> Down e') by (intros e' H; apply (IH e' H)).
  assert (IHO : forall e' b l r0 j nm, (esize e' <= n)%nat -> e' = EBinary b l r0 ->
                infix_op b = Some (j, nm) -> j <> 2%nat -> Own j e').
  { intros e' b l r0 j nm He'. apply (proj1 (proj2 (IH e' He'))). }
  assert (IH9 : forall e', (esize e' <= n)%nat -> Own9 e') by (intros e' H; apply (IH e' H)).
  (* parsing a parenthesised or argument expression that is followed by ')' *)
  assert (Inner : forall a x, (esize a <= n)%nat -> wfl 0 a = true ->
            Ev (NL 0) (ws (print_expr esc a ++ cRPar :: x)) (POk a (cRPar :: x))).
  { intros a x Ha Hw. destruct (expr_head a 0 Hw) as (c & y & E & Hws & _).
    rewrite E. cbn [app]. rewrite ws_nonws by exact Hws.
    change (c :: y ++ cRPar :: x) with ([] ++ (c :: y) ++ cRPar :: x). rewrite <- E.
    apply (IHD a Ha 0%nat [] (cRPar :: x)); [lia|exact Hw|reflexivity|apply estop_rpar]. }
  destruct e as [t|u a|b l r0|ps body].
  - (* value *)
    assert (O9 : Own9 (EValue t)).
    { intros pre r res _ Hw Hb Hrecv HM. cbn [wfl recv_ok] in *.
      destruct (print_head3 CTerm t Hw) as (ch & x & E & Hws & Hbang & Hpar).
      apply (R_N9 _ (EValue t) r); [|exact HM]. apply R_Term_val.
      - cbn [print_expr]. rewrite E. cbn [app]. rewrite (ws_blank_head pre ch _ Hb Hws). cbn [chr]. now rewrite Hpar.
      - exists (tsize t). intros g Hg. cbn [print_expr]. rewrite p_term_blank by exact Hb.
        now apply p_term_ok_v. }
    split; [|split; [intros; discriminate|exact O9]].
    intros k pre r Hk Hw Hb HF. now apply (down_of_own9 (EValue t) O9 eq_refl).
  - (* unary *)
    cbn [esize] in Hn. destruct u.
    + (* negate *)
      split; [|split; [intros; discriminate|intros pre r res H9; discriminate]].
      intros k pre r Hk Hw Hb (T & D & SF & O). cbn [wfl] in Hw.
      apply andb_true_iff in Hw as [_ Hw]. cbn [open] in O. destruct (O eq_refl) as [S6 S7].
      apply (pass_down (8 - k) 8 k); [lia|lia| |intros m Hm; apply SF; lia].
      cbn [NLk print_expr print_unary]. apply (R_N8_neg _ (print_expr esc a ++ r)).
      * cbn [app]. rewrite (ws_blank_head pre cBang _ Hb eq_refl). cbn [chr]. now rewrite N.eqb_refl.
      * destruct (expr_head a 6 Hw) as (c & x & E & Hws & _).
        rewrite E. cbn [app]. rewrite ws_nonws by exact Hws.
        change (c :: x ++ r) with ([] ++ (c :: x) ++ r). rewrite <- E.
        apply (IHD a ltac:(lia) 6%nat [] r); [lia|exact Hw|reflexivity|].
        split; [exact T|]. split; [exact D|]. split.
        -- intros m Hm. assert (m = 6 \/ m = 7)%nat as [-> | ->] by lia; assumption.
        -- intros _. now split.
    + (* parens *)
      assert (O9 : Own9 (EUnary UParens a)).
      { intros pre r res _ Hw Hb _ HM. cbn [wfl] in Hw.
        apply (R_N9 _ (EUnary UParens a) r); [|exact HM].
        cbn [print_expr print_unary app]. rewrite <- !app_assoc. cbn [app].
        apply (R_Term_par _ (print_expr esc a ++ cRPar :: r) a (cRPar :: r) r).
        - rewrite (ws_blank_head pre cLPar _ Hb eq_refl). cbn [chr]. now rewrite N.eqb_refl.
        - apply Inner; [lia|exact Hw].
        - reflexivity. }
      split; [|split; [intros; discriminate|exact O9]].
      intros k pre r Hk Hw Hb HF. now apply (down_of_own9 (EUnary UParens a) O9 eq_refl).
    + (* .length() *)
      assert (O9 : Own9 (EUnary ULength a)).
      { intros pre r res _ Hw Hb _ HM. cbn [wfl] in Hw.
        apply andb_true_iff in Hw as [Hw Hwa]. apply andb_true_iff in Hw as [Hw Hrd].
        apply andb_true_iff in Hw as [Hun H9a].
        cbn [print_expr]. rewrite (print_umethod ULength _ eq_refl). rewrite <- app_assoc. cbn [app].
        apply (IH9 a ltac:(lia) pre); [exact H9a|exact Hwa|exact Hb|now apply vstop_dot|].
        apply (R_Meth_un a _ (umethod_text ULength ++ r) ULength r); [reflexivity| | |exact HM].
        - now apply umethod_not_binary.
        - now apply unary_method_self. }
      split; [|split; [intros; discriminate|exact O9]].
      intros k pre r Hk Hw Hb HF. now apply (down_of_own9 (EUnary ULength a) O9 eq_refl).
    + (* .type() *)
      assert (O9 : Own9 (EUnary UTypeOf a)).
      { intros pre r res _ Hw Hb _ HM. cbn [wfl] in Hw.
        apply andb_true_iff in Hw as [Hw Hwa]. apply andb_true_iff in Hw as [Hw Hrd].
        apply andb_true_iff in Hw as [Hun H9a].
        cbn [print_expr]. rewrite (print_umethod UTypeOf _ eq_refl). rewrite <- app_assoc. cbn [app].
        apply (IH9 a ltac:(lia) pre); [exact H9a|exact Hwa|exact Hb|now apply vstop_dot|].
        apply (R_Meth_un a _ (umethod_text UTypeOf ++ r) UTypeOf r); [reflexivity| | |exact HM].
        - now apply umethod_not_binary.
        - now apply unary_method_self. }
      split; [|split; [intros; discriminate|exact O9]].
      intros k pre r Hk Hw Hb HF. now apply (down_of_own9 (EUnary UTypeOf a) O9 eq_refl).
    + (* .extern::f() *)
      assert (O9 : Own9 (EUnary (UFfi name) a)).
      { intros pre r res _ Hw Hb _ HM. cbn [wfl] in Hw.
        apply andb_true_iff in Hw as [Hw Hwa]. apply andb_true_iff in Hw as [Hw Hrd].
        apply andb_true_iff in Hw as [Hun H9a].
        cbn [print_expr]. rewrite (print_umethod (UFfi name) _ eq_refl). rewrite <- app_assoc. cbn [app].
        apply (IH9 a ltac:(lia) pre); [exact H9a|exact Hwa|exact Hb|now apply vstop_dot|].
        apply (R_Meth_un a _ (umethod_text (UFfi name) ++ r) (UFfi name) r); [reflexivity| | |exact HM].
        - now apply umethod_not_binary.
        - now apply unary_method_self. }
      split; [|split; [intros; discriminate|exact O9]].
      intros k pre r Hk Hw Hb HF. now apply (down_of_own9 (EUnary (UFfi name) a) O9 eq_refl).
  - (* binary *)
    cbn [esize] in Hn.
    destruct (infix_op b) as [[j nm]|] eqn:Ei.
    2:{ (* a method call *)
      assert (O9 : Own9 (EBinary b l r0)).
      { intros pre r res _ Hw Hb _ HM. cbn [wfl] in Hw. rewrite Ei in Hw.
        apply andb_true_iff in Hw as [Hw Harg]. apply andb_true_iff in Hw as [Hw Hwl].
        apply andb_true_iff in Hw as [Hw Hrd]. apply andb_true_iff in Hw as [Hw H9l].
        apply andb_true_iff in Hw as [Hm Hbn].
        destruct (takes_closure b) eqn:Tc.
        - (* .all($p -> body) / .any(...) *)
          destruct r0 as [| | |ps body]; try discriminate.
          destruct ps as [|p [|]]; try discriminate.
          apply andb_true_iff in Harg as [Hp Hbody]. cbn [esize] in Hn.
          rewrite (method_text b l _ r Hm). rewrite closure_text.
          apply (IH9 l ltac:(lia) pre); [exact H9l|exact Hwl|exact Hb|now apply vstop_dot|].
          apply (R_Meth_bin l _ (method_name b ++ cLPar :: cDollar :: p ++ str " -> " ++
                                 print_expr esc body ++ cRPar :: r)
                            (EBinary b l (EClosure [p] body)) r); [reflexivity| |exact HM].
          apply (BM_closure l _ b (cLPar :: cDollar :: p ++ str " -> " ++ print_expr esc body ++ cRPar :: r)
                   (cDollar :: p ++ str " -> " ++ print_expr esc body ++ cRPar :: r)
                   (p ++ str " -> " ++ print_expr esc body ++ cRPar :: r) p
                   (str " -> " ++ print_expr esc body ++ cRPar :: r)
                   (cSp :: print_expr esc body ++ cRPar :: r) body (cRPar :: r) r).
          + now apply method_op_self.
          + exact Tc.
          + reflexivity.
          + reflexivity.
          + apply p_name_ok; [exact Hp|reflexivity].
          + reflexivity.
          + change (ws (cSp :: print_expr esc body ++ cRPar :: r)) with (ws (print_expr esc body ++ cRPar :: r)).
            apply Inner; [lia|exact Hbody].
          + reflexivity.
        - (* .contains(arg) ... *)
          rewrite (method_text b l r0 r Hm).
          apply (IH9 l ltac:(lia) pre); [exact H9l|exact Hwl|exact Hb|now apply vstop_dot|].
          apply (R_Meth_bin l _ (method_name b ++ cLPar :: print_expr esc r0 ++ cRPar :: r)
                            (EBinary b l r0) r); [reflexivity| |exact HM].
          apply (BM_plain l _ b (cLPar :: print_expr esc r0 ++ cRPar :: r)
                   (print_expr esc r0 ++ cRPar :: r) r0 (cRPar :: r) r).
          + now apply method_op_self.
          + exact Tc.
          + reflexivity.
          + apply Inner; [lia|exact Harg].
          + reflexivity. }
      split; [|split; [intros ? ? ? ? ? E1 E2; inversion E1; subst; congruence|exact O9]].
      intros k pre r Hk Hw Hb HF.
      assert (Hm : is_method b = true).
      { cbn [wfl] in Hw. rewrite Ei in Hw. repeat (apply andb_true_iff in Hw as [Hw _]). exact Hw. }
      apply (down_of_own9 (EBinary b l r0) O9); assumption. }
    pose proof (infix_level b j nm Ei) as Hj7.
    assert (N9 : is9 (EBinary b l r0) = false).
    { cbn [is9]. destruct b; cbn in Ei |- *; try reflexivity; discriminate. }
    destruct (Nat.eq_dec j 2) as [->|Hj2].
    + (* comparison *)
      split; [|split; [intros ? ? ? ? ? E1 E2; inversion E1; subst; rewrite Ei in E2; inversion E2; congruence|
                       intros pre r res H9; rewrite N9 in H9; discriminate]].
      intros k pre r Hk Hw Hb (T & D & SF & O). cbn [wfl] in Hw. rewrite Ei in Hw.
      apply andb_true_iff in Hw as [Hk2 Hw]. apply Nat.leb_le in Hk2. cbn [Nat.eqb] in Hw.
      apply andb_true_iff in Hw as [Hwl Hwr].
      cbn [print_expr]. rewrite (print_infix b 2 nm _ _ Ei). rewrite infix_assoc.
      destruct (stop_text b 2%nat nm (print_expr esc r0 ++ r) Ei) as (T1 & D1 & S1 & W1).
      apply (pass_down (2 - k) 2 k); [lia|lia| |intros m Hm; apply SF; lia].
      cbn [NLk].
      apply (R_NL2_cmp _ l (cSp :: str nm ++ cSp :: print_expr esc r0 ++ r) b
                       (cSp :: print_expr esc r0 ++ r) r0 r).
      * apply (IHD l ltac:(lia) 3%nat pre); [lia|exact Hwl|exact Hb|].
        split; [exact T1|]. split; [exact D1|]. split; [exact S1|]. intros _. split; apply S1; lia.
      * rewrite W1. now apply binop_at_self.
      * change (cSp :: print_expr esc r0 ++ r) with ([cSp] ++ print_expr esc r0 ++ r).
        apply (IHD r0 ltac:(lia) 3%nat [cSp]); [lia|exact Hwr|reflexivity|].
        split; [exact T|]. split; [exact D|]. split; [apply (StopFrom_weaken k 3 r); [lia|exact SF]|].
        intros _. split; apply SF; lia.
    + (* left-associative level j *)
      assert (HOwn : Own j (EBinary b l r0)).
      { intros pre r res Hw Hb T D SF O HL. cbn [wfl] in Hw. rewrite Ei in Hw.
        apply andb_true_iff in Hw as [_ Hw].
        assert (E2 : (j =? 2)%nat = false) by (now apply Nat.eqb_neq). rewrite E2 in Hw.
        apply andb_true_iff in Hw as [Hw Hwr]. apply andb_true_iff in Hw as [Hwl Hopen].
        (* the right operand as the grammar sees it *)
        assert (HR : exists r1, EBinary b l r0 = mk_binary b l r1 /\ wfl (S j) r1 = true /\
                                (esize r1 <= n)%nat /\ print_expr esc r0 = print_expr esc r1 /\
                                open r1 = (if (6 <=? j)%nat then open (EBinary b l r0) else open r1)).
        { destruct (is_lazy b) eqn:Lz.
          - destruct r0 as [| | |ps r1]; try discriminate. destruct ps; [|discriminate].
            exists r1. repeat split.
            + destruct b; try discriminate; reflexivity.
            + exact Hwr.
            + cbn [esize] in Hn. lia.
            + destruct b; try discriminate; inversion Ei; subst; reflexivity.
          - exists r0. repeat split.
            + destruct b; try discriminate; reflexivity.
            + exact Hwr.
            + lia.
            + destruct (6 <=? j)%nat eqn:E6; [|reflexivity]. apply Nat.leb_le in E6.
              symmetry. now apply (open_high b l r0 j nm Ei). }
        destruct HR as (r1 & Emk & Hwr1 & Hsz1 & Ep & Eop).
        cbn [print_expr]. rewrite (print_infix b j nm _ _ Ei). rewrite Ep.
        rewrite infix_assoc.
        destruct (stop_text b j nm (print_expr esc r1 ++ r) Ei) as (T1 & D1 & S1 & W1).
        (* the loop of level j, with l accumulated, on " op r1 ..." *)
        assert (A : Ev (NLoop j l) (cSp :: str nm ++ cSp :: print_expr esc r1 ++ r) res).
        { apply (R_Loop_step j l _ b (cSp :: print_expr esc r1 ++ r) r1 r).
          - rewrite W1. now apply binop_at_self.
          - rewrite next_level_NLk by exact Hj7.
            change (cSp :: print_expr esc r1 ++ r) with ([cSp] ++ print_expr esc r1 ++ r).
            apply (IHD r1 Hsz1 (S j) [cSp]); [lia|exact Hwr1|reflexivity|].
            split; [exact T|]. split; [exact D|]. split; [exact SF|].
            intro Ho1. destruct (6 <=? j)%nat eqn:E6.
            + rewrite Eop in Ho1. now apply O.
            + apply Nat.leb_gt in E6. split; apply SF; lia.
          - rewrite <- Emk. exact HL. }
        (* the left operand *)
        assert (Hol : open l = true -> (6 <= j)%nat -> False).
        { intros Ho H6. apply Nat.leb_le in H6. rewrite H6 in Hopen. rewrite Ho in Hopen. discriminate. }
        destruct (wfl_cases j l Hj7 Hj2 Hwl) as [(b' & l' & r' & nm' & El & Ei')|Hnext].
        * (* left-nested at the same level *)
          apply (IHO l b' l' r' j nm' ltac:(lia) El Ei' Hj2 pre); try assumption.
          intro Ho. destruct (Nat.le_gt_cases 6 j) as [H6|H6]; [exfalso; now apply Hol|].
          subst l. rewrite (open_low b' l' r' j nm' Ei' H6) in Ho. discriminate.
        * apply (R_NL j _ l (cSp :: str nm ++ cSp :: print_expr esc r1 ++ r)); [exact Hj2| |exact A].
          rewrite next_level_NLk by exact Hj7.
          apply (IHD l ltac:(lia) (S j) pre); [lia|exact Hnext|exact Hb|].
          split; [exact T1|]. split; [exact D1|]. split; [exact S1|].
          intro Ho. destruct (Nat.le_gt_cases 6 j) as [H6|H6]; [exfalso; now apply Hol|].
          split; apply S1; lia. }
      split; [|split].
      * intros k pre r Hk Hw Hb (T & D & SF & O).
        assert (Hkj : (k <= j)%nat).
        { cbn [wfl] in Hw. rewrite Ei in Hw. apply andb_true_iff in Hw as [Hw _]. now apply Nat.leb_le in Hw. }
        assert (Hwj : wfl j (EBinary b l r0) = true).
        { cbn [wfl] in *. rewrite Ei in *. apply andb_true_iff in Hw as [_ Hw]. rewrite Hw.
          rewrite andb_true_r. apply Nat.leb_le. lia. }
        apply (pass_down (j - k) j k); [lia|lia| |intros m Hm; apply SF; lia].
        rewrite NLk_low by exact Hj7.
        apply HOwn; try assumption.
        -- apply (StopFrom_weaken k (S j)); [lia|exact SF].
        -- pose proof (SF j ltac:(lia)) as Sj. unfold StopL in Sj.
           assert (E2 : Nat.eqb j 2 = false) by (now apply Nat.eqb_neq). rewrite E2 in Sj. apply Sj.
      * intros b0 l0 r00 j0 nm0 E1 E2 Hne. inversion E1; subst b0 l0 r00. rewrite Ei in E2.
        inversion E2; subst j0 nm0. exact HOwn.
      * intros pre r res H9. rewrite N9 in H9. discriminate.
  - (* closure: not a stand-alone tree *)
    split; [|split; [intros; discriminate|intros pre r res H9; discriminate]].
    intros k pre r Hk Hw. discriminate.
Qed.
End Esc.

(* ------------------------------------------------------------------ top level *)
Theorem expr_roundtrip : forall esc e r, wfl esc 0 e = true -> estop r ->
  exists g0, forall g, (g0 <= g)%nat -> p_expr g (print_expr esc e ++ r) = POk e r.
Proof.
  intros esc e r Hw (T & D & B).
  destruct (expr_main esc (esize e) e (le_n _)) as [HD _].
  apply (HD 0%nat [] r); [lia|exact Hw|reflexivity|].
  split; [exact T|]. split; [exact D|]. split.
  - intros m Hm. apply stop_none. apply B. lia.
  - intros _. split; apply stop_none; apply B; lia.
Qed.

(* the stack machine of datalog::Expression::print computes the tree printer on post-orders *)
Lemma print_op_run : forall esc l st,
  (fix run (l : list op) (st : list text) {struct l} : option (list text) :=
     match l with
     | [] => Some st
     | o :: l' => match print_op esc o st with Some st' => run l' st' | None => None end
     end) l st = print_ops_st esc l st.
Proof. induction l as [|o l IH]; intro st; cbn; [reflexivity|]. destruct (print_op esc o st); auto. Qed.

Lemma print_ops_st_app : forall esc a b st,
  print_ops_st esc (a ++ b) st =
  match print_ops_st esc a st with Some st' => print_ops_st esc b st' | None => None end.
Proof.
  induction a as [|o a IH]; intros b st; cbn [app print_ops_st]; [reflexivity|].
  destruct (print_op esc o st); [apply IH|reflexivity].
Qed.

Lemma print_opcodes_st : forall esc e st,
  print_ops_st esc (opcodes e) st = Some (print_expr esc e :: st).
Proof.
  induction e as [t|u a IH|b l IHl r IHr|ps body IH]; intro st; cbn [opcodes print_expr].
  - reflexivity.
  - rewrite print_ops_st_app, IH. reflexivity.
  - rewrite print_ops_st_app, IHl. rewrite print_ops_st_app, IHr. reflexivity.
  - cbn [print_ops_st print_op]. rewrite print_op_run. rewrite IH. reflexivity.
Qed.

Theorem print_ops_opcodes : forall esc e, print_ops esc (opcodes e) = Some (print_expr esc e).
Proof. intros. unfold print_ops. now rewrite print_opcodes_st. Qed.

(* C10: budgets are enforced by the repaired state machine; the pre-fix machine is refuted. *)
From Biscuit Require Import Model.Limits.

Section Budget.
Variable orc : oracles.
Variable oc : bool.
Variable rules : list rule_entry.

(* ---- the engine loop never counts more iterations than it was given ---- *)
Lemma rwl_index_bound fuel : forall mf mi tl index facts c r facts' idx c',
  (index < mi)%N ->
  rwl orc rules fuel mf mi tl index facts c = (r, facts', idx, c') ->
  (idx <= mi)%N.
Proof.
  induction fuel as [|f IH]; intros mf mi tl index facts c r facts' idx c' Hi H; cbn [rwl] in H.
  - inversion H; subst. lia.
  - destruct (apply_rules orc facts rules) as [new|e].
    + cbv zeta in H.
      destruct (length (merge facts new) =? length facts)%nat; [inversion H; subst; lia|].
      destruct (N.eqb_spec (N.succ index) mi) as [E|E]; [inversion H; subst; lia|].
      destruct (mf <=? nlen (merge facts new))%N; [inversion H; subst; lia|].
      destruct (tick c) as [now c1] eqn:T.
      destruct tl as [tl|].
      * destruct (tl <=? now)%N; [inversion H; subst; lia|]. eapply IH; [|exact H]. lia.
      * eapply IH; [|exact H]. lia.
    + inversion H; subst. lia.
Qed.

(* a successful loop ends with fewer than max_facts facts unless nothing was derived *)
Lemma rwl_facts_bound fuel : forall mf mi tl index facts c facts' idx c',
  rwl orc rules fuel mf mi tl index facts c = (None, facts', idx, c') ->
  (nlen facts' < mf)%N \/ length facts' = length facts.
Proof.
  induction fuel as [|f IH]; intros mf mi tl index facts c facts' idx c' H; cbn [rwl] in H; [discriminate|].
  destruct (apply_rules orc facts rules) as [new|e]; [|discriminate].
  cbv zeta in H.
  destruct (length (merge facts new) =? length facts)%nat eqn:L.
  - inversion H; subst. right. apply Nat.eqb_eq. assumption.
  - destruct (N.eqb (N.succ index) mi); [discriminate|].
    destruct (mf <=? nlen (merge facts new))%N eqn:F; [discriminate|].
    destruct (tick c) as [now c1].
    assert (G : (nlen facts' < mf)%N \/ length facts' = length (merge facts new)).
    { destruct tl as [tl|]; [destruct (tl <=? now)%N; [discriminate|]|]; eapply IH; exact H. }
    destruct G as [G|G]; [left; assumption|]. left. unfold nlen in *. rewrite G.
    apply N.leb_gt in F. assumption.
Qed.

Definition st_ok (l : limits) (st : astate) : Prop :=
  (s_iter st <= max_iter l)%N /\
  (forall t, s_exec st = Some t -> (nlen (s_facts st) <= max_facts l)%N).

Lemma run_with_limits_bounds l mi facts c r facts' idx c' :
  run_with_limits orc false rules l mi facts c = (r, facts', idx, c') ->
  (idx <= mi)%N /\ (r = None -> (nlen facts' <= max_facts l)%N).
Proof.
  unfold run_with_limits. destruct (tick c) as [start c1].
  rewrite andb_false_r. cbn [negb andb].
  destruct (N.eqb_spec mi 0) as [E|E]; [intro H; inversion H; subst; split; [lia|discriminate]|].
  destruct (max_facts l <? nlen facts)%N eqn:F; [intro H; inversion H; subst; split; [lia|discriminate]|].
  intro H. split.
  - eapply rwl_index_bound; [|exact H]. lia.
  - intros ->. apply rwl_facts_bound in H. apply N.ltb_ge in F. destruct H as [H|H]; [lia|].
    unfold nlen in *. lia.
Qed.

Lemma a_run_ok l st c r st' c' :
  (max_iter l < two64)%N -> st_ok l st ->
  a_run orc false rules l st c = (r, st', c') ->
  st_ok l st' /\ (forall t, r = inr t -> (nlen (s_facts st') <= max_facts l)%N).
Proof.
  intros Hm [I1 I2] H. unfold a_run in H. destruct (s_exec st) as [t0|] eqn:E.
  - inversion H; subst. split; [split; [assumption|]|]; intros t _; apply (I2 t0); reflexivity.
  - destruct (tick c) as [start c1]. cbn [negb] in H.
    destruct (run_with_limits orc false rules l (max_iter l - s_iter st) (s_facts st) c1)
      as [[[r0 facts'] idx] c2] eqn:R.
    destruct (run_with_limits_bounds _ _ _ _ _ _ _ _ R) as [B1 B2].
    assert ((s_iter st + idx) mod two64 <= max_iter l)%N as Hi.
    { rewrite N.mod_small; lia. }
    destruct r0 as [e|].
    + inversion H; subst. split; [|discriminate]. split; [assumption|]. cbn. discriminate.
    + destruct (tick c2) as [now c3]. inversion H; subst. cbn [s_facts s_iter s_exec].
      split; [split; [assumption|]|]; intros; apply B2; reflexivity.
Qed.

(* what a call reports *)
Definition is_success (r : lobs_res) : bool :=
  match r with BErr _ => false | _ => true end.

Definition obs_ok (l : limits) (o : lobs) : Prop :=
  let '(r, it, fc, ex) := o in
  (it <= max_iter l)%N /\ (is_success r = true -> (fc <= max_facts l)%N).

Lemma step_ok l t a op st c o st' c' :
  (max_iter l < two64)%N -> st_ok l st ->
  step orc false oc l t a rules op st c = (o, st', c') ->
  obs_ok l o /\ st_ok l st'.
Proof.
  intros Hm Hst H. unfold step in H. destruct op.
  - destruct (a_run orc false rules l st c) as [[r st1] c1] eqn:R.
    destruct (a_run_ok _ _ _ _ _ _ Hm Hst R) as [S1 S2].
    destruct r as [e|t0]; inversion H; subst; (split; [|assumption]); cbn; split;
      try apply S1; try discriminate. intros _. apply (S2 t0). reflexivity.
  - unfold a_authorize in H.
    destruct (a_run orc false rules l st c) as [[r st1] c1] eqn:R.
    destruct (a_run_ok _ _ _ _ _ _ Hm Hst R) as [S1 S2].
    destruct r as [e|t0].
    + inversion H; subst. split; [|assumption]. cbn. split; [apply S1|discriminate].
    + specialize (S2 t0 eq_refl).
      destruct (sub_iterations false oc (max_iter l) (s_iter st1)) as [x|].
      * destruct (negb (time_is_max l) && (max_time l <=? t0)%N).
        -- inversion H; subst. split; [|assumption]. cbn. split; [apply S1|discriminate].
        -- destruct (tick c1) as [start c2]. destruct (tick c2) as [start_i c3].
           rewrite andb_false_r in H.
           destruct (t_decide orc (s_facts st1) t a _ c3) as [o1 c4|e c4]; destruct (tick c4) as [now c5];
             inversion H; subst; cbn; (split; [split; [apply S1|intros; assumption]|]);
             (split; [apply S1|intros; assumption]).
      * inversion H; subst. split; [|assumption]. cbn. split; [apply S1|discriminate].
  - unfold a_query in H.
    destruct (a_run orc false rules l st c) as [[r st1] c1] eqn:R.
    destruct (a_run_ok _ _ _ _ _ _ Hm Hst R) as [S1 S2].
    destruct r as [e|t0].
    + inversion H; subst. split; [|assumption]. cbn. split; [apply S1|discriminate].
    + specialize (S2 t0 eq_refl).
      destruct (sub_iterations false oc (max_iter l) (s_iter st1)) as [x|].
      * destruct (negb (time_is_max l) && (max_time l <=? t0)%N).
        -- inversion H; subst. split; [|assumption]. cbn. split; [apply S1|discriminate].
        -- destruct (tick c1) as [start c2]. destruct (tick c2) as [now c3].
           inversion H; subst; cbn; (split; [split; [apply S1|intros; assumption]|]);
             (split; [apply S1|intros; assumption]).
      * inversion H; subst. split; [|assumption]. cbn. split; [apply S1|discriminate].
Qed.

(* EVERY CALL OF EVERY HISTORY STAYS WITHIN THE ITERATION BUDGET, AND EVERY SUCCESSFUL CALL
   WITHIN THE FACT BUDGET *)
Theorem history_within_budget l t a ops : forall st c,
  (max_iter l < two64)%N -> st_ok l st ->
  Forall (obs_ok l) (run_history orc false oc l t a rules ops st c).
Proof.
  induction ops as [|op ops IH]; intros st c Hm Hst; cbn [run_history]; [constructor|].
  destruct (step orc false oc l t a rules op st c) as [[o st'] c'] eqn:S.
  destruct (step_ok _ _ _ _ _ _ _ _ _ Hm Hst S) as [O1 O2].
  destruct o as [[[r it] fc] ex]. cbn [fst].
  destruct r as [| | |[| |]]; constructor; try assumption; try (apply IH; assumption); constructor.
Qed.

(* the repaired machine never panics *)
Lemma sub_iterations_total mi it : sub_iterations false oc mi it <> None.
Proof. unfold sub_iterations. destruct (it <=? mi)%N; discriminate. Qed.

(* ---- time: a decision is only reached while every reading stayed below the limit ---- *)
Definition last_reading_ok (tl : option N) (c c' : clock) : Prop :=
  c' = c \/ timed_out tl (c_now c' - c_step c')%N = false.

Lemma tick_now c now c' : tick c = (now, c') -> (c_now c' - c_step c')%N = now /\ c_step c' = c_step c.
Proof. unfold tick. intro H. inversion H; subst. cbn. split; [lia|reflexivity]. Qed.

Lemma t_any_query_time k facts default cur km tl qs : forall c b c',
  t_any_query orc k facts default cur km tl qs c = TOk b c' -> last_reading_ok tl c c'.
Proof.
  induction qs as [|q qs IH]; intros c b c' H; cbn [t_any_query] in H.
  - inversion H; subst. left; reflexivity.
  - destruct (query_holds orc k facts (from_scopes (rscopes q) default cur km) q) as [x|]; [|discriminate].
    destruct (tick c) as [now c1] eqn:T. destruct (timed_out tl now) eqn:O; [discriminate|].
    destruct (tick_now _ _ _ T) as [T1 T2]. rewrite <- T1 in O. clear T1 T.
    destruct x.
    + inversion H; subst. right. assumption.
    + destruct (IH _ _ _ H) as [->|G]; [right; assumption|right; assumption].
Qed.

End Budget.

(* ---- the pre-fix machine breaks every clause: concrete histories, replayed on the code ---- *)
Definition lx_orc : oracles :=
  {| regex_match := fun _ _ => Ok false; extern_call := fun _ _ _ => Err EUndefinedExtern |}.
Definition lx_pred (n : string) (a : list term) : pred := mkpred (Sym (str n)) a.
(* p(0), succ(0,1), succ(1,2), succ(2,3); p($1) <- p($0), succ($0,$1): three productive passes *)
Definition lx_token : token :=
  [mkblock [mkfact (Sym (str "p")) [VInt 0];
            mkfact (Sym (str "succ")) [VInt 0; VInt 1];
            mkfact (Sym (str "succ")) [VInt 1; VInt 2];
            mkfact (Sym (str "succ")) [VInt 2; VInt 3]]
           [mkrule (lx_pred "p" [TVar 1]) [lx_pred "p" [TVar 0]; lx_pred "succ" [TVar 0; TVar 1]] [] []]
           [] [] None].
Definition lx_auth : authorizer :=
  mkauth [] [] [] [mkpolicy PAllow [mkrule (lx_pred "query" []) [] [[OVal (VBool true)]] []]] [].
Definition lx_clock : clock := mkclock 1000 10.
Definition lx_big : N := 3600000000000%N.

(* max_iterations = 0: evaluation runs anyway; the call succeeds reporting 3 iterations *)
Lemma zero_iterations_refuted :
  history lx_orc true false (mklimits 1000 0 lx_big false) lx_token lx_auth [LRun] lx_clock
    = [(BRunOk, 3%N, 7%N, Some 50%N)] /\
  history lx_orc false false (mklimits 1000 0 lx_big false) lx_token lx_auth [LRun] lx_clock
    = [(BErr (LLimit TooManyIterations), 0%N, 4%N, None)].
Proof. split; vm_compute; reflexivity. Qed.

(* a failed run is forgotten: the second call gets a fresh budget and succeeds after 3 > 2
   iterations; in a debug build the third call then panics on the u64 subtraction *)
Lemma retry_refuted :
  history lx_orc true false (mklimits 1000 2 lx_big false) lx_token lx_auth [LRun; LRun] lx_clock
    = [(BErr (LLimit TooManyIterations), 2%N, 6%N, None); (BRunOk, 3%N, 7%N, Some 30%N)] /\
  history lx_orc true true (mklimits 1000 2 lx_big false) lx_token lx_auth [LRun; LRun; LAuthorize] lx_clock
    = [(BErr (LLimit TooManyIterations), 2%N, 6%N, None); (BRunOk, 3%N, 7%N, Some 30%N);
       (BErr LPanic, 3%N, 7%N, Some 30%N)] /\
  history lx_orc false true (mklimits 1000 2 lx_big false) lx_token lx_auth [LRun; LRun; LAuthorize] lx_clock
    = [(BErr (LLimit TooManyIterations), 2%N, 6%N, None);
       (BErr (LLimit TooManyIterations), 2%N, 6%N, None);
       (BErr (LLimit TooManyIterations), 2%N, 6%N, None)].
Proof. repeat split; vm_compute; reflexivity. Qed.

(* facts present before the first pass are never counted *)
Lemma initial_facts_refuted :
  history lx_orc true false (mklimits 2 1000 lx_big false)
          [mkblock (bfacts (hd (mkblock [] [] [] [] None) lx_token)) [] [] [] None] lx_auth [LRun] lx_clock
    = [(BRunOk, 0%N, 4%N, Some 20%N)] /\
  history lx_orc false false (mklimits 2 1000 lx_big false)
          [mkblock (bfacts (hd (mkblock [] [] [] [] None) lx_token)) [] [] [] None] lx_auth [LRun] lx_clock
    = [(BErr (LLimit TooManyFacts), 0%N, 4%N, None)].
Proof. split; vm_compute; reflexivity. Qed.

(* Duration::MAX as time limit: panic before, no limit after *)
Lemma duration_max_refuted :
  history lx_orc true false (mklimits 1000 1000 0 true) lx_token lx_auth [LAuthorize] lx_clock
    = [(BErr LPanic, 0%N, 4%N, None)] /\
  history lx_orc false false (mklimits 1000 1000 0 true) lx_token lx_auth [LAuthorize] lx_clock
    = [(BAuth (OAllow 0), 3%N, 7%N, Some 80%N)].
Proof. split; vm_compute; reflexivity. Qed.

(* known finding time-budget-restarts-after-failed-run (code as it is, after the fixes): the
   evaluation needs 50 clock units; with max_time = 25 the first call is stopped with Timeout,
   and the retry succeeds, reporting 20 units -- the time spent by the failed call is forgotten,
   so a caller that retries gets more than max_time of evaluation in total *)
Lemma time_restart_refuted :
  history lx_orc false false (mklimits 1000 1000 1000 false) lx_token lx_auth [LRun] lx_clock
    = [(BRunOk, 3%N, 7%N, Some 50%N)] /\
  history lx_orc false false (mklimits 1000 1000 25 false) lx_token lx_auth [LRun; LRun] lx_clock
    = [(BErr (LLimit Timeout), 3%N, 7%N, None); (BRunOk, 3%N, 7%N, Some 20%N)].
Proof. split; vm_compute; reflexivity. Qed.

(* Proofs about Model.Params (properties C20 and C18). *)
From Biscuit Require Import Model.Params.

(* ------------------------------------------------------------------ witnesses (DESIGN section 8) *)
Definition vx : pterm := PVar (str "x").
Definition np : name := str "p".

(* h($x) <- b($x, [{p}]) *)
Definition w_nested_pred : iskel :=
  IRule ((str "h", [vx]), [(str "b", [vx; PColl CArray [PParam np]])], [], []).

(* h($x) <- b($x), [{p}].contains($x) *)
Definition w_nested_expr : iskel :=
  IRule ((str "h", [vx]), [(str "b", [vx])],
         [[POVal (PColl CArray [PParam np]); POVal vx; POBin BContains]], []).

(* f({{p}: 1}) *)
Definition w_mapkey : iskel := IFact (str "f", [PMap [(PKParam np, PLit (LInt 1))]]).

Definition bound_state (c : cfg) (mode : cmode) (i : iskel) (n : name) (v : pterm) : istate :=
  fst (run_cmd (construct c mode i) (CmdSet n v)).

Lemma nested_pred_refuted :
  state_validate faithful (bound_state faithful MNew w_nested_pred np (PLit (LInt 1))) = None
  /\ state_convert faithful (bound_state faithful MNew w_nested_pred np (PLit (LInt 1))) = None.
Proof. split; vm_compute; reflexivity. Qed.

Lemma nested_expr_refuted :
  (* builder API / macro expansion: the parameter is not even known to the item *)
  snd (run_cmd (construct faithful MNew w_nested_expr) (CmdSet np (PLit (LInt 1)))) = Some (EUnused np)
  /\ state_validate faithful (construct faithful MNew w_nested_expr) = None
  /\ state_convert faithful (construct faithful MNew w_nested_expr) = None
  (* parsed item: known, bound, validated, not substituted *)
  /\ state_validate faithful (bound_state faithful MParsed w_nested_expr np (PLit (LInt 1))) = None
  /\ state_convert faithful (bound_state faithful MParsed w_nested_expr np (PLit (LInt 1))) = None.
Proof. repeat split; vm_compute; reflexivity. Qed.

Lemma mapkey_refuted :
  state_validate faithful (bound_state faithful MNew w_mapkey np (PLit (LBool true))) = None
  /\ state_convert faithful (bound_state faithful MNew w_mapkey np (PLit (LBool true))) = None.
Proof. split; vm_compute; reflexivity. Qed.

(* ------------------------------------------------------------------ induction principles *)
Section PtermInd.
  Variable P : pterm -> Prop.
  Hypothesis Hvar : forall n, P (PVar n).
  Hypothesis Hlit : forall l, P (PLit l).
  Hypothesis Hparam : forall n, P (PParam n).
  Hypothesis Hcoll : forall k l, Forall P l -> P (PColl k l).
  Hypothesis Hmap : forall l, Forall (fun kv => P (snd kv)) l -> P (PMap l).

  Fixpoint pterm_ind' (t : pterm) : P t :=
    match t with
    | PVar n => Hvar n
    | PLit l => Hlit l
    | PParam n => Hparam n
    | PColl k l =>
        Hcoll k l ((fix go (l : list pterm) : Forall P l :=
                      match l with
                      | [] => Forall_nil _
                      | x :: l' => Forall_cons _ (pterm_ind' x) (go l')
                      end) l)
    | PMap l =>
        Hmap l ((fix go (l : list (pkey * pterm)) : Forall (fun kv => P (snd kv)) l :=
                   match l with
                   | [] => Forall_nil _
                   | kv :: l' => Forall_cons _ (pterm_ind' (snd kv)) (go l')
                   end) l)
    end.
End PtermInd.

Section PopInd.
  Variable P : pop -> Prop.
  Hypothesis Hval : forall t, P (POVal t).
  Hypothesis Hun : forall u, P (POUn u).
  Hypothesis Hbin : forall b, P (POBin b).
  Hypothesis Hclo : forall ps body, Forall P body -> P (POClo ps body).

  Fixpoint pop_ind' (o : pop) : P o :=
    match o with
    | POVal t => Hval t
    | POUn u => Hun u
    | POBin b => Hbin b
    | POClo ps body =>
        Hclo ps body ((fix go (l : list pop) : Forall P l :=
                         match l with
                         | [] => Forall_nil _
                         | x :: l' => Forall_cons _ (pop_ind' x) (go l')
                         end) body)
    end.
End PopInd.

(* ------------------------------------------------------------------ list helpers *)
Lemma map_ext_Forall {A B} (f g : A -> B) (l : list A) :
  Forall (fun x => f x = g x) l -> map f l = map g l.
Proof. induction 1 as [|x l Hx _ IH]; cbn; [reflexivity | now rewrite Hx, IH]. Qed.

Lemma flat_map_ext_Forall {A B} (f g : A -> list B) (l : list A) :
  Forall (fun x => f x = g x) l -> flat_map f l = flat_map g l.
Proof. induction 1 as [|x l Hx _ IH]; cbn; [reflexivity | now rewrite Hx, IH]. Qed.

Lemma flat_map_flat_map {A B C} (f : B -> list C) (g : A -> list B) (l : list A) :
  flat_map f (flat_map g l) = flat_map (fun x => flat_map f (g x)) l.
Proof. induction l as [|x l IH]; cbn; [reflexivity | now rewrite flat_map_app, IH]. Qed.

Lemma flat_map_map {A B C} (f : B -> list C) (g : A -> B) (l : list A) :
  flat_map f (map g l) = flat_map (fun x => f (g x)) l.
Proof. induction l as [|x l IH]; cbn; [reflexivity | now rewrite IH]. Qed.

Lemma flat_map_nil_iff {A B} (f : A -> list B) (l : list A) :
  flat_map f l = [] <-> Forall (fun x => f x = []) l.
Proof.
  induction l as [|x l IH]; cbn.
  - split; [constructor | reflexivity].
  - split.
    + intros H. apply app_eq_nil in H as [H1 H2]. constructor; [exact H1 | now apply IH].
    + intros H. inversion H as [|? ? H1 H2]; subst. rewrite H1. now apply IH.
Qed.

(* ------------------------------------------------------------------ Spec: shape of a substitution *)
Lemma key_shape_subst (s : tenv) (k : pkey) :
  key_shape (subst_key s k) = graft_key s (key_shape k).
Proof.
  destruct k as [i|b|n]; cbn; try reflexivity.
  destruct (s n) as [v|]; cbn; [|reflexivity].
  destruct (key_of_term v); reflexivity.
Qed.

Lemma shape_subst (s : tenv) (t : pterm) : shape (subst s t) = graft s (shape t).
Proof.
  induction t as [n|l|n|k l IH|l IH] using pterm_ind'; cbn; try reflexivity.
  - destruct (s n); reflexivity.
  - f_equal. rewrite !map_map. apply map_ext_Forall. exact IH.
  - f_equal. rewrite !map_map. apply map_ext_Forall.
    eapply Forall_impl; [|exact IH]. cbn. intros kv H. now rewrite key_shape_subst, H.
Qed.

Lemma op_shape_subst (s : tenv) (o : pop) : op_shape (op_map (subst s) o) = op_graft s (op_shape o).
Proof.
  induction o as [t|u|b|ps body IH] using pop_ind'; cbn; try reflexivity.
  - now rewrite shape_subst.
  - f_equal. rewrite !map_map. apply map_ext_Forall. exact IH.
Qed.

Lemma pred_shape_subst (s : tenv) (p : ppred) :
  pred_shape (pred_map (subst s) p) = pred_graft s (pred_shape p).
Proof.
  destruct p as [n ts]. unfold pred_shape, pred_map, pred_graft; cbn. f_equal.
  rewrite !map_map. apply map_ext. intros t. apply shape_subst.
Qed.

Lemma scope_shape_subst (k : senv) (sc : pscope) :
  scope_shape (subst_scope k sc) = scope_graft k (scope_shape sc).
Proof. destruct sc as [| |b|n]; cbn; try reflexivity. destruct (k n); reflexivity. Qed.

Lemma rskel_shape_subst (s : tenv) (k : senv) (r : rskel) :
  rskel_shape (rskel_map (subst s) (subst_scope k) r) = rshape_graft s k (rskel_shape r).
Proof.
  destruct r as [[[h b] e] sc]. cbn. repeat f_equal.
  - apply pred_shape_subst.
  - rewrite !map_map. apply map_ext. intros p. apply pred_shape_subst.
  - rewrite !map_map. apply map_ext. intros ops. rewrite !map_map. apply map_ext. intros o.
    apply op_shape_subst.
  - rewrite !map_map. apply map_ext. intros x. apply scope_shape_subst.
Qed.

Lemma item_shape_subst (s : tenv) (k : senv) (i : iskel) :
  item_shape (subst_item s k i) = ishape_graft s k (item_shape i).
Proof.
  destruct i as [p|r|c qs|c qs]; cbn.
  - now rewrite pred_shape_subst.
  - now rewrite rskel_shape_subst.
  - f_equal. rewrite !map_map. apply map_ext. intros r. apply rskel_shape_subst.
  - f_equal. rewrite !map_map. apply map_ext. intros r. apply rskel_shape_subst.
Qed.

(* two values that fill a hole the same way: same shape as a term, same kind as a key *)
Definition same_fill (v w : pterm) : Prop :=
  shape v = shape w
  /\ option_map key_shape (key_of_term v) = option_map key_shape (key_of_term w).

Definition env_same_fill (s s' : tenv) : Prop :=
  forall n, match s n, s' n with
            | Some v, Some w => same_fill v w
            | None, None => True
            | _, _ => False
            end.

Definition senv_same_dom (k k' : senv) : Prop :=
  forall n, match k n, k' n with Some _, Some _ | None, None => True | _, _ => False end.

Lemma graft_same_fill (s s' : tenv) (t : tshape) : env_same_fill s s' -> graft s t = graft s' t.
Proof.
  intros H. revert t.
  fix IH 1. intros [|n|k l|l]; cbn.
  - reflexivity.
  - specialize (H n). destruct (s n), (s' n); try contradiction; [apply H | reflexivity].
  - f_equal. induction l as [|x l IHl]; cbn; [reflexivity | now rewrite IH, IHl].
  - f_equal. induction l as [|[kk x] l IHl]; cbn; [reflexivity|].
    rewrite IH, IHl.
    assert (graft_key s kk = graft_key s' kk) as ->; [|reflexivity].
    destruct kk as [| |n]; cbn; try reflexivity.
    specialize (H n). destruct (s n) as [v|], (s' n) as [w|]; try contradiction; [|reflexivity].
    destruct H as [_ H]. destruct (key_of_term v), (key_of_term w); cbn in H; congruence.
Qed.

Lemma op_graft_same_fill (s s' : tenv) (o : opshape) : env_same_fill s s' -> op_graft s o = op_graft s' o.
Proof.
  intros H. revert o. fix IH 1. intros [t|u|b|ps body]; cbn; try reflexivity.
  - now rewrite (graft_same_fill s s' t H).
  - f_equal. induction body as [|x l IHl]; cbn; [reflexivity | now rewrite IH, IHl].
Qed.

Lemma ishape_graft_same_fill (s s' : tenv) (k k' : senv) (i : ishape) :
  env_same_fill s s' -> senv_same_dom k k' -> ishape_graft s k i = ishape_graft s' k' i.
Proof.
  intros Hs Hk.
  assert (Hp : forall p, pred_graft s p = pred_graft s' p).
  { intros [n ts]. unfold pred_graft; cbn. f_equal. apply map_ext. intros t. now apply graft_same_fill. }
  assert (Hsc : forall x, scope_graft k x = scope_graft k' x).
  { intros [| | |n]; cbn; try reflexivity. specialize (Hk n). destruct (k n), (k' n); tauto. }
  assert (Hr : forall r, rshape_graft s k r = rshape_graft s' k' r).
  { intros [[[h b] e] sc]. cbn. rewrite (Hp h).
    rewrite (map_ext _ _ Hp b). rewrite (map_ext _ _ Hsc sc).
    rewrite (map_ext (map (op_graft s)) (map (op_graft s')));
      [reflexivity | intros ops; apply map_ext; intros o; now apply op_graft_same_fill]. }
  destruct i as [p|r|c qs|c qs]; cbn; f_equal; auto; apply map_ext; exact Hr.
Qed.

Lemma shape_preserved (s : tenv) (k : senv) (i : iskel) :
  item_shape (subst_item s k i) = ishape_graft s k (item_shape i).
Proof. apply item_shape_subst. Qed.

Lemma shape_independent_of_content (s s' : tenv) (k k' : senv) (i : iskel) :
  env_same_fill s s' -> senv_same_dom k k' ->
  item_shape (subst_item s k i) = item_shape (subst_item s' k' i).
Proof. intros Hs Hk. rewrite !item_shape_subst. now apply ishape_graft_same_fill. Qed.

Lemma strings_same_fill (a b : bytes) : same_fill (PLit (LStr a)) (PLit (LStr b)).
Proof. split; reflexivity. Qed.

(* ------------------------------------------------------------------ Spec: substitution is exact *)
(* positions inside a term: child indices from the root *)
Fixpoint subterm_at (pi : list nat) (t : pterm) : option pterm :=
  match pi with
  | [] => Some t
  | i :: pi' =>
      match t with
      | PColl _ l => match nth_error l i with Some x => subterm_at pi' x | None => None end
      | PMap l => match nth_error l i with Some kv => subterm_at pi' (snd kv) | None => None end
      | _ => None
      end
  end.

(* every position of the original term holds, after substitution, the substituted subterm *)
Lemma subterm_subst' (s : tenv) (pi : list nat) (t u : pterm) :
  subterm_at pi t = Some u -> subterm_at pi (subst s t) = Some (subst s u).
Proof.
  revert t. induction pi as [|i pi IH]; intros t Hu.
  - cbn in *. now injection Hu as <-.
  - destruct t as [n|l|n|k l|l]; cbn in Hu; try discriminate; cbn; rewrite nth_error_map.
    + destruct (nth_error l i) as [x|]; [|discriminate]. cbn. now apply IH.
    + destruct (nth_error l i) as [kv|]; [|discriminate]. cbn. now apply IH.
Qed.

Lemma subst_exact (s : tenv) (t : pterm) (pi : list nat) :
  match subterm_at pi t with
  | Some (PParam p) =>
      subterm_at pi (subst s t) = Some (match s p with Some v => v | None => PParam p end)
  | Some (PVar x) => subterm_at pi (subst s t) = Some (PVar x)
  | Some (PLit l) => subterm_at pi (subst s t) = Some (PLit l)
  | Some (PColl k l) =>
      exists l', subterm_at pi (subst s t) = Some (PColl k l') /\ length l' = length l
  | Some (PMap l) =>
      exists l', subterm_at pi (subst s t) = Some (PMap l') /\ length l' = length l
                 /\ forall i kv, nth_error l i = Some kv ->
                                 exists kv', nth_error l' i = Some kv' /\ fst kv' = subst_key s (fst kv)
  | None => True
  end.
Proof.
  destruct (subterm_at pi t) as [u|] eqn:Hu; [|exact I].
  pose proof (subterm_subst' s pi t u Hu) as H.
  destruct u as [n|l|n|k l|l]; cbn in H; try exact H.
  - eexists. split; [exact H | apply map_length].
  - eexists. split; [exact H|]. split; [apply map_length|].
    intros i kv Hi. rewrite nth_error_map, Hi. cbn. eexists. split; reflexivity.
Qed.

Lemma subst_key_exact (s : tenv) (k : pkey) :
  match k with
  | PKParam p => match s p with
                 | Some (PLit (LInt i)) => subst_key s k = PKInt i
                 | Some (PLit (LStr b)) => subst_key s k = PKStr b
                 | _ => subst_key s k = k
                 end
  | _ => subst_key s k = k
  end.
Proof.
  destruct k as [i|b|p]; cbn; try reflexivity.
  destruct (s p) as [[n|[i|b|d|b|b|]|n|c l|l]|]; reflexivity.
Qed.

(* all term positions of an item, in order (closure bodies included), and its scopes *)
Fixpoint op_terms (o : pop) : list pterm :=
  match o with
  | POVal t => [t]
  | POClo _ body => flat_map op_terms body
  | _ => []
  end.

Definition rskel_terms (r : rskel) : list pterm :=
  let '(h, b, e, _) := r in
  snd h ++ flat_map snd b ++ flat_map (flat_map op_terms) e.

Definition rskel_scopes (r : rskel) : list pscope := let '(_, _, _, s) := r in s.

Definition item_terms (i : iskel) : list pterm :=
  match i with
  | IFact p => snd p
  | IRule r => rskel_terms r
  | ICheck _ qs | IPolicy _ qs => flat_map rskel_terms qs
  end.

Definition item_scopes (i : iskel) : list pscope :=
  match i with
  | IFact _ => []
  | IRule r => rskel_scopes r
  | ICheck _ qs | IPolicy _ qs => flat_map rskel_scopes qs
  end.

Lemma op_terms_map (f : pterm -> pterm) (o : pop) : op_terms (op_map f o) = map f (op_terms o).
Proof.
  induction o as [t|u|b|ps body IH] using pop_ind'; cbn; try reflexivity.
  rewrite flat_map_map. induction IH as [|x l Hx _ IHl]; cbn; [reflexivity|].
  now rewrite map_app, Hx, IHl.
Qed.

Lemma flat_map_map_comm {A B} (g : A -> A) (h : B -> B) (f : A -> list B) (l : list A) :
  (forall x, f (g x) = map h (f x)) -> flat_map f (map g l) = map h (flat_map f l).
Proof.
  intros H. induction l as [|x l IH]; cbn; [reflexivity|]. now rewrite map_app, H, IH.
Qed.

Lemma rskel_terms_map f g (r : rskel) : rskel_terms (rskel_map f g r) = map f (rskel_terms r).
Proof.
  destruct r as [[[h b] e] sc]. cbn. rewrite !map_app. f_equal. f_equal.
  - apply flat_map_map_comm. intros [n ts]. reflexivity.
  - apply flat_map_map_comm. intros ops. apply flat_map_map_comm. intros o. apply op_terms_map.
Qed.

Lemma rskel_scopes_map f g (r : rskel) : rskel_scopes (rskel_map f g r) = map g (rskel_scopes r).
Proof. destruct r as [[[h b] e] sc]. reflexivity. Qed.

Lemma item_terms_map f g (i : iskel) : item_terms (iskel_map f g i) = map f (item_terms i).
Proof.
  destruct i as [[n ts]|r|c qs|c qs]; cbn.
  - reflexivity.
  - apply rskel_terms_map.
  - apply flat_map_map_comm. intros r. apply rskel_terms_map.
  - apply flat_map_map_comm. intros r. apply rskel_terms_map.
Qed.

Lemma item_scopes_map f g (i : iskel) : item_scopes (iskel_map f g i) = map g (item_scopes i).
Proof.
  destruct i as [[n ts]|r|c qs|c qs]; cbn.
  - reflexivity.
  - apply rskel_scopes_map.
  - apply flat_map_map_comm. intros r. apply rskel_scopes_map.
  - apply flat_map_map_comm. intros r. apply rskel_scopes_map.
Qed.

Lemma subst_item_exact (s : tenv) (k : senv) (i : iskel) :
  item_terms (subst_item s k i) = map (subst s) (item_terms i)
  /\ item_scopes (subst_item s k i) = map (subst_scope k) (item_scopes i).
Proof. split; [apply item_terms_map | apply item_scopes_map]. Qed.

(* ------------------------------------------------------------------ names and maps *)
Lemma bytes_eqb_refl (a : bytes) : bytes_eqb a a = true.
Proof. induction a as [|x a IH]; cbn; [reflexivity | now rewrite N.eqb_refl, IH]. Qed.

Lemma bytes_eqb_eq (a b : bytes) : bytes_eqb a b = true <-> a = b.
Proof.
  split; [|intros ->; apply bytes_eqb_refl].
  revert b. induction a as [|x a IH]; intros [|y b] H; cbn in H; try discriminate; [reflexivity|].
  apply andb_true_iff in H as [H1 H2]. apply N.eqb_eq in H1. now rewrite H1, (IH b H2).
Qed.

Lemma amem_adeclare {A} (n m : name) (l : amap A) :
  amem n (adeclare m l) = bytes_eqb n m || amem n l.
Proof.
  unfold amem. induction l as [|[k v] l IH]; cbn.
  - destruct (bytes_eqb n m); reflexivity.
  - destruct (bytes_eqb m k) eqn:Hmk; cbn.
    + apply bytes_eqb_eq in Hmk. subst k. destruct (bytes_eqb n m); reflexivity.
    + destruct (bytes_eqb n k) eqn:Hnk; [now rewrite orb_true_r | exact IH].
Qed.

Lemma amem_amap_of {A} (ns : list name) (n : name) : In n ns -> amem n (@amap_of A ns) = true.
Proof.
  unfold amap_of.
  assert (H : forall l : amap A, amem n l = true \/ In n ns -> amem n (fold_left (fun m x => adeclare x m) ns l) = true).
  { induction ns as [|x ns IH]; intros l [Hl|Hin]; cbn; try assumption; try contradiction.
    - apply IH. left. rewrite amem_adeclare, Hl. apply orb_true_r.
    - destruct Hin as [->|Hin].
      + apply IH. left. rewrite amem_adeclare, bytes_eqb_refl. reflexivity.
      + apply IH. now right. }
  intros Hin. apply H. now right.
Qed.

(* a map built by declarations binds nothing *)
Definition all_none {A} (l : amap A) : Prop := Forall (fun kv => snd kv = None) l.

Lemma adeclare_all_none {A} (m : name) (l : amap A) : all_none l -> all_none (adeclare m l).
Proof.
  unfold all_none. induction 1 as [|[k v] l Hx Hl IH]; cbn.
  - repeat constructor.
  - destruct (bytes_eqb m k); constructor; auto.
Qed.

Lemma amap_of_all_none {A} (ns : list name) : all_none (@amap_of A ns).
Proof.
  unfold amap_of.
  assert (H : forall l : amap A, all_none l -> all_none (fold_left (fun m x => adeclare x m) ns l)).
  { induction ns as [|x ns IH]; intros l Hl; cbn; [exact Hl | apply IH, adeclare_all_none, Hl]. }
  apply H. constructor.
Qed.

Lemma all_none_abound {A} (l : amap A) (n : name) : all_none l -> abound n l = None.
Proof.
  unfold abound. induction 1 as [|[k v] l Hx _ IH]; cbn; [reflexivity|].
  cbn in Hx. subst v. destruct (bytes_eqb n k); [reflexivity | exact IH].
Qed.

Lemma amem_aupdate {A} (m n : name) (v : A) (l : amap A) : amem m (aupdate n v l) = amem m l.
Proof.
  unfold amem. induction l as [|[k x] l IH]; cbn; [reflexivity|].
  destruct (bytes_eqb n k); cbn; destruct (bytes_eqb m k); auto.
Qed.

Lemma abound_aupdate {A} (m n : name) (v w : A) (l : amap A) :
  abound m (aupdate n v l) = Some w -> w = v \/ abound m l = Some w.
Proof.
  unfold abound. induction l as [|[k x] l IH]; cbn; [discriminate|].
  destruct (bytes_eqb n k); cbn; destruct (bytes_eqb m k); auto.
  intros H. injection H as <-. now left.
Qed.

Lemma aunbound_nil_bound {A} (l : amap A) (n : name) :
  aunbound l = [] -> amem n l = true -> exists v, abound n l = Some v.
Proof.
  unfold amem, abound. induction l as [|[k x] l IH]; cbn; [discriminate|].
  intros Hu Hm. apply app_eq_nil in Hu as [Hu1 Hu2].
  destruct (bytes_eqb n k).
  - destruct x as [v|]; [now exists v | discriminate].
  - now apply IH.
Qed.

Lemma bad_keys_nil (l : pmap) (keys : list name) (n : name) (v : pterm) :
  bad_keys l keys = [] -> In n keys -> abound n l = Some v -> exists k, key_of_term v = Some k.
Proof.
  unfold bad_keys. intros Hb Hin Hv.
  destruct (key_of_term v) as [k|] eqn:Hk; [now exists k|].
  assert (Hf : In n (filter (fun n => match abound n l with
                                       | Some v => match key_of_term v with Some _ => false | None => true end
                                       | None => false end) keys)).
  { apply filter_In. split; [exact Hin|]. now rewrite Hv, Hk. }
  rewrite Hb in Hf. contradiction.
Qed.

(* ------------------------------------------------------------------ closed terms *)
Lemma key_of_term_closed (v : pterm) (k : pkey) : key_of_term v = Some k -> key_params k = [].
Proof. destruct v as [n|[i|b|d|b|b|]|n|c l|l]; cbn; intros H; try discriminate; now injection H as <-. Qed.

Lemma subst_closed (s : tenv) (t : pterm) :
  (forall n, In n (term_params t) -> exists v, s n = Some v /\ term_params v = []) ->
  (forall n, In n (term_key_params t) -> exists v k, s n = Some v /\ key_of_term v = Some k) ->
  term_params (subst s t) = [].
Proof.
  induction t as [n|l|n|k l IH|l IH] using pterm_ind'; cbn; intros Hp Hk; try reflexivity.
  - destruct (Hp n (or_introl eq_refl)) as (v & -> & Hv). exact Hv.
  - rewrite flat_map_map. apply flat_map_nil_iff. rewrite Forall_forall in *. intros x Hx.
    apply IH; [exact Hx| |]; intros n Hn; [apply Hp | apply Hk]; apply in_flat_map; eauto.
  - rewrite flat_map_map. apply flat_map_nil_iff. rewrite Forall_forall in *. intros [kk x] Hx. cbn.
    assert (Hxp : forall n, In n (key_params kk ++ term_params x) ->
                            In n (flat_map (fun kv => key_params (fst kv) ++ term_params (snd kv)) l)).
    { intros n Hn. apply in_flat_map. exists (kk, x). split; [exact Hx | exact Hn]. }
    assert (Hxk : forall n, In n (key_params kk ++ term_key_params x) ->
                            In n (flat_map (fun kv => key_params (fst kv) ++ term_key_params (snd kv)) l)).
    { intros n Hn. apply in_flat_map. exists (kk, x). split; [exact Hx | exact Hn]. }
    pose proof (IH (kk, x) Hx) as IHx. cbn in IHx. rewrite IHx.
    + rewrite app_nil_r. destruct kk as [i|b|n]; cbn; try reflexivity.
      destruct (Hk n (Hxk n (or_introl eq_refl))) as (v & k' & -> & Hk'). rewrite Hk'.
      eapply key_of_term_closed, Hk'.
    + intros n Hn. apply Hp, Hxp, in_or_app. now right.
    + intros n Hn. apply Hk, Hxk, in_or_app. now right.
Qed.

Lemma tinsert_Forall (P : pterm -> Prop) (x : pterm) (l : list pterm) :
  P x -> Forall P l -> Forall P (tinsert x l).
Proof.
  intros Hx. induction 1 as [|y l Hy Hl IH]; cbn; [repeat constructor; exact Hx|].
  destruct (pterm_cmp x y); repeat constructor; auto.
Qed.

Lemma set_of_Forall (P : pterm -> Prop) (l : list pterm) : Forall P l -> Forall P (set_of l).
Proof.
  unfold set_of.
  assert (H : forall acc, Forall P acc -> Forall P l -> Forall P (fold_left (fun a x => tinsert x a) l acc)).
  { induction l as [|x l IH]; intros acc Ha Hl; cbn; [exact Ha|].
    inversion Hl; subst. apply IH; [apply tinsert_Forall|]; assumption. }
  intros Hl. apply H; [constructor | exact Hl].
Qed.

Lemma kinsert_Forall (P : pkey -> Prop) (Q : pterm -> Prop) kv (l : list (pkey * pterm)) :
  P (fst kv) -> Q (snd kv) -> Forall (fun e => P (fst e) /\ Q (snd e)) l ->
  Forall (fun e => P (fst e) /\ Q (snd e)) (kinsert kv l).
Proof.
  intros Hk Hv. induction 1 as [|[k' v'] l [Hy1 Hy2] Hl IH]; cbn; [repeat constructor; assumption|].
  destruct (pkey_cmp (fst kv) k'); repeat constructor; auto.
Qed.

Lemma map_of_Forall (P : pkey -> Prop) (Q : pterm -> Prop) (l : list (pkey * pterm)) :
  Forall (fun e => P (fst e) /\ Q (snd e)) l -> Forall (fun e => P (fst e) /\ Q (snd e)) (map_of l).
Proof.
  unfold map_of.
  assert (H : forall acc, Forall (fun e => P (fst e) /\ Q (snd e)) acc ->
                          Forall (fun e => P (fst e) /\ Q (snd e)) l ->
                          Forall (fun e => P (fst e) /\ Q (snd e)) (fold_left (fun a kv => kinsert kv a) l acc)).
  { induction l as [|x l IH]; intros acc Ha Hl; cbn; [exact Ha|].
    inversion Hl as [|? ? [H1 H2] H3]; subst. apply IH; [apply kinsert_Forall|]; assumption. }
  intros Hl. apply H; [constructor | exact Hl].
Qed.

Lemma canon_closed (t : pterm) : term_params t = [] -> term_params (canon t) = [].
Proof.
  induction t as [n|l|n|k l IH|l IH] using pterm_ind'; cbn; intros H; try assumption.
  - apply flat_map_nil_iff in H.
    assert (Hc : Forall (fun x => term_params x = []) (map canon l)).
    { rewrite Forall_forall in *. intros y Hy. apply in_map_iff in Hy as (x & <- & Hx). auto. }
    destruct k; cbn; apply flat_map_nil_iff; [apply set_of_Forall|]; exact Hc.
  - apply flat_map_nil_iff in H. apply flat_map_nil_iff.
    eapply Forall_impl; [|apply (map_of_Forall (fun k => key_params k = []) (fun v => term_params v = []))].
    + cbn. intros e [H1 H2]. now rewrite H1, H2.
    + rewrite Forall_forall in *. intros y Hy. apply in_map_iff in Hy as ([kk x] & <- & Hx). cbn.
      specialize (H _ Hx). cbn in H. apply app_eq_nil in H as [H1 H2]. split; [exact H1|].
      apply (IH _ Hx). exact H2.
Qed.

(* ------------------------------------------------------------------ names of an item through its term positions *)
Lemma op_params_terms (o : pop) : op_params true o = flat_map term_params (op_terms o).
Proof.
  induction o as [t|u|b|ps body IH] using pop_ind'; cbn; try reflexivity.
  - now rewrite app_nil_r.
  - rewrite flat_map_flat_map. apply flat_map_ext_Forall. exact IH.
Qed.

Lemma op_key_params_terms (o : pop) : op_key_params o = flat_map term_key_params (op_terms o).
Proof.
  induction o as [t|u|b|ps body IH] using pop_ind'; cbn; try reflexivity.
  - now rewrite app_nil_r.
  - rewrite flat_map_flat_map. apply flat_map_ext_Forall. exact IH.
Qed.

Lemma rskel_params_terms (r : rskel) : rskel_term_params true r = flat_map term_params (rskel_terms r).
Proof.
  destruct r as [[[h b] e] sc]. cbn. rewrite !flat_map_app. unfold pred_params. f_equal. f_equal.
  - now rewrite flat_map_flat_map.
  - rewrite flat_map_flat_map. apply flat_map_ext. intros ops.
    rewrite flat_map_flat_map. apply flat_map_ext. intros o. apply op_params_terms.
Qed.

Lemma rskel_key_params_terms (r : rskel) : rskel_key_params r = flat_map term_key_params (rskel_terms r).
Proof.
  destruct r as [[[h b] e] sc]. cbn. rewrite !flat_map_app. unfold pred_key_params. f_equal. f_equal.
  - now rewrite flat_map_flat_map.
  - rewrite flat_map_flat_map. apply flat_map_ext. intros ops.
    rewrite flat_map_flat_map. apply flat_map_ext. intros o. apply op_key_params_terms.
Qed.

Lemma rskel_scope_params_scopes (r : rskel) : rskel_scope_params r = scope_params (rskel_scopes r).
Proof. destruct r as [[[h b] e] sc]. reflexivity. Qed.

Lemma rskel_closed_iff (r : rskel) :
  rskel_closed r = true <->
  Forall (fun t => term_params t = []) (rskel_terms r)
  /\ Forall (fun s => match s with SParam _ => False | _ => True end) (rskel_scopes r).
Proof.
  unfold rskel_closed. rewrite rskel_params_terms, rskel_scope_params_scopes.
  destruct (flat_map term_params (rskel_terms r) ++ scope_params (rskel_scopes r)) eqn:E.
  - apply app_eq_nil in E as [E1 E2]. split; [intros _|reflexivity]. split.
    + now apply flat_map_nil_iff.
    + unfold scope_params in E2. apply flat_map_nil_iff in E2.
      eapply Forall_impl; [|exact E2]. intros [| | |n] H; try exact I. discriminate.
  - split; [discriminate|]. intros [H1 H2]. exfalso.
    apply flat_map_nil_iff in H1. rewrite H1 in E. cbn in E.
    assert (scope_params (rskel_scopes r) = []).
    { apply flat_map_nil_iff. eapply Forall_impl; [|exact H2]. intros [| | |n'] H; try reflexivity. contradiction. }
    congruence.
Qed.

(* ------------------------------------------------------------------ the invariant of an item under construction *)
Definition pmap_ok (names : list name) (m : option pmap) : Prop :=
  exists l, m = Some l
            /\ (forall n, In n names -> amem n l = true)
            /\ (forall n v, abound n l = Some v -> term_params v = []).

Definition smap_ok (names : list name) (m : option smap) : Prop :=
  exists l, m = Some l /\ (forall n, In n names -> amem n l = true).

Definition rule_ok (r : prule) : Prop :=
  pmap_ok (rskel_term_params true (rule_skel r)) (rule_pmap r)
  /\ smap_ok (rskel_scope_params (rule_skel r)) (rule_smap r).

Definition fact_ok (f : pfact) : Prop := let 'Fact p m := f in pmap_ok (pred_params p) m.

Definition state_ok (s : istate) : Prop :=
  match s with
  | StFact f => fact_ok f
  | StRule r => rule_ok r
  | StCheck _ qs | StPolicy _ qs => Forall rule_ok qs
  end.

Definition cmd_closed (c : cmd) : Prop :=
  match c with
  | CmdSet _ v | CmdSetLenient _ v | CmdIgn _ v | CmdMacro _ (APTerm v) => term_params v = []
  | _ => True
  end.

Lemma pmap_ok_new (names : list name) : pmap_ok names (Some (amap_of names)).
Proof.
  eexists. split; [reflexivity|]. split.
  - intros n Hn. now apply amem_amap_of.
  - intros n v Hv. rewrite (all_none_abound _ n (amap_of_all_none names)) in Hv. discriminate.
Qed.

Lemma smap_ok_new (names : list name) : smap_ok names (Some (amap_of names)).
Proof. eexists. split; [reflexivity|]. intros n Hn. now apply amem_amap_of. Qed.

Lemma construct_ok (mode : cmode) (i : iskel) : mode <> MNone -> state_ok (construct repaired mode i).
Proof.
  intros Hm.
  assert (Hr : forall r, rule_ok (rule_new repaired mode r)).
  { intros r. destruct mode; try contradiction; cbn; split; cbn; try apply pmap_ok_new; apply smap_ok_new. }
  destruct i as [p|r|c qs|c qs]; cbn.
  - destruct mode; try contradiction; cbn; apply pmap_ok_new.
  - apply Hr.
  - apply Forall_forall. intros x Hx. apply in_map_iff in Hx as (r & <- & _). apply Hr.
  - apply Forall_forall. intros x Hx. apply in_map_iff in Hx as (r & <- & _). apply Hr.
Qed.

Lemma pmap_ok_set (names : list name) (strict : bool) (n : name) (v : pterm) (m : option pmap) :
  term_params v = [] -> pmap_ok names m -> pmap_ok names (fst (amap_set strict n v m)).
Proof.
  intros Hv (l & -> & H1 & H2). cbn. destruct (amem n l) eqn:Hn; cbn.
  - eexists. split; [reflexivity|]. split.
    + intros x Hx. rewrite amem_aupdate. now apply H1.
    + intros x w Hw. apply abound_aupdate in Hw as [->|Hw]; [exact Hv | eapply H2, Hw].
  - eexists. split; [reflexivity|]. now split.
Qed.

Lemma smap_ok_set (names : list name) (strict : bool) (n : name) (k : bytes) (m : option smap) :
  smap_ok names m -> smap_ok names (fst (amap_set strict n k m)).
Proof.
  intros (l & -> & H1). cbn. destruct (amem n l) eqn:Hn; cbn; eexists; (split; [reflexivity|]).
  - intros x Hx. rewrite amem_aupdate. now apply H1.
  - exact H1.
Qed.

Lemma rule_set_ok strict n v r : term_params v = [] -> rule_ok r -> rule_ok (fst (rule_set strict n v r)).
Proof.
  intros Hv [H1 H2]. destruct r as [s m sm]. cbn in *.
  pose proof (pmap_ok_set _ strict n v m Hv H1) as H. destruct (amap_set strict n v m) as [m' e]. cbn in *.
  split; assumption.
Qed.

Lemma rule_set_scope_ok strict n k r : rule_ok r -> rule_ok (fst (rule_set_scope strict n k r)).
Proof.
  intros [H1 H2]. destruct r as [s m sm]. cbn in *.
  pose proof (smap_ok_set _ strict n k sm H2) as H. destruct (amap_set strict n k sm) as [m' e]. cbn in *.
  split; assumption.
Qed.

Lemma queries_set_ok (strict : bool) (f : bool -> prule -> prule * option perr) (n : name) (qs : list prule) :
  (forall st r, rule_ok r -> rule_ok (fst (f st r))) ->
  Forall rule_ok qs -> Forall rule_ok (fst (queries_set strict f n qs)).
Proof.
  intros Hf Hqs. unfold queries_set. destruct strict.
  - unfold queries_set_strict. cbn. rewrite map_map. apply Forall_forall. intros x Hx.
    apply in_map_iff in Hx as (r & <- & Hr). apply Hf. rewrite Forall_forall in Hqs. now apply Hqs.
  - induction Hqs as [|q qs Hq Hqs IH]; cbn; [constructor|].
    pose proof (Hf false q Hq) as H. destruct (f false q) as [q' [e|]]; cbn in *.
    + constructor; assumption.
    + destruct (queries_set_lenient (f false) qs) as [r e]. cbn in *. constructor; assumption.
Qed.

Lemma state_set_ok strict n v s : term_params v = [] -> state_ok s -> state_ok (fst (state_set strict n v s)).
Proof.
  intros Hv Hs. destruct s as [f|r|c qs|c qs]; cbn in *.
  - destruct f as [p m]. cbn in *. pose proof (pmap_ok_set _ strict n v m Hv Hs) as H.
    destruct (amap_set strict n v m) as [m' e]. exact H.
  - pose proof (rule_set_ok strict n v r Hv Hs) as H. destruct (rule_set strict n v r). exact H.
  - pose proof (queries_set_ok strict (fun st => rule_set st n v) n qs
                  (fun st r => rule_set_ok st n v r Hv) Hs) as H.
    destruct (queries_set strict (fun st => rule_set st n v) n qs). exact H.
  - pose proof (queries_set_ok strict (fun st => rule_set st n v) n qs
                  (fun st r => rule_set_ok st n v r Hv) Hs) as H.
    destruct (queries_set strict (fun st => rule_set st n v) n qs). exact H.
Qed.

Lemma state_set_scope_ok strict n k s : state_ok s -> state_ok (fst (state_set_scope strict n k s)).
Proof.
  intros Hs. destruct s as [f|r|c qs|c qs]; cbn in *.
  - exact Hs.
  - pose proof (rule_set_scope_ok strict n k r Hs) as H. destruct (rule_set_scope strict n k r). exact H.
  - pose proof (queries_set_ok strict (fun st => rule_set_scope st n k) n qs
                  (fun st r => rule_set_scope_ok st n k r) Hs) as H.
    destruct (queries_set strict (fun st => rule_set_scope st n k) n qs). exact H.
  - pose proof (queries_set_ok strict (fun st => rule_set_scope st n k) n qs
                  (fun st r => rule_set_scope_ok st n k r) Hs) as H.
    destruct (queries_set strict (fun st => rule_set_scope st n k) n qs). exact H.
Qed.

Lemma fst_swallow r : fst (swallow r) = fst r.
Proof. destruct r as [s [[n|l]|]]; reflexivity. Qed.

Lemma run_cmd_ok (s : istate) (c : cmd) : cmd_closed c -> state_ok s -> state_ok (fst (run_cmd s c)).
Proof.
  intros Hc Hs. destruct c as [n v|n v|n k|n k|n [v|k]|n v|n k]; cbn in *; try rewrite fst_swallow;
    try (apply state_set_ok; assumption); apply state_set_scope_ok; assumption.
Qed.

Lemma run_cmds_ok (cs : list cmd) : forall s, Forall cmd_closed cs -> state_ok s -> state_ok (fst (run_cmds s cs)).
Proof.
  induction cs as [|c cs IH]; intros s Hcs Hs; cbn; [exact Hs|].
  inversion Hcs; subst.
  pose proof (run_cmd_ok s c H1 Hs) as H. destruct (run_cmd s c) as [s' e]. cbn in H.
  specialize (IH s' H2 H). destruct (run_cmds s' cs) as [s'' es]. exact IH.
Qed.

(* ------------------------------------------------------------------ validation is complete (repaired model) *)
Lemma missing_err_none (l : list name) : missing_err l = None -> l = [].
Proof. destruct l; [reflexivity | discriminate]. Qed.

Lemma term_apply_closed (l : pmap) (t : pterm) :
  (forall n, In n (term_params t) -> amem n l = true) ->
  (forall n v, abound n l = Some v -> term_params v = []) ->
  aunbound l = [] ->
  (forall n, In n (term_key_params t) -> forall v, abound n l = Some v -> exists k, key_of_term v = Some k) ->
  term_params (canon (term_apply l t)) = [].
Proof.
  intros Hm Hv Hu Hk. apply canon_closed. unfold term_apply. apply subst_closed.
  - intros n Hn. destruct (aunbound_nil_bound l n Hu (Hm n Hn)) as [v Hb]. exists v. split; [exact Hb | eapply Hv, Hb].
  - intros n Hn. assert (Hp : In n (term_params t)).
    { clear -Hn. revert n Hn. induction t as [x|x|x|k l IH|l IH] using pterm_ind'; cbn; intros n Hn; try contradiction.
      - apply in_flat_map in Hn as (y & Hy & Hn). apply in_flat_map. exists y. split; [exact Hy|].
        rewrite Forall_forall in IH. now apply IH.
      - apply in_flat_map in Hn as ([kk y] & Hy & Hn). apply in_flat_map. exists (kk, y). split; [exact Hy|].
        cbn in *. apply in_app_or in Hn as [Hn|Hn]; apply in_or_app; [now left|right].
        rewrite Forall_forall in IH. now apply (IH (kk, y) Hy). }
    destruct (aunbound_nil_bound l n Hu (Hm n Hp)) as [v Hb]. destruct (Hk n Hn v Hb) as [k Hkk].
    now exists v, k.
Qed.

Lemma fact_complete (f : pfact) :
  fact_ok f -> fact_validate repaired f = None ->
  exists p, convert_fact f = Some p /\ pred_params p = [].
Proof.
  destruct f as [[nm ts] m]. intros (l & -> & Hm & Hv) Hval. cbn in Hval.
  apply missing_err_none in Hval. apply app_eq_nil in Hval as [Hu Hb].
  assert (Hc : pred_params (pred_map canon (fact_apply (Fact (nm, ts) (Some l)))) = []).
  { cbn. unfold pred_params; cbn. rewrite map_map, flat_map_map. apply flat_map_nil_iff, Forall_forall.
    intros t Ht. apply term_apply_closed; try assumption.
    - intros n Hn. apply Hm. unfold pred_params; cbn. apply in_flat_map. eauto.
    - intros n Hn v Hbv. eapply bad_keys_nil; [exact Hb| |exact Hbv].
      unfold pred_key_params; cbn. apply in_flat_map. eauto. }
  unfold convert_fact. rewrite Hc. eexists. split; [reflexivity | exact Hc].
Qed.

Lemma rule_complete (r : prule) :
  rule_ok r -> rule_validate repaired r = None ->
  exists s, convert_rule repaired r = Some s /\ rskel_closed s = true.
Proof.
  destruct r as [sk m sm]. intros [(l & Hl & Hm & Hv) (l' & Hl' & Hm')] Hval. cbn in *. subst m sm.
  apply missing_err_none in Hval. apply app_eq_nil in Hval as [Hval Hu'].
  apply app_eq_nil in Hval as [Hu Hb].
  assert (Hc : rskel_closed (rskel_map canon (fun x => x)
                               (rskel_map (term_apply l) (subst_scope (fun n => abound n l')) sk)) = true).
  { apply rskel_closed_iff. rewrite !rskel_terms_map, !rskel_scopes_map. split.
    - rewrite map_map. apply Forall_forall. intros y Hy. apply in_map_iff in Hy as (t & <- & Ht).
      apply term_apply_closed; try assumption.
      + intros n Hn. apply Hm. rewrite rskel_params_terms. apply in_flat_map. eauto.
      + intros n Hn v Hbv. eapply bad_keys_nil; [exact Hb| |exact Hbv].
        rewrite rskel_key_params_terms. apply in_flat_map. eauto.
    - rewrite map_map. apply Forall_forall. intros y Hy. apply in_map_iff in Hy as (sc & <- & Hsc).
      destruct sc as [| |b|n]; cbn; try exact I.
      assert (Hn : amem n l' = true).
      { apply Hm'. rewrite rskel_scope_params_scopes. unfold scope_params. apply in_flat_map.
        exists (SParam n). split; [exact Hsc | now left]. }
      destruct (aunbound_nil_bound l' n Hu' Hn) as [k ->]. exact I. }
  unfold convert_rule. cbn. rewrite Hc. eexists. split; [reflexivity | exact Hc].
Qed.

Lemma queries_complete (qs : list prule) :
  Forall rule_ok qs -> queries_validate repaired qs = None ->
  exists l, convert_queries repaired qs = Some l /\ forallb rskel_closed l = true.
Proof.
  induction 1 as [|q qs Hq Hqs IH]; cbn; intros Hval.
  - exists []. split; reflexivity.
  - destruct (rule_validate repaired q) eqn:Hvq; [discriminate|].
    destruct (rule_complete q Hq Hvq) as (s & -> & Hs). destruct (IH Hval) as (l & -> & Hl).
    eexists. split; [reflexivity|]. cbn. now rewrite Hs, Hl.
Qed.

Lemma state_complete (s : istate) :
  state_ok s -> state_validate repaired s = None ->
  exists j, state_convert repaired s = Some j /\ iskel_closed j = true.
Proof.
  destruct s as [f|r|c qs|c qs]; cbn; intros Hok Hval.
  - destruct (fact_complete f Hok Hval) as (p & -> & Hp). eexists. split; [reflexivity|]. cbn. now rewrite Hp.
  - destruct (rule_complete r Hok Hval) as (x & -> & Hx). eexists. split; [reflexivity | exact Hx].
  - destruct (queries_complete qs Hok Hval) as (l & -> & Hl). eexists. split; [reflexivity | exact Hl].
  - destruct (queries_complete qs Hok Hval) as (l & -> & Hl). eexists. split; [reflexivity | exact Hl].
Qed.

Lemma validation_complete (mode : cmode) (i : iskel) (cs : list cmd) :
  mode <> MNone -> Forall cmd_closed cs ->
  state_validate repaired (fst (run_cmds (construct repaired mode i) cs)) = None ->
  exists j, state_convert repaired (fst (run_cmds (construct repaired mode i) cs)) = Some j
            /\ iskel_closed j = true.
Proof.
  intros Hm Hcs. apply state_complete. apply run_cmds_ok; [exact Hcs | now apply construct_ok].
Qed.

(* the converted item is the canonical form of the substituted item (fact and rule) *)
Lemma subst_none (t : pterm) : subst (fun _ => None) t = t.
Proof.
  induction t as [n|l|n|k l IH|l IH] using pterm_ind'; cbn; try reflexivity.
  - f_equal. rewrite <- (map_id l) at 2. apply map_ext_Forall. exact IH.
  - f_equal. rewrite <- (map_id l) at 2. apply map_ext_Forall.
    eapply Forall_impl; [|exact IH]. intros [[i|b|n] x] H; cbn in *; now rewrite H.
Qed.

Lemma op_map_ext f g (o : pop) : (forall t, f t = g t) -> op_map f o = op_map g o.
Proof.
  intros H. induction o as [t|u|b|ps body IH] using pop_ind'; cbn; try reflexivity.
  - now rewrite H.
  - f_equal. apply map_ext_Forall. exact IH.
Qed.

Lemma rskel_map_ext f f' g g' (r : rskel) :
  (forall t, f t = f' t) -> (forall s, g s = g' s) -> rskel_map f g r = rskel_map f' g' r.
Proof.
  intros Hf Hg. destruct r as [[[h b] e] sc]. cbn.
  assert (Hp : forall p, pred_map f p = pred_map f' p).
  { intros [n ts]. unfold pred_map; cbn. f_equal. now apply map_ext. }
  rewrite Hp, (map_ext _ _ Hp b), (map_ext _ _ Hg sc).
  rewrite (map_ext (map (op_map f)) (map (op_map f'))); [reflexivity|].
  intros ops. apply map_ext. intros o. now apply op_map_ext.
Qed.

Lemma rule_apply_is_subst (r : prule) :
  rule_apply repaired r
  = rskel_map (subst (tenv_of (rule_pmap r))) (subst_scope (senv_of (rule_smap r))) (rule_skel r).
Proof.
  destruct r as [sk [l|] [l'|]]; cbn; apply rskel_map_ext; intros x; try reflexivity;
    try (symmetry; apply subst_none); destruct x; reflexivity.
Qed.

Lemma fact_apply_is_subst (p : ppred) (m : option pmap) :
  fact_apply (Fact p m) = pred_map (subst (tenv_of m)) p.
Proof.
  destruct m as [l|]; cbn; [reflexivity|]. destruct p as [n ts]. unfold pred_map; cbn. f_equal.
  rewrite <- (map_id ts) at 1. apply map_ext. intros t. symmetry. apply subst_none.
Qed.

Lemma exec_is_subst_rule (r : prule) (s : rskel) :
  convert_rule repaired r = Some s ->
  s = rskel_map canon (fun x => x)
        (rskel_map (subst (tenv_of (rule_pmap r))) (subst_scope (senv_of (rule_smap r))) (rule_skel r)).
Proof.
  unfold convert_rule. rewrite rule_apply_is_subst.
  destruct (rskel_closed _); [|discriminate]. now intros [= <-].
Qed.

Lemma exec_is_subst_fact (p : ppred) (m : option pmap) (q : ppred) :
  convert_fact (Fact p m) = Some q -> q = pred_map canon (pred_map (subst (tenv_of m)) p).
Proof.
  unfold convert_fact. rewrite fact_apply_is_subst.
  destruct (pred_params _); [|discriminate]. now intros [= <-].
Qed.

(* ------------------------------------------------------------------ strict setters report unknown names *)
Definition rule_knows (n : name) (r : prule) : bool :=
  match rule_pmap r with Some l => amem n l | None => false end.
Definition rule_knows_scope (n : name) (r : prule) : bool :=
  match rule_smap r with Some l => amem n l | None => false end.

Definition state_knows (n : name) (s : istate) : bool :=
  match s with
  | StFact (Fact _ m) => match m with Some l => amem n l | None => false end
  | StRule r => rule_knows n r
  | StCheck _ qs | StPolicy _ qs => existsb (rule_knows n) qs
  end.

Lemma rule_set_strict_unknown n v r : rule_knows n r = false -> rule_set true n v r = (r, Some (EUnused n)).
Proof. destruct r as [s [l|] sm]; unfold rule_knows; cbn; [intros -> |]; reflexivity. Qed.

Lemma rule_set_strict_known n v r : rule_knows n r = true -> snd (rule_set true n v r) = None.
Proof. destruct r as [s [l|] sm]; unfold rule_knows; cbn; [intros -> |discriminate]; reflexivity. Qed.

Lemma queries_strict_unknown n v (qs : list prule) :
  existsb (rule_knows n) qs = false ->
  queries_set_strict (rule_set true n v) n qs = (qs, Some (EUnused n)).
Proof.
  unfold queries_set_strict. intros H.
  assert (Hall : Forall (fun r => rule_set true n v r = (r, Some (EUnused n))) qs).
  { apply Forall_forall. intros r Hr. apply rule_set_strict_unknown.
    destruct (rule_knows n r) eqn:E; [|reflexivity].
    assert (existsb (rule_knows n) qs = true) by (apply existsb_exists; eauto). congruence. }
  clear H. induction Hall as [|r qs Hr _ IH]; cbn; [reflexivity|].
  rewrite Hr. cbn. injection IH as IH1 IH2. rewrite IH1. f_equal.
  destruct (existsb _ _); [discriminate | reflexivity].
Qed.

Lemma queries_strict_known n v (qs : list prule) :
  existsb (rule_knows n) qs = true -> snd (queries_set_strict (rule_set true n v) n qs) = None.
Proof.
  unfold queries_set_strict. cbn. intros H. apply existsb_exists in H as (r & Hr & Hk).
  assert (E : existsb (fun r0 => match snd r0 with None => true | Some _ => false end)
                      (map (rule_set true n v) qs) = true).
  { apply existsb_exists. exists (rule_set true n v r). split; [now apply in_map|].
    now rewrite rule_set_strict_known. }
  now rewrite E.
Qed.

Lemma strict_reports_unknown (s : istate) (n : name) (v : pterm) :
  (state_knows n s = false -> run_cmd s (CmdSet n v) = (s, Some (EUnused n)))
  /\ (state_knows n s = true -> snd (run_cmd s (CmdSet n v)) = None).
Proof.
  assert (Hq : forall qs, queries_set true (fun st => rule_set st n v) n qs
                          = queries_set_strict (rule_set true n v) n qs) by reflexivity.
  destruct s as [[p [l|]]|r|c qs|c qs]; cbn [run_cmd state_set state_knows]; try rewrite Hq.
  - cbn. split; intros ->; reflexivity.
  - cbn. split; [reflexivity | discriminate].
  - split; intros H.
    + now rewrite (rule_set_strict_unknown n v r H).
    + pose proof (rule_set_strict_known n v r H) as E. destruct (rule_set true n v r). exact E.
  - split; intros H.
    + now rewrite (queries_strict_unknown n v qs H).
    + pose proof (queries_strict_known n v qs H) as E.
      destruct (queries_set_strict (rule_set true n v) n qs). exact E.
  - split; intros H.
    + now rewrite (queries_strict_unknown n v qs H).
    + pose proof (queries_strict_known n v qs H) as E.
      destruct (queries_set_strict (rule_set true n v) n qs). exact E.
Qed.

(* which names a freshly constructed item knows: exactly its parameters (repaired collection) *)
Lemma amem_amap_of_iff {A} (ns : list name) (n : name) : amem n (@amap_of A ns) = true <-> In n ns.
Proof.
  split; [|apply amem_amap_of]. unfold amap_of.
  assert (H : forall l : amap A, amem n (fold_left (fun m x => adeclare x m) ns l) = true ->
                                 amem n l = true \/ In n ns).
  { induction ns as [|x ns IH]; intros l Hl; cbn in *; [now left|].
    apply IH in Hl as [Hl|Hl]; [|now right; right].
    rewrite amem_adeclare in Hl. apply orb_true_iff in Hl as [Hl|Hl]; [|now left].
    apply bytes_eqb_eq in Hl. subst. right. now left. }
  intros Hm. apply H in Hm as [Hm|Hm]; [discriminate | exact Hm].
Qed.

Lemma fresh_rule_knows (mode : cmode) (r : rskel) (n : name) :
  mode <> MNone ->
  rule_knows n (rule_new repaired mode r) = true <-> In n (rskel_term_params true r).
Proof. intros Hm. destruct mode; try contradiction; unfold rule_knows; cbn; apply amem_amap_of_iff. Qed.

(* C14: predicates, facts and scopes print and parse back. *)
From Biscuit Require Import Model.Text Proofs.TextLeaves Proofs.TextDate Proofs.TextTerm.
Local Open Scope N_scope.

Section Esc.
Variable esc : bool.

Definition pred_okb (c : tctx) (p : pred) : bool :=
  name_okb (pname p) && negb (is_nil (pterms p)) && forallb (term_okb esc c) (pterms p).

Lemma tail_text_stop_par : forall l rest, tstop (tail_text esc l ++ cRPar :: rest).
Proof. intros [|e l] rest; reflexivity. Qed.

Lemma p_term_ok_v : forall t c rest f, term_okb esc c t = true -> vstop t rest -> (tsize t <= f)%nat ->
  p_term f c (print_term esc t ++ rest) = POk t rest.
Proof. intros. unfold p_term. now rewrite (term_roundtrip esc t c rest f). Qed.

Lemma p_term_ok : forall t c rest f, term_okb esc c t = true -> tstop rest -> (tsize t <= f)%nat ->
  p_term f c (print_term esc t ++ rest) = POk t rest.
Proof. intros. apply p_term_ok_v; try assumption. now apply tstop_vstop. Qed.

Lemma p_term_space : forall f c x, p_term f c (cSp :: x) = p_term f c x.
Proof. intros. unfold p_term. now rewrite p_t_space. Qed.

Lemma term_list_loop : forall c l, forallb (term_okb esc c) l = true ->
  forall acc rest g, (lsize l + 1 <= g)%nat ->
    p_term_list g c acc (tail_text esc l ++ cRPar :: rest) = POk (rev acc ++ l) (cRPar :: rest).
Proof.
  intros c l. induction l as [|e l IH]; intros Hok acc rest g Hg.
  - destruct g as [|g]; [cbn in Hg; lia|]. cbn [tail_text map concat app p_term_list].
    rewrite app_nil_r. reflexivity.
  - cbn [forallb] in Hok. apply andb_true_iff in Hok as [Hoke Hokl]. rewrite lsize_cons in Hg.
    destruct g as [|g]; [lia|].
    unfold tail_text. cbn [map concat]. fold (tail_text esc l). rewrite <- !app_assoc.
    unfold comma_sp at 1. cbn [app p_term_list]. unfold sep_comma. cbn [ws is_ws].
    change (is_ws cComma) with false. cbv iota. cbn [chr]. rewrite N.eqb_refl.
    rewrite p_term_space.
    rewrite (p_term_ok e c (tail_text esc l ++ cRPar :: rest) (S g) Hoke (tail_text_stop_par l rest) ltac:(lia)).
    cbn [cut]. rewrite (IH Hokl (e :: acc) rest g ltac:(lia)). cbn [rev]. now rewrite <- app_assoc.
Qed.

Lemma name_head : forall s, name_okb s = true -> exists c r, s = c :: r /\ is_ws c = false.
Proof.
  intros [|c r] H; [discriminate|]. exists c, r. split; [reflexivity|].
  cbn [name_okb forallb] in H. apply andb_true_iff in H as [H _].
  destruct (is_ws c) eqn:E; [|reflexivity]. unfold is_ws in E.
  repeat (apply orb_true_iff in E as [E|E]); apply N.eqb_eq in E; subst c; discriminate.
Qed.

(* name '(' term (',' term)* ')' in each of the three roles (fact, body predicate, rule head) *)
Theorem pred_roundtrip : forall p c b rest f, pred_okb c p = true -> (lsize (pterms p) + 1 <= f)%nat ->
  p_pred_gen f c b (print_pred esc p ++ rest) = POk p rest.
Proof.
  intros [n ts] c b rest f Hok Hf. unfold pred_okb in Hok. cbn [pname pterms] in *.
  apply andb_true_iff in Hok as [Hok Hts]. apply andb_true_iff in Hok as [Hn Hne].
  destruct ts as [|t ts]; [discriminate|]. clear Hne.
  cbn [forallb] in Hts. apply andb_true_iff in Hts as [Ht Hts]. rewrite lsize_cons in Hf.
  unfold print_pred. cbn [pname pterms map]. rewrite join_cons, tail_text_eq. rewrite <- !app_assoc. cbn [app].
  unfold p_pred_gen. destruct (name_head n Hn) as (c0 & r0 & En & Hw).
  assert (W : ws (n ++ cLPar :: print_term esc t ++ tail_text esc ts ++ cRPar :: rest)
              = n ++ cLPar :: print_term esc t ++ tail_text esc ts ++ cRPar :: rest).
  { rewrite En. cbn [app]. now apply ws_nonws. }
  rewrite W. rewrite (p_name_ok n _ Hn) by reflexivity.
  rewrite ws_nonws by reflexivity. cbn [chr]. rewrite N.eqb_refl.
  rewrite (p_term_ok t c (tail_text esc ts ++ cRPar :: rest) f Ht (tail_text_stop_par ts rest) ltac:(lia)).
  cbn [cut]. rewrite (term_list_loop c ts Hts [t] rest f ltac:(lia)). cbn [pbind rev app].
  rewrite ws_nonws by reflexivity. cbn [chr]. now rewrite N.eqb_refl.
Qed.

Theorem fact_roundtrip : forall p f, pred_okb CFact p = true -> (lsize (pterms p) + 1 <= f)%nat ->
  at_eof (p_fact_inner f (print_pred esc p)) = Some p.
Proof.
  intros p f Hok Hf. unfold p_fact_inner.
  rewrite <- (app_nil_r (print_pred esc p)). rewrite (pred_roundtrip p CFact false [] f Hok Hf).
  reflexivity.
Qed.

End Esc.

(* ------------------------------------------------------------------ scopes *)
Definition scope_okb (s : scope) : bool :=
  match s with
  | SKey _ k => negb (is_nil k) && forallb (fun x => x <? 256) k
  | SParam n => name_okb n
  | _ => true
  end.

Theorem scope_roundtrip : forall s rest, scope_okb s = true -> no_hex_head rest ->
  p_scope (print_scope s ++ rest) = Some (s, rest).
Proof.
  intros s rest Hok Hs. destruct s as [| |a k|n]; cbn [print_scope scope_okb] in *.
  - unfold p_scope. now rewrite tag_app.
  - unfold p_scope. change (tag (str "authority") (str "previous" ++ rest)) with (@None text).
    now rewrite tag_app.
  - apply andb_true_iff in Hok as [H1 H2].
    assert (Hb : Forall (fun x => x < 256) k).
    { apply Forall_forall. intros x Hx. rewrite forallb_forall in H2. apply N.ltb_lt. now apply H2. }
    assert (Hne : k <> []) by (destruct k; [discriminate|congruence]).
    destruct (print_hex_spec k Hb) as [P1 P2].
    assert (PH : parse_hex (print_hex k ++ rest) = Some (k, rest)).
    { unfold parse_hex, take_while1. rewrite (span_app_stop is_hex_trunc _ rest P1 Hs).
      destruct k as [|x k']; [congruence|]. cbn [print_hex] in *. now rewrite P2. }
    unfold p_scope, print_key. destruct a; rewrite <- app_assoc.
    + change (tag (str "authority") (str "ed25519/" ++ print_hex k ++ rest)) with (@None text).
      change (tag (str "previous") (str "ed25519/" ++ print_hex k ++ rest)) with (@None text).
      unfold p_alg_key. rewrite tag_app. rewrite PH. reflexivity.
    + change (tag (str "authority") (str "secp256r1/" ++ print_hex k ++ rest)) with (@None text).
      change (tag (str "previous") (str "secp256r1/" ++ print_hex k ++ rest)) with (@None text).
      unfold p_alg_key.
      change (tag (str "ed25519/") (str "secp256r1/" ++ print_hex k ++ rest)) with (@None text).
      rewrite tag_app. rewrite PH. reflexivity.
  - unfold p_scope. cbn [app]. rewrite <- app_assoc. cbn [app].
    change (tag (str "authority") (cLBrace :: n ++ cRBrace :: rest)) with (@None text).
    change (tag (str "previous") (cLBrace :: n ++ cRBrace :: rest)) with (@None text).
    unfold p_alg_key.
    change (tag (str "ed25519/") (cLBrace :: n ++ cRBrace :: rest)) with (@None text).
    change (tag (str "secp256r1/") (cLBrace :: n ++ cRBrace :: rest)) with (@None text).
    cbn [oor]. unfold p_braced. cbn [chr]. rewrite N.eqb_refl.
    rewrite (p_name_ok n (cRBrace :: rest) Hok) by reflexivity. cbn [chr]. now rewrite N.eqb_refl.
Qed.

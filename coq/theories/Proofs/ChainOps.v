(* Operations on tokens: seal / append / third-party append / reload, sealed tokens cannot be
   extended, revocation identifiers (stability, uniqueness, what the chain binds). *)
From Biscuit Require Import Model.Token Model.Readings Proofs.ChainLayout Proofs.ChainProofs.
Local Open Scope N_scope.

Section Ops.
Variable verify_sig : pubkey -> bytes -> bytes -> bool.
Variable pub : alg -> bytes -> option pubkey.
Variable sign : alg -> bytes -> bytes -> bytes.

(* ------------------------------------------------------------------ seal *)
Lemma seal_inv : forall t t', seal sign t = TOk t' ->
  exists sk, t_proof t = Secret sk /\
    t' = mktoken (t_root_key_id t) (t_authority t) (t_blocks t)
           (Seal (sign (pk_alg (b_next (last_block t))) sk (msg_seal (last_block t)))).
Proof.
  intros t t' H. unfold seal, proof_keypair in H. destruct (t_proof t) as [sk|s]; [|discriminate].
  exists sk. split; [reflexivity|]. unfold kp_sign in H. cbn [kp_alg kp_sk] in H. now inversion H.
Qed.

Theorem seal_preserves : forall t t', seal sign t = TOk t' ->
  all_blocks t' = all_blocks t /\ revocation_ids t' = revocation_ids t /\
  external_keys t' = external_keys t /\ t_root_key_id t' = t_root_key_id t /\ sealed t' = true.
Proof. intros t t' H. destruct (seal_inv _ _ H) as (sk & _ & ->). repeat split. Qed.

(* correctness of the scheme, as a hypothesis of the completeness statements *)
Definition sign_correct : Prop :=
  forall a sk k m, pub a sk = Some k -> verify_sig k m (sign a sk m) = true.

Theorem seal_verifies : forall root t t',
  sign_correct -> verify verify_sig pub root t = true -> seal sign t = TOk t' ->
  verify verify_sig pub root t' = true.
Proof.
  intros root t t' Hsc Hv Hs. destruct (seal_inv _ _ Hs) as (sk & Hp & ->).
  unfold verify in *. apply andb_true_iff in Hv as [Hst Hq]. apply andb_true_iff. split.
  - unfold structural_ok in *. apply andb_true_iff in Hst as [Hst _]. apply andb_true_iff. split; [exact Hst|].
    reflexivity.
  - unfold queries in *. cbn [t_authority t_blocks] in *. cbn [forallb] in *.
    apply andb_true_iff in Hq as [Ha Hq]. apply andb_true_iff. split; [exact Ha|].
    apply forallb_app_inv in Hq as [Hc _]. rewrite forallb_app. apply andb_true_iff. split; [exact Hc|].
    unfold proof_queries. cbn [t_proof]. unfold last_block. cbn [t_authority t_blocks].
    cbn [forallb verify_triple]. apply andb_true_iff. split; [|reflexivity].
    fold (last_block t).
    unfold structural_ok in Hst. apply andb_true_iff in Hst as [_ Hpo]. unfold proof_ok in Hpo. rewrite Hp in Hpo.
    destruct (pub (pk_alg (b_next (last_block t))) sk) as [k|] eqn:Epub; [|discriminate].
    apply pubkey_eqb_eq in Hpo. subst k. now apply Hsc.
Qed.

(* ------------------------------------------------------------------ no extension of a sealed token *)
Theorem no_extension : forall t, sealed t = true ->
  (forall next data v, append pub sign t next data v = TErr TAlreadySealed) /\
  seal sign t = TErr TAlreadySealed /\
  third_party_request t = TErr TAppendOnSealed /\
  (forall expected resp next, exists e, append_third_party verify_sig pub sign t expected resp next = TErr e).
Proof.
  intros t Hs. unfold sealed in Hs. destruct (t_proof t) as [sk|s] eqn:Ep; [discriminate|].
  repeat split.
  - intros. unfold append, proof_keypair. now rewrite Ep.
  - unfold seal, proof_keypair. now rewrite Ep.
  - unfold third_party_request, sealed. now rewrite Ep.
  - intros expected [[payload ek] es] next. unfold append_third_party.
    destruct (negb (pubkey_eqb expected ek)); [eauto|].
    destruct (negb (verify_sig ek _ es)); [eauto|].
    unfold proof_keypair. rewrite Ep. eauto.
Qed.

(* ------------------------------------------------------------------ append *)
Lemma append_signed_blocks : forall t kp next data ext v t',
  append_signed pub sign t kp next data ext v = TOk t' ->
  exists b, t_blocks t' = t_blocks t ++ [b] /\ t_authority t' = t_authority t /\
            b_data b = data /\ b_ext b = ext /\ b_version b = v /\ t_root_key_id t' = t_root_key_id t.
Proof.
  intros t kp next data ext v t' H. unfold append_signed in H. destruct (kp_pub pub next) as [nk|]; [|discriminate].
  inversion H. eexists. cbn. repeat split.
Qed.

Theorem append_revocation_ids : forall t next data v t',
  append pub sign t next data v = TOk t' ->
  exists s, revocation_ids t' = revocation_ids t ++ [s].
Proof.
  intros t next data v t' H. unfold append in H. destruct (proof_keypair t) as [kp|e]; [|discriminate].
  destruct (append_signed_blocks _ _ _ _ _ _ _ H) as (b & Hb & Ha & _).
  exists (b_sig b). unfold revocation_ids, all_blocks. rewrite Hb, Ha. cbn [map]. now rewrite map_app.
Qed.

Theorem append_third_party_revocation_ids : forall t expected resp next t',
  append_third_party verify_sig pub sign t expected resp next = TOk t' ->
  exists s, revocation_ids t' = revocation_ids t ++ [s].
Proof.
  intros t expected [[payload ek] es] next t' H. unfold append_third_party in H.
  destruct (negb (pubkey_eqb expected ek)); [discriminate|].
  destruct (negb (verify_sig ek _ es)); [discriminate|].
  destruct (proof_keypair t) as [kp|e]; [|discriminate].
  destruct (append_signed_blocks _ _ _ _ _ _ _ H) as (b & Hb & Ha & _).
  exists (b_sig b). unfold revocation_ids, all_blocks. rewrite Hb, Ha. cbn [map]. now rewrite map_app.
Qed.

End Ops.

(* ------------------------------------------------------------------ reload (to_wire, deserialize) *)
Section Reload.
Variable key_canon : alg -> bytes -> option bytes.
Variable pub : alg -> bytes -> option pubkey.

Definition canon_key (k : pubkey) : Prop := key_canon (pk_alg k) (pk_bytes k) = Some (pk_bytes k).

Definition canon_block (b : sblock) : Prop :=
  canon_key (b_next b) /\ match b_ext b with Some (k, _) => canon_key k /\ b_version b = 1 | None => True end.

Lemma alg_of_num_num : forall a, alg_of_num (Z.of_N (alg_num a)) = Some a.
Proof. destruct a; reflexivity. Qed.

Lemma parse_to_wkey : forall k, canon_key k -> parse_wkey key_canon (to_wkey k) = Some k.
Proof.
  intros [a b] H. unfold parse_wkey, to_wkey, canon_key in *. cbn [wk_alg wk_bytes pk_alg pk_bytes] in *.
  now rewrite alg_of_num_num, H.
Qed.

Lemma deserialize_to_wblock : forall b, canon_block b ->
  deserialize_block key_canon false (to_wblock b) = Some b.
Proof.
  intros [d nk s e v] [Hn He]. cbn [b_next b_ext b_version] in *.
  unfold deserialize_block, to_wblock. cbn [w_next w_ext w_version w_data w_sig b_data b_next b_sig b_ext b_version].
  rewrite (parse_to_wkey nk Hn). destruct e as [[ek es]|].
  - destruct He as [Hek Hv]. subst v. cbn [N.eqb Pos.eqb]. now rewrite (parse_to_wkey ek Hek).
  - destruct (v =? 0) eqn:E; cbn [opt_version]; [apply N.eqb_eq in E; now subst|reflexivity].
Qed.

Lemma deserialize_to_wblocks : forall bs, (forall b, In b bs -> canon_block b) ->
  deserialize_blocks key_canon (map to_wblock bs) = Some bs.
Proof.
  induction bs as [|b bs IH]; intros H; [reflexivity|]. cbn [map deserialize_blocks].
  rewrite (deserialize_to_wblock b (H b (or_introl eq_refl))). rewrite IH; [reflexivity|].
  intros c Hc. apply H. now right.
Qed.

Theorem reload_ok : forall t,
  (forall b, In b (all_blocks t) -> canon_block b) ->
  b_ext (t_authority t) = None ->
  (forall sk, t_proof t = Secret sk -> pub (pk_alg (b_next (last_block t))) sk <> None) ->
  deserialize key_canon pub (to_wire t) = Some t.
Proof.
  intros [kid a bs p] Hc Ha Hp. cbn [t_authority t_blocks t_proof all_blocks] in *.
  unfold deserialize, to_wire. cbn [w_authority w_blocks w_proof w_root_key_id t_authority t_blocks t_proof t_root_key_id].
  assert (Haw : deserialize_block key_canon true
                  (mkwblock (w_data (to_wblock a)) (w_next (to_wblock a)) (w_sig (to_wblock a)) None
                            (w_version (to_wblock a))) = Some a).
  { destruct a as [d nk s e v]. cbn [b_ext] in Ha. subst e.
    destruct (Hc _ (or_introl eq_refl)) as [Hn _]. cbn [b_next] in Hn.
    unfold deserialize_block, to_wblock. cbn. rewrite (parse_to_wkey nk Hn).
    destruct (v =? 0) eqn:E; cbn [opt_version]; [apply N.eqb_eq in E; now subst|reflexivity]. }
  rewrite Haw. rewrite deserialize_to_wblocks by (intros b Hb; apply Hc; now right).
  destruct p as [sk|s]; [|reflexivity].
  specialize (Hp sk eq_refl). unfold last_block in Hp. cbn [t_blocks t_authority] in Hp.
  destruct (pub (pk_alg (b_next (last bs a))) sk); [reflexivity | congruence].
Qed.

End Reload.

(* ------------------------------------------------------------------ identifiers *)

(* strong unforgeability (C01's premise speaks of triples, signature bytes included):
   every accepted variant presents the honest identifiers, in order, for the honest blocks *)
Lemma same_sigs : forall h l, Forall2 block_same h l -> map b_sig l = map b_sig h.
Proof. induction 1 as [|b b' h l [_ Hs] _ IH]; [reflexivity|]. cbn [map]. now rewrite Hs, IH. Qed.

Theorem not_malleable : forall verify_sig pub root tok tok',
  verify verify_sig pub root tok = true ->
  layout_ok tok = true ->
  NoDup (map qkey (queries root tok)) ->
  (forall k m s, In k (map qkey (queries root tok)) -> verify_sig k m s = true ->
                 In (k, m, s) (queries root tok)) ->
  (forall sk k, t_proof tok' = Secret sk ->
     pub (pk_alg (b_next (last_block tok'))) sk = Some k -> ~ In k (map qkey (queries root tok))) ->
  keys_ok tok' = true ->
  verify verify_sig pub root tok' = true ->
  exists rest, revocation_ids tok' = revocation_ids tok ++ rest /\ (sealed tok = true -> rest = []).
Proof.
  intros vs pub root tok tok' H1 H2 H3 H4 H5 H6 H7.
  destruct (accepted_is_honest_prefix _ _ _ _ _ H1 H2 H3 H4 H5 H6 H7) as (l1 & l2 & El & Hl & Hs).
  exists (map b_sig l2). unfold revocation_ids. rewrite El, map_app, (same_sigs _ _ Hl). split; [reflexivity|].
  intros Hse. destruct (Hs Hse) as [-> _]. reflexivity.
Qed.

(* what the chain does not bind: the signature bytes of the last block of an unsealed token.
   Any other signature valid for the same message under the same key gives an accepted
   token with the same blocks and another identifier. *)
Definition set_sig (b : sblock) (s : bytes) : sblock :=
  mkblock (b_data b) (b_next b) s (b_ext b) (b_version b).

Definition set_last_sig (t : token) (s : bytes) : token :=
  match rev (t_blocks t) with
  | [] => mktoken (t_root_key_id t) (set_sig (t_authority t) s) [] (t_proof t)
  | b :: r => mktoken (t_root_key_id t) (t_authority t) (rev r ++ [set_sig b s]) (t_proof t)
  end.

Lemma msg_block_set_sig : forall p b s, msg_block p (set_sig b s) = msg_block p b.
Proof. reflexivity. Qed.

Lemma chain_queries_last : forall l k p b,
  chain_queries k p (l ++ [b]) =
  chain_queries k p l ++ block_queries (end_key k l) (end_sig p l) b.
Proof. intros. rewrite chain_queries_app. cbn [chain_queries]. now rewrite app_nil_r. Qed.

Lemma last_app1 : forall (l : list sblock) b a, last (l ++ [b]) a = b.
Proof. intros. apply last_last. Qed.

Theorem last_block_malleable : forall verify_sig pub root t s',
  sealed t = false ->
  verify verify_sig pub root t = true ->
  verify_sig (match rev (t_blocks t) with
              | [] => root
              | _ :: r => end_key (b_next (t_authority t)) (rev r)
              end)
             (match rev (t_blocks t) with
              | [] => msg_authority (t_authority t)
              | b :: r => msg_block (end_sig (b_sig (t_authority t)) (rev r)) b
              end) s' = true ->
  verify verify_sig pub root (set_last_sig t s') = true /\
  removelast (revocation_ids (set_last_sig t s')) = removelast (revocation_ids t) /\
  last (revocation_ids (set_last_sig t s')) [] = s'.
Proof.
  intros vs pub root [kid a bs p] s' Hs Hv. unfold sealed in Hs. cbn [t_proof t_blocks t_authority] in *.
  destruct p as [sk|sg]; [|discriminate].
  unfold set_last_sig. cbn [t_blocks t_authority t_root_key_id t_proof].
  destruct (rev bs) as [|b r] eqn:Er; intros Hs'.
  - (* only the authority block *)
    assert (bs = []) by (apply (f_equal (@rev sblock)) in Er; rewrite rev_involutive in Er; exact Er). subst bs.
    split; [|split; reflexivity].
    unfold verify in *. apply andb_true_iff in Hv as [Hst Hq]. apply andb_true_iff. split.
    + exact Hst.
    + unfold queries, proof_queries in *.
      cbn [t_authority t_blocks t_proof chain_queries app forallb verify_triple b_sig set_sig] in *.
      change (msg_authority (set_sig a s')) with (msg_authority a). now rewrite Hs'.
  - assert (Ebs : bs = rev r ++ [b]).
    { apply (f_equal (@rev sblock)) in Er. rewrite rev_involutive in Er. exact Er. }
    subst bs. split; [|split].
    + unfold verify in *. apply andb_true_iff in Hv as [Hst Hq]. apply andb_true_iff. split.
      * clear Hq Hs'. unfold structural_ok, all_blocks, proof_ok, last_block in *.
        cbn [t_authority t_blocks t_proof] in *.
        rewrite last_app1 in Hst. rewrite last_app1.
        change (forallb version_ok (a :: rev r ++ [set_sig b s']))
          with (version_ok a && forallb version_ok (rev r ++ [set_sig b s'])).
        change (forallb version_ok (a :: rev r ++ [b]))
          with (version_ok a && forallb version_ok (rev r ++ [b])) in Hst.
        rewrite !forallb_app in Hst. rewrite !forallb_app. exact Hst.
      * unfold queries in *. cbn [t_authority t_blocks] in *. cbn [forallb] in *.
        apply andb_true_iff in Hq as [Ha Hq]. apply andb_true_iff. split; [exact Ha|].
        unfold proof_queries in *. cbn [t_proof] in *. rewrite app_nil_r in *.
        rewrite chain_queries_last in *. rewrite forallb_app in *.
        apply andb_true_iff in Hq as [Hc Hb]. rewrite Hc. cbn [andb].
        unfold block_queries in *. cbn [set_sig b_sig b_ext b_data b_next b_version] in *.
        rewrite msg_block_set_sig. cbn [forallb verify_triple] in *.
        apply andb_true_iff in Hb as [_ Hext]. rewrite Hs'. cbn [andb].
        unfold msg_external in *. exact Hext.
    + unfold revocation_ids, all_blocks. cbn [t_authority t_blocks map].
      rewrite !map_app. cbn [map].
      change (b_sig a :: map b_sig (rev r) ++ [b_sig (set_sig b s')])
        with ((b_sig a :: map b_sig (rev r)) ++ [b_sig (set_sig b s')]).
      change (b_sig a :: map b_sig (rev r) ++ [b_sig b])
        with ((b_sig a :: map b_sig (rev r)) ++ [b_sig b]).
      now rewrite !removelast_last.
    + unfold revocation_ids, all_blocks. cbn [t_authority t_blocks map].
      rewrite map_app. cbn [map].
      change (b_sig a :: map b_sig (rev r) ++ [b_sig (set_sig b s')])
        with ((b_sig a :: map b_sig (rev r)) ++ [b_sig (set_sig b s')]).
      now rewrite last_last.
Qed.

(* every other signature is inside a signed message: the previous signature is a field of the
   tagged block layout, and the last signature is a field of the seal message *)
Theorem prevsig_bound_v1 : forall p p' b,
  b_version b = 1 -> length p = length p' -> msg_block p b = msg_block p' b -> p = p'.
Proof.
  intros p p' b Hv Hl H. unfold msg_block in H. rewrite Hv in H. cbn [N.eqb Pos.eqb] in H.
  assert (H1 : 1 < 4294967296) by lia.
  destruct (payload_block_v1_inj _ _ _ _ _ _ _ _ _ _ H1 H1 eq_refl Hl eq_refl H) as (_ & _ & _ & Hp & _).
  exact Hp.
Qed.

Theorem sealed_sig_bound : forall b s s',
  length s = length s' -> msg_seal (set_sig b s) = msg_seal (set_sig b s') -> s = s'.
Proof.
  intros b s s' Hl H. unfold msg_seal, set_sig in H. cbn [b_data b_next b_sig] in H.
  destruct (payload_seal_inj _ _ _ _ _ _ eq_refl Hl H) as (_ & _ & Hs). exact Hs.
Qed.

(* ---- uniqueness: independently minted tokens share no identifier *)
Lemma chain_block_triple : forall vs bs k p,
  forallb (verify_triple vs) (chain_queries k p bs) = true ->
  forall b, In b bs -> exists k' p', vs k' (msg_block p' b) (b_sig b) = true /\
                                     (k' = k \/ In k' (map b_next bs)).
Proof.
  intros vs. induction bs as [|c bs IH]; intros k p H b Hb; [destruct Hb|].
  cbn [chain_queries] in H. apply forallb_app_inv in H as [Hc Hr].
  destruct Hb as [-> | Hb].
  - exists k, p. split; [|now left]. unfold block_queries in Hc. cbn [forallb verify_triple] in Hc.
    now apply andb_true_iff in Hc as [Hc _].
  - destruct (IH _ _ Hr b Hb) as (k' & p' & Hv & Hk). exists k', p'. split; [exact Hv|].
    right. cbn [map]. destruct Hk as [-> | Hk]; [now left | now right].
Qed.

Theorem revocation_ids_unique : forall verify_sig pub root t1 t2,
  (* ideal scheme: a signature value is valid for one key and one message only *)
  (forall k m s k' m', verify_sig k m s = true -> verify_sig k' m' s = true -> k = k' /\ m = m') ->
  verify verify_sig pub root t1 = true -> verify verify_sig pub root t2 = true ->
  layout_ok t1 = true -> keys_ok t2 = true ->
  (* fresh next keys: no next key is shared, and none is the root key *)
  (forall k, In k (map b_next (all_blocks t1)) -> ~ In k (map b_next (all_blocks t2))) ->
  ~ In root (map b_next (all_blocks t1)) -> ~ In root (map b_next (all_blocks t2)) ->
  forall s, In s (revocation_ids t1) -> ~ In s (revocation_ids t2).
Proof.
  intros vs pub root t1 t2 Hbind Hv1 Hv2 Hl1 Hk2 Hfresh Hr1 Hr2 s Hs1 Hs2.
  assert (Ha1 := authority_verifies _ _ _ _ Hv1). assert (Ha2 := authority_verifies _ _ _ _ Hv2).
  assert (Hc : forall t, verify vs pub root t = true ->
                forallb (verify_triple vs) (chain_queries (b_next (t_authority t)) (b_sig (t_authority t)) (t_blocks t)) = true).
  { intros t Hv. unfold verify in Hv. apply andb_true_iff in Hv as [_ Hq]. unfold queries in Hq.
    cbn [forallb] in Hq. apply andb_true_iff in Hq as [_ Hq]. now apply forallb_app_inv in Hq as [Hq _]. }
  unfold revocation_ids, all_blocks in Hs1, Hs2. cbn [map] in Hs1, Hs2.
  assert (Hb : forall t, verify vs pub root t = true -> forall b, In b (t_blocks t) ->
             exists k' p', vs k' (msg_block p' b) (b_sig b) = true /\ In k' (map b_next (all_blocks t))).
  { intros t Hv b Hb. destruct (chain_block_triple vs _ _ _ (Hc t Hv) b Hb) as (k' & p' & Hvb & Hk).
    exists k', p'. split; [exact Hvb|]. unfold all_blocks. cbn [map]. destruct Hk as [-> | Hk]; [now left | now right]. }
  destruct Hs1 as [E1 | Hs1], Hs2 as [E2 | Hs2].
  - (* both authority blocks: same root, same message, hence same next key *)
    rewrite <- E1 in E2. rewrite E2 in Ha2.
    destruct (Hbind _ _ _ _ _ Ha2 Ha1) as [_ Hm].
    unfold layout_ok in Hl1. apply andb_true_iff in Hl1 as [Hl1 _]. apply andb_true_iff in Hl1 as [Hl1 _].
    apply andb_true_iff in Hl1 as [Hla _]. apply fields_list_eqb_eq in Hla.
    destruct (structural_wf _ _ _ _ Hv2 Hk2) as (Hwa & Hea & _).
    assert (Hf := msg_authority_inj _ _ Hla Hwa Hea Hm).
    apply (Hfresh (b_next (t_authority t1))).
    + unfold all_blocks. cbn [map]. now left.
    + rewrite <- (fields_next _ _ Hf). unfold all_blocks. cbn [map]. now left.
  - apply in_map_iff in Hs2 as (b2 & E2 & Hb2). destruct (Hb t2 Hv2 b2 Hb2) as (k' & p' & Hvb & Hk).
    rewrite E2, <- E1 in Hvb. destruct (Hbind _ _ _ _ _ Ha1 Hvb) as [Hkk _]. subst k'. contradiction.
  - apply in_map_iff in Hs1 as (b1 & E1 & Hb1). destruct (Hb t1 Hv1 b1 Hb1) as (k' & p' & Hvb & Hk).
    rewrite E1, <- E2 in Hvb. destruct (Hbind _ _ _ _ _ Ha2 Hvb) as [Hkk _]. subst k'. contradiction.
  - apply in_map_iff in Hs1 as (b1 & E1 & Hb1). apply in_map_iff in Hs2 as (b2 & E2 & Hb2).
    destruct (Hb t1 Hv1 b1 Hb1) as (k1 & p1 & Hvb1 & Hk1). destruct (Hb t2 Hv2 b2 Hb2) as (k2 & p2 & Hvb2 & Hk2').
    rewrite E1 in Hvb1. rewrite E2 in Hvb2. destruct (Hbind _ _ _ _ _ Hvb1 Hvb2) as [Hkk _]. subst k2.
    exact (Hfresh k1 Hk1 Hk2').
Qed.

(* Completeness: every token the operations Build / Append / AppendThirdParty / Seal produce
   verifies under the root key, for any correct signature scheme; the signature version chosen
   by the operations is the specification's rule; serialization round trip of built tokens. *)
From Biscuit Require Import Model.Token Model.Readings Model.Wire Model.ThirdParty.
From Biscuit Require Import Proofs.ChainLayout Proofs.ChainProofs Proofs.ChainOps Proofs.WireProofs.
From Biscuit Require Model.Schema Proofs.SchemaProofs.
Local Open Scope N_scope.

Section Build.
Variable verify_sig : pubkey -> bytes -> bytes -> bool.
Variable pub : alg -> bytes -> option pubkey.
Variable sign : alg -> bytes -> bytes -> bytes.
Variable key_canon : alg -> bytes -> option bytes.

(* the scheme is correct, and a public key knows its algorithm *)
Hypothesis sign_ok : forall a sk k m, pub a sk = Some k -> verify_sig k m (sign a sk m) = true.
Hypothesis pub_alg : forall a sk k, pub a sk = Some k -> pk_alg k = a.

Lemma max_list_le1 : forall l, Forall (fun v => v <= 1) l -> max_list l <= 1.
Proof. induction 1 as [|x l Hx _ IH]; cbn [max_list]; lia. Qed.

Lemma sig_version_le1 : forall s n tp dv prev, Forall (fun v => v <= 1) prev -> sig_version s n tp dv prev <= 1.
Proof.
  intros s n tp dv prev H. unfold sig_version. destruct tp; [lia|].
  destruct (match dv with Some v => 6 <=? v | None => false end); [lia|].
  destruct s, n; try lia. now apply max_list_le1.
Qed.

Lemma versions_le1 : forall bs, forallb version_ok bs = true -> Forall (fun v => v <= 1) (map b_version bs).
Proof.
  induction bs as [|b bs IH]; intros H; [constructor|]. cbn [forallb] in H. apply andb_true_iff in H as [H1 H2].
  cbn [map]. constructor; [now apply N.leb_le in H1 | now apply IH].
Qed.

(* ---- Build *)
Theorem new_token_verifies : forall kid root next data dv t rk,
  kp_pub pub root = Some rk ->
  new_token pub sign kid root next data dv = TOk t ->
  verify verify_sig pub rk t = true.
Proof.
  intros kid root next data dv t rk Hr H. unfold new_token in H.
  destruct (kp_pub pub next) as [nk|] eqn:En; [|discriminate].
  set (v := sig_version (kp_alg root) (kp_alg next) false (Some dv) []) in H.
  assert (Hv : v <= 1) by (apply sig_version_le1; constructor). clearbody v.
  inversion H as [Ht]. clear H.
  unfold verify. apply andb_true_iff. split.
  - unfold structural_ok, all_blocks, proof_ok, last_block. cbn [t_authority t_blocks t_proof has_ext b_ext negb forallb last].
    unfold version_ok. cbn [b_version]. assert (E : (v <=? 1) = true) by now apply N.leb_le. rewrite E.
    cbn [andb b_next]. unfold kp_pub in En. rewrite (pub_alg _ _ _ En), En. apply pubkey_eqb_refl.
  - unfold queries, proof_queries. cbn [t_authority t_blocks t_proof chain_queries app forallb verify_triple b_sig].
    rewrite andb_true_r. unfold kp_sign, kp_pub in *.
    change (msg_authority (mkblock data nk (sign (kp_alg root) (kp_sk root) (msg_authority (mkblock data nk [] None v))) None v))
      with (msg_authority (mkblock data nk [] None v)).
    now apply sign_ok.
Qed.

(* ---- what verify gives about the proof *)
Lemma verify_proof_keypair : forall root t kp,
  verify verify_sig pub root t = true -> proof_keypair t = TOk kp ->
  kp_pub pub kp = Some (b_next (last_block t)) /\ kp_alg kp = pk_alg (b_next (last_block t)).
Proof.
  intros root t kp Hv Hp. unfold proof_keypair in Hp. destruct (t_proof t) as [sk|s] eqn:Ep; [|discriminate].
  inversion Hp. subst kp. clear Hp. unfold kp_pub. cbn [kp_alg kp_sk]. split; [|reflexivity].
  unfold verify in Hv. apply andb_true_iff in Hv as [Hs _]. unfold structural_ok in Hs.
  apply andb_true_iff in Hs as [_ Hpo]. unfold proof_ok in Hpo. rewrite Ep in Hpo.
  destruct (pub (pk_alg (b_next (last_block t))) sk) as [k|]; [|discriminate].
  apply pubkey_eqb_eq in Hpo. now subst k.
Qed.

(* ---- the common step: a block signed by the holder of the proof secret *)
Theorem append_signed_verifies : forall root t kp next data ext v t',
  verify verify_sig pub root t = true ->
  proof_keypair t = TOk kp ->
  v <= 1 ->
  match ext with
  | Some (ek, es) => v = 1 /\ verify_sig ek (payload_external_v1 data (b_sig (last_block t)) 1) es = true
  | None => True
  end ->
  append_signed pub sign t kp next data ext v = TOk t' ->
  verify verify_sig pub root t' = true.
Proof.
  intros root t kp next data ext v t' Hv Hp Hv1 Hext H.
  destruct (verify_proof_keypair root t kp Hv Hp) as [Hkp _].
  unfold append_signed in H. destruct (kp_pub pub next) as [nk|] eqn:En; [|discriminate].
  inversion H as [Ht]. clear H.
  set (nb := mkblock data nk (kp_sign sign kp (msg_block (b_sig (last_block t)) (mkblock data nk [] ext v))) ext v).
  unfold verify in *. apply andb_true_iff in Hv as [Hst Hq]. apply andb_true_iff. split.
  - unfold structural_ok in *. unfold all_blocks at 1. cbn [t_authority t_blocks t_proof].
    apply andb_true_iff in Hst as [Hst _]. apply andb_true_iff in Hst as [Hst He]. apply andb_true_iff in Hst as [Ha Hvs].
    unfold all_blocks in Hvs. cbn [forallb] in Hvs. apply andb_true_iff in Hvs as [Hva Hvb].
    rewrite Ha. cbn [forallb]. rewrite Hva. rewrite !forallb_app, Hvb, He. cbn [forallb andb].
    assert (E1 : version_ok nb = true) by (unfold version_ok, nb; cbn [b_version]; now apply N.leb_le).
    assert (E2 : ext_version_ok nb = true).
    { unfold ext_version_ok, nb. cbn [b_ext b_version]. destruct ext as [[ek es]|]; [|reflexivity].
      destruct Hext as [-> _]. reflexivity. }
    rewrite E1, E2. cbn [andb].
    unfold proof_ok, last_block. cbn [t_authority t_blocks t_proof]. rewrite last_last. unfold nb. cbn [b_next].
    unfold kp_pub in En. rewrite (pub_alg _ _ _ En), En. apply pubkey_eqb_refl.
  - unfold queries in *. cbn [t_authority t_blocks t_proof] in *. cbn [forallb] in *.
    apply andb_true_iff in Hq as [Ha Hq]. rewrite Ha. cbn [andb].
    apply forallb_app_inv in Hq as [Hc _]. unfold proof_queries. cbn [t_proof]. rewrite app_nil_r.
    rewrite chain_queries_last, forallb_app, Hc. cbn [andb].
    rewrite <- last_end_key, <- last_end_sig. fold (last_block t).
    unfold block_queries. cbn [forallb verify_triple].
    assert (Em : msg_block (b_sig (last_block t)) nb = msg_block (b_sig (last_block t)) (mkblock data nk [] ext v))
      by reflexivity.
    rewrite Em. unfold nb at 1. cbn [b_sig]. unfold kp_sign. unfold kp_pub in Hkp.
    rewrite (sign_ok _ _ _ _ Hkp). cbn [andb].
    unfold nb. cbn [b_ext]. destruct ext as [[ek es]|]; [|reflexivity].
    destruct Hext as [-> Hes]. cbn [forallb verify_triple]. unfold msg_external. cbn [b_data b_version].
    now rewrite Hes.
Qed.

(* ---- Append *)
Theorem append_verifies : forall root t next data dv t',
  verify verify_sig pub root t = true ->
  append pub sign t next data dv = TOk t' ->
  verify verify_sig pub root t' = true.
Proof.
  intros root t next data dv t' Hv H. unfold append in H. destruct (proof_keypair t) as [kp|e] eqn:Ep; [|discriminate].
  refine (append_signed_verifies root t kp next data None _ t' Hv Ep _ I H).
  apply sig_version_le1. apply versions_le1.
  unfold verify in Hv. apply andb_true_iff in Hv as [Hs _]. unfold structural_ok in Hs.
  apply andb_true_iff in Hs as [Hs _]. apply andb_true_iff in Hs as [Hs _]. now apply andb_true_iff in Hs as [_ Hs].
Qed.

(* ---- AppendThirdParty, for whatever response passes the checks of the verified path *)
Theorem append_third_party_verifies : forall root t expected resp next t',
  verify verify_sig pub root t = true ->
  append_third_party verify_sig pub sign t expected resp next = TOk t' ->
  verify verify_sig pub root t' = true.
Proof.
  intros root t expected [[payload ek] es] next t' Hv H. unfold append_third_party in H.
  destruct (negb (pubkey_eqb expected ek)); [discriminate|].
  destruct (negb (verify_sig ek (payload_external_v1 payload (b_sig (last_block t)) 1) es)) eqn:Es; [discriminate|].
  apply negb_false_iff in Es.
  destruct (proof_keypair t) as [kp|e] eqn:Ep; [|discriminate].
  refine (append_signed_verifies root t kp next payload (Some (ek, es)) _ t' Hv Ep _ _ H).
  - unfold sig_version. lia.
  - split; [reflexivity | exact Es].
Qed.

Lemma checked_inv : forall t expected r c next t',
  append_third_party_checked verify_sig pub sign key_canon t expected r c next = TPOk t' ->
  exists ek, parse_wkey key_canon (r_key r) = Some ek /\
             append_third_party verify_sig pub sign t expected (r_payload r, ek, r_sig r) next = TOk t'.
Proof.
  intros t expected r c next t' H. unfold append_third_party_checked in H.
  destruct (parse_wkey key_canon (r_key r)) as [ek|]; [|discriminate]. exists ek. split; [reflexivity|].
  destruct (append_third_party verify_sig pub sign t expected (r_payload r, ek, r_sig r) next) as [t''|e].
  - destruct (negb c); [discriminate|]. now inversion H.
  - destruct e; try discriminate; destruct (negb c); discriminate.
Qed.

(* ---- an honest response passes the checks *)
Lemma honest_response_checks : forall t prev ext payload r ek,
  third_party_request t = TOk prev ->
  response_for pub sign prev ext payload = TOk r ->
  kp_pub pub ext = Some ek ->
  r_payload r = payload /\ r_key r = to_wkey ek /\
  verify_sig ek (payload_external_v1 payload (b_sig (last_block t)) 1) (r_sig r) = true.
Proof.
  intros t prev ext payload r ek Hreq Hr Hek. unfold third_party_request in Hreq.
  destruct (sealed t); [discriminate|]. inversion Hreq. subst prev.
  unfold response_for, create_block in Hr. rewrite Hek in Hr. inversion Hr. subst r. cbn [r_payload r_key r_sig].
  repeat split. unfold kp_sign. unfold kp_pub in Hek. now apply sign_ok.
Qed.

(* ---- one operation of a history, on either path *)
Hypothesis canon_pub : forall a sk k, pub a sk = Some k -> key_canon (pk_alg k) (pk_bytes k) = Some (pk_bytes k).

Lemma parse_to_wkey_pub : forall a sk k, pub a sk = Some k -> parse_wkey key_canon (to_wkey k) = Some k.
Proof. intros a sk k H. apply parse_to_wkey. unfold canon_key. exact (canon_pub a sk k H). Qed.

Theorem run_op_verifies : forall unverified root t o t',
  verify verify_sig pub root t = true ->
  run_op verify_sig pub sign key_canon unverified t o = TOk t' ->
  verify verify_sig pub root t' = true.
Proof.
  intros unverified root t o t' Hv H. destruct o as [next data dv | ext payload next |]; cbn [run_op] in H.
  - exact (append_verifies root t next data dv t' Hv H).
  - destruct (third_party_request t) as [prev|e] eqn:Ereq; [|discriminate].
    destruct (response_for pub sign prev ext payload) as [r|e] eqn:Er; [|discriminate].
    destruct (kp_pub pub ext) as [ek|] eqn:Eek; [|discriminate].
    destruct (honest_response_checks t prev ext payload r ek Ereq Er Eek) as (Hp & Hk & Hs).
    destruct unverified.
    + unfold append_third_party_unverified in H. rewrite Hk in H. unfold kp_pub in Eek.
      rewrite (parse_to_wkey_pub _ _ _ Eek) in H. cbn [negb] in H.
      destruct (proof_keypair t) as [kp|e] eqn:Ep; [|discriminate].
      destruct (append_signed pub sign t kp next (r_payload r) (Some (ek, r_sig r)) _) as [t''|e] eqn:Ea; [|discriminate].
      cbn [tres_of] in H. inversion H. subst t''.
      refine (append_signed_verifies root t kp next (r_payload r) (Some (ek, r_sig r)) _ t' Hv Ep _ _ Ea).
      * unfold sig_version. lia.
      * split; [reflexivity|]. now rewrite Hp.
    + destruct (append_third_party_checked verify_sig pub sign key_canon t ek r true next) as [t''|c] eqn:Ec.
      * cbn [tres_of] in H. inversion H. subst t''.
        destruct (checked_inv _ _ _ _ _ _ Ec) as (ek' & _ & Ha).
        exact (append_third_party_verifies root t ek _ next t' Hv Ha).
      * destruct c; discriminate.
  - exact (seal_verifies verify_sig pub sign root t t' sign_ok Hv H).
Qed.

Theorem run_all_verifies : forall unverified root ops t t',
  verify verify_sig pub root t = true ->
  run_all verify_sig pub sign key_canon unverified t ops = TOk t' ->
  verify verify_sig pub root t' = true.
Proof.
  intros unverified root. induction ops as [|o ops IH]; intros t t' Hv H; cbn [run_all] in H.
  - now inversion H; subst.
  - destruct (run_op verify_sig pub sign key_canon unverified t o) as [t1|e] eqn:E; [|discriminate].
    apply (IH t1 t'); [|exact H]. exact (run_op_verifies unverified root t o t1 Hv E).
Qed.

Theorem built_tokens_verify : forall unverified b ops t rk,
  kp_pub pub (hb_root b) = Some rk ->
  run_history verify_sig pub sign key_canon unverified b ops = TOk t ->
  verify verify_sig pub rk t = true.
Proof.
  intros unverified b ops t rk Hr H. unfold run_history in H.
  destruct (build pub sign b) as [t0|e] eqn:Eb; [|discriminate].
  apply (run_all_verifies unverified rk ops t0 t); [|exact H].
  unfold build in Eb. exact (new_token_verifies _ _ _ _ _ _ _ Hr Eb).
Qed.

(* ---- built tokens have canonically encoded keys, and third-party blocks version 1 *)
Definition all_canon (t : token) : Prop := forall b, In b (all_blocks t) -> canon_block key_canon b.

Lemma append_signed_canon : forall t kp next data ext v t',
  all_canon t ->
  match ext with Some (ek, _) => canon_key key_canon ek /\ v = 1 | None => True end ->
  append_signed pub sign t kp next data ext v = TOk t' -> all_canon t'.
Proof.
  intros t kp next data ext v t' Hc He H. unfold append_signed in H.
  destruct (kp_pub pub next) as [nk|] eqn:En; [|discriminate]. inversion H as [Ht]. clear H.
  intros b Hb. unfold all_blocks in Hb. cbn [t_authority t_blocks] in Hb.
  change (t_authority t :: t_blocks t ++ [?x]) with ((t_authority t :: t_blocks t) ++ [x]) in Hb.
  apply in_app_or in Hb as [Hb | [<- | []]]; [now apply Hc|].
  unfold canon_block. cbn [b_next b_ext b_version]. split.
  - unfold canon_key, kp_pub in *. exact (canon_pub _ _ _ En).
  - destruct ext as [[ek es]|]; [exact He | exact I].
Qed.

Lemma canon_of_parse : forall w k, parse_wkey key_canon w = Some k ->
  key_canon (pk_alg k) (wk_bytes w) = Some (pk_bytes k).
Proof.
  intros w k H. unfold parse_wkey in H. destruct (alg_of_num (wk_alg w)) as [a|]; [|discriminate].
  destruct (key_canon a (wk_bytes w)) as [b|] eqn:E; [|discriminate]. inversion H. subst k. exact E.
Qed.

Theorem run_op_canon : forall unverified t o t',
  all_canon t -> run_op verify_sig pub sign key_canon unverified t o = TOk t' -> all_canon t'.
Proof.
  intros unverified t o t' Hc H. destruct o as [next data dv | ext payload next |]; cbn [run_op] in H.
  - unfold append in H. destruct (proof_keypair t) as [kp|e]; [|discriminate].
    exact (append_signed_canon t kp next data None _ t' Hc I H).
  - destruct (third_party_request t) as [prev|e] eqn:Ereq; [|discriminate].
    destruct (response_for pub sign prev ext payload) as [r|e] eqn:Er; [|discriminate].
    destruct (kp_pub pub ext) as [ek|] eqn:Eek; [|discriminate].
    destruct (honest_response_checks t prev ext payload r ek Ereq Er Eek) as (Hp & Hk & Hs).
    assert (Hck : canon_key key_canon ek) by (unfold canon_key, kp_pub in *; exact (canon_pub _ _ _ Eek)).
    destruct unverified.
    + unfold append_third_party_unverified in H. rewrite Hk in H. unfold kp_pub in Eek.
      rewrite (parse_to_wkey_pub _ _ _ Eek) in H. cbn [negb] in H.
      destruct (proof_keypair t) as [kp|e] eqn:Ep; [|discriminate].
      destruct (append_signed pub sign t kp next (r_payload r) (Some (ek, r_sig r)) _) as [t''|e] eqn:Ea; [|discriminate].
      cbn [tres_of] in H. inversion H. subst t''.
      refine (append_signed_canon t kp next _ (Some (ek, r_sig r)) _ t' Hc _ Ea). split; [exact Hck | reflexivity].
    + destruct (append_third_party_checked verify_sig pub sign key_canon t ek r true next) as [t''|c] eqn:Ec;
        [|destruct c; discriminate].
      cbn [tres_of] in H. inversion H. subst t''.
      destruct (checked_inv _ _ _ _ _ _ Ec) as (ek' & Hpk & Ha). unfold append_third_party in Ha.
      destruct (negb (pubkey_eqb ek ek')) eqn:Eeq; [discriminate|].
      apply negb_false_iff, pubkey_eqb_eq in Eeq. subst ek'.
      destruct (negb (verify_sig ek _ (r_sig r))); [discriminate|].
      destruct (proof_keypair t) as [kp|e] eqn:Ep; [|discriminate].
      refine (append_signed_canon t kp next _ (Some (ek, r_sig r)) _ t' Hc _ Ha). split; [exact Hck | reflexivity].
  - destruct (seal_preserves sign t t' H) as (Hb & _). intros b Hin. rewrite Hb in Hin. now apply Hc.
Qed.

Theorem built_tokens_canon : forall unverified b ops t,
  run_history verify_sig pub sign key_canon unverified b ops = TOk t -> all_canon t.
Proof.
  intros unverified b ops t H. unfold run_history in H.
  destruct (build pub sign b) as [t0|e] eqn:Eb; [|discriminate].
  assert (H0 : all_canon t0).
  { unfold build, new_token in Eb. destruct (kp_pub pub (hb_next b)) as [nk|] eqn:En; [|discriminate].
    inversion Eb as [Ht]. intros x [<- | []]. unfold canon_block. cbn [b_next b_ext]. split; [|exact I].
    unfold canon_key, kp_pub in *. exact (canon_pub _ _ _ En). }
  clear Eb. revert t0 H0 H. induction ops as [|o ops IH]; intros t0 H0 H; cbn [run_all] in H.
  - now inversion H; subst.
  - destruct (run_op verify_sig pub sign key_canon unverified t0 o) as [t1|e] eqn:E; [|discriminate].
    exact (IH t1 (run_op_canon unverified t0 o t1 H0 E) H).
Qed.

(* ---- reload of a verifying token with canonical keys, through the bytes *)
Theorem verified_token_roundtrip : forall root t,
  wtoken_ok (to_wire t) = true -> all_canon t -> verify verify_sig pub root t = true ->
  token_from_bytes verify_sig key_canon pub root (token_bytes t) = Some t /\
  token_from_bytes_unverified key_canon pub (token_bytes t) = Some t.
Proof.
  intros root t Hw Hc Hv. unfold token_from_bytes, token_from_bytes_unverified, token_bytes, from_wire.
  rewrite (decode_encode _ Hw).
  assert (Hr : deserialize key_canon pub (to_wire t) = Some t).
  { apply reload_ok; [exact Hc | |].
    - unfold verify in Hv. apply andb_true_iff in Hv as [Hs _]. unfold structural_ok in Hs.
      apply andb_true_iff in Hs as [Hs _]. apply andb_true_iff in Hs as [Hs _]. apply andb_true_iff in Hs as [Ha _].
      unfold has_ext in Ha. destruct (b_ext (t_authority t)); [discriminate | reflexivity].
    - intros sk Hp. unfold verify in Hv. apply andb_true_iff in Hv as [Hs _]. unfold structural_ok in Hs.
      apply andb_true_iff in Hs as [_ Hpo]. unfold proof_ok in Hpo. rewrite Hp in Hpo.
      destruct (pub (pk_alg (b_next (last_block t))) sk); [discriminate | discriminate]. }
  rewrite Hr, Hv. split; reflexivity.
Qed.

End Build.

(* ------------------------------------------------------------------ signature versions *)
Definition salg (a : alg) : Schema.alg := match a with Ed25519 => Schema.AEd25519 | Secp256r1 => Schema.ASecp256r1 end.

Lemma max_list_list_max : forall l, max_list l = Schema.list_max l.
Proof. induction l as [|x l IH]; [reflexivity|]. cbn [max_list Schema.list_max]. now rewrite IH. Qed.

(* the rule of Model.Token is the rule of Model.Schema (the model of block_signature_version
   that C16's theorems are about) *)
Theorem sig_version_is_schema : forall s n tp dv prev,
  sig_version s n tp dv prev = Schema.block_signature_version (salg s) (salg n) tp dv prev.
Proof.
  intros s n tp dv prev. unfold sig_version, Schema.block_signature_version, Schema.DATALOG_3_3.
  destruct tp; [reflexivity|].
  destruct (match dv with Some v => 6 <=? v | None => false end); [reflexivity|].
  destruct s, n; cbn [salg Schema.is_ed andb]; reflexivity.
Qed.

(* how each operation of a history presents its block to the rule *)
Definition op_descr (o : hop) : list Schema.sblock :=
  match o with
  | HAppend next _ dv => [Schema.mksblock (salg (kp_alg next)) Schema.BkBuilder dv]
  | HThird _ _ next => [Schema.mksblock (salg (kp_alg next)) Schema.BkThird 0]
  | HSeal => []
  end.

Definition history_descr (b : hbuild) (ops : list hop) : list Schema.sblock :=
  Schema.mksblock (salg (kp_alg (hb_next b))) Schema.BkBuilder (hb_dver b) :: flat_map op_descr ops.

Section Versions.
Variable verify_sig : pubkey -> bytes -> bytes -> bool.
Variable pub : alg -> bytes -> option pubkey.
Variable sign : alg -> bytes -> bytes -> bytes.
Variable key_canon : alg -> bytes -> option bytes.
Hypothesis pub_alg : forall a sk k, pub a sk = Some k -> pk_alg k = a.

(* invariant: the versions of the token are the chain of versions of its description, and the
   proof secret belongs to the algorithm of the last next key *)
Definition vinv (root : alg) (d : list Schema.sblock) (t : token) : Prop :=
  map b_version (all_blocks t) = Schema.sign_chain (salg root) [] d /\
  (forall kp, proof_keypair t = TOk kp -> salg (kp_alg kp) = Schema.sb_next (last d (Schema.mksblock (salg root) Schema.BkRaw 0))) /\
  d <> [].

Lemma sign_chain_app : forall d1 d2 s prev,
  Schema.sign_chain s prev (d1 ++ d2) =
  Schema.sign_chain s prev d1 ++
  Schema.sign_chain (Schema.sb_next (last d1 (Schema.mksblock s Schema.BkRaw 0))) (prev ++ Schema.sign_chain s prev d1) d2.
Proof.
  induction d1 as [|x d1 IH]; intros d2 s prev.
  - cbn [app Schema.sign_chain last Schema.sb_next]. now rewrite app_nil_r.
  - cbn [app Schema.sign_chain]. rewrite IH. cbn [app]. f_equal.
    destruct d1 as [|y d1']; [cbn [last Schema.sign_chain app]; now rewrite <- app_assoc|].
    rewrite <- app_assoc. cbn [app]. f_equal. f_equal.
    change (last (x :: y :: d1') (Schema.mksblock s Schema.BkRaw 0)) with (last (y :: d1') (Schema.mksblock s Schema.BkRaw 0)).
    clear. revert y. induction d1' as [|z d1 IH]; intros y; [reflexivity|].
    change (last (y :: z :: d1) ?a) with (last (z :: d1) a). apply IH.
Qed.

Lemma append_signed_vinv : forall root d t kp next data ext v t' blk,
  vinv root d t -> proof_keypair t = TOk kp ->
  append_signed pub sign t kp next data ext v = TOk t' ->
  Schema.sb_next blk = salg (kp_alg next) ->
  v = Schema.sb_sigversion (salg (kp_alg kp)) (map b_version (all_blocks t)) blk ->
  vinv root (d ++ [blk]) t'.
Proof.
  intros root d t kp next data ext v t' blk (Hm & Hk & Hne) Hp Ha Hnext Hv.
  unfold append_signed in Ha. destruct (kp_pub pub next) as [nk|] eqn:En; [|discriminate].
  inversion Ha as [Ht]. clear Ha. split; [|split].
  - unfold all_blocks. cbn [t_authority t_blocks]. unfold all_blocks in Hm, Hv.
    change (t_authority t :: t_blocks t ++ [?b]) with ((t_authority t :: t_blocks t) ++ [b]).
    rewrite map_app, Hm. cbn [map b_version]. rewrite sign_chain_app. f_equal.
    cbn [Schema.sign_chain app]. rewrite <- (Hk kp Hp). f_equal. rewrite Hv, Hm. reflexivity.
  - intros kp' Hp'. unfold proof_keypair in Hp'. cbn [t_proof] in Hp'. inversion Hp'. cbn [kp_alg].
    unfold last_block. cbn [t_blocks t_authority]. rewrite last_last. cbn [b_next].
    unfold kp_pub in En. rewrite (pub_alg _ _ _ En). rewrite last_last. now rewrite Hnext.
  - destruct d; discriminate.
Qed.

Lemma seal_vinv : forall root d t t', vinv root d t -> seal sign t = TOk t' ->
  map b_version (all_blocks t') = Schema.sign_chain (salg root) [] d.
Proof.
  intros root d t t' (Hm & _) Hs. destruct (seal_preserves sign t t' Hs) as (Hb & _). now rewrite Hb.
Qed.

End Versions.

Section VersionsHistory.
Variable verify_sig : pubkey -> bytes -> bytes -> bool.
Variable pub : alg -> bytes -> option pubkey.
Variable sign : alg -> bytes -> bytes -> bytes.
Variable key_canon : alg -> bytes -> option bytes.
Hypothesis pub_alg : forall a sk k, pub a sk = Some k -> pk_alg k = a.

Lemma run_op_sealed : forall unv t o, sealed t = true ->
  exists e, run_op verify_sig pub sign key_canon unv t o = TErr e.
Proof.
  intros unv t o Hs. destruct (no_extension verify_sig pub sign t Hs) as (Ha & Hse & Hr & _).
  destruct o as [next data dv | ext payload next |]; cbn [run_op].
  - rewrite Ha. eauto.
  - rewrite Hr. eauto.
  - rewrite Hse. eauto.
Qed.

Lemma build_vinv : forall b t0, build pub sign b = TOk t0 ->
  vinv (kp_alg (hb_root b)) [Schema.mksblock (salg (kp_alg (hb_next b))) Schema.BkBuilder (hb_dver b)] t0.
Proof.
  intros b t0 H. unfold build, new_token in H. destruct (kp_pub pub (hb_next b)) as [nk|] eqn:En; [|discriminate].
  inversion H as [Ht]. clear H. split; [|split].
  - unfold all_blocks. cbn [t_authority t_blocks map b_version Schema.sign_chain].
    unfold Schema.sb_sigversion. cbn [Schema.sb_next Schema.sb_kind Schema.sb_dver].
    rewrite <- sig_version_is_schema. reflexivity.
  - intros kp Hp. unfold proof_keypair in Hp. cbn [t_proof] in Hp. inversion Hp. cbn [kp_alg last Schema.sb_next].
    unfold last_block. cbn [t_blocks t_authority last b_next]. unfold kp_pub in En. now rewrite (pub_alg _ _ _ En).
  - discriminate.
Qed.

Lemma run_op_vinv : forall unv root d t o t',
  vinv root d t -> run_op verify_sig pub sign key_canon unv t o = TOk t' ->
  (o = HSeal /\ seal sign t = TOk t') \/ vinv root (d ++ op_descr o) t'.
Proof.
  intros unv root d t o t' Hi H. destruct o as [next data dv | ext payload next |]; cbn [run_op] in H.
  - right. unfold append in H. destruct (proof_keypair t) as [kp|e] eqn:Ep; [|discriminate].
    cbn [op_descr]. apply (append_signed_vinv pub sign pub_alg root d t kp next data None _ t' _ Hi Ep H); [reflexivity|].
    unfold Schema.sb_sigversion. cbn [Schema.sb_next Schema.sb_kind Schema.sb_dver]. apply sig_version_is_schema.
  - right. cbn [op_descr].
    destruct (third_party_request t) as [prev|e]; [|discriminate].
    destruct (response_for pub sign prev ext payload) as [r|e]; [|discriminate].
    destruct (kp_pub pub ext) as [ek|]; [|discriminate].
    destruct unv.
    + unfold append_third_party_unverified in H.
      destruct (parse_wkey key_canon (r_key r)) as [ek'|]; [|discriminate]. cbn [negb] in H.
      destruct (proof_keypair t) as [kp|e] eqn:Ep; [|discriminate].
      destruct (append_signed pub sign t kp next (r_payload r) (Some (ek', r_sig r)) _) as [t''|e] eqn:Ea; [|discriminate].
      cbn [tres_of] in H. inversion H. subst t''.
      apply (append_signed_vinv pub sign pub_alg root d t kp next _ _ _ t' _ Hi Ep Ea); [reflexivity|].
      unfold Schema.sb_sigversion. cbn [Schema.sb_next Schema.sb_kind Schema.sb_dver]. apply sig_version_is_schema.
    + destruct (append_third_party_checked verify_sig pub sign key_canon t ek r true next) as [t''|c] eqn:Ec;
        [|destruct c; discriminate].
      cbn [tres_of] in H. inversion H. subst t''.
      destruct (checked_inv _ _ _ _ _ _ _ _ _ _ Ec) as (ek' & _ & Ha). unfold append_third_party in Ha.
      destruct (negb (pubkey_eqb ek ek')); [discriminate|].
      destruct (negb (verify_sig ek' _ (r_sig r))); [discriminate|].
      destruct (proof_keypair t) as [kp|e] eqn:Ep; [|discriminate].
      apply (append_signed_vinv pub sign pub_alg root d t kp next _ _ _ t' _ Hi Ep Ha); [reflexivity|].
      unfold Schema.sb_sigversion. cbn [Schema.sb_next Schema.sb_kind Schema.sb_dver]. apply sig_version_is_schema.
  - left. split; [reflexivity | exact H].
Qed.

Lemma run_all_versions : forall unv root ops d t t',
  vinv root d t -> run_all verify_sig pub sign key_canon unv t ops = TOk t' ->
  map b_version (all_blocks t') = Schema.sign_chain (salg root) [] (d ++ flat_map op_descr ops).
Proof.
  intros unv root. induction ops as [|o ops IH]; intros d t t' Hi H; cbn [run_all] in H.
  - inversion H. subst t'. cbn [flat_map]. rewrite app_nil_r. apply Hi.
  - destruct (run_op verify_sig pub sign key_canon unv t o) as [t1|e] eqn:E; [|discriminate].
    destruct (run_op_vinv unv root d t o t1 Hi E) as [[-> Hs] | Hi1].
    + destruct ops as [|o2 ops'].
      * cbn [run_all] in H. inversion H. subst t'. cbn [flat_map op_descr app]. rewrite app_nil_r.
        exact (seal_vinv sign root d t t1 Hi Hs).
      * cbn [run_all] in H. destruct (seal_preserves sign t t1 Hs) as (_ & _ & _ & _ & Hsd).
        destruct (run_op_sealed unv t1 o2 Hsd) as [e He]. now rewrite He in H.
    + cbn [flat_map]. rewrite app_assoc. exact (IH _ _ _ Hi1 H).
Qed.

(* the versions of a built token are the chain of versions of its description, which is the
   specification's rule (C16_sigversion_spec: 1 from the first block that needs it onwards) *)
Theorem history_versions : forall unv b ops t,
  run_history verify_sig pub sign key_canon unv b ops = TOk t ->
  map b_version (all_blocks t) = Schema.token_sigversions (salg (kp_alg (hb_root b))) (history_descr b ops) /\
  map b_version (all_blocks t) = SchemaProofs.spec_chain (salg (kp_alg (hb_root b))) false (history_descr b ops).
Proof.
  intros unv b ops t H. unfold run_history in H. destruct (build pub sign b) as [t0|e] eqn:Eb; [|discriminate].
  assert (E := run_all_versions unv _ ops _ t0 t (build_vinv b t0 Eb) H).
  split; [exact E|]. rewrite <- SchemaProofs.sigversion_spec. exact E.
Qed.

End VersionsHistory.
